"""C30  Numerical blow-ups are contained (DESIGN.md §5.C30).

P  lean/MjProof/Props/C30.lean: the generated `mju_isBad` is 1 exactly for |x| > 1e10 on the reals, the value-class
   model agrees with it on finite values and is true for NaN / ±Inf; the translator-generated skeletons of
   mj_checkPos / mj_checkVel / mj_checkAcc, run under the atom semantics of Model/BadCheck.lean, compute the decision
   logic `BadCheck.check` (refinement, all inputs); a bad entry at any scanned index is caught, the first one is
   reported, warning / reset / forward happen in the coded order; mj_step = checkPos, checkVel, forward, checkAcc, ...
   Scan sites: the table of ALL loops that test mju_isBad(A[i]) (regenerated: the three checks + the control validation
   of mj_fwdActuation) visits every index below the DECLARED length of its array for all values of the model
   dimensions (nq, nv, nu, nactuator independent: ball / free joints, multi-input actuators); the control validation
   with the generated bound / zero count catches a bad control at any of the nu slots and zeroes all of them.
T  (a) translators re-run on every check: c2lean (mju_isBad, mju_clip, bitwise validation incl. NaN / ±Inf / ±1e10 /
       clamp-boundary bit patterns), skeleton.py (the Prog of the check functions and of mj_step) and c30_scans.py (the
       scan-site table: array, declared length from mjxmacro.h / the stack allocation, loop start and bound with
       single-definition locals resolved, reaction);
   (b) differential: the same `isbad` / `check` / `ctrlscan` lines go to drv_c30 (which RUNS the generated skeleton /
       the generated control-scan site, with the generated mju_isBad / mju_clip on Float) and to harness/c/c30_check.c
       (the real mju_isBad / mj_checkPos / mj_checkVel / mj_checkAcc on a real model; the real mj_fwdActuation on models
       whose actuators have 0, 1 or 3 controls each, every control feeding an integrator so that act_dot IS the local
       control vector): warning number, lastinfo, reset / forward observed, vector bits.
S  injection oracle on the real engine (harness/c/engine_repl.c): NaN / ±Inf / ±1e11 at indices of qpos, qvel, act,
   ctrl, qfrc_applied, xfrc_applied, mocap_pos, mocap_quat over the array lengths REPORTED BY THE ENGINE for the
   compiled model (every index of ctrl and act; the last index of every field always) of generated models with
   nq != nv, nu != nactuator (so3 servos with 3 / 4 inputs, pid with 1..3, dcmotor with 0..4), na != nu, trees
   initialised asleep, disabled actuator groups / mjDSBL_ACTUATION, then mj_step: state finite afterwards (and, if
   not, after a second step), warning counters, state bitwise equal to "reset then step" (resp. "zero ctrl then step"
   for Euler / RK4), autoreset on and off (off: a NaN control must be counted by mjWARN_BADCTRL whatever else fires).
"""
import math
import os
import subprocess

from checks import common, kernelval
from gen.enums import E
from gen.models import ModelGen

META = {
    "technique": "c2lean-generated mju_isBad (regenerated each run, bitwise translation validation on NaN/Inf/boundary bit patterns) + value-class model of the IEEE comparisons; translator-generated control skeletons of mj_checkPos/Vel/Acc and mj_step (translate/skeleton.py) given an atom semantics in Lean and PROVED to compute a small decision-logic model (loop induction over the scanned index list, simp over the generated program); Lean 4 proofs over the reals / over arbitrary carriers; differential of the executed generated skeleton against the real check functions on a real mjModel; scan-site table regenerated from the clang AST of engine_forward.c (translate/c30_scans.py: every loop testing mju_isBad(A[i]) with its declared array length, start, bound, reaction), coverage of every index PROVED from the table for all values of the model dimensions, and the control validation of mj_fwdActuation executed from the generated site and compared bitwise with the real function on models with nu != nactuator; injection oracle on mj_step through the shared engine REPL on generated models with multi-input actuators, quaternion joints, sleeping trees and mocap bodies",
    "text": "Proved for all inputs: the generated mju_isBad returns 1 exactly when |x| > mjMAXVAL = 1e10 (reals) and the value-class model of the C expression is additionally true for NaN and both infinities; running the generated skeleton of mj_checkPos / mj_checkVel / mj_checkAcc under the stated atom semantics terminates normally and equals the decision logic: the first bad entry in scan order (every index for positions; every index, or the awake dofs when sleeping filters, for velocities / accelerations) triggers mj_warning, then mj_resetData unless mjDSBL_AUTORESET, then number++ / lastinfo = index, then (accelerations, autoreset) mj_forward; so a bad entry at ANY scanned index is caught, the counter ends at old+2 without autoreset and at 1 with autoreset (the reset clears the warning record first), the data slice is the reset value, and a clean vector is left untouched; the generated mj_step runs checkPos, checkVel, forward, checkAcc in this order. Scan sites (regenerated): engine_forward.c contains exactly four loops that test mju_isBad(A[i]) -- mj_checkPos over d->qpos, mj_checkVel over d->qvel, mj_checkAcc over d->qacc and the control validation of mj_fwdActuation over the stack copy of d->ctrl -- and each starts at 0 and is bounded by the DECLARED length of its array (m->nq, m->nv, m->nv, m->nu), which is proved equivalent to visiting every index for ALL assignments of the model dimensions (m->nu and m->nactuator, m->nq and m->nv are independent numbers); with the bound and the zeroed count of the generated site, a bad control (after the clamp) at ANY of the nu slots fires mjWARN_BADCTRL with the first bad index and replaces all nu controls by zero, clean controls are used unchanged, and a loop stopping earlier provably lets a bad control through (sharpness). Sampled on the real engine: injection of NaN/±Inf/±1e11 at indices (every index of ctrl and act, the last index of every field) of qpos, qvel, act, ctrl, qfrc_applied, xfrc_applied, mocap_pos, mocap_quat of models with nq != nv, nu != nactuator (so3 / pid / dcmotor input blocks of 0..4 controls), na != nu, trees initialised asleep, followed by mj_step.",
    "note": "The statement 'after mj_step every state component is finite' is NOT proved (it would need models of mj_forward and of the integrators): post_step_finite_partial only bounds the explicit Euler update of a scalar joint over the reals when no check fires; the engine oracle samples mj_step itself. NaN/Inf are not reals: their treatment by mju_isBad is a hand model of the IEEE comparison rules tied to the real function by the bitwise differential only. The atom semantics (what `i++`, `mj_resetData`, ... mean on the modelled slice) is hand-written; the control structure is generated. mj_resetData is modelled only on the slice (checked vector, its warning record, ghost call counters). With autoreset the warning counter does not 'increase' when it was already >= 1: the reset clears it and it is then set to 1 (modelled and proved as coded; the oracle requires counter >= 1 after a reset and old+2 without autoreset). FINDINGS reported by the oracle (the literal first sentence of the property does not hold on the real code; recorded in known_findings.json under narrow keys: c30:nonfinite-after-step:ctrl only for implicit/implicitfast with a stateless affine-gain actuator with velocity coefficient, :qfrc_applied / :xfrc_applied only for RK4 with a huge finite force, :act and c30:nonfinite-after-two-steps:act only for activations; any other way gets the suffix :other-mechanism or its own field key and is a violation): the checks run only at the start of mj_step and after the first mj_forward, so (i) with RK4 a huge finite force / a non-finite activation behind a force clamp blows up in the later stages and the step returns NaN (caught by the next step), (ii) with the implicit integrators mjd_actuator_vel reads the raw d->ctrl, so a NaN control poisons the step although mjWARN_BADCTRL zeroed the local copy, (iii) act is examined by no check: a non-finite activation of an actuator that produces no force (disabled group / mjDSBL_ACTUATION) is carried along forever, (iv) sleeping: mj_checkVel / mj_checkAcc scan dof_awake_ind only, so a bad velocity written into a SLEEPING dof is not reported as mjWARN_BADQVEL (c30:bad-qvel-not-warned:sleeping-dof; the write wakes the tree and a non-finite value is caught as a bad acceleration, a huge finite one with RK4 gives a NaN state without any warning: c30:nonfinite-after-step:qvel-sleeping-dof), (v) the mocap pose is examined by no check either (c30:nonfinite-after-step:mocap: implicit integrators + spatial tendon on the mocap body), (vi) instead of a warning the step can end in mjERROR from the constraint solver (c30:engine-error:unchecked-input for act / mocap, c30:engine-error:rk4-later-stage for a huge finite applied force). The copy of d->ctrl into the local array (per-actuator blocks, delayed actuators through the history buffer) is not modelled: the control-scan theorem is about the local vector after copy and clamp; the differential and the injection oracle exercise the copy with blocks of 0, 1, 2, 3 and 4 controls. A model on which a CLEAN mj_step already raises an engine error (seen: 'mj_sleep: found sleeping tree 0 in island 0' on the first step of a tree initialised asleep that owns a constraint) is skipped and counted.",
}

P = "MjProof.C30."
THEOREMS = [P + t for t in (
    "isBad_iff", "isBad_values", "isBadFC_fin_eq_gen", "isBadFC_iff",
    "gen_checkPos_refines", "gen_checkVel_refines", "gen_checkAcc_refines",
    "check_fires_iff", "check_reports_first", "check_catches", "check_catches_every_index", "check_clean",
    "gen_checkPos_catches", "step_check_order", "post_step_finite_partial",
    "covers_of_wellBounded", "wellBounded_of_covers", "scan_sites_wellBounded", "scan_sites_cover", "scan_sites_complete",
    "ctrlScan_catches", "ctrlScan_clean", "ctrlScan_misses_beyond_bound", "gen_ctrl_scan_catches", "gen_ctrl_site_exists",
)]

fbits = kernelval.fbits
W_QPOS, W_QVEL, W_QACC, W_CTRL = (E("mjWARN_BADQPOS"), E("mjWARN_BADQVEL"), E("mjWARN_BADQACC"), E("mjWARN_BADCTRL"))
BADVALS = ["nan", "inf", "-inf", "1e11", "-1e11"]
STATE_FIELDS = ("qpos", "qvel", "act")


# ------------------------------------------------------------------------------------------ generators
def isbad_gen(rng, inputs):
    r = rng.random()
    if r < 0.15:
        return [rng.choice((float("nan"), float("inf"), float("-inf")))]
    if r < 0.55:
        b = rng.choice((1e10, -1e10))
        k = rng.randint(-3, 3)
        x = b
        for _ in range(abs(k)):
            x = math.nextafter(x, math.inf if k > 0 else -math.inf)
        return [x]
    if r < 0.75:
        return [rng.choice((1, -1)) * 10 ** rng.uniform(9, 11)]
    return kernelval.default_gen(rng, inputs)


def clip_gen(rng, inputs):
    """mju_clip(x, min, max): NaN / +-Inf / huge x, x at and next to the bounds, generic"""
    lo = -rng.uniform(0.2, 2)
    hi = rng.uniform(0.2, 2)
    r = rng.random()
    if r < 0.2:
        x = rng.choice((float("nan"), float("inf"), float("-inf"), 1e11, -1e11, 1e300))
    elif r < 0.5:
        x = rng.choice((lo, hi, math.nextafter(lo, -math.inf), math.nextafter(hi, math.inf), math.nextafter(lo, 0.0), math.nextafter(hi, 0.0)))
    else:
        x = rng.uniform(-3, 3)
    return [x, lo, hi]


def special_bits(rng):
    r = rng.random()
    if r < 0.25:
        return "nan"
    if r < 0.45:
        return fbits(rng.choice((math.inf, -math.inf)))
    if r < 0.8:
        return fbits(rng.choice((1, -1)) * rng.choice((1e11, 1.0000000001e10, math.nextafter(1e10, math.inf), 1e300)))
    return fbits(rng.choice((1, -1)) * 1e10)      # exactly the limit: NOT bad


def check_lines(ctx, count):
    rng = ctx.rng
    lines = []
    for _ in range(count):
        W = rng.choice(("pos", "vel", "acc"))
        n = rng.choice((1, 2, 3, 4, 5, 8, 13))
        vec = [fbits(rng.uniform(-3, 3)) for _ in range(n)]
        nbad = rng.choice((0, 1, 1, 1, 2, 3))
        for _ in range(nbad):
            vec[rng.randrange(n)] = special_bits(rng)
        if rng.random() < 0.25:
            vec[n - 1] = special_bits(rng)          # the last index
        vec0 = [fbits(rng.uniform(-1, 1)) if W == "pos" else fbits(0.0) for _ in range(n)]
        sleep = 1 if (W != "pos" and rng.random() < 0.4) else rng.choice((0, 0, 1))
        k = rng.randint(0, n)
        awake = sorted(rng.sample(range(n), k)) if rng.random() < 0.8 else [rng.randrange(n) for _ in range(k)]
        lines.append("check %s %d %d %d n %d vec %s vec0 %s awake %d%s" % (
            W, rng.choice((0, 1)), sleep, rng.choice((0, 0, 1, 5)), n, " ".join(vec), " ".join(vec0), k,
            "".join(" %d" % a for a in awake)))
    return lines


def ctrlscan_lines(ctx, count):
    """`ctrlscan` ops: K actuators with control blocks of 1 (`i`), 3 (`s`, so3 servo) or 0 (`z`, dcmotor without input)
    entries, so nu != nactuator on most lines; 0..2 special entries anywhere, the last slot and the slots with index
    >= nactuator over-sampled; per-slot limits (a clamped +-Inf / huge value is not bad any more, a NaN stays)"""
    rng = ctx.rng
    lines = []
    hist = ctx.extra.setdefault("ctrlscan_shapes", {})
    while len(lines) < count:
        K = rng.randint(1, 6)
        kinds = [rng.choice("iisssz") for _ in range(K)]
        nu = sum({"i": 1, "s": 3, "z": 0}[k] for k in kinds)
        if nu == 0:
            continue
        vec = [fbits(rng.uniform(-3, 3)) for _ in range(nu)]
        for _ in range(rng.choice((0, 1, 1, 1, 2))):
            vec[rng.randrange(nu)] = special_bits(rng)
        if rng.random() < 0.3:
            vec[nu - 1] = special_bits(rng)
        if nu > K and rng.random() < 0.4:
            vec[rng.randrange(K, nu)] = special_bits(rng)
        lims = []
        for _ in range(nu):
            if rng.random() < 0.3:
                lims.append("1 %s %s" % (fbits(-rng.uniform(0.2, 2)), fbits(rng.uniform(0.2, 2))))
            else:
                lims.append("0 %s %s" % (fbits(0.0), fbits(0.0)))
        shape = "nu>nact" if nu > K else "nu=nact" if nu == K else "nu<nact"
        hist[shape] = hist.get(shape, 0) + 1
        lines.append("ctrlscan %d %d k %d %s nu %d lim %s ctrl %s" % (1 if rng.random() < 0.2 else 0, rng.choice((0, 0, 1, 5)), K,
                                                                    " ".join(kinds), nu, " ".join(lims), " ".join(vec)))
    return lines


def ctrlscan_oracle(line, out):
    """property oracle on the REAL mj_fwdActuation's output alone: a bad control (after the clamp) at ANY of the nu slots
    -> warning counter +1, lastinfo = first bad slot, every control the stage uses is zero; otherwise nothing happens"""
    t = line.split()
    if t[0] != "ctrlscan" or out == "bad-op":
        return None
    clampoff, number0, K = int(t[1]), int(t[2]), int(t[4])
    p = 5 + K
    nu = int(t[p + 1])
    vals = []
    for i in range(nu):
        lim, lo, hi = t[p + 3 + 3 * i] == "1", kernelval.frombits(t[p + 4 + 3 * i]), kernelval.frombits(t[p + 5 + 3 * i])
        x = kernelval.frombits(t[p + 4 + 3 * nu + i])
        if lim and not clampoff:
            x = lo if x < lo else hi if x > hi else x
        vals.append(x)
    o = out.split()
    if len(o) != 2 + nu:
        return "malformed-output"
    number, lastinfo, used = int(o[0]), int(o[1]), o[2:]
    bad = [i for i, x in enumerate(vals) if x != x or abs(x) > 1e10]
    if bad:
        if number != number0 + 1 or lastinfo != bad[0]:
            return "bad-control-at-slot-%s-not-reported" % ("ge-nactuator" if bad[0] >= K else "lt-nactuator")
        if any(u != fbits(0.0) for u in used):
            return "bad-control-not-zeroed"
    else:
        if number != number0:
            return "clean-controls-warned"
        if used != [fbits(x) for x in vals]:
            return "clean-controls-changed"
    return None


def isbad_lines(ctx, count):
    rng = ctx.rng
    out = ["isbad nan", "isbad " + fbits(math.inf), "isbad " + fbits(-math.inf), "isbad " + fbits(1e10), "isbad " + fbits(-1e10),
           "isbad " + fbits(math.nextafter(1e10, math.inf)), "isbad " + fbits(math.nextafter(-1e10, -math.inf)),
           "isbad " + fbits(0.0), "isbad " + fbits(-0.0), "isbad 7ff0000000000001", "isbad fff8000000000000",
           "isbad 0000000000000001", "isbad 7fefffffffffffff"]
    for _ in range(count):
        out.append("isbad " + fbits(isbad_gen(rng, [["x", "num"]])[0]))
    out += ["isbad", "isbad zz", "check pos 1 0 0 n 2 vec " + fbits(1.0), "nop"]
    return out


def check_oracle(line, out):
    """property oracle on the REAL check function's output alone"""
    t = line.split()
    if t[0] != "check" or len(t) < 8:
        return None
    o = out.split()
    if out == "bad-op":
        return None            # malformed op line (both sides reject it: compared by the differential)
    if len(o) < 4:
        return "malformed-output"
    W, autoreset, sleep, number0, n = t[1], int(t[2]), int(t[3]), int(t[4]), int(t[6])
    vec = [kernelval.frombits(x) for x in t[8:8 + n]]
    k = int(t[10 + 2 * n])
    awake = [int(x) for x in t[11 + 2 * n:11 + 2 * n + k]]
    filt = W != "pos" and sleep == 1 and k < n
    scanned = awake if filt else list(range(n))
    bad = [i for i in scanned if (vec[i] != vec[i] or abs(vec[i]) > 1e10)]
    number, lastinfo, reset, fwd = int(o[0]), int(o[1]), int(o[2]), int(o[3])
    if not bad:
        if (number, reset, fwd) != (number0, 0, 0):
            return "clean-vector-touched"
        return None
    if lastinfo != bad[0]:
        return "lastinfo-not-first-bad-index"
    if autoreset:
        if number < 1 or reset != 1:
            return "bad-entry-not-reset-or-no-warning"
        if (W == "acc") != (fwd == 1):
            return "forward-after-reset-wrong"
    else:
        if number != number0 + 2 or reset or fwd:
            return "no-autoreset-counter-or-reset-wrong"
    return None


# ------------------------------------------------------------------------------------------ engine REPL
class Repl:
    """accumulates commands for harness/c/engine_repl.c; one output line per command"""

    def __init__(self, exe):
        self.exe, self.cmds, self.tags = exe, [], []

    def model(self, text):
        self.cmds.append("model\n" + text.rstrip("\n"))
        self.tags.append(("model",))

    def cmd(self, c, tag=None):
        self.cmds.append(c)
        self.tags.append(tag)

    def run(self):
        r = subprocess.run([self.exe], input="\n".join(self.cmds) + "\n", capture_output=True, text=True, timeout=1800)
        out = r.stdout.split("\n")
        if out and out[-1] == "":
            out.pop()
        return r.returncode, out, r.stderr


def parse_nums(line):
    """'n: v v v' -> list of floats (nan / inf tokens included)"""
    if ":" not in line:
        return None
    return [float(x) for x in line.split(":", 1)[1].split()]


PROFILE = {"nbody": (1, 4), "actuators": (1, 3), "sensors": (0, 1), "cameras": 0.0, "keys": 0.0, "numeric": 0.0,
           "mocap": 0.15, "energy": 0.0}


HANDLE_OPS = ("body", "frame", "joint", "freejoint", "geom", "site", "camera", "light", "actuator", "sensor", "tendon",
              "equality", "pair", "exclude", "key", "numeric", "text", "tuple", "mesh")


def max_handle(lines):
    h = 0
    for l in lines:
        t = l.split()
        if t and t[0] in HANDLE_OPS and len(t) > 1 and t[1].isdigit():
            h = max(h, int(t[1]))
    return h


def popcount(x):
    return bin(x).count("1")


def add_multi_input(rng, mdl, hist):
    """Post-processes the generated description: actuators whose control block is not one scalar (this tree: so3
    orientation servos with 3 / 4 inputs, pid servos with a subset of [pos, vel, ff], dcmotor with a subset of
    [pos, vel, ff, voltage] or NO input), so that nu != nactuator and ctrl / act addresses differ from actuator ids.
    The new blocks are placed before, between or after the generated single-input actuators.  Returns the list of
    (kind, number of inputs) added."""
    h = [max_handle(mdl.lines)]

    def newh():
        h[0] += 1
        return h[0]
    tail = []          # body / joint lines appended at the end (new top-level bodies come last in body order)
    blocks = []        # one list of lines per new actuator
    added = []

    def new_body(jt):
        bh, jh, gh = newh(), newh(), newh()
        bn, jn = "mb%d" % bh, "mj%d" % jh
        tail.extend(["body %d 0" % bh, "name %d %s" % (bh, bn),
                     "set %d pos %r %r %r" % (bh, rng.uniform(-2, 2), rng.uniform(2, 3), rng.uniform(0.5, 1.5)),
                     "joint %d %d" % (jh, bh), "name %d %s" % (jh, jn), "set %d type %d" % (jh, E("mjJNT_" + jt.upper()))])
        if jt != "ball":
            tail.append("set %d axis 0 1 0" % jh)
        if rng.random() < 0.5:
            tail.append("set %d damping %r" % (jh, rng.uniform(0.05, 1.0)))
        tail.extend(["geom %d %d" % (gh, bh), "set %d type %d" % (gh, E("mjGEOM_BOX")),
                     "set %d size %r %r %r" % (gh, rng.uniform(0.05, 0.2), rng.uniform(0.05, 0.2), rng.uniform(0.05, 0.2)),
                     "set %d pos 0.1 0 0" % gh, "set %d contype 0" % gh, "set %d conaffinity 0" % gh])
        j = {"name": jn, "type": jt, "body": bn, "qposadr": mdl.nq, "dofadr": mdl.nv, "limited": False, "range": (0.0, 0.0), "handle": jh}
        mdl.joints.append(j)
        mdl.bodies.append({"name": bn, "handle": bh, "parent": 0, "mocap": False, "toplevel": True})
        mdl.nq += 4 if jt == "ball" else 1
        mdl.nv += 3 if jt == "ball" else 1
        return j

    def target(kinds):
        js = [j for j in mdl.joints if j["type"] in kinds]
        if js and rng.random() < 0.7:
            return rng.choice(js)
        return new_body("ball" if "ball" in kinds else rng.choice(("hinge", "slide")))

    for _ in range(rng.choice((1, 1, 2, 2, 3))):
        kind = rng.choice(("so3", "so3", "pid", "pid", "dcmotor"))
        ah = newh()
        an = "ma%d" % ah
        B = ["actuator %d" % ah, "name %d %s" % (ah, an)]
        na = 0
        if kind == "so3":
            kp, kv = rng.uniform(1, 30), rng.uniform(0, 2)
            sites = [s for s in mdl.sites]
            if len(sites) >= 2 and rng.random() < 0.25:
                a, b = rng.sample(sites, 2)
                B += ["set %d trntype %d" % (ah, E("mjTRN_SITE")), "set %d target %s" % (ah, a["name"]), "set %d refsite %s" % (ah, b["name"])]
                trn = "site"
            else:
                B += ["set %d trntype %d" % (ah, E("mjTRN_JOINT")), "set %d target %s" % (ah, target(("ball",))["name"])]
                trn = "joint"
            variant = rng.choice(("expmap", "expmap-default", "quat", "integrator", "integrator"))
            B += ["set %d gaintype %d" % (ah, E("mjGAIN_SO3")), "set %d biastype %d" % (ah, E("mjBIAS_SO3")),
                  "set %d gainprm %r" % (ah, kp), "set %d biasprm 0 %r %r" % (ah, -kp, -kv)]
            if variant == "expmap":
                B.append("set %d ctrlspec %d" % (ah, E("mjCHART_EXPMAP")))
            if variant == "quat":
                B.append("set %d ctrlspec %d" % (ah, E("mjCHART_QUAT")))
            nin = 4 if variant == "quat" else 3
            if variant == "integrator":
                B.append("set %d dyntype %d" % (ah, E("mjDYN_INTEGRATOR")))
                na = 3
                if rng.random() < 0.3:
                    B.append("set %d actearly 1" % ah)
            if rng.random() < 0.3:
                B += ["set %d forcelimited %d" % (ah, E("mjLIMITED_TRUE")), "set %d forcerange 0 %r" % (ah, rng.uniform(0.5, 20))]
            kind = "so3-%s-%s" % (variant, trn)
        elif kind == "pid":
            kp, kv = rng.uniform(1, 40), rng.uniform(0, 3)
            P, V, F = E("mjINPUT_POS"), E("mjINPUT_VEL"), E("mjINPUT_FF")
            stateful = rng.random() < 0.5
            spec = rng.choice((0, P, P | V, P | V | F, P | F) if stateful else (0, P, P | V, P | V | F, P | F, V, V | F, F))
            B += ["set %d trntype %d" % (ah, E("mjTRN_JOINT")), "set %d target %s" % (ah, target(("hinge", "slide"))["name"]),
                  "set %d gaintype %d" % (ah, E("mjGAIN_PID")), "set %d biastype %d" % (ah, E("mjBIAS_AFFINE")),
                  "set %d biasprm 0 %r %r" % (ah, -kp, -kv)]
            if spec:
                B.append("set %d ctrlspec %d" % (ah, spec))
            nin = popcount(spec or (P | V))
            if not stateful:
                B.append("set %d gainprm 0" % ah)          # ki needs dyntype pid (the default gainprm[0] is 1)
            if stateful:
                ki = rng.choice((0.0, rng.uniform(0.5, 10)))
                slew = 0.0 if ki else rng.uniform(0.5, 5)      # (both states: the compiler rejects actdim 2 for dyntype pid)
                na = (1 if ki > 0 else 0) + (1 if slew > 0 else 0)
                B += ["set %d dyntype %d" % (ah, E("mjDYN_PID")), "set %d gainprm %r" % (ah, ki),
                      "set %d dynprm %r %r" % (ah, rng.choice((0.0, rng.uniform(0.1, 2))) if ki else 0.0, slew),
                      "set %d actdim %d" % (ah, na)]
            if (spec or (P | V)) & V and rng.random() < 0.4:
                B.append("set %d velrange %r %r" % (ah, -rng.uniform(0.5, 3), rng.uniform(0.5, 3)))
            if spec & F and rng.random() < 0.4:
                B.append("set %d ffrange %r %r" % (ah, -rng.uniform(0.5, 3), rng.uniform(0.5, 3)))
            kind = "pid-%s-spec%d" % ("stateful" if stateful else "stateless", spec)
        else:
            P, V, F, U, N = (E("mjINPUT_" + x) for x in ("POS", "VEL", "FF", "VOLTAGE", "NONE"))
            spec = rng.choice((0, N, N, P | V, P | V | F, P | V | F | U, P, F | U, V | U))
            controller = 0 if spec in (0, N) else spec & (P | V | F)
            R, K = rng.uniform(0.5, 5), rng.uniform(0.05, 1)
            kpc = rng.uniform(0.5, 10) if controller else 0.0
            kic = rng.uniform(0.1, 2) if (controller and (spec & P) and rng.random() < 0.5) else 0.0
            kdc = rng.uniform(0.01, 0.5) if controller else 0.0
            vmax = rng.choice((0.0, rng.uniform(5, 50))) if controller else 0.0
            te = rng.choice((0.0, rng.uniform(0.002, 0.05)))
            slew = rng.choice((0.0, rng.uniform(0.5, 5))) if controller else 0.0
            RT = rng.choice((0.0, 0.0, rng.uniform(0.5, 5)))
            na = (slew > 0) + (kic > 0) + (RT > 0) + (te > 0)
            B += ["set %d trntype %d" % (ah, E("mjTRN_JOINT")), "set %d target %s" % (ah, target(("hinge", "slide"))["name"]),
                  "set %d gaintype %d" % (ah, E("mjGAIN_DCMOTOR")), "set %d biastype %d" % (ah, E("mjBIAS_DCMOTOR")),
                  "set %d dyntype %d" % (ah, E("mjDYN_DCMOTOR")), "set %d actearly 1" % ah,
                  "set %d gainprm %r %r %r %r %r %r %r %r" % (ah, R, K, 0.004 if RT else 0.0, 20.0 if RT else 0.0, kpc, kic, kdc, vmax),
                  "set %d dynprm %r %r %r %r %r 0 0 %r %r" % (ah, te, rng.choice((0.0, rng.uniform(50, 500))) if te else 0.0, RT,
                                                            rng.uniform(1, 20) if RT else 0.0, 20.0 if RT else 0.0, slew,
                                                            rng.choice((0.0, rng.uniform(0.2, 2))) if kic else 0.0),
                  "set %d actdim %d" % (ah, na)]
            if spec:
                B.append("set %d ctrlspec %d" % (ah, spec))
            nin = 0 if spec == N else popcount(spec or U)
            kind = "dcmotor-spec%d-na%d" % (spec, na)
        if nin and rng.random() < 0.35:
            B += ["set %d ctrllimited %d" % (ah, E("mjLIMITED_TRUE")), "set %d ctrlrange %r %r" % (ah, -rng.uniform(0.2, 2), rng.uniform(0.2, 2))]
        if rng.random() < 0.15:
            B.append("set %d group %d" % (ah, rng.randint(0, 3)))
        blocks.append(B)
        added.append((kind, nin))
        hist[kind.split("-")[0] + ":%d-inputs" % nin] = hist.get(kind.split("-")[0] + ":%d-inputs" % nin, 0) + 1
        mdl.actuators.append({"name": an, "kind": kind, "joint": None, "na": na})
        mdl.nu += nin
        mdl.na += na
    # where the new blocks go relative to the generated actuators: positions of the existing `actuator <h>` lines
    starts = [i for i, l in enumerate(mdl.lines) if l.startswith("actuator ")]
    if starts:
        # end of the actuator section = first line after the last actuator block that opens another element
        end = starts[-1] + 1
        while end < len(mdl.lines) and mdl.lines[end].split()[0] in ("set", "name"):
            end += 1
        cuts = starts + [end]
    else:
        cuts = [len(mdl.lines)]
    lines = list(mdl.lines)
    for B in blocks:
        at = rng.choice(cuts)
        lines[at:at] = B
        cuts = [c + (len(B) if c >= at else 0) for c in cuts]
    mdl.lines[:] = lines + tail
    return added


def add_sleeping(rng, mdl):
    """sleeping enabled and some trees INITIALISED asleep (body policy mjSLEEP_INIT): mj_checkVel / mj_checkAcc then scan
    dof_awake_ind only.  Returns the number of trees put to sleep."""
    jointed = {j["body"] for j in mdl.joints}
    tops = [b for b in mdl.bodies if b.get("toplevel") and not b["mocap"] and b["name"] in jointed]
    if not tops:
        return 0
    chosen = [b for b in tops if rng.random() < 0.6] or [rng.choice(tops)]
    out = []
    for l in mdl.lines:
        if l.startswith("option enableflags "):
            l = "option enableflags %d" % (int(l.split()[2]) | E("mjENBL_SLEEP"))
        out.append(l)
        t = l.split()
        if t[0] == "body" and any(int(t[1]) == b["handle"] for b in chosen):
            out.append("set %s sleep %d" % (t[1], E("mjSLEEP_INIT")))
    mdl.lines[:] = out
    mdl.options["enableflags"] = mdl.options.get("enableflags", 0) | E("mjENBL_SLEEP")
    return len(chosen)


def make_models(ctx, count, hist=None):
    """generated models; about two thirds get multi-input actuators (nu != nactuator), a quarter sleeping trees"""
    hist = hist if hist is not None else {}
    out = []
    while len(out) < count:
        mdl = ModelGen(ctx.rng, PROFILE).make()
        if mdl.nq == 0:
            continue
        mdl.c30 = {"multi": [], "sleeping": 0}
        if ctx.rng.random() < 0.65:
            mdl.c30["multi"] = add_multi_input(ctx.rng, mdl, hist)
        mdl.c30["lines_awake"] = list(mdl.lines)
        if ctx.rng.random() < 0.25:
            mdl.c30["sleeping"] = add_sleeping(ctx.rng, mdl)
        out.append(mdl)
    return out


INJECT_FIELDS = ("qpos", "qvel", "act", "ctrl", "qfrc_applied", "xfrc_applied", "mocap_pos", "mocap_quat")


def inject_cases(ctx, sizes, per_field):
    """(field, index, value) triples over the REAL array lengths reported by the engine for the compiled model
    (nq != nv with ball / free joints, nu != nactuator with multi-input actuators, na != nu): every index of ctrl and
    act, every index of the other fields when they are small, else a seeded sample that always contains the last
    index; NaN at every chosen index plus two (thorough: all) of the other bad values"""
    rng = ctx.rng
    n_of = {"qpos": sizes["nq"], "qvel": sizes["nv"], "act": sizes["na"], "ctrl": sizes["nu"], "qfrc_applied": sizes["nv"],
            "xfrc_applied": 6 * sizes["nbody"], "mocap_pos": 3 * sizes["nmocap"], "mocap_quat": 4 * sizes["nmocap"]}
    cases = []
    for f in INJECT_FIELDS:
        n = n_of[f]
        idx = list(range(n))
        if len(idx) > per_field and f not in ("ctrl", "act"):
            idx = sorted(set(rng.sample(idx, per_field - 1) + [n - 1]))
        for i in idx:
            vals = BADVALS if ctx.tier == "thorough" else ["nan"] + rng.sample(BADVALS[1:], 2)
            for v in vals:
                cases.append((f, i, v))
    return cases


def probe_model(exe, text):
    """compiles the description in its own REPL process (a compiler message may span several lines) and returns the
    engine's own sizes: nq nv na nu nmocap nbody nactuator + the per-actuator control / activation block lengths"""
    R = Repl(exe)
    R.model(text)
    for mf in ("actuator_ctrlnum", "actuator_ctrladr", "actuator_actnum"):
        R.cmd("numm " + mf)
    rc, out, err = R.run()
    if rc != 0 or not out or not out[0].startswith("ok ") or len(out) != 4:
        return None
    t = out[0].split()
    sizes = {k: int(v) for k, v in zip(t[1::2], t[2::2]) if k in ("nq", "nv", "na", "nu", "nmocap", "nbody")}
    for mf, o in zip(("ctrlnum", "ctrladr", "actnum"), out[1:]):
        sizes[mf] = [int(float(x)) for x in (parse_nums(o) or [])]
    sizes["nactuator"] = len(sizes["ctrlnum"])
    return sizes


def fmtv(v):
    return " ".join(repr(float(x)) for x in v)


def engine_oracle(ctx, exe, nmodels, per_field):
    """returns statistics; reports failures through ctx.oracle_failure"""
    stats = {"models": 0, "injections": 0, "caught": {"qpos": 0, "qvel": 0, "qacc": 0, "ctrl": 0}, "resets_verified": 0,
             "benign_no_warning": 0, "by_field": {}, "autoreset_off": 0, "nonfinite_after_one_step": {}, "nonfinite_after_two_steps": {},
             "sleep_init_refused": 0, "models_rejected_by_compiler": 0, "models_whose_clean_step_raises_an_engine_error": 0, "generator_size_bookkeeping_off": 0, "model_shapes": {},
             "multi_input_actuators": {}, "ctrl_injections_at_index_ge_nactuator": 0, "injections_into_sleeping_models": 0}
    failures = {}

    def fail(key, what, replay):
        failures.setdefault(key, 0)
        failures[key] += 1
        if failures[key] <= 3:
            ctx.oracle_failure(key, what, replay)

    for mi, mdl in enumerate(make_models(ctx, nmodels, stats["multi_input_actuators"])):
        rng = ctx.rng
        # variants: autoreset on (default) / off; some models get a disabled actuator group or mjDSBL_ACTUATION
        variant = "plain"
        r = rng.random()
        extra = []
        if mdl.na and r < 0.35:
            variant = "disabled-group"
            extra = ["option disableactuator %d" % 0xF]          # groups 0..3: every generated actuator
        elif mdl.na and r < 0.5:
            variant = "dsbl-actuation"

        def finish_lines(ls):
            ls = list(ls)
            if variant == "dsbl-actuation":
                ls = [("option disableflags %d" % (int(l.split()[2]) | E("mjDSBL_ACTUATION"))) if l.startswith("option disableflags ") else l
                      for l in ls]
            return ls
        lines = finish_lines(mdl.lines)
        text = "\n".join(lines + extra + ["end"]) + "\n"
        sizes = probe_model(exe, text)
        sleeping = mdl.c30["sleeping"]
        if sizes is None and sleeping:
            # the engine refuses to put these trees to sleep (contact with an awake tree, tendon coupling, ...): same model awake
            stats["sleep_init_refused"] += 1
            sleeping = 0
            lines = finish_lines(mdl.c30["lines_awake"])
            text = "\n".join(lines + extra + ["end"]) + "\n"
            sizes = probe_model(exe, text)
        if sizes is None:
            stats["models_rejected_by_compiler"] += 1
            continue
        st = mdl.random_state(rng)
        want = {"qpos": sizes["nq"], "qvel": sizes["nv"], "act": sizes["na"], "ctrl": sizes["nu"], "qfrc_applied": sizes["nv"],
                "xfrc_applied": 6 * sizes["nbody"], "mocap_pos": 3 * sizes["nmocap"], "mocap_quat": 4 * sizes["nmocap"]}
        if any(len(st[f]) != n for f, n in want.items()):
            stats["generator_size_bookkeeping_off"] += 1          # harmless: the engine's sizes are used
            for f, n in want.items():
                st[f] = (list(st[f]) + [0.0] * n)[:n]
        if sleeping:
            # keep the trees asleep until the injection: reset pose, zero velocity, no applied force (a non-zero byte in
            # qvel / qfrc_applied / xfrc_applied or a changed qpos wakes the tree in mj_kinematics); controls stay random
            st = dict(st, qpos=[], qvel=[], qfrc_applied=[], xfrc_applied=[], mocap_pos=[], mocap_quat=[])
        shape = "nu%snact" % ("=" if sizes["nu"] == sizes["nactuator"] else ">" if sizes["nu"] > sizes["nactuator"] else "<")
        for k2 in (shape, "nq%snv" % ("=" if sizes["nq"] == sizes["nv"] else ">"),
                   "na%snu" % ("=" if sizes["na"] == sizes["nu"] else ">" if sizes["na"] > sizes["nu"] else "<"),
                   "sleeping-trees" if sleeping else "all-awake", "mocap" if sizes["nmocap"] else "no-mocap"):
            stats["model_shapes"][k2] = stats["model_shapes"].get(k2, 0) + 1
        for autoreset in ((1, 0) if (ctx.tier == "thorough" or mi % 3 == 0) else (1,)):
            R = Repl(exe)
            R.model(text)
            flags = 0
            for l in lines:
                if l.startswith("option disableflags "):
                    flags = int(l.split()[2])
            if not autoreset:
                R.cmd("setm opt.disableflags %d" % (flags | E("mjDSBL_AUTORESET")))
            for mf in ("actuator_gaintype", "actuator_gainprm", "actuator_dyntype", "dof_treeid"):
                R.cmd("numm " + mf, ("mf", mf))
            for k in (0, 1, 2):
                R.cmd("data %d" % k)
            R.cmd("num 1 tree_asleep", ("mf", "tree_asleep"))          # fresh data: >= 0 for the trees initialised asleep
            base = []
            for f in INJECT_FIELDS:
                if st[f]:
                    base.append("set %%d %s %s" % (f, fmtv(st[f])))
            # slot 1: reset then step (what a caught blow-up must look like); slot 2: same state, ctrl = 0, step
            R.cmd("step 1", ("refstep", 1))
            for f in STATE_FIELDS + ("time",):
                R.cmd(("scalar 1 time" if f == "time" else "get 1 " + f), ("ref1", f))
            for b in base:
                if " ctrl " not in b:
                    R.cmd(b % 2)
            if sizes["nu"]:
                # explicitly zero: the reset value of a quaternion control block is the identity (1 0 0 0), not zero
                R.cmd("set 2 ctrl " + " ".join(["0"] * sizes["nu"]))
            R.cmd("step 2", ("refstep", 2))
            for f in STATE_FIELDS + ("time",):
                R.cmd(("scalar 2 time" if f == "time" else "get 2 " + f), ("ref2", f))
            cases = inject_cases(ctx, sizes, per_field)
            if not autoreset:
                # (the warning counters survive the step here: a NaN control must be COUNTED, whatever else fires)
                cases = [c for c in cases if c[0] in ("qpos", "qvel", "qfrc_applied")][:40] + \
                        [c for c in cases if c[0] == "ctrl" and c[2] == "nan"]
            for ci, (f, i, v) in enumerate(cases):
                R.cmd("resetdata 0")
                for b in base:
                    R.cmd(b % 0)
                R.cmd("setat 0 %s %d %s" % (f, i, v), ("inject", ci))
                for w in (W_QPOS, W_QVEL, W_QACC, W_CTRL):
                    R.cmd("scalar 0 warn.%d" % w, ("w0", ci, w))
                R.cmd("step 0", ("step", ci))
                for w in (W_QPOS, W_QVEL, W_QACC, W_CTRL):
                    R.cmd("scalar 0 warn.%d" % w, ("w1", ci, w))
                for g in STATE_FIELDS:
                    R.cmd("get 0 " + g, ("after", ci, g))
                R.cmd("scalar 0 time", ("after", ci, "time"))
                if autoreset:
                    # a second step: is a value that escaped the first step at least caught by the next one?
                    R.cmd("step 0", ("step2", ci))
                    for g in STATE_FIELDS:
                        R.cmd("get 0 " + g, ("after2", ci, g))
            rc, out, err = R.run()
            replay_base = {"model": text, "state": st, "autoreset": autoreset, "variant": variant, "sizes": sizes,
                           "multi_input_actuators": mdl.c30["multi"], "trees_initialised_asleep": sleeping,
                           "how": "feed `model` + description + the listed commands to harness/c/engine_repl.c"}
            if rc != 0 or len(out) != len(R.cmds):
                fail("c30:engine-crash", "engine REPL crashed or stopped early (rc=%s, %d of %d outputs): %s" % (rc, len(out), len(R.cmds), err[-300:]),
                     dict(replay_base, last_commands=R.cmds[max(0, len(out) - 12):len(out) + 1]))
                continue
            if not out[0].startswith("ok"):
                continue          # model rejected by the compiler: not a case
            res = {}
            for tg, o in zip(R.tags, out):
                if tg:
                    res[tg] = o
            if res[("refstep", 1)].startswith("error") or res[("refstep", 2)].startswith("error"):
                # mj_step fails on this model WITHOUT any injection (seen: "mj_sleep: found sleeping tree 0 in island 0" on
                # the first step of a tree initialised asleep that owns a constraint): nothing to attribute to a bad value
                stats["models_whose_clean_step_raises_an_engine_error"] += 1
                continue
            stats["models"] += 1
            # does the model contain the situation of the known finding c30:nonfinite-after-step:ctrl?  a stateless
            # (dyntype none) actuator with affine gain whose velocity coefficient gainprm[2] is non-zero: mjd_actuator_vel
            # multiplies that coefficient by the RAW d->ctrl when an implicit integrator builds qDeriv
            gt = [int(float(x)) for x in (parse_nums(res[("mf", "actuator_gaintype")]) or [])]
            dt = [int(float(x)) for x in (parse_nums(res[("mf", "actuator_dyntype")]) or [])]
            gp = parse_nums(res[("mf", "actuator_gainprm")]) or []
            ngain = len(gp) // len(gt) if gt else 0
            velgain = any(gt[a] == E("mjGAIN_AFFINE") and dt[a] == E("mjDYN_NONE") and gp[ngain * a + 2] != 0 for a in range(len(gt)))
            spatial_tendon = any(l.startswith("wrap ") and l.split()[2] == "site" for l in lines)
            ref1 = {f: res[("ref1", f)] for f in STATE_FIELDS + ("time",)}
            ref2 = {f: res[("ref2", f)] for f in STATE_FIELDS + ("time",)}
            # dofs of trees that are asleep when the injection happens (only models whose base state keeps them asleep):
            # mj_checkVel / mj_checkAcc scan dof_awake_ind only; the write wakes the tree later, in mj_kinematics
            treeid = [int(float(x)) for x in (parse_nums(res[("mf", "dof_treeid")]) or [])]
            tasleep = [int(float(x)) for x in (parse_nums(res[("mf", "tree_asleep")]) or [])]
            dof_asleep = [bool(sleeping) and 0 <= t < len(tasleep) and tasleep[t] >= 0 for t in treeid]
            for ci, (f, i, v) in enumerate(cases):
                stats["injections"] += 1
                stats["by_field"][f] = stats["by_field"].get(f, 0) + 1
                ctx.count((mi, autoreset, f, i, v))
                if f == "ctrl" and i >= sizes["nactuator"]:
                    stats["ctrl_injections_at_index_ge_nactuator"] += 1
                if sleeping:
                    stats["injections_into_sleeping_models"] += 1
                if not autoreset:
                    stats["autoreset_off"] += 1
                if res.get(("step", ci), "").startswith("error") and not autoreset:
                    # autoreset disabled by the user: the bad value is propagated by design; an engine error raised on
                    # the garbage state (e.g. a rank-deficient Hessian) is a consequence, not a finding
                    stats["engine_errors_with_autoreset_off"] = stats.get("engine_errors_with_autoreset_off", 0) + 1
                    continue
                if res.get(("step", ci), "").startswith("error"):
                    # (act is examined by no check -- recorded finding; an engine error is one more consequence of it)
                    # recorded findings (narrow): act and the mocap pose are examined by no check; RK4 evaluates its later
                    # stages without a check (huge finite applied force).  Anything else is a violation.
                    if f in ("act", "mocap_pos", "mocap_quat"):
                        ekey = ":unchecked-input"
                    elif mdl.options["integrator"] == "RK4" and v in ("1e11", "-1e11") and (
                            f in ("qfrc_applied", "xfrc_applied") or (f == "qvel" and dof_asleep[i])):
                        # (a huge velocity of a SLEEPING dof is outside mj_checkVel's scan: recorded finding, clause B)
                        ekey = ":rk4-later-stage"
                    else:
                        ekey = ""
                    fail("c30:engine-error" + ekey,
                         "mj_step raised an engine error after injecting %s into %s[%d] (integrator %s): %s"
                         % (v, f, i, mdl.options["integrator"], res[("step", ci)][:200]),
                         dict(replay_base, inject={"field": f, "index": i, "value": v},
                              commands=["resetdata 0"] + [b % 0 for b in base] + ["setat 0 %s %d %s" % (f, i, v), "step 0"]))
                    continue
                w0 = {w: int(res[("w0", ci, w)]) for w in (W_QPOS, W_QVEL, W_QACC, W_CTRL)}
                w1 = {w: int(res[("w1", ci, w)]) for w in (W_QPOS, W_QVEL, W_QACC, W_CTRL)}
                after = {g: res[("after", ci, g)] for g in STATE_FIELDS + ("time",)}
                rp = dict(replay_base, inject={"field": f, "index": i, "value": v},
                          commands=["resetdata 0"] + [b % 0 for b in base] + ["setat 0 %s %d %s" % (f, i, v), "step 0", "num 0 qpos", "num 0 qvel", "num 0 act"],
                          warnings_before=w0, warnings_after=w1, state_after=after)
                def nonfin(d):
                    return [g for g in STATE_FIELDS if "nan" in d[g].split() or any(t in ("7ff0000000000000", "fff0000000000000") for t in d[g].split())]
                nonfinite = nonfin(after)
                integ = mdl.options["integrator"]
                was_reset = all(after[g] == ref1[g] for g in STATE_FIELDS + ("time",))
                caught = [w for w in (W_QPOS, W_QVEL, W_QACC) if w1[w] > (0 if autoreset else w0[w])]
                if autoreset:
                    # A: the state is finite after the step
                    if nonfinite:
                        stats["nonfinite_after_one_step"][f + ":" + integ] = stats["nonfinite_after_one_step"].get(f + ":" + integ, 0) + 1
                        # narrow keys: the recorded (known) mechanisms get the plain key, anything else a distinct one
                        if f == "ctrl":
                            narrow = integ in ("implicit", "implicitfast") and velgain
                        elif f in ("qfrc_applied", "xfrc_applied"):
                            narrow = integ == "RK4" and v in ("1e11", "-1e11")
                        elif f in ("mocap_pos", "mocap_quat"):
                            # recorded: a non-finite mocap pose reaches a spatial tendon; its NaN velocity enters qDeriv
                            # (mjd_passive_vel, even with zero damping) while qacc stays finite
                            narrow = integ in ("implicit", "implicitfast") and spatial_tendon
                        else:
                            narrow = True          # act: never scanned by mj_check*; qpos / qvel: no recorded finding
                        fkey = "mocap" if (narrow and f in ("mocap_pos", "mocap_quat")) else f
                        if f == "qvel" and dof_asleep[i]:
                            # recorded: the velocity of a sleeping dof is outside mj_checkVel's scan (see clause B); a huge
                            # finite one passes mj_checkAcc at the first RK4 stage and blows up in the later ones
                            fkey = "qvel-sleeping-dof"
                        fail("c30:nonfinite-after-step:" + fkey + ("" if narrow else ":other-mechanism"),
                             "after injecting %s into %s[%d] and calling mj_step ONCE, %s contains a non-finite value (integrator %s, variant %s, warnings %s)"
                             % (v, f, i, "/".join(nonfinite), integ, variant, [w1[w] for w in (W_QPOS, W_QVEL, W_QACC, W_CTRL)]), rp)
                        after2 = {g: res[("after2", ci, g)] for g in STATE_FIELDS}
                        nf2 = nonfin(after2) if not res.get(("step2", ci), "").startswith("error") else ["<engine error>"]
                        if nf2:
                            stats["nonfinite_after_two_steps"][f + ":" + integ] = stats["nonfinite_after_two_steps"].get(f + ":" + integ, 0) + 1
                            fail("c30:nonfinite-after-two-steps:" + f,
                                 "after injecting %s into %s[%d] and calling mj_step TWICE, %s still contains a non-finite value (integrator %s, variant %s): never caught"
                                 % (v, f, i, "/".join(nf2), integ, variant), dict(rp, state_after_second_step=after2))
                        continue
                    # B: bad positions / velocities are caught by their own check
                    if f in ("qpos", "qvel"):
                        w = W_QPOS if f == "qpos" else W_QVEL
                        if w1[w] < 1 and f == "qvel" and dof_asleep[i]:
                            # recorded finding: the velocity of a SLEEPING dof is outside mj_checkVel's scan; what must
                            # still hold: a non-finite value is caught one stage later as a bad acceleration (clause C
                            # then verifies the reset), a huge finite one leaves a finite state (clause A above)
                            stats["sleeping_dof_bad_qvel"] = stats.get("sleeping_dof_bad_qvel", 0) + 1
                            fail("c30:bad-qvel-not-warned:sleeping-dof", "bad value %s in qvel[%d] of a sleeping tree: mjWARN_BADQVEL stays %d "
                                 "(mj_checkVel scans dof_awake_ind only; BADQACC counter %d)" % (v, i, w1[w], w1[W_QACC]), rp)
                            if v in ("nan", "inf", "-inf") and W_QACC not in caught:
                                fail("c30:bad-qvel-sleeping-dof-not-caught", "non-finite qvel[%d] = %s of a sleeping tree raised neither BADQVEL nor BADQACC" % (i, v), rp)
                                continue
                        elif w1[w] < 1:
                            fail("c30:bad-%s-not-warned" % f, "bad value %s in %s[%d]: warning counter %d stays %d" % (v, f, i, w, w1[w]), rp)
                            continue
                        else:
                            stats["caught"][f] += 1
                    # C: a fired check means the data is the reset data, advanced by this step
                    if caught:
                        if not was_reset:
                            fail("c30:caught-but-not-reset", "a bad-value warning fired (%s) but the state is not 'reset then step'" % caught, rp)
                            continue
                        stats["resets_verified"] += 1
                        if W_QACC in caught:
                            stats["caught"]["qacc"] += 1
                    # D: bad controls are replaced by zeros
                    if w1[W_CTRL] > w0[W_CTRL] and not caught:
                        stats["caught"]["ctrl"] += 1
                        # (the implicit integrators read d->ctrl again in mjd_actuator_vel: compared for Euler / RK4 only)
                        if mdl.options["integrator"] in ("Euler", "RK4") and not all(after[g] == ref2[g] for g in STATE_FIELDS + ("time",)):
                            fail("c30:badctrl-not-zeroed", "mjWARN_BADCTRL fired but the step differs from the step with zero controls", rp)
                            continue
                    if f in ("ctrl",) and v == "nan" and variant == "plain" and w1[W_CTRL] <= w0[W_CTRL] and not caught:
                        fail("c30:nan-ctrl-not-warned", "NaN control %d raised no warning" % i, rp)
                        continue
                    if f == "qfrc_applied" and v in ("nan", "inf", "-inf") and W_QACC not in caught:
                        fail("c30:nonfinite-force-not-caught", "non-finite qfrc_applied[%d] = %s did not trigger mjWARN_BADQACC" % (i, v), rp)
                        continue
                    if not caught and w1[W_CTRL] == w0[W_CTRL]:
                        stats["benign_no_warning"] += 1
                else:
                    if f in ("qpos", "qvel"):
                        w = W_QPOS if f == "qpos" else W_QVEL
                        if w1[w] != w0[w] + 2 and f == "qvel" and dof_asleep[i] and w1[w] == w0[w]:
                            stats["sleeping_dof_bad_qvel"] = stats.get("sleeping_dof_bad_qvel", 0) + 1
                            fail("c30:bad-qvel-not-warned:sleeping-dof", "autoreset disabled, bad value %s in qvel[%d] of a sleeping tree: "
                                 "mjWARN_BADQVEL stays %d (BADQACC counter %d -> %d)" % (v, i, w1[w], w0[W_QACC], w1[W_QACC]), rp)
                            continue
                        if w1[w] != w0[w] + 2:
                            fail("c30:noautoreset-counter", "autoreset disabled, bad %s[%d] = %s: counter %d went %d -> %d (expected +2: mj_warning and number++)" % (f, i, v, w, w0[w], w1[w]), rp)
                            continue
                        stats["caught"][f] += 1
                    if f == "ctrl" and v == "nan" and variant == "plain":
                        if w1[W_CTRL] <= w0[W_CTRL]:
                            fail("c30:nan-ctrl-not-warned", "autoreset disabled: NaN control %d of %d (nactuator %d) raised no mjWARN_BADCTRL "
                                 "(counters qpos/qvel/qacc/ctrl %s -> %s)" % (i, sizes["nu"], sizes["nactuator"],
                                                                             [w0[w] for w in (W_QPOS, W_QVEL, W_QACC, W_CTRL)],
                                                                             [w1[w] for w in (W_QPOS, W_QVEL, W_QACC, W_CTRL)]), rp)
                            continue
                        stats["caught"]["ctrl"] += 1
                    if was_reset and (caught or f in ("qpos", "qvel")):
                        fail("c30:reset-although-disabled", "autoreset disabled but the state equals the reset state", rp)
                        continue
                    if f == "qfrc_applied" and v in ("nan", "inf", "-inf"):
                        if w1[W_QACC] != w0[W_QACC] + 2:
                            fail("c30:noautoreset-counter", "autoreset disabled, qfrc_applied[%d] = %s: BADQACC counter %d -> %d (expected +2)" % (i, v, w0[W_QACC], w1[W_QACC]), rp)
                            continue
                        stats["caught"]["qacc"] += 1
            if stats["models"] <= 2 and cases:
                f, i, v = cases[0]
                ctx.sample({"model_bodies": len(mdl.bodies), "nq": mdl.nq, "nv": mdl.nv, "na": mdl.na, "nu": mdl.nu, "variant": variant,
                            "autoreset": autoreset, "inject": [f, i, v],
                            "warnings_after": [res[("w1", 0, w)] for w in (W_QPOS, W_QVEL, W_QACC, W_CTRL)]})
    stats["failure_keys"] = failures
    return stats


# ------------------------------------------------------------------------------------------ run
def run(ctx):
    import time
    quick = ctx.tier != "thorough"
    T = {}
    t0 = time.time()

    def lap(name):
        nonlocal t0
        T[name] = round(time.time() - t0, 1)
        t0 = time.time()
    ctx.rule = ("(a) `isbad` bit patterns: NaN payloads, ±Inf, ±1e10 and neighbours, random magnitudes 1e9..1e11, generic values; "
                "(b) `check` lines: vectors of length 1..13 with 0..3 special entries (NaN/±Inf/beyond/at the limit), last index "
                "over-sampled, autoreset and sleep flags, awake lists; `ctrlscan` lines: 1..6 actuators with control blocks of 0 / 1 / 3 "
                "entries (nu != nactuator), 0..2 special entries, last slot and slots >= nactuator over-sampled, per-slot limits, "
                "mjDSBL_CLAMPCTRL; (c) engine injections: (model, autoreset, field, index, value) on models with multi-input "
                "actuators (65%), trees initialised asleep (25%), quaternion joints, mocap bodies; "
                "a case is distinct by its full tuple / line")
    manifest = kernelval.regen(ctx)          # first: the theorems are about the regenerated Gen/ files
    import json
    mp = os.path.join(common.LEAN, "MjProof", "Gen", "c30_scans_manifest.json")
    sman = json.load(open(mp)) if os.path.exists(mp) else {"refused": ["manifest missing"], "sites": []}
    fresh = os.path.realpath(sman.get("repo", "")) == os.path.realpath(common.REPO)
    ctx.oblige("translate/c30_scans.py: every bad-value scan loop of engine_forward.c translated (%d sites, none refused)"
               % len(sman.get("sites", [])), "translator", fresh and not sman.get("refused") and len(sman.get("sites", [])) > 0,
               "repo=%s refused=%s" % (sman.get("repo"), sman.get("refused")))
    ctx.extra["scan_sites"] = [{k: s[k] for k in ("func", "array", "declared", "bound", "filterBound", "zeroCount", "exit")}
                               for s in sman.get("sites", [])]
    lap("regen")
    ctx.lean_props(THEOREMS)
    lap("lean_props")
    kernelval.validate(ctx, manifest, ["mju_isBad", "mju_clip"], 400 if quick else 4000,
                       gens={"mju_isBad": isbad_gen, "mju_clip": clip_gen}, label="c2lean mju_isBad, mju_clip")
    lap("kernel_validation")
    drv = ctx.driver("drv_c30")
    impl = ctx.harness("harness/c/c30_check.c", "c30_check")
    if drv and impl:
        lines = isbad_lines(ctx, 300 if quick else 5000) + check_lines(ctx, 600 if quick else 8000) + \
            ctrlscan_lines(ctx, 500 if quick else 6000) + \
            ["ctrlscan 0 0 k 1 i nu 1 lim 0 0 0 ctrl zz", "ctrlscan 2 0 k 1 i nu 1 lim 0 %s %s ctrl nan" % (fbits(0.0), fbits(0.0)),
             "ctrlscan 0 0 k 2 i s nu 3 lim ctrl", "ctrlscan 0 0 k 1 q nu 1 lim 0 %s %s ctrl nan" % (fbits(0.0), fbits(0.0))]
        ctx.differential("mju_isBad + generated check skeletons + generated control-scan site (run in Lean) vs real mju_isBad / "
                         "mj_checkPos / mj_checkVel / mj_checkAcc / mj_fwdActuation",
                         [drv], [impl], lines,
                         keyf=lambda l: l if l.split()[:1] in (["check"], ["isbad"], ["ctrlscan"]) and len(l.split()) > 1 else None)
        rc, outs, err = ctx.run_lines([impl], lines)
        nf = 0
        if rc == 0 and len(outs) == len(lines):
            for l, o in zip(lines, outs):
                why = ctrlscan_oracle(l, o) if l.startswith("ctrlscan ") else check_oracle(l, o)
                if why and l.startswith("ctrlscan "):
                    nf += 1
                    if nf <= 5:
                        ctx.oracle_failure("c30:ctrlscan:" + why, "real mj_fwdActuation (control validation): " + why,
                                           {"line": l, "impl_output": o,
                                            "replay": "echo '<line>' | c30_check harness (harness/c/c30_check.c): prints the BADCTRL "
                                                      "counter, lastinfo and act_dot = the controls the stage used"})
                elif why:
                    nf += 1
                    if nf <= 5:
                        ctx.oracle_failure("c30:check:" + why, "real check function: " + why, {"line": l, "impl_output": o,
                                           "replay": "echo '<line>' | c30_check harness (harness/c/c30_check.c)"})
            ctx.sample({"check_line": lines[-1][:160], "real_output": outs[-1][:120]})
        else:
            ctx.oracle_failure("c30:check:crash", "c30_check harness crashed (rc=%s)" % rc, {"stderr": err[-400:]})
        ctx.extra["check_function_oracle"] = {"lines": len(lines), "failures": nf}
    lap("check_differential")
    exe = ctx.harness("harness/c/engine_repl.c", "engine_repl", deps=["harness/mjbuild.h"])
    if exe:
        stats = engine_oracle(ctx, exe, 48 if quick else 300, 6 if quick else 16)
        ctx.extra["injection_oracle"] = stats
        ctx.oblige("injection oracle ran (%d models, %d injections)" % (stats["models"], stats["injections"]), "oracle-ran",
                   stats["models"] > 0 and stats["injections"] > 0)
    lap("injection_oracle")
    ctx.extra["stage_seconds"] = T
    ctx.assumptions.append("IEEE-754 treatment of NaN/Inf by mju_isBad: hand model (BadCheck.FloatClass) compared with the real function on bit patterns, not proved")


if __name__ == "__main__":
    common.main(run, "C30")
