"""C30  Numerical blow-ups are contained (DESIGN.md §5.C30).

P  lean/MjProof/Props/C30.lean: the generated `mju_isBad` is 1 exactly for |x| > 1e10 on the reals, the value-class
   model agrees with it on finite values and is true for NaN / ±Inf; the translator-generated skeletons of
   mj_checkPos / mj_checkVel / mj_checkAcc, run under the atom semantics of Model/BadCheck.lean, compute the decision
   logic `BadCheck.check` (refinement, all inputs); a bad entry at any scanned index is caught, the first one is
   reported, warning / reset / forward happen in the coded order; mj_step = checkPos, checkVel, forward, checkAcc, ...
T  (a) translators re-run on every check: c2lean (mju_isBad, bitwise validation incl. NaN / ±Inf / ±1e10 boundary bit
       patterns) and skeleton.py (the Prog of the check functions and of mj_step);
   (b) differential: the same `isbad` / `check` lines go to drv_c30 (which RUNS the generated skeleton under the atom
       semantics, with the generated mju_isBad on Float) and to harness/c/c30_check.c (the real mju_isBad / mj_checkPos /
       mj_checkVel / mj_checkAcc on a real model): warning number, lastinfo, reset / forward observed, vector bits.
S  injection oracle on the real engine (harness/c/engine_repl.c): NaN / ±Inf / ±1e11 at indices of qpos, qvel, act,
   ctrl, qfrc_applied, xfrc_applied of generated models (incl. disabled actuator groups / mjDSBL_ACTUATION), then
   mj_step: state finite afterwards (and, if not, after a second step), warning counters, state bitwise equal to
   "reset then step" (resp. "zero ctrl then step" for Euler / RK4), autoreset on and off.
"""
import math
import os
import subprocess

from checks import common, kernelval
from gen.enums import E
from gen.models import ModelGen

META = {
    "technique": "c2lean-generated mju_isBad (regenerated each run, bitwise translation validation on NaN/Inf/boundary bit patterns) + value-class model of the IEEE comparisons; translator-generated control skeletons of mj_checkPos/Vel/Acc and mj_step (translate/skeleton.py) given an atom semantics in Lean and PROVED to compute a small decision-logic model (loop induction over the scanned index list, simp over the generated program); Lean 4 proofs over the reals / over arbitrary carriers; differential of the executed generated skeleton against the real check functions on a real mjModel; injection oracle on mj_step through the shared engine REPL",
    "text": "Proved for all inputs: the generated mju_isBad returns 1 exactly when |x| > mjMAXVAL = 1e10 (reals) and the value-class model of the C expression is additionally true for NaN and both infinities; running the generated skeleton of mj_checkPos / mj_checkVel / mj_checkAcc under the stated atom semantics terminates normally and equals the decision logic: the first bad entry in scan order (every index for positions; every index, or the awake dofs when sleeping filters, for velocities / accelerations) triggers mj_warning, then mj_resetData unless mjDSBL_AUTORESET, then number++ / lastinfo = index, then (accelerations, autoreset) mj_forward; so a bad entry at ANY scanned index is caught, the counter ends at old+2 without autoreset and at 1 with autoreset (the reset clears the warning record first), the data slice is the reset value, and a clean vector is left untouched; the generated mj_step runs checkPos, checkVel, forward, checkAcc in this order. Sampled on the real engine: injection of NaN/±Inf/±1e11 at indices of qpos, qvel, act, ctrl, qfrc_applied, xfrc_applied followed by mj_step.",
    "note": "The statement 'after mj_step every state component is finite' is NOT proved (it would need models of mj_forward and of the integrators): post_step_finite_partial only bounds the explicit Euler update of a scalar joint over the reals when no check fires; the engine oracle samples mj_step itself. NaN/Inf are not reals: their treatment by mju_isBad is a hand model of the IEEE comparison rules tied to the real function by the bitwise differential only. The atom semantics (what `i++`, `mj_resetData`, ... mean on the modelled slice) is hand-written; the control structure is generated. mj_resetData is modelled only on the slice (checked vector, its warning record, ghost call counters). With autoreset the warning counter does not 'increase' when it was already >= 1: the reset clears it and it is then set to 1 (modelled and proved as coded; the oracle requires counter >= 1 after a reset and old+2 without autoreset). FINDINGS reported by the oracle (the literal first sentence of the property does not hold on the real code; recorded in known_findings.json under narrow keys: c30:nonfinite-after-step:ctrl only for implicit/implicitfast with a stateless affine-gain actuator with velocity coefficient, :qfrc_applied / :xfrc_applied only for RK4 with a huge finite force, :act and c30:nonfinite-after-two-steps:act only for activations; any other way gets the suffix :other-mechanism or its own field key and is a violation): the checks run only at the start of mj_step and after the first mj_forward, so (i) with RK4 a huge finite force / a non-finite activation behind a force clamp blows up in the later stages and the step returns NaN (caught by the next step), (ii) with the implicit integrators mjd_actuator_vel reads the raw d->ctrl, so a NaN control poisons the step although mjWARN_BADCTRL zeroed the local copy, (iii) act is examined by no check: a non-finite activation of an actuator that produces no force (disabled group / mjDSBL_ACTUATION) is carried along forever.",
}

P = "MjProof.C30."
THEOREMS = [P + t for t in (
    "isBad_iff", "isBad_values", "isBadFC_fin_eq_gen", "isBadFC_iff",
    "gen_checkPos_refines", "gen_checkVel_refines", "gen_checkAcc_refines",
    "check_fires_iff", "check_reports_first", "check_catches", "check_catches_every_index", "check_clean",
    "gen_checkPos_catches", "step_check_order", "post_step_finite_partial",
)]

fbits = kernelval.fbits
W_QPOS, W_QVEL, W_QACC, W_CTRL = (E("mjWARN_BADQPOS"), E("mjWARN_BADQVEL"), E("mjWARN_BADQACC"), E("mjWARN_BADCTRL"))
BADVALS = ["nan", "inf", "-inf", "1e11", "-1e11"]
STATE_FIELDS = ("qpos", "qvel", "act")


# ------------------------------------------------------------------------------------------ generators
def isbad_gen(rng, inputs):
    r = rng.random()
    if r < 0.15:
        return [rng.choice((float("nan"), float("inf"), float("-inf")))]
    if r < 0.55:
        b = rng.choice((1e10, -1e10))
        k = rng.randint(-3, 3)
        x = b
        for _ in range(abs(k)):
            x = math.nextafter(x, math.inf if k > 0 else -math.inf)
        return [x]
    if r < 0.75:
        return [rng.choice((1, -1)) * 10 ** rng.uniform(9, 11)]
    return kernelval.default_gen(rng, inputs)


def special_bits(rng):
    r = rng.random()
    if r < 0.25:
        return "nan"
    if r < 0.45:
        return fbits(rng.choice((math.inf, -math.inf)))
    if r < 0.8:
        return fbits(rng.choice((1, -1)) * rng.choice((1e11, 1.0000000001e10, math.nextafter(1e10, math.inf), 1e300)))
    return fbits(rng.choice((1, -1)) * 1e10)      # exactly the limit: NOT bad


def check_lines(ctx, count):
    rng = ctx.rng
    lines = []
    for _ in range(count):
        W = rng.choice(("pos", "vel", "acc"))
        n = rng.choice((1, 2, 3, 4, 5, 8, 13))
        vec = [fbits(rng.uniform(-3, 3)) for _ in range(n)]
        nbad = rng.choice((0, 1, 1, 1, 2, 3))
        for _ in range(nbad):
            vec[rng.randrange(n)] = special_bits(rng)
        if rng.random() < 0.25:
            vec[n - 1] = special_bits(rng)          # the last index
        vec0 = [fbits(rng.uniform(-1, 1)) if W == "pos" else fbits(0.0) for _ in range(n)]
        sleep = 1 if (W != "pos" and rng.random() < 0.4) else rng.choice((0, 0, 1))
        k = rng.randint(0, n)
        awake = sorted(rng.sample(range(n), k)) if rng.random() < 0.8 else [rng.randrange(n) for _ in range(k)]
        lines.append("check %s %d %d %d n %d vec %s vec0 %s awake %d%s" % (
            W, rng.choice((0, 1)), sleep, rng.choice((0, 0, 1, 5)), n, " ".join(vec), " ".join(vec0), k,
            "".join(" %d" % a for a in awake)))
    return lines


def isbad_lines(ctx, count):
    rng = ctx.rng
    out = ["isbad nan", "isbad " + fbits(math.inf), "isbad " + fbits(-math.inf), "isbad " + fbits(1e10), "isbad " + fbits(-1e10),
           "isbad " + fbits(math.nextafter(1e10, math.inf)), "isbad " + fbits(math.nextafter(-1e10, -math.inf)),
           "isbad " + fbits(0.0), "isbad " + fbits(-0.0), "isbad 7ff0000000000001", "isbad fff8000000000000",
           "isbad 0000000000000001", "isbad 7fefffffffffffff"]
    for _ in range(count):
        out.append("isbad " + fbits(isbad_gen(rng, [["x", "num"]])[0]))
    out += ["isbad", "isbad zz", "check pos 1 0 0 n 2 vec " + fbits(1.0), "nop"]
    return out


def check_oracle(line, out):
    """property oracle on the REAL check function's output alone"""
    t = line.split()
    if t[0] != "check" or len(t) < 8:
        return None
    o = out.split()
    if out == "bad-op":
        return None            # malformed op line (both sides reject it: compared by the differential)
    if len(o) < 4:
        return "malformed-output"
    W, autoreset, sleep, number0, n = t[1], int(t[2]), int(t[3]), int(t[4]), int(t[6])
    vec = [kernelval.frombits(x) for x in t[8:8 + n]]
    k = int(t[10 + 2 * n])
    awake = [int(x) for x in t[11 + 2 * n:11 + 2 * n + k]]
    filt = W != "pos" and sleep == 1 and k < n
    scanned = awake if filt else list(range(n))
    bad = [i for i in scanned if (vec[i] != vec[i] or abs(vec[i]) > 1e10)]
    number, lastinfo, reset, fwd = int(o[0]), int(o[1]), int(o[2]), int(o[3])
    if not bad:
        if (number, reset, fwd) != (number0, 0, 0):
            return "clean-vector-touched"
        return None
    if lastinfo != bad[0]:
        return "lastinfo-not-first-bad-index"
    if autoreset:
        if number < 1 or reset != 1:
            return "bad-entry-not-reset-or-no-warning"
        if (W == "acc") != (fwd == 1):
            return "forward-after-reset-wrong"
    else:
        if number != number0 + 2 or reset or fwd:
            return "no-autoreset-counter-or-reset-wrong"
    return None


# ------------------------------------------------------------------------------------------ engine REPL
class Repl:
    """accumulates commands for harness/c/engine_repl.c; one output line per command"""

    def __init__(self, exe):
        self.exe, self.cmds, self.tags = exe, [], []

    def model(self, text):
        self.cmds.append("model\n" + text.rstrip("\n"))
        self.tags.append(("model",))

    def cmd(self, c, tag=None):
        self.cmds.append(c)
        self.tags.append(tag)

    def run(self):
        r = subprocess.run([self.exe], input="\n".join(self.cmds) + "\n", capture_output=True, text=True, timeout=1800)
        out = r.stdout.split("\n")
        if out and out[-1] == "":
            out.pop()
        return r.returncode, out, r.stderr


def parse_nums(line):
    """'n: v v v' -> list of floats (nan / inf tokens included)"""
    if ":" not in line:
        return None
    return [float(x) for x in line.split(":", 1)[1].split()]


PROFILE = {"nbody": (1, 4), "actuators": (1, 3), "sensors": (0, 1), "cameras": 0.0, "keys": 0.0, "numeric": 0.0,
           "mocap": 0.15, "energy": 0.0}


def make_models(ctx, count):
    out = []
    while len(out) < count:
        mdl = ModelGen(ctx.rng, PROFILE).make()
        if mdl.nq == 0:
            continue
        out.append(mdl)
    return out


def inject_cases(ctx, mdl, per_field):
    """(field, index, value) triples: every index when the field is small, else a seeded sample"""
    rng = ctx.rng
    sizes = {"qpos": mdl.nq, "qvel": mdl.nv, "act": mdl.na, "ctrl": mdl.nu, "qfrc_applied": mdl.nv,
             "xfrc_applied": 6 * (len(mdl.bodies) + 1)}
    cases = []
    for f, n in sizes.items():
        idx = list(range(n))
        if len(idx) > per_field:
            idx = sorted(set(rng.sample(idx, per_field - 1) + [n - 1]))
        for i in idx:
            vals = BADVALS if ctx.tier == "thorough" else ["nan"] + rng.sample(BADVALS[1:], 2)
            for v in vals:
                cases.append((f, i, v))
    return cases


def fmtv(v):
    return " ".join(repr(float(x)) for x in v)


def engine_oracle(ctx, exe, nmodels, per_field):
    """returns statistics; reports failures through ctx.oracle_failure"""
    stats = {"models": 0, "injections": 0, "caught": {"qpos": 0, "qvel": 0, "qacc": 0, "ctrl": 0}, "resets_verified": 0,
             "benign_no_warning": 0, "by_field": {}, "autoreset_off": 0, "nonfinite_after_one_step": {}, "nonfinite_after_two_steps": {}}
    failures = {}

    def fail(key, what, replay):
        failures.setdefault(key, 0)
        failures[key] += 1
        if failures[key] <= 3:
            ctx.oracle_failure(key, what, replay)

    for mi, mdl in enumerate(make_models(ctx, nmodels)):
        rng = ctx.rng
        # variants: autoreset on (default) / off; some models get a disabled actuator group or mjDSBL_ACTUATION
        variant = "plain"
        text = mdl.text()
        r = rng.random()
        extra = []
        if mdl.na and r < 0.35:
            variant = "disabled-group"
            extra = ["option disableactuator %d" % 0xF]          # groups 0..3: every generated actuator
        elif mdl.na and r < 0.5:
            variant = "dsbl-actuation"
        lines = list(mdl.lines)
        if variant == "dsbl-actuation":
            lines = [("option disableflags %d" % (int(l.split()[2]) | E("mjDSBL_ACTUATION"))) if l.startswith("option disableflags ") else l
                     for l in lines]
        text = "\n".join(lines + extra + ["end"]) + "\n"
        st = mdl.random_state(rng)
        for autoreset in ((1, 0) if (ctx.tier == "thorough" or mi % 3 == 0) else (1,)):
            R = Repl(exe)
            R.model(text)
            flags = 0
            for l in lines:
                if l.startswith("option disableflags "):
                    flags = int(l.split()[2])
            if not autoreset:
                R.cmd("setm opt.disableflags %d" % (flags | E("mjDSBL_AUTORESET")))
            for mf in ("actuator_gaintype", "actuator_gainprm", "actuator_dyntype"):
                R.cmd("numm " + mf, ("mf", mf))
            for k in (0, 1, 2):
                R.cmd("data %d" % k)
            base = []
            for f in ("qpos", "qvel", "act", "ctrl", "qfrc_applied", "xfrc_applied"):
                if st[f]:
                    base.append("set %%d %s %s" % (f, fmtv(st[f])))
            # slot 1: reset then step (what a caught blow-up must look like); slot 2: same state, ctrl = 0, step
            R.cmd("step 1")
            for f in STATE_FIELDS + ("time",):
                R.cmd(("scalar 1 time" if f == "time" else "get 1 " + f), ("ref1", f))
            for b in base:
                if " ctrl " not in b:
                    R.cmd(b % 2)
            R.cmd("step 2")
            for f in STATE_FIELDS + ("time",):
                R.cmd(("scalar 2 time" if f == "time" else "get 2 " + f), ("ref2", f))
            cases = inject_cases(ctx, mdl, per_field)
            if not autoreset:
                cases = [c for c in cases if c[0] in ("qpos", "qvel", "qfrc_applied")][:40]
            for ci, (f, i, v) in enumerate(cases):
                R.cmd("resetdata 0")
                for b in base:
                    R.cmd(b % 0)
                R.cmd("setat 0 %s %d %s" % (f, i, v), ("inject", ci))
                for w in (W_QPOS, W_QVEL, W_QACC, W_CTRL):
                    R.cmd("scalar 0 warn.%d" % w, ("w0", ci, w))
                R.cmd("step 0", ("step", ci))
                for w in (W_QPOS, W_QVEL, W_QACC, W_CTRL):
                    R.cmd("scalar 0 warn.%d" % w, ("w1", ci, w))
                for g in STATE_FIELDS:
                    R.cmd("get 0 " + g, ("after", ci, g))
                R.cmd("scalar 0 time", ("after", ci, "time"))
                if autoreset:
                    # a second step: is a value that escaped the first step at least caught by the next one?
                    R.cmd("step 0", ("step2", ci))
                    for g in STATE_FIELDS:
                        R.cmd("get 0 " + g, ("after2", ci, g))
            rc, out, err = R.run()
            replay_base = {"model": text, "state": st, "autoreset": autoreset, "variant": variant,
                           "how": "feed `model` + description + the listed commands to harness/c/engine_repl.c"}
            if rc != 0 or len(out) != len(R.cmds):
                fail("c30:engine-crash", "engine REPL crashed or stopped early (rc=%s, %d of %d outputs): %s" % (rc, len(out), len(R.cmds), err[-300:]),
                     dict(replay_base, last_commands=R.cmds[max(0, len(out) - 12):len(out) + 1]))
                continue
            if not out[0].startswith("ok"):
                continue          # model rejected by the compiler: not a case
            stats["models"] += 1
            res = {}
            for tg, o in zip(R.tags, out):
                if tg:
                    res[tg] = o
            # does the model contain the situation of the known finding c30:nonfinite-after-step:ctrl?  a stateless
            # (dyntype none) actuator with affine gain whose velocity coefficient gainprm[2] is non-zero: mjd_actuator_vel
            # multiplies that coefficient by the RAW d->ctrl when an implicit integrator builds qDeriv
            gt = [int(float(x)) for x in (parse_nums(res[("mf", "actuator_gaintype")]) or [])]
            dt = [int(float(x)) for x in (parse_nums(res[("mf", "actuator_dyntype")]) or [])]
            gp = parse_nums(res[("mf", "actuator_gainprm")]) or []
            ngain = len(gp) // len(gt) if gt else 0
            velgain = any(gt[a] == E("mjGAIN_AFFINE") and dt[a] == E("mjDYN_NONE") and gp[ngain * a + 2] != 0 for a in range(len(gt)))
            ref1 = {f: res[("ref1", f)] for f in STATE_FIELDS + ("time",)}
            ref2 = {f: res[("ref2", f)] for f in STATE_FIELDS + ("time",)}
            for ci, (f, i, v) in enumerate(cases):
                stats["injections"] += 1
                stats["by_field"][f] = stats["by_field"].get(f, 0) + 1
                ctx.count((mi, autoreset, f, i, v))
                if not autoreset:
                    stats["autoreset_off"] += 1
                if res.get(("step", ci), "").startswith("error") and not autoreset:
                    # autoreset disabled by the user: the bad value is propagated by design; an engine error raised on
                    # the garbage state (e.g. a rank-deficient Hessian) is a consequence, not a finding
                    stats["engine_errors_with_autoreset_off"] = stats.get("engine_errors_with_autoreset_off", 0) + 1
                    continue
                if res.get(("step", ci), "").startswith("error"):
                    fail("c30:engine-error", "mj_step raised an engine error after injection: " + res[("step", ci)][:200],
                         dict(replay_base, inject=[f, i, v]))
                    continue
                w0 = {w: int(res[("w0", ci, w)]) for w in (W_QPOS, W_QVEL, W_QACC, W_CTRL)}
                w1 = {w: int(res[("w1", ci, w)]) for w in (W_QPOS, W_QVEL, W_QACC, W_CTRL)}
                after = {g: res[("after", ci, g)] for g in STATE_FIELDS + ("time",)}
                rp = dict(replay_base, inject={"field": f, "index": i, "value": v},
                          commands=["resetdata 0"] + [b % 0 for b in base] + ["setat 0 %s %d %s" % (f, i, v), "step 0", "num 0 qpos", "num 0 qvel", "num 0 act"],
                          warnings_before=w0, warnings_after=w1, state_after=after)
                def nonfin(d):
                    return [g for g in STATE_FIELDS if "nan" in d[g].split() or any(t in ("7ff0000000000000", "fff0000000000000") for t in d[g].split())]
                nonfinite = nonfin(after)
                integ = mdl.options["integrator"]
                was_reset = all(after[g] == ref1[g] for g in STATE_FIELDS + ("time",))
                caught = [w for w in (W_QPOS, W_QVEL, W_QACC) if w1[w] > (0 if autoreset else w0[w])]
                if autoreset:
                    # A: the state is finite after the step
                    if nonfinite:
                        stats["nonfinite_after_one_step"][f + ":" + integ] = stats["nonfinite_after_one_step"].get(f + ":" + integ, 0) + 1
                        # narrow keys: the recorded (known) mechanisms get the plain key, anything else a distinct one
                        if f == "ctrl":
                            narrow = integ in ("implicit", "implicitfast") and velgain
                        elif f in ("qfrc_applied", "xfrc_applied"):
                            narrow = integ == "RK4" and v in ("1e11", "-1e11")
                        else:
                            narrow = True          # act: never scanned by mj_check*; qpos / qvel: no recorded finding
                        fail("c30:nonfinite-after-step:" + f + ("" if narrow else ":other-mechanism"),
                             "after injecting %s into %s[%d] and calling mj_step ONCE, %s contains a non-finite value (integrator %s, variant %s, warnings %s)"
                             % (v, f, i, "/".join(nonfinite), integ, variant, [w1[w] for w in (W_QPOS, W_QVEL, W_QACC, W_CTRL)]), rp)
                        after2 = {g: res[("after2", ci, g)] for g in STATE_FIELDS}
                        nf2 = nonfin(after2) if not res.get(("step2", ci), "").startswith("error") else ["<engine error>"]
                        if nf2:
                            stats["nonfinite_after_two_steps"][f + ":" + integ] = stats["nonfinite_after_two_steps"].get(f + ":" + integ, 0) + 1
                            fail("c30:nonfinite-after-two-steps:" + f,
                                 "after injecting %s into %s[%d] and calling mj_step TWICE, %s still contains a non-finite value (integrator %s, variant %s): never caught"
                                 % (v, f, i, "/".join(nf2), integ, variant), dict(rp, state_after_second_step=after2))
                        continue
                    # B: bad positions / velocities are caught by their own check
                    if f in ("qpos", "qvel"):
                        w = W_QPOS if f == "qpos" else W_QVEL
                        if w1[w] < 1:
                            fail("c30:bad-%s-not-warned" % f, "bad value %s in %s[%d]: warning counter %d stays %d" % (v, f, i, w, w1[w]), rp)
                            continue
                        stats["caught"][f] += 1
                    # C: a fired check means the data is the reset data, advanced by this step
                    if caught:
                        if not was_reset:
                            fail("c30:caught-but-not-reset", "a bad-value warning fired (%s) but the state is not 'reset then step'" % caught, rp)
                            continue
                        stats["resets_verified"] += 1
                        if W_QACC in caught:
                            stats["caught"]["qacc"] += 1
                    # D: bad controls are replaced by zeros
                    if w1[W_CTRL] > w0[W_CTRL] and not caught:
                        stats["caught"]["ctrl"] += 1
                        # (the implicit integrators read d->ctrl again in mjd_actuator_vel: compared for Euler / RK4 only)
                        if mdl.options["integrator"] in ("Euler", "RK4") and not all(after[g] == ref2[g] for g in STATE_FIELDS + ("time",)):
                            fail("c30:badctrl-not-zeroed", "mjWARN_BADCTRL fired but the step differs from the step with zero controls", rp)
                            continue
                    if f in ("ctrl",) and v == "nan" and variant == "plain" and w1[W_CTRL] <= w0[W_CTRL] and not caught:
                        fail("c30:nan-ctrl-not-warned", "NaN control %d raised no warning" % i, rp)
                        continue
                    if f == "qfrc_applied" and v in ("nan", "inf", "-inf") and W_QACC not in caught:
                        fail("c30:nonfinite-force-not-caught", "non-finite qfrc_applied[%d] = %s did not trigger mjWARN_BADQACC" % (i, v), rp)
                        continue
                    if not caught and w1[W_CTRL] == w0[W_CTRL]:
                        stats["benign_no_warning"] += 1
                else:
                    if f in ("qpos", "qvel"):
                        w = W_QPOS if f == "qpos" else W_QVEL
                        if w1[w] != w0[w] + 2:
                            fail("c30:noautoreset-counter", "autoreset disabled, bad %s[%d] = %s: counter %d went %d -> %d (expected +2: mj_warning and number++)" % (f, i, v, w, w0[w], w1[w]), rp)
                            continue
                        stats["caught"][f] += 1
                    if was_reset and (caught or f in ("qpos", "qvel")):
                        fail("c30:reset-although-disabled", "autoreset disabled but the state equals the reset state", rp)
                        continue
                    if f == "qfrc_applied" and v in ("nan", "inf", "-inf"):
                        if w1[W_QACC] != w0[W_QACC] + 2:
                            fail("c30:noautoreset-counter", "autoreset disabled, qfrc_applied[%d] = %s: BADQACC counter %d -> %d (expected +2)" % (i, v, w0[W_QACC], w1[W_QACC]), rp)
                            continue
                        stats["caught"]["qacc"] += 1
            if stats["models"] <= 2 and cases:
                f, i, v = cases[0]
                ctx.sample({"model_bodies": len(mdl.bodies), "nq": mdl.nq, "nv": mdl.nv, "na": mdl.na, "nu": mdl.nu, "variant": variant,
                            "autoreset": autoreset, "inject": [f, i, v],
                            "warnings_after": [res[("w1", 0, w)] for w in (W_QPOS, W_QVEL, W_QACC, W_CTRL)]})
    stats["failure_keys"] = failures
    return stats


# ------------------------------------------------------------------------------------------ run
def run(ctx):
    import time
    quick = ctx.tier != "thorough"
    T = {}
    t0 = time.time()

    def lap(name):
        nonlocal t0
        T[name] = round(time.time() - t0, 1)
        t0 = time.time()
    ctx.rule = ("(a) `isbad` bit patterns: NaN payloads, ±Inf, ±1e10 and neighbours, random magnitudes 1e9..1e11, generic values; "
                "(b) `check` lines: vectors of length 1..13 with 0..3 special entries (NaN/±Inf/beyond/at the limit), last index "
                "over-sampled, autoreset and sleep flags, awake lists; (c) engine injections: (model, autoreset, field, index, value); "
                "a case is distinct by its full tuple / line")
    manifest = kernelval.regen(ctx)          # first: the theorems are about the regenerated Gen/ files
    lap("regen")
    ctx.lean_props(THEOREMS)
    lap("lean_props")
    kernelval.validate(ctx, manifest, ["mju_isBad"], 400 if quick else 4000, gens={"mju_isBad": isbad_gen},
                       label="c2lean mju_isBad")
    lap("kernel_validation")
    drv = ctx.driver("drv_c30")
    impl = ctx.harness("harness/c/c30_check.c", "c30_check")
    if drv and impl:
        lines = isbad_lines(ctx, 300 if quick else 5000) + check_lines(ctx, 600 if quick else 8000)
        ctx.differential("mju_isBad + generated check skeletons (run in Lean) vs real mju_isBad / mj_checkPos / mj_checkVel / mj_checkAcc",
                         [drv], [impl], lines, keyf=lambda l: l if l.split()[:1] in (["check"], ["isbad"]) and len(l.split()) > 1 else None)
        rc, outs, err = ctx.run_lines([impl], lines)
        nf = 0
        if rc == 0 and len(outs) == len(lines):
            for l, o in zip(lines, outs):
                why = check_oracle(l, o)
                if why:
                    nf += 1
                    if nf <= 5:
                        ctx.oracle_failure("c30:check:" + why, "real check function: " + why, {"line": l, "impl_output": o,
                                           "replay": "echo '<line>' | c30_check harness (harness/c/c30_check.c)"})
            ctx.sample({"check_line": lines[-1][:160], "real_output": outs[-1][:120]})
        else:
            ctx.oracle_failure("c30:check:crash", "c30_check harness crashed (rc=%s)" % rc, {"stderr": err[-400:]})
        ctx.extra["check_function_oracle"] = {"lines": len(lines), "failures": nf}
    lap("check_differential")
    exe = ctx.harness("harness/c/engine_repl.c", "engine_repl", deps=["harness/mjbuild.h"])
    if exe:
        stats = engine_oracle(ctx, exe, 24 if quick else 200, 6 if quick else 16)
        ctx.extra["injection_oracle"] = stats
        ctx.oblige("injection oracle ran (%d models, %d injections)" % (stats["models"], stats["injections"]), "oracle-ran",
                   stats["models"] > 0 and stats["injections"] > 0)
    lap("injection_oracle")
    ctx.extra["stage_seconds"] = T
    ctx.assumptions.append("IEEE-754 treatment of NaN/Inf by mju_isBad: hand model (BadCheck.FloatClass) compared with the real function on bit patterns, not proved")


if __name__ == "__main__":
    common.main(run, "C30")
