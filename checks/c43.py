"""C43  MJX reproduces the MuJoCo C engine (DESIGN.md §5.C43)."""
import json
import math
import os
import subprocess
import sys

from . import common, kernelval
from . import c43_mjxgen as G
from gen.enums import E

META = {
    "technique": "one Lean model, two implementations: c2lean kernels (bitwise vs the compiled C) and hand models of mjx/_src/math.py "
                 "(vs the real math.py, x64) proved equal over the reals; feature gate extracted with ast and proved equal to the "
                 "documentation-derived specification; property oracle: one generated model description instantiated in the tree's C "
                 "engine and in MJX, forward/step outputs compared field by field",
    "text": "Kernel half: for quat_mul, quat_mul_axis, rotate (unit quaternions), quat_to_mat, axis_angle_to_quat, motion_cross, "
            "motion_cross_force, inert_mul the MJX formula (Model/MjxMath.lean, compared with the real math.py) and the kernel that "
            "c2lean generates from the C source (compared bitwise with the compiled C) are proved to be the same real function for all "
            "inputs; further math.py / support.py functions (normalize, quat_integrate, quat_sub, make_frame, transform_motion, the "
            "muscle curves) are tied to their generated C kernels by a differential run on Float (1e-12) under an explicit name and "
            "argument mapping. Gate half: gate_matches_spec (kernel-decided) — the set of option/model enumerators, enable flags, "
            "collision pairs, contact-sensor semantics and remaining NotImplementedError sites extracted from _put_option / "
            "_put_model_jax / _make_data_jax / types.py / collision_driver.py equals the table transcribed from doc/mjx.rst "
            "(feature parity table, footnotes 2 and 3) up to five deviations listed one by one with their reason. Constraint-parameter half: "
            "mjx_kbi_eq_c — stiffness, damping and impedance of a constraint row: _kbi of mjx/_src/constraint.py (hand model mjxKbi, compared with the real "
            "function on Float) and the K, B, I that getsolparam / getimpedance / mj_makeImpedance write to efc_KBIP (hand model cKbi, compared with the real C "
            "engine through a one-equality model) are proved to be the same real function for either REFSAFE setting, every time step, solref in the standard "
            "or the direct format, every solimp with d0 <= dwidth and width > mjMINVAL, any midpoint / power / position (the two guarded denominators of the "
            "standard format not below mjMINVAL); outside these hypotheses the two sources differ (three recorded findings, each with a directed case). Storage: "
            "mjx_euler_damping_on_diagonal — in the row layout of the sparse inertia matrix (Lean sparseRows(dof_parentid), compared exactly with M_rowadr / "
            "M_rownnz / M_colind of every model the tree compiles in the run) the address M_rowadr[i] + M_rownnz[i] - 1, the index expression that the "
            "sparse branch of euler() is checked (ast) to use for h * dof_damping, is the diagonal entry of row i.",
    "note": "Everything else of the property — the whole pipeline (kinematics, inertia, bias and passive forces, actuation, contacts, "
            "constraint rows, solver, sensors, integrators) — is NOT claimed by any theorem: it is examined by the oracle on the real "
            "code only (x64 CPU; models restricted to MJX's feature set with analytic colliders; states produced by simulating in C; "
            "tolerance 1e-6 relative, solver tolerance tightened on both sides; solver parameters are sampled three ways: the real _kbi against the real C "
            "engine on seeded arguments inside the theorem's hypotheses, a fixed-structure constraint-parameter family — joint/tendon limits, friction loss, a "
            "joint equality, plane/sphere and sphere/sphere contacts with geom-parameter mixing, an explicit pair with solreffriction, both cones, REFSAFE "
            "on/off — whose solref/solimp/margin/gap/solmix/friction/time step and state are redrawn per case, and randomised solref/solimp/solmix in two "
            "thirds of the generic models; the storage x integrator family — a branched hinge/ball/slide chain with damping, armature, springs, a tendon, a "
            "filtered servo, a limit and friction loss, built with jacobian = sparse and dense for Euler (both always), RK4 and implicitfast (one per storage "
            "per seed in the quick tier, all plus EULERDAMP disabled in the thorough tier) — whose parameters and state are redrawn and compared after "
            "mjx.step with mj_step). Proofs are over the reals; the power function of the impedance spline is a parameter of the models (Float.pow in "
            "the driver, Real.rpow in the proof). The mujoco wheel of /venv "
            "is the MjSpec compiler and MjModel container on the MJX side; its compiled model is cross-checked array by array against "
            "the model the tree's compiler produces from the same description. Mesh / hfield / SDF / flex features cannot be built in "
            "this sandbox (qhull, MC stubs) and are outside the sampled set.",
}

P = "MjProof.C43."
THEOREMS = [P + t for t in (
    "mjx_quat_mul_eq_c", "mjx_quat_mul_axis_eq_c", "mjx_rotate_eq_c", "mjx_rotate_sub_c", "mjx_quat_to_mat_eq_c",
    "mjx_axis_angle_to_quat_eq_c", "mjx_motion_cross_eq_c", "mjx_motion_cross_force_eq_c", "mjx_inert_mul_eq_c", "mjx_kbi_eq_c", "mjx_euler_damping_on_diagonal")]
THEOREMS_GATE = [P + "gate_matches_spec", P + "deviations_used"]

KERNELS = ["mju_mulQuat", "mju_mulQuatAxis", "mju_rotVecQuat", "mju_quat2Mat", "mju_axisAngle2Quat", "mju_quatIntegrate",
           "mju_subQuat", "mju_normalize3", "mju_normalize4", "mju_norm3", "mju_crossMotion", "mju_crossForce", "mju_mulInertVec",
           "mju_makeFrame", "mju_transformSpatial", "mju_muscleGainLength", "mju_muscleGain", "mju_muscleBias",
           "mju_muscleDynamicsTimescale", "mju_muscleDynamics", "mjraw_PlaneSphere", "mjraw_SphereSphere"]

GEN_DIR = os.path.join(common.LEAN, "MjProof", "Gen")
GATE_JSON = os.path.join(GEN_DIR, "MjxGate.json")
TOL_MATH = 1e-12     # closed-form kernels on Float: observed <= 5e-16 relative
TOL_PIPE = 1e-6      # DESIGN §5.C43; observed (calibration seeds 0..40): kinematics <= 1e-14, smooth dynamics <= 1e-11,
#                      solver-dependent quantities <= 2e-8 with the tightened solver tolerance
# contact geometry and everything downstream of it: MJX regularises closest_segment_point with `+ 1e-6` in the denominator
# (math.py), i.e. capsule contacts deviate by design by ~1e-6/|segment|^2 (observed up to 3e-5 in the normal); bound 2e-4
TOL_CONTACT = 2e-4
TOL_FAMILY = 1e-6    # the constraint-parameter family has plane/sphere and sphere/sphere contacts only (no regularised segment distance)
CONTACT_DEP = ("qfrc_constraint", "qacc", "sensordata", "qvel", "qpos", "qacc_warmstart", "act")
fbits, frombits = kernelval.fbits, kernelval.frombits


# ------------------------------------------------------------------------------------------ kernel mapping
def unit(rng, n):
    while True:
        v = [rng.gauss(0, 1) for _ in range(n)]
        s = math.sqrt(sum(x * x for x in v))
        if s > 1e-3:
            return [x / s for x in v]


def vec(rng, n, scale=1.0):
    return [rng.gauss(0, 1) * scale for _ in range(n)]


def muscle_prm(rng):
    return [0.75, 1.05, rng.choice((-1.0, rng.uniform(5, 100))), rng.uniform(50, 300), rng.uniform(0.3, 0.7), rng.uniform(1.3, 1.9),
            rng.uniform(1.0, 2.0), rng.uniform(1.1, 1.5), rng.uniform(1.1, 1.4)]


# MJX function -> (C kernel, generator of the MJX argument list, MJX args -> C kernel tokens, number of leading C outputs to drop,
#                  domain note).  The C driver prints the return value first, then the outputs.
def _same(a):
    return [fbits(x) for x in a]


MAPPING = {
    "quat_mul": ("mju_mulQuat", lambda r: unit(r, 4) + vec(r, 4), _same, 0, "all inputs"),
    "quat_mul_axis": ("mju_mulQuatAxis", lambda r: vec(r, 4) + vec(r, 3), _same, 0, "all inputs"),
    "rotate": ("mju_rotVecQuat", lambda r: vec(r, 3) + unit(r, 4), _same, 0, "unit quaternions (off the unit sphere the two formulas differ by (|q|^2-1) v: theorem mjx_rotate_sub_c)"),
    "quat_to_mat": ("mju_quat2Mat", lambda r: vec(r, 4), _same, 0, "all inputs"),
    "axis_angle_to_quat": ("mju_axisAngle2Quat", lambda r: unit(r, 3) + [r.uniform(-7, 7)], _same, 0, "all inputs"),
    "quat_integrate": ("mju_quatIntegrate", lambda r: unit(r, 4) + vec(r, 3, r.choice((0.01, 1, 10))) + [r.uniform(0.0005, 0.05)], _same, 0,
                       "unit q, |v| >= 1e-6 (math.normalize treats vectors with all |x| <= 1e-8 as zero; mju_normalize3 only below 1e-15)"),
    "quat_sub": ("mju_subQuat", lambda r: unit(r, 4) + unit(r, 4), _same, 0, "unit quaternions"),
    "normalize3": ("mju_normalize3", lambda r: vec(r, 3, r.choice((1e-3, 1, 1e3))), _same, 1, "norm >= 1e-6"),
    "normalize4": ("mju_normalize4", lambda r: vec(r, 4, r.choice((1e-3, 1, 1e3))), _same, 1, "norm >= 1e-6"),
    "norm3": ("mju_norm3", lambda r: vec(r, 3, r.choice((1e-3, 1, 1e3))), _same, 0, "norm >= 1e-6"),
    "motion_cross": ("mju_crossMotion", lambda r: vec(r, 12), _same, 0, "all inputs"),
    "motion_cross_force": ("mju_crossForce", lambda r: vec(r, 12), _same, 0, "all inputs"),
    "inert_mul": ("mju_mulInertVec", lambda r: vec(r, 16), _same, 0, "all inputs"),
    "make_frame": ("mju_makeFrame", lambda r: [x * r.uniform(0.6, 3.0) for x in unit(r, 3)], lambda a: [fbits(x) for x in a] + [fbits(0.0)] * 3, 0,
                   "|x| >= 0.5 (below, mju_makeFrame raises mju_error), y axis zero on the C side (the branch MJX implements)"),
    "transform_motion": ("mju_transformSpatial", lambda r: vec(r, 6) + vec(r, 3) + vec(r, 9),
                         lambda a: [fbits(x) for x in a[:6]] + ["i0"] + [fbits(x) for x in a[6:9]] + [fbits(0.0)] * 3 + [fbits(x) for x in a[9:]], 0,
                         "flg_force = 0, oldpos = 0, newpos = offset"),
    # primitive colliders (kernels of C13): the C functions take the contact struct in/out and a margin (huge here, so that a contact is
    # always produced); C output tokens: count, dist, normal(3), pos(3), tangent(3)
    "plane_sphere": ("mjraw_PlaneSphere", lambda r: unit(r, 3) + vec(r, 3) + vec(r, 3) + [r.uniform(0.05, 0.5)],
                     lambda a: [fbits(0.0)] * 7 + [fbits(1e3)] + [fbits(x) for x in a[3:6]] + [fbits(x) for x in a[0:3]] + [fbits(x) for x in a[6:9]] + [fbits(a[9])],
                     lambda t: [t[1]] + t[5:8], "unit plane normal; (dist, pos) compared"),
    "sphere_sphere": ("mjraw_SphereSphere", lambda r: vec(r, 3) + [r.uniform(0.05, 0.5)] + vec(r, 3) + [r.uniform(0.05, 0.5)],
                      lambda a: [fbits(0.0)] * 10 + [fbits(1e3)] + [fbits(x) for x in a[0:3]] + [fbits(0.0), fbits(0.0), fbits(1.0)] + [fbits(a[3])]
                      + [fbits(x) for x in a[4:7]] + [fbits(0.0), fbits(0.0), fbits(1.0)] + [fbits(a[7])],
                      lambda t: [t[1]] + t[5:8] + t[2:5], "distinct centres; (dist, pos, normal) compared"),
    "muscle_gain_length": ("mju_muscleGainLength", lambda r: [r.uniform(0.2, 2.0), r.uniform(0.3, 0.7), r.uniform(1.3, 1.9)], _same, 0, "lmin < 1 < lmax"),
    "muscle_gain": ("mju_muscleGain", lambda r: [r.uniform(0.2, 1.8), r.uniform(-3, 3), 0.5, 1.5, r.uniform(1, 100)] + muscle_prm(r),
                    lambda a: [fbits(x) for x in a[:5]] + [fbits(a[5 + i]) for i in (0, 1, 2, 3, 4, 5, 6, 8)], 0, "physiological parameter ranges"),
    "muscle_bias": ("mju_muscleBias", lambda r: [r.uniform(0.2, 1.8), 0.5, 1.5, r.uniform(1, 100)] + muscle_prm(r),
                    lambda a: [fbits(x) for x in a[:4]] + [fbits(a[4 + i]) for i in (0, 1, 2, 3, 5, 7)], 0, "physiological parameter ranges"),
    "muscle_dynamics_timescale": ("mju_muscleDynamicsTimescale", lambda r: [r.uniform(-1, 1), r.uniform(0.005, 0.05), r.uniform(0.02, 0.1), r.choice((0.0, 0.2, 0.5))],
                                  _same, 0, "all inputs"),
    "muscle_dynamics": ("mju_muscleDynamics", lambda r: [r.uniform(-0.5, 1.5), r.uniform(-0.2, 1.2), r.uniform(0.005, 0.05), r.uniform(0.02, 0.1), r.choice((0.0, 0.2, 0.5))],
                        _same, 0, "all inputs"),
}
MODELLED = ("quat_mul", "quat_mul_axis", "rotate", "quat_to_mat", "axis_angle_to_quat", "motion_cross", "motion_cross_force", "inert_mul")


def close(a, b, tol):
    """tokens a, b (hex bits): relative agreement per vector"""
    if len(a) != len(b) or not a:
        return False, float("inf")
    try:
        x, y = [frombits(t) for t in a], [frombits(t) for t in b]
    except ValueError:
        return False, float("inf")
    sc = 1.0 + max(abs(v) for v in y)
    dev = 0.0
    for p, q in zip(x, y):
        if p != p or q != q:
            if (p != p) != (q != q):
                return False, float("inf")
            continue
        dev = max(dev, abs(p - q) / sc)
    return dev <= tol, dev


def kernel_streams(ctx, hx, manifest, per_fn):
    """second correspondence stream: Lean (Float) vs the real MJX math, on the same inputs"""
    rng = ctx.rng
    drv_k = ctx.driver("drv_kernels")
    drv_m = ctx.driver("drv_c43")
    if not drv_k or not drv_m:
        return
    lines_mjx, lines_k, lines_m = [], [], []
    for fn, (ck, gen, toc, drop, dom) in MAPPING.items():
        for _ in range(per_fn):
            a = gen(rng)
            lines_mjx.append("math %s %s" % (fn, " ".join(fbits(x) for x in a)))
            lines_k.append("%s %s" % (ck, " ".join(toc(a))))
            if fn in MODELLED:
                lines_m.append("%s %s" % (fn, " ".join(fbits(x) for x in a)))
    lines_mjx.append("math no_such_fn 0000000000000000")
    lines_k.append("no_such_kernel 0000000000000000")
    lines_m.append("no_such_fn 0000000000000000")
    impl = []
    for l in lines_mjx:
        o = hx.ask(l)
        if o is None:
            raise common.Infra("MJX harness died during the math stream")
        impl.append(o)
    rc, ok_, ek = ctx.run_lines([drv_k], lines_k)
    rc2, om, em = ctx.run_lines([drv_m], lines_m)
    if rc or rc2 or len(ok_) != len(lines_k) or len(om) != len(lines_m):
        raise common.Infra("kernel drivers failed: %s %s" % (ek[-200:], em[-200:]))
    bad_k, bad_m = [], []
    maxdev = {}
    im = 0
    for l, o, k in zip(lines_mjx, impl, ok_):
        fn = l.split()[1]
        if fn not in MAPPING:
            if o != "bad-op" or k != "bad-op":
                bad_k.append({"line": l, "model": k, "impl": o})
            continue
        drop = MAPPING[fn][3]
        kt = drop(k.split()) if callable(drop) else k.split()[drop:]
        good, dev = close(o.split(), kt, TOL_MATH)
        maxdev[fn + " vs " + MAPPING[fn][0]] = max(maxdev.get(fn + " vs " + MAPPING[fn][0], 0.0), dev)
        ctx.count(l)
        if not good:
            bad_k.append({"line": l[:300], "model(C kernel, Lean Float)": k[:300], "impl(MJX)": o[:300], "dev": dev})
        if fn in MODELLED:
            good, dev = close(o.split(), om[im].split(), TOL_MATH)
            maxdev[fn + " vs MjxMath"] = max(maxdev.get(fn + " vs MjxMath", 0.0), dev)
            if not good:
                bad_m.append({"line": l[:300], "model(MjxMath, Lean Float)": om[im][:300], "impl(MJX)": o[:300], "dev": dev})
            im += 1
    if om[-1] != "bad-op":
        bad_m.append({"line": lines_m[-1], "model": om[-1], "impl": "bad-op"})
    ctx.oblige("correspondence math.py / support.py (real MJX, x64) vs the c2lean kernels of the C sources on Float, under the explicit "
               "name/argument mapping (%d ops, tol %g)" % (len(lines_mjx), TOL_MATH), "correspondence", not bad_k, json.dumps(bad_k[:5]))
    ctx.oblige("correspondence math.py (real MJX, x64) vs the hand models of Model/MjxMath.lean on Float (%d ops, tol %g)" % (len(lines_m), TOL_MATH),
               "correspondence", not bad_m, json.dumps(bad_m[:5]))
    ctx.disagreements += [dict(line=b["line"], model=str(b.get("model(C kernel, Lean Float)", b.get("model")))[:200], impl=str(b.get("impl(MJX)"))[:200],
                               stream="mjx-math") for b in (bad_k + bad_m)[:30]]
    ctx.extra["math_max_relative_deviation"] = maxdev
    ctx.extra["math_name_mapping"] = {fn: {"c_kernel": v[0], "domain": v[4]} for fn, v in MAPPING.items()}
    ctx.sample({"mjx_op": lines_mjx[0][:160], "mjx_output": impl[0][:120], "c_kernel_output": ok_[0][:120]})


# ------------------------------------------------------------------------------------------ oracle helpers
FWD_FIELDS = ["xpos", "xquat", "xmat", "xipos", "ximat", "xanchor", "xaxis", "geom_xpos", "geom_xmat", "site_xpos", "site_xmat",
              "cam_xpos", "cam_xmat", "subtree_com", "cdof", "cinert", "cvel", "cdof_dot", "actuator_length", "actuator_velocity",
              "ten_length", "ten_velocity", "qfrc_bias", "qfrc_passive", "actuator_force", "qfrc_actuator", "qfrc_smooth",
              "qacc_smooth", "act_dot", "sensordata", "qfrc_constraint", "qacc"]
STEP_FIELDS = ["qpos", "qvel", "act", "time", "qacc_warmstart"]
STATE_FIELDS = ["qpos", "qvel", "act", "ctrl", "mocap_pos", "mocap_quat", "qfrc_applied", "xfrc_applied", "qacc_warmstart", "time"]


def reldev(c, m):
    sc = 1.0 + max(abs(x) for x in c)
    d = 0.0
    for x, y in zip(c, m):
        if x != x or y != y:
            return float("inf")
        d = max(d, abs(x - y) / sc)
    return d


class Pair:
    """the same model in the tree's C engine and in MJX"""

    def __init__(self, ctx, ceng, hx, orc):
        self.ctx, self.c, self.h, self.orc = ctx, ceng, hx, orc
        self.dev = ctx.extra.setdefault("pipeline_max_relative_deviation", {})
        self.layouts = {}
        self.layouts_skipped = 0

    def cnum(self, field):
        o = self.c.ask("num 0 " + field)
        if o is None or ":" not in o:
            return None
        return [float(x) for x in o.split(":", 1)[1].split()]

    def load(self, lines):
        self.lines = lines
        self.c.raw("model\n")
        co = self.c.ask("\n".join(lines) + "\nend")
        ho = self.h.ask("model 0 ; " + G.one_line(lines), timeout=900)
        if co is None or ho is None:
            who = ("C engine harness" if co is None else "") + (" MJX harness" if ho is None else "")
            dump = os.path.join(common.VERIF, "replays", "C43_died_on_load.txt")
            try:
                os.makedirs(os.path.dirname(dump), exist_ok=True)
                open(dump, "w").write("\n".join(lines) + "\n")
            except OSError:
                pass
            diag = ""
            try:
                hp = self.h
                hp.errf.flush(); hp.errf.seek(0)
                diag = " rc=%s stderr tail: %s" % (hp.p.poll(), hp.errf.read()[-1500:].replace("\n", " | "))
            except Exception as e:
                diag = " (no stderr: %s)" % e
            raise common.Infra("engine process died while loading a model (%s); model written to %s;%s" % (who.strip(), dump, diag))
        self.c_ok = co.startswith("ok")
        if self.c_ok:
            self.c.ask("data 0")
            w = co.split()
            self.sizes = {w[i]: int(w[i + 1]) for i in range(1, len(w) - 1, 2)}
            if self.sizes.get("nv"):
                # layout of the sparse inertia matrix of the tree-compiled model (compared with the Lean model sparseRows/diagAdr in layout_tie)
                def arr(n):
                    return [int(float(x)) for x in self.c.ask("numm " + n).split(":", 1)[1].split()]
                par, ra, rn, ci, sn = arr("dof_parentid"), arr("M_rowadr"), arr("M_rownnz"), arr("M_colind"), arr("dof_simplenum")
                if any(k and p >= 0 for k, p in zip(sn, par)):
                    # the compiler reduces the rows of "simple" dofs (free bodies with diagonal inertia) to their diagonal entry: not the layout
                    # sparseRows models (the diagonal is still the last, and only, entry of such a row); MJX cannot tell: checked by the oracle only
                    self.layouts_skipped += 1
                else:
                    self.layouts[tuple(par)] = [a + k - 1 for a, k in zip(ra, rn)] + ci
        return co, ho

    def model_equal(self):
        """the wheel-compiled MjModel equals the tree-compiled mjModel on every array mjx.Model reads"""
        md = json.loads(self.h.ask("mdump"))
        bad, n = [], 0
        for k, v in md.items():
            o = self.c.ask("numm " + k)
            if o is None or ":" not in o:
                continue
            cv = [float(x) for x in o.split(":", 1)[1].split()]
            n += 1
            if len(cv) != len(v):
                bad.append("%s: %d vs %d entries" % (k, len(cv), len(v)))
            elif cv and reldev(cv, v) > 1e-9:
                bad.append("%s: deviation %.3g" % (k, reldev(cv, v)))
        return n, bad

    def set_state(self, st):
        self.c.ask("resetdata 0")
        self.h.ask("reset")
        for k, v in st.items():
            if v:
                if self.c.ask("set 0 %s %s" % (k, " ".join(repr(float(x)) for x in v))) != "ok":
                    raise common.Infra("C engine rejected state field " + k)
        r = self.h.ask("state " + json.dumps({k: ([float(x) for x in v] if k != "time" else float(v[0])) for k, v in st.items() if v}))
        if r != "ok":
            raise common.Infra("MJX harness rejected the state: %s" % r)

    def c_state(self):
        st = {}
        for k in STATE_FIELDS:
            v = self.cnum(k)
            if v:
                st[k] = v
        return st

    def compare(self, fields, tag, replay, tol=TOL_PIPE, key_prefix="c43:field:", ncon=0, mask=None):
        """mask: {field: set of entry indices left out of the comparison}"""
        out = json.loads(self.h.ask("out " + " ".join(fields)))
        worst = None
        tol0 = tol
        for f in fields:
            tol = TOL_CONTACT if (ncon and f in CONTACT_DEP) else tol0
            c, m = self.cnum(f), out.get(f)
            if c is None or m is None:
                continue
            self.orc.n += 1
            if len(c) != len(m):
                self.orc.fail(key_prefix + f + ":shape", "%s: %s has %d entries in C, %d in MJX" % (tag, f, len(c), len(m)), replay)
                continue
            if mask and mask.get(f):
                c = [x for i, x in enumerate(c) if i not in mask[f]]
                m = [x for i, x in enumerate(m) if i not in mask[f]]
            if not c:
                continue
            d = reldev(c, m)
            t = tag + ":" + f
            self.dev[t] = max(self.dev.get(t, 0.0), d)
            if not d <= tol:
                if worst is None:
                    worst = f
                self.orc.fail(key_prefix + tag + ":" + f, "%s: %s differs between the C engine of the tree and MJX by %.3g (relative, tol %g)" % (tag, f, d, tol),
                              dict(replay, field=f, c=c[:12], mjx=m[:12]))
        return worst

    def compare_M(self, replay):
        out = json.loads(self.h.ask("out M_dense"))["M_dense"]
        M = self.cnum("M")
        nv = self.sizes["nv"]
        if M is None or not nv:
            return
        def marr(n):
            return [int(float(x)) for x in self.c.ask("numm " + n).split(":", 1)[1].split()]
        rn, ra, ci = marr("M_rownnz"), marr("M_rowadr"), marr("M_colind")
        dense = [0.0] * (nv * nv)
        for i in range(nv):
            for k in range(rn[i]):
                j = ci[ra[i] + k]
                dense[i * nv + j] = dense[j * nv + i] = M[ra[i] + k]
        d = reldev(dense, out)
        self.orc.n += 1
        self.dev["forward:M"] = max(self.dev.get("forward:M", 0.0), d)
        if not d <= TOL_PIPE:
            self.orc.fail("c43:field:forward:M", "joint-space inertia matrix differs by %.3g" % d, dict(replay, c=dense[:12], mjx=out[:12]))

    def is_static(self, geom):
        """the geom's body has no degree of freedom up to the world (world, static and mocap bodies): the C engine filters
        pairs of such bodies, MJX lists them (their Jacobian is zero, so they never become an active constraint row)"""
        def arr(n):
            return [int(float(x)) for x in self.c.ask("numm " + n).split(":", 1)[1].split()]
        if getattr(self, "_static_for", None) is not self.lines:
            self._gb, self._par, self._dn = arr("geom_bodyid"), arr("body_parentid"), arr("body_dofnum")
            self._static_for = self.lines
        b = self._gb[geom]
        while b != 0:
            if self._dn[b]:
                return False
            b = self._par[b]
        return True

    def static_acc_slots(self):
        """sensordata slots of accelerometer / framelinacc sensors attached to a body without degrees of freedom up to the world (finding
        c43:linear-acceleration-sensor-on-static-body: mj_objectAcceleration returns zero for such bodies, MJX reports -gravity)"""
        def arr(n):
            return [int(float(x)) for x in self.c.ask("numm " + n).split(":", 1)[1].split()]
        st, so, si, sa, sd = arr("sensor_type"), arr("sensor_objtype"), arr("sensor_objid"), arr("sensor_adr"), arr("sensor_dim")
        if not st:
            return set()
        par, dn = arr("body_parentid"), arr("body_dofnum")
        owner = {E("mjOBJ_SITE"): "site_bodyid", E("mjOBJ_GEOM"): "geom_bodyid", E("mjOBJ_CAMERA"): "cam_bodyid"}
        out = set()
        for t, ot, oi, a, n in zip(st, so, si, sa, sd):
            if t not in (E("mjSENS_ACCELEROMETER"), E("mjSENS_FRAMELINACC")):
                continue
            b = oi if ot in (E("mjOBJ_BODY"), E("mjOBJ_XBODY")) else (arr(owner[ot])[oi] if ot in owner else None)
            if b is None:
                continue
            while b != 0 and not dn[b]:
                b = par[b]
            if b == 0:
                out |= set(range(a, a + n))
        return out

    def steep_capsule_on_plane(self):
        """a plane/capsule contact whose capsule axis is within ~30 degrees of the plane normal (finding c43:plane-capsule-steep-axis-frame:
        the two engines then build different tangent axes, and a friction pyramid is not invariant under that rotation)"""
        def arr(n):
            return [int(float(x)) for x in self.c.ask("numm " + n).split(":", 1)[1].split()]
        gt = arr("geom_type")
        xm = self.cnum("geom_xmat")
        co = self.c.ask("contactsfull 0")
        for part in co.split(":", 1)[1].split("|"):
            w = part.split()
            if len(w) != 19:
                continue
            g1, g2 = int(w[0]), int(w[1])
            if gt[g1] == E("mjGEOM_PLANE") and gt[g2] == E("mjGEOM_CAPSULE"):
                n = [float(x) for x in w[9:12]]
                ax = [xm[9 * g2 + 2], xm[9 * g2 + 5], xm[9 * g2 + 8]]
                dn = sum(a * b for a, b in zip(n, ax))
                prj = math.sqrt(max(0.0, sum((a - dn * b) ** 2 for a, b in zip(ax, n))))
                if prj < 0.52:
                    return True
        return False

    def compare_contacts(self, replay):
        co = self.c.ask("contactsfull 0")
        cc = []
        for part in co.split(":", 1)[1].split("|"):
            w = part.split()
            if len(w) == 19 and int(w[3]) == 0:   # (exclude = 1: inside the gap, listed by C but without constraint rows; MJX has no gap)
                cc.append({"geom": (int(w[0]), int(w[1])), "dim": int(w[2]), "dist": float(w[4]), "pos": [float(x) for x in w[6:9]],
                           "frame": [float(x) for x in w[9:18]]})
        mc = [c for c in json.loads(self.h.ask("out contacts"))["contacts"] if c["dist"] < c["includemargin"]]
        self.orc.n += 1
        self.ctx.extra["contacts_compared"] = self.ctx.extra.get("contacts_compared", 0) + len(cc)
        used = set()
        for c in cc:
            best, bi = None, None
            for i, m in enumerate(mc):
                if i in used or tuple(sorted(m["geom"])) != tuple(sorted(c["geom"])):
                    continue
                d = max(abs(c["dist"] - m["dist"]), max(abs(a - b) for a, b in zip(c["pos"], m["pos"])))
                if best is None or d < best:
                    best, bi = d, i
            if best is None:
                self.orc.fail("c43:contact:missing-in-mjx", "C reports a contact between geoms %s (dist %.6g) that MJX does not" % (c["geom"], c["dist"]),
                              dict(replay, c_contact=c, mjx_contacts=mc[:6]))
                continue
            used.add(bi)
            m = mc[bi]
            fr = max(abs(a - b) for a, b in zip(c["frame"][:3], m["frame"][:3]))   # the contact normal
            self.dev["contact:dist/pos"] = max(self.dev.get("contact:dist/pos", 0.0), best)
            self.dev["contact:normal"] = max(self.dev.get("contact:normal", 0.0), fr)
            if not (best <= TOL_CONTACT and fr <= TOL_CONTACT and c["dim"] == m["dim"]):
                self.orc.fail("c43:contact:geometry", "contact between geoms %s differs: dist/pos by %.3g, normal by %.3g, dim %d vs %d" % (c["geom"], best, fr, c["dim"], m["dim"]),
                              dict(replay, c_contact=c, mjx_contact=m))
        extra = [m for i, m in enumerate(mc) if i not in used and not (self.is_static(m["geom"][0]) and self.is_static(m["geom"][1]))]
        nss = len([m for i, m in enumerate(mc) if i not in used]) - len(extra)
        if nss:
            self.ctx.extra["static_static_contacts_listed_by_mjx_only"] = self.ctx.extra.get("static_static_contacts_listed_by_mjx_only", 0) + nss
        if extra:
            self.orc.fail("c43:contact:extra-in-mjx", "MJX reports %d active contact(s) that C does not (first between geoms %s, dist %.6g)" % (len(extra), extra[0]["geom"], extra[0]["dist"]),
                          dict(replay, mjx_contact=extra[0], c_contacts=cc[:6]))
        return len(cc)

    def compare_efc(self, replay, tol=None, tag="", tol_static=float("inf")):
        """tol_static: bound for the rows' solver-independent quantities (pos - margin, aref, D) when it is tighter than tol"""
        tol = TOL_CONTACT if tol is None else tol
        e = json.loads(self.h.ask("out efc"))["efc"]
        # MJX keeps a fixed number of rows and zeroes the Jacobian of the inactive ones; rows whose Jacobian is zero are left out on BOTH sides (a
        # friction row of a contact can have a zero Jacobian when the model lacks the degrees of freedom it would act on: C lists it, and on the MJX
        # side it is indistinguishable from an inactive row)
        nz = [int(x) for x in self.c.ask("efcnz 0").split(":", 1)[1].split()]
        nefc = sum(nz)
        self.orc.n += 1
        if nefc != len(e["pos"]):
            self.orc.fail("c43:efc:count", "C has %d constraint rows with a non-zero Jacobian, MJX has %d" % (nefc, len(e["pos"])), dict(replay))
            return
        # efc_pos is compared as (efc_pos - efc_margin), the quantity that enters aref: for the friction rows of an elliptic
        # contact with a margin the C engine stores pos = margin = 0, MJX stores pos = margin = the contact margin
        cpm = [a - b for a, b, k in zip(self.cnum("efc_pos") or [], self.cnum("efc_margin") or [], nz) if k]
        mpm = [a - b for a, b in zip(e["pos"], e["margin"])]
        for f, name in (("efc_pos-efc_margin", "pos"), ("efc_aref", "aref"), ("efc_D", "D"), ("efc_force", "force")):
            c = cpm if name == "pos" else [x for x, k in zip(self.cnum(f) or [], nz) if k]
            if not c:
                continue
            c, m = sorted(c), sorted(mpm if name == "pos" else e[name])
            d = reldev(c, m)
            self.dev[tag + "efc:" + name] = max(self.dev.get(tag + "efc:" + name, 0.0), d)
            if not d <= (tol if name == "force" else min(tol, tol_static)):
                self.orc.fail("c43:efc:" + name, "sorted %s differs between C and MJX by %.3g" % (f, d), dict(replay, c=c[:12], mjx=m[:12]))


class Oracle:
    def __init__(self, ctx):
        self.ctx, self.n, self.nfail, self.keys = ctx, 0, 0, {}

    def fail(self, key, what, replay):
        self.nfail += 1
        self.keys[key] = self.keys.get(key, 0) + 1
        if self.keys[key] <= 2:
            self.ctx.oracle_failure(key, what, replay)


# ------------------------------------------------------------------------------------------ constraint parameters: K, B, I
# one single-joint `joint` equality: its row has efc_pos = qpos, margin 0, so (eq_solref, eq_solimp, opt.timestep, REFSAFE, qpos) drive the
# real getsolparam / getimpedance / mj_makeImpedance of the tree with arbitrary arguments (op `kbip` of harness/c/c43_engine.c)
KBI_MODEL = ["body 2 0", "joint 3 2", "name 3 j", "set 3 axis 0 1 0", "geom 4 2", "set 4 size 0.1", "set 4 contype 0", "set 4 conaffinity 0",
             "equality 5", "set 5 type %d" % E("mjEQ_JOINT"), "set 5 objtype %d" % E("mjOBJ_JOINT"), "set 5 name1 j", "set 5 data 0 1 0 0 0"]
MINVAL, MINIMP, MAXIMP = 1e-15, 1e-4, 0.9999
TOL_KBI = 1e-11    # per component, relative; observed <= 4e-15 (pow of XLA vs libm)


def _clip(x, lo, hi):
    return min(max(x, lo), hi)


def kbi_class(rs, ts, sr0, sr1, d0, d1, w, mid, p, pos):
    """the situations outside the hypotheses of theorem mjx_kbi_eq_c (None = inside: C and MJX are proved to agree over the reals)"""
    if (sr0 > 0) != (sr1 > 0):
        return "mixed-solref"
    e0, e1 = _clip(d0, MINIMP, MAXIMP), _clip(d1, MINIMP, MAXIMP)
    if e0 > e1:
        return "dmin-gt-dmax"
    if w <= 2 * MINVAL and e0 != e1:
        return "width-below-minval"
    tc = max(sr0, 2 * ts) if rs else sr0
    if sr0 > 0 and (e1 * e1 * tc * tc * sr1 * sr1 < 2 * MINVAL or e1 * tc < 2 * MINVAL):
        return "denominator-below-minval"
    return None


def kbi_input(rng):
    """-> (argument list rs ts sr0 sr1 d0 d1 width mid power pos, tags)"""
    tags = []
    rs = rng.choice((1.0, 1.0, 0.0))
    ts = rng.choice((0.0005, 0.002, 0.01, 0.05))
    tags.append("refsafe=%d" % rs)
    f = rng.choice(("standard", "standard", "standard", "standard-below-2dt", "standard-below-2dt", "direct", "direct", "direct", "direct-zero", "mixed"))
    if f == "standard":
        sr = [10 ** rng.uniform(-2.5, -0.5), rng.choice((1.0, rng.uniform(0.1, 2.5)))]
    elif f == "standard-below-2dt":
        sr = [ts * rng.choice((0.1, 0.5, 1.0, 1.9, 2.0)), rng.uniform(0.3, 1.5)]
    elif f == "direct":
        sr = [-10 ** rng.uniform(0, 4.5), -10 ** rng.uniform(-1, 2.5)]
    elif f == "direct-zero":
        sr = rng.choice(([0.0, 0.0], [-10 ** rng.uniform(0, 4), 0.0], [0.0, -10 ** rng.uniform(-1, 2)]))
    else:
        sr = rng.choice(([rng.uniform(0.005, 0.1), -rng.uniform(1, 50)], [-rng.uniform(10, 1000), rng.uniform(0.2, 2)], [rng.uniform(0.005, 0.1), 0.0]))
    tags.append("solref=" + f)
    g = rng.choice(("ordered", "ordered", "ordered", "ordered", "ordered", "equal", "reversed", "out-of-range", "out-of-range"))
    a, b = sorted((rng.uniform(0.0, 1.0), rng.uniform(0.0, 1.0)))
    if g == "equal":
        b = a
    elif g == "reversed":
        a, b = b, a
    elif g == "out-of-range":
        a, b = rng.choice(((-0.2, 0.5), (0.3, 1.4), (-1.0, 2.0), (0.0, 1.0)))
    tags.append("d0d1=" + g)
    wk = rng.choice(("typical", "typical", "typical", "typical", "typical", "large", "large", "large", "zero", "tiny", "negative"))
    w = {"typical": 10 ** rng.uniform(-4, -1), "large": rng.uniform(0.1, 2.0), "zero": 0.0, "tiny": rng.choice((1e-16, 1e-15)), "negative": -0.01}[wk]
    tags.append("width=" + wk)
    mid = rng.choice((0.5, rng.uniform(0.02, 0.98), rng.uniform(0.02, 0.98), 0.0, 1.0))
    pk = rng.choice(("1", "2", "2", "integer", "real", "below-1"))
    pw = {"1": 1.0, "2": 2.0, "integer": float(rng.randint(3, 6)), "real": rng.uniform(1.0, 6.0), "below-1": rng.uniform(-1.0, 0.99)}[pk]
    tags.append("power=" + pk)
    we = max(w, MINVAL)
    me = _clip(mid, MINIMP, MAXIMP)
    xk = rng.choice(("zero", "below-mid", "below-mid", "at-mid", "above-mid", "above-mid", "one", "saturated"))
    x = {"zero": 0.0, "below-mid": me * rng.uniform(0.01, 0.99), "at-mid": me, "above-mid": me + (1 - me) * rng.uniform(0.01, 0.99), "one": 1.0,
         "saturated": rng.uniform(1.01, 50.0)}[xk]
    tags.append("x=" + xk)
    pos = x * we * rng.choice((1.0, -1.0))
    if wk in ("zero", "tiny", "negative"):
        pos = rng.choice((0.0, 1.0, -1.0)) * 10 ** rng.uniform(-6, -1)
    return [rs, ts, sr[0], sr[1], a, b, w, mid, pw, pos], tags


def _cmp_kbi(a, b, tol=TOL_KBI):
    """tokens (hex bits) of two (K, B, I) triples: per-component relative agreement"""
    if len(a) != len(b) or len(a) != 3:
        return False, float("inf")
    dev = 0.0
    for s, t in zip(a, b):
        try:
            x, y = frombits(s), frombits(t)
        except ValueError:
            return False, float("inf")
        if x != x or y != y:
            if (x != x) != (y != y):
                return False, float("inf")
            continue
        if x == y:
            continue
        if math.isinf(x) or math.isinf(y):
            return False, float("inf")
        dev = max(dev, abs(x - y) / max(1.0, abs(y)))
    return dev <= tol, dev


def kbi_streams(ctx, pair, orc, n):
    """stiffness / damping / impedance of a constraint row: (1) the hand model mjxKbi (Lean, Float) against the real constraint._kbi,
    (2) the hand model cKbi against the real C engine, (3) property oracle: the real _kbi against the real C engine wherever theorem
    mjx_kbi_eq_c applies"""
    rng = ctx.rng
    drv = ctx.driver("drv_c43")
    if not drv:
        return
    co, ho = pair.load(KBI_MODEL)
    if not pair.c_ok:
        ctx.oblige("tree build compiles the one-equality model of the K/B/I stream", "environment", False, co)
        return
    hist = ctx.extra.setdefault("kbi_input_histogram", {})
    ops = []
    for _ in range(n):
        a, tags = kbi_input(rng)
        cls = kbi_class(*a)
        for t in tags + ["class=" + (cls or "inside-theorem-hypotheses")]:
            hist[t] = hist.get(t, 0) + 1
        ops.append((a, cls))
    toks = [" ".join(fbits(x) for x in a) for a, _ in ops]
    mjx_out, c_out = [], []
    for t in toks:
        o = pair.h.ask("kbi " + t)
        c = pair.c.ask("kbip " + t)
        if o is None or c is None:
            raise common.Infra("a harness died during the K/B/I stream")
        mjx_out.append(o)
        c_out.append(c)
    if pair.h.ask("kbi " + toks[0].replace(fbits(ops[0][0][0]), fbits(0.5), 1)) != "bad-op" or pair.c.ask("kbip " + toks[0][:-1]) != "bad-op":
        raise common.Infra("K/B/I harness ops accept malformed input")
    lines_m = ["kbi_mjx " + t for t in toks]
    lines_c, idx_c = [], []
    for i, (t, c) in enumerate(zip(toks, c_out)):
        w = c.split()
        if len(w) == 4:
            lines_c.append("kbi_c " + " ".join(t.split()[:9] + [w[0]]))
            idx_c.append(i)
    lines_m.append("kbi_mjx " + toks[0][:-1])
    rc, om, em = ctx.run_lines([drv], lines_m + lines_c)
    if rc or len(om) != len(lines_m) + len(lines_c):
        raise common.Infra("drv_c43 failed on the K/B/I stream: %s" % em[-300:])
    oc = om[len(lines_m):]
    bad_m, bad_c, dev_m, dev_c, dev_o = [], [], 0.0, 0.0, 0.0
    if om[len(lines_m) - 1] != "bad-op":
        bad_m.append({"line": lines_m[-1], "model": om[len(lines_m) - 1], "impl": "bad-op"})
    for i, (l, mo, io) in enumerate(zip(lines_m[:-1], om, mjx_out)):
        good, dev = _cmp_kbi(io.split(), mo.split())
        ctx.count(l)
        if good:
            dev_m = max(dev_m, dev)
        else:
            bad_m.append({"line": l, "args(rs ts sr0 sr1 d0 d1 width mid power pos)": ops[i][0], "model(mjxKbi, Lean Float)": mo, "impl(constraint._kbi)": io,
                          "model_values": [frombits(t) for t in mo.split()] if mo != "bad-op" else None,
                          "impl_values": [frombits(t) for t in io.split()] if len(io.split()) == 3 and not io.startswith("error") else io})
    if len(idx_c) != len(ops):
        j = next(i for i in range(len(ops)) if i not in idx_c)
        bad_c.append({"line": "kbip " + toks[j], "impl(C engine)": c_out[j], "model": "(K, B, I) expected"})
    for l, mo, i in zip(lines_c, oc, idx_c):
        good, dev = _cmp_kbi(c_out[i].split()[1:], mo.split())
        ctx.count(l)
        if good:
            dev_c = max(dev_c, dev)
        else:
            bad_c.append({"line": l, "args(rs ts sr0 sr1 d0 d1 width mid power pos)": ops[i][0], "model(cKbi, Lean Float)": mo, "impl(C engine efc_KBIP)": c_out[i]})
    ctx.oblige("correspondence constraint._kbi (real MJX, x64) vs the hand model mjxKbi of Model/MjxMath.lean on Float (%d ops incl. direct/mixed solref, "
               "REFSAFE on/off, every solimp shape; tol %g per component)" % (len(lines_m) - 1, TOL_KBI), "correspondence", not bad_m, json.dumps(bad_m[:5]))
    ctx.oblige("correspondence getsolparam/getimpedance/mj_makeImpedance (real C engine, efc_KBIP of a one-equality model) vs the hand model cKbi of "
               "Model/MjxMath.lean on Float (%d ops, tol %g per component)" % (len(lines_c), TOL_KBI), "correspondence", not bad_c, json.dumps(bad_c[:5]))
    ctx.disagreements += [dict(line=b["line"], model=str(b.get("model(mjxKbi, Lean Float)", b.get("model(cKbi, Lean Float)", b.get("model"))))[:200],
                               impl=str(b.get("impl(constraint._kbi)", b.get("impl(C engine efc_KBIP)", b.get("impl"))))[:200], args=b.get("args(rs ts sr0 sr1 d0 d1 width mid power pos)"),
                               stream="kbi") for b in (bad_m + bad_c)[:30]]
    # property oracle on the two real implementations
    outside = ctx.extra.setdefault("kbi_outside_theorem_hypotheses", {})
    for i, (a, cls) in enumerate(ops):
        cw, mw = c_out[i].split(), mjx_out[i].split()
        if len(cw) != 4 or len(mw) != 3:
            continue
        good, dev = _cmp_kbi(mw, cw[1:], tol=1e-9)
        if cls is not None:
            o = outside.setdefault(cls, {"ops": 0, "differ": 0})
            o["ops"] += 1
            o["differ"] += 0 if good else 1
            continue
        orc.n += 1
        if good:
            dev_o = max(dev_o, dev)
        else:
            names = ("K", "B", "I")
            cv, mv = [frombits(t) for t in cw[1:]], [frombits(t) for t in mw]
            which = [names[k] for k in range(3) if not _cmp_kbi([mw[k]] * 3, [cw[1 + k]] * 3, tol=1e-9)[0]]
            orc.fail("c43:kbi:" + "+".join(which), "constraint._kbi and the C engine disagree on %s of a constraint row: C (K, B, I) = %s, MJX = %s for solref = %s, solimp = %s, "
                     "pos - margin = %r, timestep = %r, REFSAFE %s" % ("/".join(which), cv, mv, a[2:4], a[4:9], a[9], a[1], "active" if a[0] else "disabled"),
                     {"args": dict(zip(("refsafe", "timestep", "solref0", "solref1", "dmin", "dmax", "width", "midpoint", "power", "pos"), a)),
                      "c_KBI": cv, "mjx_kbi": mv, "c_model": KBI_MODEL,
                      "how": "C: load c_model in harness/c/c43_engine.c, 'data 0', 'kbip <hex tokens of args>'; MJX: 'kbi <same tokens>' in harness/py/c43_mjx.py"})
    ctx.extra["kbi_max_relative_deviation"] = {"_kbi vs mjxKbi": dev_m, "C engine vs cKbi": dev_c, "_kbi vs C engine (inside the theorem's hypotheses)": dev_o}
    ctx.sample({"kbi_args": ops[0][0], "mjx_kbi": mjx_out[0], "c_kbip": c_out[0]})


SOLVER_TIGHT = ["option tolerance 1e-14", "option iterations 100", "option ls_iterations 50"]

# ------------------------------------------------------------------------------------------ constraint-parameter family
def family_lines(cone, refsafe):
    """one model with a row of every constraint type MJX implements except connect/weld (finding), whose solver parameters are all
    numeric leaves of mjx.Model: plane/sphere and sphere/sphere contacts (free bodies, so that every friction row has a non-zero Jacobian)
    with mixed geom parameters, an explicit contact pair with
    solreffriction, two limited hinges with friction loss, a limited fixed tendon with friction loss, a joint equality"""
    P, S = E("mjGEOM_PLANE"), E("mjGEOM_SPHERE")
    L = ["compiler degree 0"] + SOLVER_TIGHT + ["option cone %d" % E("mjCONE_" + cone), "option disableflags %d" % (0 if refsafe else E("mjDSBL_REFSAFE")),
         "geom 1 0", "set 1 type %d" % P, "set 1 size 5 5 0.1", "name 1 gp",
         "body 2 0", "set 2 pos 0 0 0.1", "freejoint 3 2", "geom 4 2", "set 4 type %d" % S, "set 4 size 0.1",
         "name 4 g1", "set 4 condim 4",
         "body 5 0", "set 5 pos 0.21 0 0.12", "freejoint 6 5", "geom 7 5", "set 7 type %d" % S, "set 7 size 0.12",
         "name 7 g2",
         "body 8 0", "set 8 pos 0 1 0.1", "freejoint 9 8", "geom 10 8", "set 10 type %d" % S, "set 10 size 0.1",
         "name 10 g3", "set 10 contype 0", "set 10 conaffinity 0",
         "pair 11", "set 11 geomname1 gp", "set 11 geomname2 g3", "set 11 condim 6",
         "body 12 0", "set 12 pos 1 0 1", "joint 13 12", "name 13 h1", "set 13 axis 0 1 0", "set 13 limited 1", "set 13 range -0.4 0.4", "set 13 frictionloss 0.1",
         "geom 14 12", "set 14 size 0.08", "set 14 pos 0.3 0 0", "set 14 contype 0", "set 14 conaffinity 0",
         "body 15 12", "set 15 pos 0.4 0 0", "joint 16 15", "name 16 h2", "set 16 axis 0 1 0", "set 16 limited 1", "set 16 range -0.5 0.5", "set 16 frictionloss 0.05",
         "geom 17 15", "set 17 size 0.06", "set 17 pos 0.25 0 0", "set 17 contype 0", "set 17 conaffinity 0",
         "tendon 18", "wrap 18 joint h1 1.0", "wrap 18 joint h2 0.7", "set 18 limited 1", "set 18 range -0.3 0.3", "set 18 frictionloss 0.07",
         "equality 19", "set 19 type %d" % E("mjEQ_JOINT"), "set 19 objtype %d" % E("mjOBJ_JOINT"), "set 19 name1 h2", "set 19 name2 h1", "set 19 data 0.05 0.6 0 0 0"]
    return L


def fmt_f(v):
    return " ".join(repr(float(x)) for x in v)


def draw_solref(rng, ts, hist):
    f = rng.choice(("standard", "standard", "standard-below-2dt", "direct", "direct"))
    hist["solref=" + f] = hist.get("solref=" + f, 0) + 1
    if f == "standard":
        return [rng.uniform(0.01, 0.08), rng.choice((1.0, rng.uniform(0.3, 2.0)))]
    if f == "standard-below-2dt":
        return [ts * rng.uniform(0.3, 2.0), rng.uniform(0.5, 1.5)]
    return [-rng.uniform(100.0, 4000.0), -rng.uniform(1.0, 80.0)]


def draw_solimp(rng, hist):
    a, b = sorted((rng.uniform(0.2, 0.99), rng.uniform(0.2, 0.99)))
    if rng.random() < 0.15:
        b = a
    pk = rng.choice(("1", "2", "2", "3", "real"))
    hist["solimp power=" + pk] = hist.get("solimp power=" + pk, 0) + 1
    return [a, b, 10 ** rng.uniform(-3.5, -1.3), rng.uniform(0.1, 0.9), {"1": 1.0, "2": 2.0, "3": 3.0, "real": rng.uniform(1.0, 5.0)}[pk]]


EULER_SPARSE_INDEX = "m.M_rowadr + m.M_rownnz - 1"


def euler_source_shape(ctx):
    """the sparse branch of euler() in mjx/_src/forward.py adds `m.opt.timestep * m.dof_damping` at the index expression that diagAdr models"""
    import ast
    path = os.path.join(common.REPO, "mjx", "mujoco", "mjx", "_src", "forward.py")
    found, why = None, "euler() / `if support.is_sparse(m)` / `.at[...].add(...)` not found"
    try:
        tree = ast.parse(open(path).read())
        fn = next(n for n in tree.body if isinstance(n, ast.FunctionDef) and n.name == "euler")
        for node in ast.walk(fn):
            if isinstance(node, ast.If) and ast.unparse(node.test) == "support.is_sparse(m)":
                env = {}
                for st in node.body:
                    if isinstance(st, ast.Assign) and len(st.targets) == 1 and isinstance(st.targets[0], ast.Name):
                        env[st.targets[0].id] = st.value
                for st in node.body:
                    for c in ast.walk(st):
                        if (isinstance(c, ast.Call) and isinstance(c.func, ast.Attribute) and c.func.attr == "add" and isinstance(c.func.value, ast.Subscript)
                                and isinstance(c.func.value.value, ast.Attribute) and c.func.value.value.attr == "at"):
                            idx = c.func.value.slice
                            if isinstance(idx, ast.Name) and idx.id in env:
                                idx = env[idx.id]
                            found = (ast.unparse(c.func.value.value.value), ast.unparse(idx), ast.unparse(c.args[0]) if c.args else "")
                dense = [ast.unparse(st.value) for st in node.orelse if isinstance(st, ast.Assign)]
                if found:
                    why = "matrix %s, index %s, value %s, dense branch %s" % (found + (dense,))
                    ok = found == ("d._impl.M", EULER_SPARSE_INDEX, "m.opt.timestep * m.dof_damping") and dense == ["d._impl.M + jp.diag(m.opt.timestep * m.dof_damping)"]
                    ctx.oblige("source shape of euler(): the sparse branch adds m.opt.timestep * m.dof_damping to d._impl.M at `%s` (the expression Model/MjxMath.diagAdr "
                               "models), the dense branch adds jp.diag of the same vector" % EULER_SPARSE_INDEX, "translator", ok, why)
                    return
    except Exception as e:   # pylint: disable=broad-except
        why = "%s: %s" % (type(e).__name__, e)
    ctx.oblige("source shape of euler(): sparse-branch index expression extracted", "translator", False, why)


def layout_tie(ctx, pair):
    """Lean sparseRows / diagAdr on dof_parentid vs M_rowadr + M_rownnz - 1 and M_colind of every model the tree compiled in this run (exact)"""
    drv = ctx.driver("drv_c43")
    if not drv or not pair.layouts:
        return
    keys = list(pair.layouts)
    lines = ["diagadr " + " ".join(fbits(float(x)) for x in k) for k in keys] + ["diagadr " + fbits(0.5)]
    rc, out, err = ctx.run_lines([drv], lines)
    if rc or len(out) != len(lines):
        raise common.Infra("drv_c43 failed on the layout stream: %s" % err[-300:])
    bad = []
    for k, l, o in zip(keys, lines, out):
        want = " ".join(fbits(float(x)) for x in pair.layouts[k])
        ctx.count(l, nontrivial=max(k) >= 0)
        if o != want:
            bad.append({"dof_parentid": list(k), "model(diag addresses, colind)": [frombits(t) for t in o.split()] if o != "bad-op" else o, "impl(tree-compiled)": pair.layouts[k]})
    if out[-1] != "bad-op":
        bad.append({"line": lines[-1], "model": out[-1], "impl": "bad-op"})
    ctx.oblige("correspondence layout of the sparse inertia matrix: Lean sparseRows/diagAdr(dof_parentid) vs M_rowadr + M_rownnz - 1 and M_colind of the tree-compiled "
               "models (%d distinct dof trees, %d with ancestor dofs; exact; %d models with reduced rows of simple dofs left out)"
               % (len(keys), sum(1 for k in keys if max(k) >= 0), pair.layouts_skipped), "correspondence", not bad, json.dumps(bad[:4]))


# ------------------------------------------------------------------------------------------ storage x integrator family
def chain_lines(jac, integ, eulerdamp):
    """a branched chain without contacts: hinge - hinge(limited, friction loss) - ball on one branch, slide(spring) - hinge on the other, a second
    tree with one hinge, a fixed tendon with stiffness and damping, a filtered position servo with velocity feedback; every dof below the root of the
    first tree has ancestor dofs, so the rows of the sparse mass matrix have off-diagonal entries.  jac / integ / eulerdamp are static in MJX."""
    dis = 0 if eulerdamp else E("mjDSBL_EULERDAMP")
    nc = ["set %d contype 0", "set %d conaffinity 0"]
    L = ["compiler degree 0"] + SOLVER_TIGHT + ["option jacobian %d" % E("mjJAC_" + jac), "option integrator %d" % E("mjINT_" + integ), "option disableflags %d" % dis,
         "body 2 0", "set 2 pos 0 0 1", "joint 3 2", "name 3 h1", "set 3 axis 0 1 0", "set 3 damping 0.3", "geom 4 2", "set 4 size 0.08", "set 4 pos 0.2 0 0"] + [x % 4 for x in nc] + [
         "body 5 2", "set 5 pos 0.4 0 0", "joint 6 5", "name 6 h2", "set 6 axis 1 0 0", "set 6 limited 1", "set 6 range -0.6 0.6", "set 6 frictionloss 0.05", "set 6 damping 0.2",
         "geom 7 5", "set 7 size 0.07", "set 7 pos 0.15 0.1 0"] + [x % 7 for x in nc] + [
         "body 8 5", "set 8 pos 0.3 0 0", "joint 9 8", "name 9 b", "set 9 type %d" % E("mjJNT_BALL"), "set 9 damping 0.1", "geom 10 8", "set 10 type %d" % E("mjGEOM_CAPSULE"),
         "set 10 size 0.04 0.12", "set 10 pos 0.1 0 0.1"] + [x % 10 for x in nc] + [
         "body 11 2", "set 11 pos 0 0.3 0", "joint 12 11", "name 12 s", "set 12 type %d" % E("mjJNT_SLIDE"), "set 12 axis 0 0 1", "set 12 stiffness 20", "set 12 damping 0.5",
         "geom 13 11", "set 13 size 0.06"] + [x % 13 for x in nc] + [
         "body 14 11", "set 14 pos 0 0.2 0", "joint 15 14", "name 15 h3", "set 15 axis 0 1 0", "set 15 damping 0.1", "set 15 armature 0.02", "geom 16 14", "set 16 size 0.05",
         "set 16 pos 0.2 0 0"] + [x % 16 for x in nc] + [
         "body 17 0", "set 17 pos 1 1 1", "joint 18 17", "name 18 h4", "set 18 axis 0 0 1", "set 18 damping 0.4", "geom 19 17", "set 19 size 0.1", "set 19 pos 0.3 0 0"] + [x % 19 for x in nc] + [
         "tendon 20", "wrap 20 joint h1 1.0", "wrap 20 joint h3 -0.8", "set 20 stiffness 5", "set 20 damping 0.3",
         "actuator 21", "set 21 trntype %d" % E("mjTRN_JOINT"), "set 21 target h3", "set 21 dyntype %d" % E("mjDYN_FILTER"), "set 21 dynprm 0.05",
         "set 21 gainprm 8", "set 21 biastype %d" % E("mjBIAS_AFFINE"), "set 21 biasprm 0 -8 -0.7"]
    return L


def run_storage_family(ctx, pair, orc, rng, quick):
    """every MJX code path selected by support.is_sparse(m) (mass-matrix storage: crb, factor_m, solve_m, mul_m, full_m, the implicit damping of
    euler, the derivative of implicitfast) x every integrator, on the chain model: damping / armature / stiffness / gains / time step and the
    state are redrawn on a fixed structure; compared with mj_forward and mj_step of the C engine built with the same jacobian option"""
    hist = ctx.extra.setdefault("storage_family_histogram", {})
    allv = [(j, i, True) for j in ("SPARSE", "DENSE") for i in ("EULER", "RK4", "IMPLICITFAST")] + [("SPARSE", "EULER", False), ("DENSE", "EULER", False)]
    if quick:
        # quick tier: Euler with both storages always (the one integrator whose code branches on the storage), one further integrator per storage
        # drawn per seed; only mjx.step is traced (its result depends on every forward quantity)
        variants = [("SPARSE", "EULER", True), ("DENSE", "EULER", True), ("SPARSE", rng.choice(("RK4", "IMPLICITFAST")), True), ("DENSE", rng.choice(("RK4", "IMPLICITFAST")), True)]
    else:
        variants = allv
    ndraw = 3 if quick else 25
    ran = 0
    for jac, integ, ed in variants:
        L = chain_lines(jac, integ, ed)
        co, ho = pair.load(L)
        if not pair.c_ok:
            ctx.oblige("tree build compiles the storage x integrator family model", "environment", False, co)
            return
        tag = "jacobian=%s integrator=%s%s" % (jac.lower(), integ.lower(), "" if ed else " eulerdamp-disabled")
        rp0 = {"model_description": L, "variant": tag, "how": "load the description on both sides, apply the 'setm' lines on both sides, set the state, forward / step"}
        if not ho.startswith("ok"):
            orc.n += 1
            orc.fail("c43:gate:rejects-supported-model", "the storage x integrator family model (%s) is rejected: %s" % (tag, ho[:200]), rp0)
            continue
        n, bad = pair.model_equal()
        if bad:
            ctx.oblige("wheel-compiled model equals tree-compiled model (%d arrays, storage family)" % n, "environment", False, "; ".join(bad[:8]))
            continue
        # the diagonal of row i of the sparse inertia matrix is its LAST entry (the index map euler() relies on), on the model the tree compiled
        def marr(nm):
            return [int(float(x)) for x in pair.c.ask("numm " + nm).split(":", 1)[1].split()]
        rn, ra, ci = marr("M_rownnz"), marr("M_rowadr"), marr("M_colind")
        ctx.oblige("storage family (%s): M_colind[M_rowadr[i] + M_rownnz[i] - 1] = i for every dof of the tree-compiled model, and some row has more than one entry" % tag,
                   "environment", all(ci[a + k - 1] == i for i, (a, k) in enumerate(zip(ra, rn))) and max(rn) > 1, "rownnz %s rowadr %s colind %s" % (rn, ra, ci))
        nv, njnt = pair.sizes["nv"], pair.sizes["njnt"]
        hist[tag] = 0
        for di in range(ndraw):
            ts = rng.choice((0.001, 0.002, 0.005, 0.01))
            kp, kv = rng.uniform(2, 20), rng.uniform(0.0, 2.0)
            prm = {"opt.timestep": [ts],
                   "dof_damping": [rng.choice((0.0, rng.uniform(0.05, 3.0), rng.uniform(0.05, 3.0))) for _ in range(nv)],
                   "dof_armature": [rng.choice((0.0, rng.uniform(0.005, 0.2))) for _ in range(nv)],
                   "jnt_stiffness": [rng.choice((0.0, rng.uniform(1.0, 40.0))) for _ in range(njnt)],
                   "dof_frictionloss": [0.0, rng.uniform(0.01, 0.3)] + [0.0] * (nv - 2),
                   "tendon_stiffness": [rng.choice((0.0, rng.uniform(1.0, 20.0)))], "tendon_damping": [rng.choice((0.0, rng.uniform(0.05, 2.0)))],
                   "actuator_gainprm": [kp] + [0.0] * 9, "actuator_biasprm": [0.0, -kp, -kv] + [0.0] * 7}
            prm["dof_damping"][rng.randrange(1, nv - 1)] = rng.uniform(0.1, 3.0)    # at least one damped dof with an ancestor dof
            setm = ["setm %s %s" % (k, " ".join(repr(float(x)) for x in v)) for k, v in prm.items()]
            for l in setm:
                a, b = pair.c.ask(l), pair.h.ask(l)
                if a != "ok" or b != "ok":
                    raise common.Infra("setm rejected (%s / %s): %s" % (a, b, l[:80]))
            st = {"qpos": [rng.uniform(-1, 1), rng.choice((rng.uniform(-0.5, 0.5), rng.choice((-1, 1)) * rng.uniform(0.6, 0.65)))] + unit(rng, 4)
                          + [rng.uniform(-0.2, 0.2), rng.uniform(-1, 1), rng.uniform(-1, 1)],
                  "qvel": [rng.gauss(0, 1.0) for _ in range(nv)], "act": [rng.uniform(-0.5, 0.5)], "ctrl": [rng.uniform(-1, 1)]}
            pair.set_state(st)
            rps = dict(rp0, setm=setm, state=st)
            if not quick:
                if pair.c.ask("forward 0") != "ok":
                    continue
                if pair.h.ask("forward", timeout=900) != "ok":
                    orc.n += 1
                    orc.fail("c43:mjx-forward-raises", "mjx.forward raised on the storage x integrator family model (%s)" % tag, rps)
                    break
                ctx.count(("storage", tag, di, "forward"))
                pair.compare(["qfrc_bias", "qfrc_passive", "qfrc_actuator", "qacc_smooth", "qfrc_constraint", "qacc", "act_dot"], "storage-forward", rps, tol=TOL_FAMILY)
                pair.compare_M(rps)
                pair.compare_efc(rps, tol=TOL_FAMILY, tag="storage-", tol_static=1e-9)
            nstep = rng.choice((1, 1, 3))
            if pair.c.ask("step 0 %d" % nstep) == "ok":
                if pair.h.ask("step %d" % nstep, timeout=900) != "ok":
                    orc.n += 1
                    orc.fail("c43:mjx-step-raises", "mjx.step raised on the storage x integrator family model (%s)" % tag, rps)
                    break
                ctx.count(("storage", tag, di, "step"))
                pair.compare(["qpos", "qvel", "act"], "storage-step[%s %s]" % (jac.lower(), integ.lower()), dict(rps, nstep=nstep), tol=TOL_FAMILY)
            hist[tag] += 1
            ran += 1
    ctx.extra["storage_family_states_run"] = ran


def run_family(ctx, pair, orc, rng, quick):
    """C engine versus MJX on the family model: every solver parameter (solref in both formats, solimp, margins, gaps, solmix, friction,
    friction loss, time step) and the state are redrawn; the structure (hence the compiled MJX program) is fixed per (cone, REFSAFE)"""
    hist = ctx.extra.setdefault("family_parameter_histogram", {})
    variants = [(c, r) for c in ("PYRAMIDAL", "ELLIPTIC") for r in (True, False)]
    if quick:
        c0 = rng.choice(("PYRAMIDAL", "ELLIPTIC"))
        variants = [(c0, True), ("ELLIPTIC" if c0 == "PYRAMIDAL" else "PYRAMIDAL", False)]
    ndraw = 6 if quick else 40
    ran = 0
    for cone, refsafe in variants:
        L = family_lines(cone, refsafe)
        co, ho = pair.load(L)
        if not pair.c_ok:
            ctx.oblige("tree build compiles the constraint-parameter family model", "environment", False, co)
            return
        rp0 = {"model_description": L, "how": "load the description on both sides, apply the 'setm' lines on both sides, set the state, forward / step"}
        if not ho.startswith("ok"):
            orc.n += 1
            orc.fail("c43:gate:rejects-supported-model", "the constraint-parameter family model is rejected: " + ho[:200], rp0)
            continue
        n, bad = pair.model_equal()
        if bad:
            ctx.oblige("wheel-compiled model equals tree-compiled model (%d arrays, family model)" % n, "environment", False, "; ".join(bad[:8]))
            continue
        sz = pair.sizes
        ngeom, njnt, nv, nt = sz["ngeom"], sz["njnt"], sz["nv"], sz["ntendon"]
        for di in range(ndraw):
            ts = rng.choice((0.001, 0.002, 0.005, 0.02))
            prm = {"opt.timestep": [ts]}
            for name, cnt in (("jnt", njnt), ("dof", nv), ("geom", ngeom), ("pair", 1), ("eq", 1)):
                prm[name + "_solref"] = sum((draw_solref(rng, ts, hist) for _ in range(cnt)), [])
                prm[name + "_solimp"] = sum((draw_solimp(rng, hist) for _ in range(cnt)), [])
            for name in ("tendon_solref_lim", "tendon_solref_fri"):
                prm[name] = sum((draw_solref(rng, ts, hist) for _ in range(nt)), [])
            for name in ("tendon_solimp_lim", "tendon_solimp_fri"):
                prm[name] = sum((draw_solimp(rng, hist) for _ in range(nt)), [])
            z = rng.random() < 0.3
            prm["pair_solreffriction"] = [0.0, 0.0] if z else draw_solref(rng, ts, hist)
            hist["pair solreffriction " + ("zero" if z else "set")] = hist.get("pair solreffriction " + ("zero" if z else "set"), 0) + 1
            prm["jnt_margin"] = [rng.choice((0.0, rng.uniform(0.0, 0.03))) for _ in range(njnt)]
            prm["tendon_margin"] = [rng.choice((0.0, rng.uniform(0.0, 0.03))) for _ in range(nt)]
            prm["geom_margin"] = [rng.choice((0.0, rng.uniform(0.0, 0.02))) for _ in range(ngeom)]
            prm["geom_gap"] = [rng.choice((0.0, 0.0, rng.uniform(0.0, 0.01))) for _ in range(ngeom)]
            prm["pair_margin"] = [rng.choice((0.0, rng.uniform(0.0, 0.02)))]
            prm["pair_gap"] = [rng.choice((0.0, rng.uniform(0.0, 0.01)))]
            prm["geom_solmix"] = [rng.choice((1.0, 1.0, 0.0, rng.uniform(0.1, 3.0))) for _ in range(ngeom)]
            prm["geom_friction"] = sum(([rng.uniform(0.3, 1.5), rng.uniform(0.002, 0.02), rng.uniform(0.0001, 0.001)] for _ in range(ngeom)), [])
            prm["pair_friction"] = [rng.uniform(0.3, 1.5), rng.uniform(0.3, 1.5), rng.uniform(0.002, 0.02), rng.uniform(0.0001, 0.001), rng.uniform(0.0001, 0.001)]
            prm["dof_frictionloss"] = [0.0] * (nv - 2) + [rng.uniform(0.02, 0.5), rng.uniform(0.02, 0.5)]
            prm["tendon_frictionloss"] = [rng.uniform(0.02, 0.3)]
            setm = ["setm %s %s" % (k, " ".join(repr(float(x)) for x in v)) for k, v in prm.items()]
            for l in setm:
                a, b = pair.c.ask(l), pair.h.ask(l)
                if a != "ok" or b != "ok":
                    raise common.Infra("setm rejected (%s / %s): %s" % (a, b, l[:80]))

            def lim(r):
                k = rng.choice(("beyond", "beyond", "in-margin", "inside"))
                return rng.choice((-1, 1)) * {"beyond": r + rng.uniform(0.0, 0.05), "in-margin": r - rng.uniform(0.0, 0.02), "inside": r * rng.uniform(0.0, 0.8)}[k]
            st = {"qpos": [0.0, 0.0, 0.1 + rng.uniform(-0.03, 0.025), 1.0, 0.0, 0.0, 0.0, 0.21, 0.0, 0.12 + rng.uniform(-0.03, 0.025), 1.0, 0.0, 0.0, 0.0,
                           0.0, 1.0, 0.1 + rng.uniform(-0.03, 0.025), 1.0, 0.0, 0.0, 0.0, lim(0.4), lim(0.5)],
                  "qvel": [rng.gauss(0, 0.3) for _ in range(nv)]}
            pair.set_state(st)
            rps = dict(rp0, setm=setm, state=st, cone=cone, refsafe=refsafe)
            if pair.c.ask("forward 0") != "ok":
                continue
            if pair.h.ask("forward", timeout=900) != "ok":
                orc.n += 1
                orc.fail("c43:mjx-forward-raises", "mjx.forward raised on the constraint-parameter family model", rps)
                break
            ctx.count(("family", cone, refsafe, di, "forward"))
            ncon = pair.compare_contacts(rps)
            hist["rows: contacts=%d" % min(ncon, 4)] = hist.get("rows: contacts=%d" % min(ncon, 4), 0) + 1
            nefc = int(pair.c.ask("scalar 0 nefc"))
            hist["states"] = hist.get("states", 0) + 1
            hist["constraint rows (total)"] = hist.get("constraint rows (total)", 0) + nefc
            pair.compare_efc(rps, tol=TOL_FAMILY, tag="family-", tol_static=1e-9)
            pair.compare(["qfrc_constraint", "qacc", "qfrc_passive", "qacc_smooth"], "family-forward", rps, tol=TOL_FAMILY)
            if pair.c.ask("step 0 1") == "ok":
                if pair.h.ask("step 1", timeout=900) != "ok":
                    orc.fail("c43:mjx-step-raises", "mjx.step raised on the constraint-parameter family model", rps)
                    break
                ctx.count(("family", cone, refsafe, di, "step"))
                pair.compare(["qpos", "qvel"], "family-step", rps, tol=TOL_FAMILY)
            ran += 1
    ctx.extra["family_states_run"] = ran
    ctx.extra["family_variants"] = ["cone=%s refsafe=%s" % v for v in variants]



def drop_handles(lines, handles):
    """remove the creation line and every `set/name/wrap` line of the given handles"""
    hs = {str(h) for h in handles}
    return [l for l in lines if not (len(l.split()) > 1 and l.split()[1] in hs and l.split()[0] not in ("option", "spec", "compiler"))]


def agree_model(rng, quick):
    """a model inside MJX's feature set on which agreement with C is expected: analytic colliders (plane, sphere, capsule),
    solver tolerance tightened on both sides.  The confirmed findings (each exercised by its own directed case in
    run_directed) are kept out of this generic comparison so that it keeps its sensitivity to everything else:
    implicitfast with free joints, force-limited or muscle actuators, touch sensors without colliding geoms, elliptic cone without frictional contacts, connect/weld equalities, bodies attached to
    a mocap body, colliding geoms on mocap bodies, models without degrees of freedom."""
    for _ in range(20):
        contacts = rng.choice((0.0, 1.0, 1.0))
        over = {"geom_types": ("sphere", "capsule"), "contacts": contacts, "nbody": (1, 4), "plane": 0.8 if contacts else 0.3,
                "condim": (3, 3, 4, 6, 1), "mocap": 0.15, "equalities": 0.4, "tendons": 0.3, "sensors": (0, 5), "pairs": 0.0,
                "actuators": (0, 3), "gravcomp": rng.choice((0.0, 0.0, 0.3)), "multi_joint": 0.2, "no_filterparent": 0.1}
        mdl = G.make_model(rng, over, SOLVER_TIGHT)
        if mdl.nv == 0:
            continue
        break
    has_free = any(j["type"] == "free" for j in mdl.joints)
    has_plane = any(g["type"] == "plane" for g in mdl.geoms)
    # connect / weld equalities out
    eqh = []
    for i, l in enumerate(mdl.lines):
        w = l.split()
        if w[0] == "set" and w[2] == "type" and int(w[3]) in (E("mjEQ_CONNECT"), E("mjEQ_WELD")) and ("equality " + w[1]) in mdl.lines:
            eqh.append(w[1])
    if eqh:
        mdl.lines = drop_handles(mdl.lines, eqh)
        mdl.equalities = []
    # a mocap body with children becomes an ordinary static body
    parents = {l.split()[2] for l in mdl.lines if l.startswith("body ")}
    mdl.lines = [l for l in mdl.lines if not (l.split()[0] == "set" and l.split()[2:] == ["mocap", "1"] and l.split()[1] in parents)]
    nmocap = sum(1 for l in mdl.lines if l.split()[0] == "set" and l.split()[2:] == ["mocap", "1"])
    # geoms of mocap bodies do not collide (MJX lists contacts between a mocap body and the world, the C engine filters them)
    mocap_h = {l.split()[1] for l in mdl.lines if l.split()[0] == "set" and l.split()[2:] == ["mocap", "1"]}
    for l in list(mdl.lines):
        w = l.split()
        if w[0] == "geom" and w[2] in mocap_h:
            mdl.lines += ["set %s contype 0" % w[1], "set %s conaffinity 0" % w[1]]
    if nmocap != mdl.nmocap:
        mdl.nmocap = nmocap
    # capsules at least 0.3 long: math.closest_segment_point divides by |segment|^2 + 1e-6, a relative error of 1e-6/|segment|^2 that reaches
    # 1e-4 for the shortest capsules of the generator (observed 8.8e-4 on qacc); with this floor it stays below 1.2e-5
    for g in mdl.geoms:
        if g["type"] == "capsule" and g["size"][1] < 0.15:
            new_len = 0.15 + 0.1 * rng.random()
            mdl.lines = [("set %d size %r %r" % (g["handle"], g["size"][0], new_len)) if l.split()[:3] == ["set", str(g["handle"]), "size"] else l
                         for l in mdl.lines]
    # a touch sensor in a model without any colliding geom makes sensor_acc raise (finding, directed case 10)
    if not contacts:
        th = [l.split()[1] for l in mdl.lines if l.split()[0] == "set" and l.split()[2:] == ["type", str(E("mjSENS_TOUCH"))] and ("sensor " + l.split()[1]) in mdl.lines]
        if th:
            mdl.lines = drop_handles(mdl.lines, th)
    fix = {}
    if mdl.options["integrator"] == "implicitfast" and any(l.split()[2:] == ["dyntype", str(E("mjDYN_MUSCLE"))] for l in mdl.lines):
        fix["integrator"] = E("mjINT_" + rng.choice(("EULER", "RK4")))
    if mdl.options["integrator"] == "implicitfast" and any(l.split()[2:3] == ["forcelimited"] for l in mdl.lines):
        fix["integrator"] = E("mjINT_" + rng.choice(("EULER", "RK4")))
    if mdl.options["integrator"] == "implicitfast" and has_free:
        fix["integrator"] = E("mjINT_" + rng.choice(("EULER", "RK4")))
    if mdl.options["cone"] == "elliptic" and not (contacts and has_plane):
        fix["cone"] = E("mjCONE_PYRAMIDAL")
    if fix:
        mdl.lines = [("option %s %d" % (l.split()[1], fix[l.split()[1]])) if (l.startswith("option ") and l.split()[1] in fix) else l for l in mdl.lines]
        for k in fix:
            mdl.options[k] = "(changed: see agree_model)"
    # solver parameters: two models in three get non-default solref (both formats) / solimp / solmix on their joints, geoms, tendons and
    # equalities, one in three of those runs with the REFSAFE safeguard disabled
    mdl.options["solver_params"] = "default"
    if rng.random() < 0.67:
        ph = {}
        extra = []
        for l in mdl.lines:
            w = l.split()
            if w[0] == "joint":
                if rng.random() < 0.6:
                    extra += ["set %s solref_limit %s" % (w[1], fmt_f(draw_solref(rng, 0.002, ph))), "set %s solimp_limit %s" % (w[1], fmt_f(draw_solimp(rng, ph)))]
                if rng.random() < 0.6:
                    extra += ["set %s solref_friction %s" % (w[1], fmt_f(draw_solref(rng, 0.002, ph))), "set %s solimp_friction %s" % (w[1], fmt_f(draw_solimp(rng, ph)))]
            elif w[0] == "geom" and rng.random() < 0.6:
                extra += ["set %s solref %s" % (w[1], fmt_f(draw_solref(rng, 0.002, ph))), "set %s solimp %s" % (w[1], fmt_f(draw_solimp(rng, ph))),
                          "set %s solmix %r" % (w[1], rng.choice((1.0, 0.0, rng.uniform(0.1, 3.0))))]
            elif w[0] == "tendon" and rng.random() < 0.6:
                extra += ["set %s solref_limit %s" % (w[1], fmt_f(draw_solref(rng, 0.002, ph))), "set %s solimp_limit %s" % (w[1], fmt_f(draw_solimp(rng, ph))),
                          "set %s solref_friction %s" % (w[1], fmt_f(draw_solref(rng, 0.002, ph))), "set %s solimp_friction %s" % (w[1], fmt_f(draw_solimp(rng, ph)))]
            elif w[0] == "equality" and rng.random() < 0.6:
                extra += ["set %s solref %s" % (w[1], fmt_f(draw_solref(rng, 0.002, ph))), "set %s solimp %s" % (w[1], fmt_f(draw_solimp(rng, ph)))]
        mdl.lines += extra
        mdl.options["solver_params"] = "randomised"
        if rng.random() < 0.33:
            mdl.lines = [("option disableflags %d" % (int(l.split()[2]) | E("mjDSBL_REFSAFE"))) if l.startswith("option disableflags ") else l for l in mdl.lines]
            mdl.options["solver_params"] = "randomised, REFSAFE disabled"
    return mdl


def run_agree(ctx, pair, orc, rng, quick, nmodels):
    hist = ctx.extra.setdefault("model_feature_histogram", {})
    done = 0
    for mi in range(nmodels):
        mdl = agree_model(rng, quick)
        co, ho = pair.load(mdl.lines)
        rp = {"model_description": mdl.lines, "how": "feed 'model' + description + 'end' to harness/c/c43_engine.c and 'model 0 ; <lines joined by |>' to harness/py/c43_mjx.py"}
        if not pair.c_ok:
            ctx.oblige("tree build compiles generated model", "environment", False, co)
            continue
        if not ho.startswith("ok"):
            orc.n += 1
            orc.fail("c43:gate:rejects-supported-model", "a model inside the documented feature set is rejected: " + ho[:200], rp)
            continue
        n, bad = pair.model_equal()
        if bad:
            ctx.oblige("wheel-compiled model equals tree-compiled model (%d arrays)" % n, "environment", False, "; ".join(bad[:8]))
            continue
        ctx.extra["model_arrays_cross_checked"] = ctx.extra.get("model_arrays_cross_checked", 0) + n
        for k in ("integrator", "solver", "cone", "solver_params", "jacobian"):
            if k not in mdl.options:
                continue
            hist["%s=%s" % (k, mdl.options[k])] = hist.get("%s=%s" % (k, mdl.options[k]), 0) + 1
        for k, v in (("free", any(j["type"] == "free" for j in mdl.joints)), ("ball", any(j["type"] == "ball" for j in mdl.joints)),
                     ("actuators", bool(mdl.actuators)), ("tendons", bool(mdl.tendons)), ("equalities", bool(mdl.equalities)),
                     ("sensors", bool(mdl.sensors)), ("mocap", mdl.nmocap > 0)):
            if v:
                hist[k] = hist.get(k, 0) + 1
        if mdl.options["cone"] == "elliptic" and not any(c["dim"] > 1 for c in json.loads(pair.h.ask("out contacts"))["contacts"]):
            # no candidate pair of condim > 1 after contype/conaffinity filtering: finding c43:elliptic-no-contact-typeerror (directed case 1)
            hist["models skipped: elliptic cone without a frictional contact candidate (finding, directed case 1)"] = \
                hist.get("models skipped: elliptic cone without a frictional contact candidate (finding, directed case 1)", 0) + 1
            continue
        mask = {"sensordata": pair.static_acc_slots()}
        if mask["sensordata"]:
            hist["models with a linear-acceleration sensor on a static body (slots masked: finding, directed case 16)"] = \
                hist.get("models with a linear-acceleration sensor on a static body (slots masked: finding, directed case 16)", 0) + 1
        for si in range(2 if quick else 4):
            # a state the C engine itself reaches: perturb, simulate a few steps in C, read the state back
            st0 = mdl.random_state(rng, scale=0.15)
            st0.pop("xfrc_applied")
            st0.pop("qfrc_applied")
            st0["qvel"] = [0.3 * x for x in st0["qvel"]]
            pair.c.ask("resetdata 0")
            for k, v in st0.items():
                if v:
                    pair.c.ask("set 0 %s %s" % (k, " ".join(repr(float(x)) for x in v)))
            pair.c.ask("step 0 %d" % rng.choice((0, 1, 5, 20, 60)))
            st = pair.c_state()
            if any(x != x or abs(x) > 1e6 for v in st.values() for x in v):
                continue
            nb = pair.sizes["nbody"]
            st["ctrl"] = [rng.uniform(-1, 1) for _ in range(pair.sizes["nu"])]
            st["qfrc_applied"] = [rng.gauss(0, 0.5) if rng.random() < 0.3 else 0.0 for _ in range(pair.sizes["nv"])]
            st["xfrc_applied"] = [rng.gauss(0, 0.5) if rng.random() < 0.15 else 0.0 for _ in range(6 * nb)]
            pair.set_state(st)
            rps = dict(rp, state=st)
            if pair.c.ask("forward 0") != "ok":
                continue
            r = pair.h.ask("forward", timeout=900)
            if r != "ok":
                orc.n += 1
                orc.fail("c43:mjx-forward-raises", "mjx.forward raised on a model put_model accepted (see harness stderr)", rps)
                break
            ctx.count((mi, si, "forward"))
            if pair.steep_capsule_on_plane():
                hist["states skipped: capsule standing steeply on a plane (finding, directed case 15)"] = hist.get("states skipped: capsule standing steeply on a plane (finding, directed case 15)", 0) + 1
                continue
            ncon = pair.compare_contacts(rps)
            fields = FWD_FIELDS
            if json.loads(pair.h.ask("out efc"))["efc"]["nefc_static"] == 0:
                # no constraint rows at all: mjx.forward returns before sensor_acc (finding c43:acc-sensors-skipped-without-constraints,
                # exercised by its directed case); the acceleration-stage sensors are not compared here
                fields = [f for f in FWD_FIELDS if f != "sensordata"]
            pair.compare(fields, "forward" + ("+contacts" if ncon else ""), rps, ncon=ncon, mask=mask)
            pair.compare_M(rps)
            pair.compare_efc(rps)
            hist["states_with_contacts" if ncon else "states_without_contacts"] = hist.get("states_with_contacts" if ncon else "states_without_contacts", 0) + 1
            # one step from the same state
            if pair.c.ask("step 0 1") != "ok":
                continue
            if pair.h.ask("step 1", timeout=900) != "ok":
                orc.fail("c43:mjx-step-raises", "mjx.step raised on a model put_model accepted", rps)
                break
            ctx.count((mi, si, "step"))
            pair.compare(STEP_FIELDS, "step" + ("+contacts" if ncon else ""), rps, ncon=ncon)
            if si == 0 and mi < 2:
                ctx.sample({"model": mi, "options": mdl.options, "nq": pair.sizes["nq"], "ncon": ncon,
                            "qacc_c": (pair.cnum("qacc") or [])[:4]})
        done += 1
    ctx.extra["agree_models_run"] = done


# ------------------------------------------------------------------------------------------ documented gate (oracle side)
# doc/mjx.rst, feature parity table: what a model may use.  Used only to predict NotImplementedError for the
# single-feature variants below; the machine-checked comparison of the code's gate with this table is the theorem
# gate_matches_spec (the Lean transcription in Spec/MjxGate.lean).
DOC = {
    "integrator": {"mjINT_EULER", "mjINT_RK4", "mjINT_IMPLICITFAST"},
    "solver": {"mjSOL_CG", "mjSOL_NEWTON"},
    "enable": {"mjENBL_INVDISCRETE"},
    "dyn": {"mjDYN_NONE", "mjDYN_INTEGRATOR", "mjDYN_FILTER", "mjDYN_FILTEREXACT", "mjDYN_MUSCLE"},
    "gain": {"mjGAIN_FIXED", "mjGAIN_AFFINE", "mjGAIN_MUSCLE"},
    "bias": {"mjBIAS_NONE", "mjBIAS_AFFINE", "mjBIAS_MUSCLE"},
    "sensor_rejected_examples": ["mjSENS_JOINTLIMITPOS", "mjSENS_JOINTLIMITVEL", "mjSENS_JOINTLIMITFRC"],
    "unsupported_pairs": {("box", "ellipsoid"), ("box", "cylinder")},
    "supported_pairs": {("sphere", "ellipsoid"), ("capsule", "cylinder"), ("ellipsoid", "cylinder"), ("box", "box"), ("sphere", "box")},
}
BASE = ["geom 1 0", "set 1 type %d" % 0, "set 1 size 5 5 0.1", "body 2 0", "set 2 pos 0 0 0.5", "joint 3 2", "name 3 j", "set 3 axis 0 1 0",
        "set 3 limited 1", "set 3 range -1 1", "geom 4 2", "set 4 size 0.1", "set 4 pos 0.2 0 0", "name 4 ga", "site 5 2", "name 5 s"]


def gate_variants():
    """(label, description lines, documented verdict: True = must be accepted)"""
    V = []
    for name in ("mjINT_EULER", "mjINT_RK4", "mjINT_IMPLICIT", "mjINT_IMPLICITFAST"):
        V.append(("integrator=" + name, ["option integrator %d" % E(name)] + BASE, name in DOC["integrator"]))
    for name in ("mjSOL_PGS", "mjSOL_CG", "mjSOL_NEWTON"):
        V.append(("solver=" + name, ["option solver %d" % E(name)] + BASE, name in DOC["solver"]))
    for name in ("mjENBL_OVERRIDE", "mjENBL_ENERGY", "mjENBL_FWDINV", "mjENBL_INVDISCRETE"):
        V.append(("enable=" + name, ["option enableflags %d" % E(name)] + BASE, name in DOC["enable"]))
    act = ["actuator 9", "set 9 trntype %d" % E("mjTRN_JOINT"), "set 9 target j"]
    for kind, field, names in (("dyn", "dyntype", ("mjDYN_FILTEREXACT", "mjDYN_USER")), ("gain", "gaintype", ("mjGAIN_AFFINE", "mjGAIN_USER")),
                               ("bias", "biastype", ("mjBIAS_AFFINE", "mjBIAS_USER"))):
        for name in names:
            V.append(("%s=%s" % (field, name), BASE + act + ["set 9 %s %d" % (field, E(name))], name in DOC[kind]))
    for name in DOC["sensor_rejected_examples"]:
        V.append(("sensor=" + name, BASE + ["sensor 9", "set 9 type %d" % E(name), "set 9 objtype %d" % E("mjOBJ_JOINT"), "set 9 objname j"], False))
    V.append(("sensor=mjSENS_JOINTPOS", BASE + ["sensor 9", "set 9 type %d" % E("mjSENS_JOINTPOS"), "set 9 objtype %d" % E("mjOBJ_JOINT"), "set 9 objname j"], True))
    sizes = {"sphere": "0.1", "capsule": "0.05 0.1", "box": "0.1 0.1 0.1", "ellipsoid": "0.1 0.08 0.06", "cylinder": "0.05 0.1"}
    for (a, b), ok in [(p, False) for p in sorted(DOC["unsupported_pairs"])] + [(p, True) for p in sorted(DOC["supported_pairs"])]:
        L = ["body 2 0", "set 2 pos 0 0 0.5", "freejoint 3 2", "geom 4 2", "set 4 type %d" % E("mjGEOM_" + a.upper()), "set 4 size " + sizes[a],
             "body 5 0", "set 5 pos 0.1 0 0.5", "freejoint 6 5", "geom 7 5", "set 7 type %d" % E("mjGEOM_" + b.upper()), "set 7 size " + sizes[b]]
        V.append(("collision=%s-%s" % (a, b), L, ok))
    V.append(("elliptic+condim1", ["option cone %d" % E("mjCONE_ELLIPTIC")] + BASE + ["set 4 condim 1", "set 1 condim 1"], False))
    V.append(("implicitfast+fluid", ["option integrator %d" % E("mjINT_IMPLICITFAST"), "option density 1.2"] + BASE, False))
    V.append(("euler+fluid", ["option density 1.2"] + BASE, True))
    return V


def run_gate(ctx, pair, orc, quick):
    res = ctx.extra.setdefault("gate_cases", [])
    for label, lines, doc_ok in gate_variants():
        co, ho = pair.load(lines)
        if not pair.c_ok:
            res.append({"case": label, "skipped": "does not compile in the tree: " + co[:80]})
            continue
        orc.n += 1
        accepted = ho.startswith("ok")
        raised_ni = ho.startswith("notimplemented")
        res.append({"case": label, "documented": "accepted" if doc_ok else "NotImplementedError", "mjx": ho[:90]})
        ctx.count(("gate", label))
        rp = {"model_description": lines, "case": label, "mjx_response": ho[:300]}
        if doc_ok and not accepted:
            orc.fail("c43:gate:rejects-documented:" + label.split("=")[0], "%s is documented as supported but put_model/make_data answered: %s" % (label, ho[:200]), rp)
        elif not doc_ok and not raised_ni:
            orc.fail("c43:gate:accepts-undocumented:" + label.split("=")[0], "%s is documented as unsupported but MJX did not raise NotImplementedError: %s" % (label, ho[:200]), rp)
        elif doc_ok and accepted and not quick and not label.startswith("collision="):
            # (collision cases: acceptance only; the ellipsoid / cylinder colliders of MJX are SDF-based approximations, the two deeply
            # overlapping bodies of these cases are no meaningful numerical comparison)
            # accepted: must also reproduce C on the default state
            pair.set_state({})
            if pair.c.ask("forward 0") == "ok" and pair.h.ask("forward", timeout=900) == "ok":
                pair.compare(["xpos", "qfrc_bias", "qacc", "sensordata"], "gatecase", rp)
            else:
                orc.fail("c43:mjx-forward-raises", "mjx.forward raised on accepted gate case " + label, rp)


# ------------------------------------------------------------------------------------------ directed cases (confirmed findings)
def run_directed(ctx, pair, orc):
    """inputs on which the real code was confirmed to deviate from the property; each has a stable key"""
    out = ctx.extra.setdefault("directed_cases", [])
    # 1. elliptic cone, constraints but no frictional contact: solver indexes with an empty float array
    L = ["option cone %d" % E("mjCONE_ELLIPTIC"), "body 2 0", "joint 3 2", "set 3 axis 0 1 0", "set 3 limited 1", "set 3 range -1 1",
         "geom 4 2", "set 4 size 0.1", "set 4 contype 0", "set 4 conaffinity 0"]
    co, ho = pair.load(L)
    orc.n += 1
    if pair.c_ok and ho.startswith("ok"):
        pair.set_state({})
        pair.c.ask("forward 0")
        r = pair.h.ask("forward", timeout=900)
        out.append({"case": "elliptic cone without frictional contacts", "mjx_forward": r})
        if r != "ok":
            orc.fail("c43:elliptic-no-contact-typeerror",
                     "put_model accepts a model with cone=elliptic, a joint limit and no contact of condim > 1, but mjx.forward raises TypeError "
                     "(solver._update_constraint indexes with jp.array([]) of float dtype); the C engine runs it",
                     {"model_description": L, "xml": "<mujoco><option cone='elliptic'/><worldbody><body><joint axis='0 1 0' limited='true' range='-1 1'/>"
                                                     "<geom size='.1' contype='0' conaffinity='0'/></body></worldbody></mujoco>"})
        else:
            pair.compare(["qacc", "qfrc_constraint"], "directed-elliptic", {"model_description": L})
    # 2. implicitfast on a standalone free body: the C engine adds the gyroscopic derivative (mjd_freeMhat), MJX does not
    L = ["option integrator %d" % E("mjINT_IMPLICITFAST"), "option gravity 0 0 0", "body 2 0", "freejoint 3 2", "geom 4 2", "set 4 type %d" % E("mjGEOM_BOX"),
         "set 4 size 0.3 0.1 0.05", "set 4 contype 0", "set 4 conaffinity 0"]
    co, ho = pair.load(L)
    orc.n += 1
    if pair.c_ok and ho.startswith("ok"):
        st = {"qvel": [0.0, 0.0, 0.0, 3.0, 2.0, 1.0]}
        pair.set_state(st)
        pair.c.ask("step 0 1")
        pair.h.ask("step 1", timeout=900)
        c, m = pair.cnum("qvel"), json.loads(pair.h.ask("out qvel"))["qvel"]
        d = reldev(c, m)
        out.append({"case": "implicitfast, free body, angular velocity (3,2,1)", "qvel_c": c, "qvel_mjx": m, "relative_deviation": d})
        if not d <= TOL_PIPE:
            orc.fail("c43:implicitfast-free-body-gyroscopic",
                     "implicitfast: after one step of a torque-free box spinning at (3,2,1) rad/s the angular velocity differs by %.3g (relative): "
                     "mj_implicitSkip solves standalone free bodies with the gyroscopic derivative (mjd_freeMhat), mjx implicit() has no such term" % d,
                     {"model_description": L, "state": st, "qvel_c": c, "qvel_mjx": m})
    # 3. enable flag SLEEP passes the gate of the JAX backend, which has no sleeping
    L = ["option enableflags %d" % E("mjENBL_SLEEP"), "body 2 0", "set 2 pos 0 0 1", "set 2 sleep %d" % E("mjSLEEP_INIT"), "freejoint 3 2", "geom 4 2",
         "set 4 size 0.1", "set 4 contype 0", "set 4 conaffinity 0"]
    co, ho = pair.load(L)
    orc.n += 1
    if pair.c_ok and ho.startswith("ok"):
        pair.set_state({})
        pair.c.ask("step 0 10")
        pair.h.ask("step 10", timeout=900)
        c, m = pair.cnum("qpos"), json.loads(pair.h.ask("out qpos"))["qpos"]
        d = reldev(c, m)
        out.append({"case": "mjENBL_SLEEP with a body that starts asleep", "qpos_c": c, "qpos_mjx": m})
        if not d <= TOL_PIPE:
            orc.fail("c43:sleep-flag-accepted-but-ignored",
                     "put_model accepts mjENBL_SLEEP (types.EnableBit lists it for the Warp backend) but MJX-JAX has no sleeping: a free body that starts "
                     "asleep (sleep policy init) stays at z=1 in C and falls in MJX (after 10 steps z differs by %.3g)" % abs(c[2] - m[2]),
                     {"model_description": L, "qpos_c": c, "qpos_mjx": m})
    elif pair.c_ok:
        out.append({"case": "mjENBL_SLEEP", "mjx": ho[:100]})
    # 4. forward returns before sensor_acc when the model has no constraint rows at all
    L = ["body 2 0", "set 2 pos 0 0 1", "joint 3 2", "set 3 axis 0 1 0", "name 3 j", "geom 4 2", "set 4 size 0.1", "set 4 pos 0.3 0 0", "set 4 contype 0",
         "set 4 conaffinity 0", "site 5 2", "name 5 s", "set 5 pos 0.3 0 0", "sensor 6", "set 6 type %d" % E("mjSENS_ACCELEROMETER"),
         "set 6 objtype %d" % E("mjOBJ_SITE"), "set 6 objname s"]
    co, ho = pair.load(L)
    orc.n += 1
    if pair.c_ok and ho.startswith("ok"):
        pair.set_state({})
        pair.c.ask("forward 0")
        pair.h.ask("forward", timeout=900)
        c, m = pair.cnum("sensordata"), json.loads(pair.h.ask("out sensordata"))["sensordata"]
        d = reldev(c, m)
        out.append({"case": "accelerometer in a model without constraints", "sensordata_c": c, "sensordata_mjx": m})
        if not d <= TOL_PIPE:
            orc.fail("c43:acc-sensors-skipped-without-constraints",
                     "a pendulum with an accelerometer and no constraint rows: C reports %s, MJX %s — mjx.forward returns right after "
                     "`if d._impl.efc_J.size == 0` and never calls sensor.sensor_acc" % (c, m),
                     {"model_description": L, "sensordata_c": c, "sensordata_mjx": m})
    # 5. connect / weld rows: the C engine subtracts the Jdot*v correction from aref (mj_Jdotv), MJX does not
    L = ["body 2 0", "set 2 pos 0 0 1", "joint 3 2", "set 3 axis 0 1 0", "geom 4 2", "set 4 size 0.1", "set 4 pos 0.3 0 0", "set 4 contype 0",
         "set 4 conaffinity 0", "name 2 b", "body 5 2", "set 5 pos 0.6 0 0", "joint 6 5", "set 6 axis 0 1 0", "geom 7 5", "set 7 size 0.1",
         "set 7 pos 0.3 0 0", "set 7 contype 0", "set 7 conaffinity 0", "name 5 c", "equality 8", "set 8 type %d" % E("mjEQ_CONNECT"),
         "set 8 objtype %d" % E("mjOBJ_BODY"), "set 8 name1 c", "set 8 name2 world", "set 8 data 0.6 0 0"]
    co, ho = pair.load(L)
    orc.n += 1
    if pair.c_ok and ho.startswith("ok"):
        st = {"qvel": [2.0, -3.0]}
        pair.set_state(st)
        pair.c.ask("forward 0")
        pair.h.ask("forward", timeout=900)
        c = sorted(pair.cnum("efc_aref") or [])
        raw = json.loads(pair.h.ask("out efc_aref efc_type"))
        m = sorted(a for a, t in zip(raw["efc_aref"], raw["efc_type"]) if int(t) == E("mjCNSTR_EQUALITY"))
        d = reldev(c, m) if len(c) == len(m) and c else float("inf")
        out.append({"case": "connect equality, joint velocities (2,-3)", "sorted_efc_aref_c": c, "sorted_efc_aref_mjx": m})
        if not d <= TOL_PIPE:
            orc.fail("c43:equality-jdotv-correction-missing",
                     "connect equality on a moving double pendulum: the reference acceleration of the equality rows differs (C %s, MJX %s): "
                     "mj_referenceConstraint subtracts the Jdot*v correction for connect/weld rows (mj_Jdotv), mjx constraint.py has no such term" % (c, m),
                     {"model_description": L, "state": st, "sorted_efc_aref_c": c, "sorted_efc_aref_mjx": m})
    # 6. a body attached to a mocap body: kinematics overwrites the mocap body's pose after the tree scan
    L = ["body 2 0", "set 2 mocap 1", "set 2 pos 0 0 1", "geom 3 2", "set 3 size 0.1", "set 3 contype 0", "set 3 conaffinity 0", "body 4 2",
         "set 4 pos 0.5 0 0", "joint 5 4", "set 5 axis 0 1 0", "geom 6 4", "set 6 size 0.1", "set 6 pos 0.2 0 0", "set 6 contype 0", "set 6 conaffinity 0"]
    co, ho = pair.load(L)
    orc.n += 1
    if pair.c_ok and ho.startswith("ok"):
        st = {"mocap_pos": [1.0, 2.0, 3.0], "mocap_quat": [0.7071067811865476, 0.0, 0.0, 0.7071067811865476]}
        pair.set_state(st)
        pair.c.ask("forward 0")
        pair.h.ask("forward", timeout=900)
        c, m = pair.cnum("xpos"), json.loads(pair.h.ask("out xpos"))["xpos"]
        d = reldev(c, m)
        out.append({"case": "body attached to a mocap body", "xpos_c": c, "xpos_mjx": m})
        if not d <= TOL_PIPE:
            orc.fail("c43:mocap-children-ignore-mocap-pose",
                     "a body attached to a mocap body: with mocap_pos=(1,2,3) and a 90 degree mocap_quat the child is at %s in C and at %s in MJX "
                     "(smooth.kinematics sets xpos/xquat of the mocap body after the tree scan, so its children are placed from the model pose)" % (c[6:9], m[6:9]),
                     {"model_description": L, "state": st, "xpos_c": c, "xpos_mjx": m})
    # 8. a mocap body whose geom penetrates a world geom: MJX keeps the (static, static) pair, its rows have J = 0 and D = 1/mjMINVAL
    L = ["option tolerance 1e-14", "geom 1 0", "set 1 type 0", "set 1 size 5 5 0.1", "body 2 0", "set 2 mocap 1", "set 2 pos 0 0 -0.15", "geom 3 2",
         "set 3 size 0.2", "body 4 0", "set 4 pos 1 0 0.09", "joint 5 4", "set 5 type %d" % E("mjJNT_SLIDE"), "set 5 axis 0 0 1", "geom 6 4",
         "set 6 size 0.1"]
    co, ho = pair.load(L)
    orc.n += 1
    if pair.c_ok and ho.startswith("ok"):
        pair.set_state({})
        pair.c.ask("forward 0")
        r = pair.h.ask("forward", timeout=900)
        c, m = pair.cnum("qacc"), (json.loads(pair.h.ask("out qacc"))["qacc"] if r == "ok" else None)
        out.append({"case": "mocap sphere deep in the floor + a sphere on a vertical slide resting on the floor", "qacc_c": c, "qacc_mjx": m})
        if m is None or not reldev(c, m) <= TOL_CONTACT:
            orc.fail("c43:mocap-world-contact-poisons-solver",
                     "a mocap body's sphere penetrates the floor plane by 0.35 while a sphere on a vertical slide joint rests on the floor (penetration 0.01): "
                     "C gives qacc = %s (the contact pushes back), MJX %s (free fall). collision_driver.geom_pairs keeps (world, mocap body) pairs "
                     "(their body_weldid differ) which the C engine filters as static-static; their contact rows have a zero Jacobian and D = 1/mjMINVAL, "
                     "a constant ~1e20 in the solver's cost that wipes out the precision of its termination and warm-start tests" % (c, m),
                     {"model_description": L, "qacc_c": c, "qacc_mjx": m})
    # 9. implicitfast: the C derivative skips an actuator whose force is clamped by forcerange, MJX's does not
    L = ["option integrator %d" % E("mjINT_IMPLICITFAST"), "option gravity 0 0 0", "body 2 0", "joint 3 2", "name 3 j", "set 3 axis 0 1 0", "geom 4 2",
         "set 4 size 0.1", "set 4 pos 0.3 0 0", "set 4 contype 0", "set 4 conaffinity 0", "actuator 5", "set 5 trntype %d" % E("mjTRN_JOINT"),
         "set 5 target j", "set 5 gainprm 5", "set 5 biastype %d" % E("mjBIAS_AFFINE"), "set 5 biasprm 0 0 -5", "set 5 forcelimited 1",
         "set 5 forcerange -0.5 0.5"]
    co, ho = pair.load(L)
    orc.n += 1
    if pair.c_ok and ho.startswith("ok"):
        st = {"qvel": [2.0]}
        pair.set_state(st)
        pair.c.ask("step 0 1")
        pair.h.ask("step 1", timeout=900)
        c, m = pair.cnum("qvel"), json.loads(pair.h.ask("out qvel"))["qvel"]
        d = reldev(c, m)
        out.append({"case": "implicitfast, velocity servo saturated at its forcerange", "qvel_c": c, "qvel_mjx": m, "relative_deviation": d})
        if not d <= TOL_PIPE:
            orc.fail("c43:implicitfast-ignores-force-clamp",
                     "implicitfast, a velocity servo (kv = 5) saturated at forcerange +-0.5 on a hinge moving at 2 rad/s: after one step qvel = %s in C, "
                     "%s in MJX (relative %.3g): mjd_actuator_vel skips actuators whose force is clamped, derivative.deriv_smooth_vel does not" % (c, m, d),
                     {"model_description": L, "state": st, "qvel_c": c, "qvel_mjx": m})
    # 10. a touch sensor in a model that has constraint rows but no potential contact
    L = ["body 2 0", "joint 3 2", "set 3 axis 0 1 0", "set 3 limited 1", "set 3 range -10 10", "geom 4 2", "set 4 size 0.1", "set 4 pos 0.3 0 0",
         "set 4 contype 0", "set 4 conaffinity 0", "site 5 2", "name 5 s", "sensor 6", "set 6 type %d" % E("mjSENS_TOUCH"),
         "set 6 objtype %d" % E("mjOBJ_SITE"), "set 6 objname s"]
    co, ho = pair.load(L)
    orc.n += 1
    if pair.c_ok and ho.startswith("ok"):
        pair.set_state({})
        rc_ = pair.c.ask("forward 0")
        r = pair.h.ask("forward", timeout=900)
        out.append({"case": "touch sensor, joint limit, no colliding geom", "c_forward": rc_, "mjx_forward": r})
        if r != "ok":
            orc.fail("c43:touch-sensor-without-contacts-valueerror",
                     "put_model accepts a model with a touch sensor, a joint limit and no colliding geom, but mjx.forward raises ValueError "
                     "('Need at least one array to concatenate': sensor.sensor_acc concatenates the contact forces of an empty set of condims); "
                     "the C engine runs it", {"model_description": L})
        else:
            pair.compare(["sensordata", "qacc"], "directed-touch", {"model_description": L})
    # 11. implicitfast with a muscle: the C derivative has the velocity derivative of the muscle gain (mjd_muscleGain_vel), MJX's has not
    prm = "0.75 1.05 -1 200 0.5 1.6 1.5 1.3 1.2"
    L = ["option integrator %d" % E("mjINT_IMPLICITFAST"), "option gravity 0 0 0", "body 2 0", "joint 3 2", "name 3 j", "set 3 axis 0 1 0", "geom 4 2",
         "set 4 size 0.1", "set 4 pos 0.3 0 0", "set 4 contype 0", "set 4 conaffinity 0", "actuator 5", "set 5 trntype %d" % E("mjTRN_JOINT"),
         "set 5 target j", "set 5 dyntype %d" % E("mjDYN_MUSCLE"), "set 5 gaintype %d" % E("mjGAIN_MUSCLE"), "set 5 biastype %d" % E("mjBIAS_MUSCLE"),
         "set 5 gainprm " + prm, "set 5 biasprm " + prm, "set 5 dynprm 0.01 0.04 0", "set 5 lengthrange 0.5 1.5"]
    co, ho = pair.load(L)
    orc.n += 1
    if pair.c_ok and ho.startswith("ok"):
        st = {"qpos": [1.0], "qvel": [-1.5], "act": [0.8], "ctrl": [0.8]}
        pair.set_state(st)
        pair.c.ask("step 0 1")
        pair.h.ask("step 1", timeout=900)
        c, m = pair.cnum("qvel"), json.loads(pair.h.ask("out qvel"))["qvel"]
        d = reldev(c, m)
        out.append({"case": "implicitfast, muscle actuator", "qvel_c": c, "qvel_mjx": m, "relative_deviation": d})
        if not d <= TOL_PIPE:
            orc.fail("c43:implicitfast-muscle-derivative-missing",
                     "implicitfast with an activated muscle on a moving hinge: after one step qvel = %s in C, %s in MJX (relative %.3g): "
                     "mjd_actuator_vel includes the velocity derivative of the muscle gain, derivative.deriv_smooth_vel only the affine terms" % (c, m, d),
                     {"model_description": L, "state": st, "qvel_c": c, "qvel_mjx": m})
    # 12-14. solver parameters outside the hypotheses of theorem mjx_kbi_eq_c: a hinge pushed 0.005 rad beyond its limit
    base = ["compiler degree 0", "option tolerance 1e-14", "body 2 0", "joint 3 2", "set 3 axis 0 1 0", "set 3 limited 1", "set 3 range -0.5 0.5", "geom 4 2",
            "set 4 size 0.1", "set 4 pos 0.3 0 0", "set 4 contype 0", "set 4 conaffinity 0"]
    for key, extra, xml_attr, why in (
            ("c43:solimp-d0-greater-than-dwidth-clipped", ["set 3 solimp_limit 0.95 0.5 0.01 0.5 2"], "solimplimit='0.95 0.5 0.01 0.5 2'",
             "solimp with d0 > dwidth (doc/modeling.rst: the impedance goes from d0 at r = 0 to dwidth at r = width, no order is required): getimpedance "
             "interpolates (here d = 0.725 at half the width), constraint._kbi ends with jp.clip(imp, dmin, dmax), which returns dmax = 0.5 whenever dmin > dmax"),
            ("c43:solimp-zero-width", ["set 3 solimp_limit 0.9 0.95 0 0.5 2"], "solimplimit='0.9 0.95 0 0.5 2'",
             "solimp with width = 0 (any width <= mjMINVAL): getimpedance returns the flat value (d0 + dwidth)/2 = 0.925, constraint._kbi replaces the width "
             "by mjMINVAL and returns dwidth = 0.95 for every non-zero violation"),
            ("c43:mixed-sign-solref-not-replaced", ["set 3 solref_limit 0.01 -10"], "solreflimit='0.01 -10'",
             "solref with entries of different sign: getsolparam warns ('mixed solref format, replacing with default') and uses (0.02, 1); constraint._kbi "
             "combines the standard-format stiffness of the first entry with the direct-format damping of the second")):
        L = base + extra
        co, ho = pair.load(L)
        orc.n += 1
        if pair.c_ok and ho.startswith("ok"):
            st = {"qpos": [0.505], "qvel": [0.3]}
            pair.set_state(st)
            pair.c.ask("forward 0")
            r = pair.h.ask("forward", timeout=900)
            e = json.loads(pair.h.ask("out efc"))["efc"] if r == "ok" else {"aref": None, "D": None}
            c = {"aref": pair.cnum("efc_aref"), "D": pair.cnum("efc_D"), "qacc": pair.cnum("qacc")}
            mq = json.loads(pair.h.ask("out qacc"))["qacc"] if r == "ok" else None
            out.append({"case": "joint limit with " + xml_attr, "c": c, "mjx": {"aref": e["aref"], "D": e["D"], "qacc": mq}})
            same = r == "ok" and all(x and y and len(x) == len(y) and reldev(x, y) <= TOL_PIPE for x, y in ((c["aref"], e["aref"]), (c["D"], e["D"]), (c["qacc"], mq)))
            if not same:
                orc.fail(key, "a hinge 0.005 rad beyond its limit (qvel 0.3) with %s: C gives efc_aref %s, efc_D %s, qacc %s; MJX gives %s, %s, %s. %s"
                         % (xml_attr, c["aref"], c["D"], c["qacc"], e["aref"], e["D"], mq, why),
                         {"model_description": L, "state": st, "c": c, "mjx": {"aref": e["aref"], "D": e["D"], "qacc": mq},
                          "xml": "<mujoco><compiler angle='radian'/><worldbody><body><joint axis='0 1 0' limited='true' range='-.5 .5' %s/>"
                                 "<geom size='.1' pos='.3 0 0' contype='0' conaffinity='0'/></body></worldbody></mujoco>" % xml_attr})
    # 15. plane / capsule with the capsule axis within 30 degrees of the plane normal: different tangent axes of the contact frame
    L = ["option tolerance 1e-14", "geom 1 0", "set 1 type %d" % E("mjGEOM_PLANE"), "set 1 size 5 5 0.1", "body 2 0", "set 2 pos 0 0 0.22",
         "set 2 quat 0.984807753012208 0.12278780396897288 0.12278780396897288 0", "freejoint 3 2", "geom 4 2", "set 4 type %d" % E("mjGEOM_CAPSULE"), "set 4 size 0.05 0.2"]
    co, ho = pair.load(L)
    orc.n += 1
    if pair.c_ok and ho.startswith("ok"):
        st = {"qvel": [4.0, 1.0, 0.0, 0.0, 0.0, 0.0]}
        pair.set_state(st)
        pair.c.ask("forward 0")
        r = pair.h.ask("forward", timeout=900)
        cf = [float(x) for x in pair.c.ask("contactsfull 0").split(":", 1)[1].split("|")[0].split()[9:18]]
        mc = [c for c in json.loads(pair.h.ask("out contacts"))["contacts"] if c["dist"] < c["includemargin"]] if r == "ok" else []
        mf = mc[0]["frame"] if mc else None
        c, m = pair.cnum("qacc"), (json.loads(pair.h.ask("out qacc"))["qacc"] if r == "ok" else None)
        out.append({"case": "capsule tilted 20 degrees from the normal of the plane it stands on", "frame_c": cf, "frame_mjx": mf, "qacc_c": c, "qacc_mjx": m})
        if m is None or mf is None or not reldev(c, m) <= TOL_CONTACT or max(abs(a - b) for a, b in zip(cf, mf)) > TOL_CONTACT:
            orc.fail("c43:plane-capsule-steep-axis-frame",
                     "a capsule tilted 20 degrees from the normal of the plane it penetrates, sliding at (4, 1, 0): contact frame %s in C, %s in MJX; qacc %s in C, %s in MJX. "
                     "mjc_PlaneCapsule passes the capsule axis as tangent and mju_makeFrame keeps any y axis of norm >= 0.5 BEFORE projecting it on the contact plane; "
                     "collision_primitive.plane_capsule falls back to the default axis when the PROJECTED axis is shorter than 0.5 (capsule within 30 degrees of the normal); "
                     "the pyramidal friction cone is not invariant under this rotation of the tangent axes" % ([round(x, 4) for x in cf], mf and [round(x, 4) for x in mf], c, m),
                     {"model_description": L, "state": st, "frame_c": cf, "frame_mjx": mf, "qacc_c": c, "qacc_mjx": m})
    # 16. accelerometer / framelinacc on a body without degrees of freedom
    L = ["body 1 0", "set 1 pos 0 0 1", "geom 2 1", "set 2 size 0.1", "set 2 contype 0", "set 2 conaffinity 0", "site 3 1", "name 3 s", "body 4 1", "set 4 pos 0.5 0 0",
         "joint 5 4", "set 5 axis 0 1 0", "set 5 limited 1", "set 5 range -0.1 0.1", "geom 6 4", "set 6 size 0.1", "set 6 pos 0.2 0 0", "set 6 contype 0",
         "set 6 conaffinity 0", "sensor 9", "set 9 type %d" % E("mjSENS_ACCELEROMETER"), "set 9 objtype %d" % E("mjOBJ_SITE"), "set 9 objname s",
         "sensor 10", "set 10 type %d" % E("mjSENS_FRAMELINACC"), "set 10 objtype %d" % E("mjOBJ_SITE"), "set 10 objname s"]
    co, ho = pair.load(L)
    orc.n += 1
    if pair.c_ok and ho.startswith("ok"):
        st = {"qpos": [0.5]}
        pair.set_state(st)
        pair.c.ask("forward 0")
        r = pair.h.ask("forward", timeout=900)
        c, m = pair.cnum("sensordata"), (json.loads(pair.h.ask("out sensordata"))["sensordata"] if r == "ok" else None)
        out.append({"case": "accelerometer and framelinacc on a static body", "sensordata_c": c, "sensordata_mjx": m})
        if m is None or not reldev(c, m) <= TOL_PIPE:
            orc.fail("c43:linear-acceleration-sensor-on-static-body",
                     "an accelerometer and a framelinacc sensor on a site of a static body (its child hinge is at its limit, so constraint rows exist): C reports %s, MJX %s. "
                     "mj_objectAcceleration returns zero for a body without degrees of freedom up to the world ('dof-less body (static or mocap): quick return'), "
                     "sensor.sensor_acc of MJX transforms cacc = -gravity like for any other body" % (c, m),
                     {"model_description": L, "state": st, "sensordata_c": c, "sensordata_mjx": m})
    # 7. a model without any degree of freedom
    L = ["geom 1 0", "set 1 type 0", "set 1 size 5 5 0.1", "body 2 0", "set 2 pos 0 0 1", "geom 3 2", "set 3 size 0.1"]
    co, ho = pair.load(L)
    orc.n += 1
    if pair.c_ok and ho.startswith("ok"):
        pair.set_state({})
        rc_ = pair.c.ask("forward 0")
        r = pair.h.ask("forward", timeout=900)
        out.append({"case": "model with nv = 0", "c_forward": rc_, "mjx_forward": r})
        if r != "ok":
            orc.fail("c43:zero-dof-model-valueerror",
                     "put_model accepts a model without degrees of freedom (a static sphere above a plane) but mjx.forward raises ValueError "
                     "('Scan across Model with zero DoFs unsupported'); the C engine runs it",
                     {"model_description": L})
        else:
            pair.compare(["xpos", "geom_xpos"], "directed-nodof", {"model_description": L})


def regen_kernels(ctx):
    """the c2lean kernels of lean/MjProof/Gen/Kernels.lean must be those of THIS tree: translate/regen_all.py keeps a stamp
    (hash of every translated source file, header and translator + hash of each output); when the stamp matches, re-running
    the translation would rewrite the same bytes, so only the stamp is verified; otherwise everything is regenerated."""
    sys.path.insert(0, os.path.join(common.VERIF, "translate"))
    try:
        import importlib
        ra = importlib.import_module("regen_all")
        ra.c2lean.REPO = common.REPO
        if ra.c2lean_up_to_date(GEN_DIR):
            ctx.oblige("c2lean kernels in lean/MjProof/Gen are the translation of the working tree (source/output hashes of the translator's stamp)",
                       "translator", True)
            return json.load(open(os.path.join(GEN_DIR, "kernels_manifest.json")))
    except Exception:   # fall back to the full regeneration
        pass
    return kernelval.regen(ctx)


# ------------------------------------------------------------------------------------------ run
def run(ctx):
    procs = []
    try:
        with G.Pin(["c43_gate"]):
            _run(ctx, procs)
    finally:
        for p in procs:
            try:
                p.close()
            except Exception:
                pass


def _run(ctx, procs):
    import time
    quick = ctx.tier != "thorough"
    tm = ctx.extra.setdefault("timing_s", {})
    ctx.rule = ("kernels: seeded inputs per mapped function inside the stated domain (unit quaternions where required); models: gen/models.py "
                "descriptions restricted to MJX's feature set with analytic colliders (plane/sphere/capsule), every integrator/solver/cone MJX "
                "offers, actuators incl. muscles, fixed and spatial tendons, equalities, sensors, mocap, solver parameters (solref in both formats, solimp, "
                "solmix, REFSAFE) randomised in 2 of 3 models; states reached by simulating in C; K/B/I arguments: format x REFSAFE x solimp shape x position "
                "classes (histogram in kbi_input_histogram); constraint-parameter family: parameters and states redrawn on a fixed structure per (cone, REFSAFE); storage x integrator family: per "
                "(jacobian, integrator, EULERDAMP), at least one damped dof with an ancestor dof in every case; "
                "gate: single-feature variants of a base model; a case is distinct by (model, state, op); non-trivial = forward/step on nv > 0")
    ctx.checker_cmd = ("cd /verif && python3 translate/regen_all.py && cd lean && lake build MjProof.Props.C43 MjProof.Props.C43Gate "
                       "&& lake env lean Audit/C43.lean")
    t0 = time.time()
    manifest = regen_kernels(ctx)
    r = subprocess.run([sys.executable, os.path.join(common.VERIF, "translate", "c43_gate.py")], capture_output=True, text=True,
                       env=dict(os.environ, VERIF_REPO=common.REPO))
    gate_ok = r.returncode == 0
    ctx.oblige("translator c43_gate (every NotImplementedError site of _put_option/_put_model_jax/_make_data_jax, types.py enums, _COLLISION_FUNC, "
               "mjCOLLISIONFUNC)", "translator", gate_ok, (r.stdout + r.stderr)[-2000:])
    euler_source_shape(ctx)
    tm["translators"] = round(time.time() - t0, 1)
    t0 = time.time()
    ctx.lean_props(THEOREMS)
    if gate_ok:
        want = open(os.path.join(GEN_DIR, "MjxGate.lean")).read()
        for _ in range(3):
            n0 = len(ctx.obligations)
            ctx.lean_props(THEOREMS_GATE, module="MjProof.Props.C43Gate")
            if open(os.path.join(GEN_DIR, "MjxGate.lean")).read() == want:
                break
            del ctx.obligations[n0:]
            open(os.path.join(GEN_DIR, "MjxGate.lean"), "w").write(want)
    else:
        for t in THEOREMS_GATE:
            ctx.oblige("theorem " + t, "theorem", False, "no generated gate table: the translator refused the source shape")
    with open(os.path.join(common.LEAN, "Audit", "C43.lean"), "w") as f:
        f.write("import MjProof.Props.C43\nimport MjProof.Props.C43Gate\n" + "".join("#print axioms %s\n" % t for t in THEOREMS + THEOREMS_GATE))
    kernelval.validate(ctx, manifest, KERNELS, 60 if quick else 2000, label="C43 kernels shared with MJX")
    tm["lean + bitwise kernel validation (incl. waiting for the shared lake lock)"] = round(time.time() - t0, 1)

    t0 = time.time()
    exe = ctx.harness("harness/c/c43_engine.c", "c43_engine", deps=["harness/mjbuild.h", "harness/c/engine_repl.c"])
    if not exe:
        return
    ceng = G.Proc([exe], timeout=120)
    procs.append(ceng)
    hx = G.start_mjx("harness/py/c43_mjx.py")
    procs.append(hx)
    env = hx.ask("env", timeout=600)
    if env is None:
        rc, err = hx.close()
        raise common.Infra("MJX harness did not start: %s" % err[-800:])
    env = json.loads(env)
    ctx.extra["environment"] = env
    ctx.oblige("environment: every enumerator of the tree's headers has the same value in the wheel's bindings; MJX imported from the tree; x64",
               "environment", not env["enum_mismatches"] and env["x64"] and env["float"] == "float64"
               and os.path.realpath(env["mjx_file"]).startswith(os.path.realpath(common.REPO)), json.dumps(env)[:1500])
    ctx.assumptions.append("the mujoco wheel of /venv is the MjSpec compiler / MjModel container of the MJX side; every array mjx.Model reads is "
                           "cross-checked against the model the tree's compiler builds from the same description")
    kernel_streams(ctx, hx, manifest, 8 if quick else 150)
    tm["math streams"] = round(time.time() - t0, 1)

    t0 = time.time()
    orc = Oracle(ctx)
    pair = Pair(ctx, ceng, hx, orc)
    try:
        kbi_streams(ctx, pair, orc, 250 if quick else 5000)
        tm["K/B/I streams"] = round(time.time() - t0, 1)
        t0 = time.time()
        run_directed(ctx, pair, orc)
        tm["directed cases"] = round(time.time() - t0, 1)
        t0 = time.time()
        run_gate(ctx, pair, orc, quick)
        tm["gate cases"] = round(time.time() - t0, 1)
        t0 = time.time()
        run_family(ctx, pair, orc, ctx.rng, quick)
        tm["constraint-parameter family"] = round(time.time() - t0, 1)
        t0 = time.time()
        run_storage_family(ctx, pair, orc, ctx.rng, quick)
        tm["storage x integrator family"] = round(time.time() - t0, 1)
        t0 = time.time()
        run_agree(ctx, pair, orc, ctx.rng, quick, 3 if quick else 22)
        tm["C-vs-MJX pipeline comparison"] = round(time.time() - t0, 1)
    except (BrokenPipeError, AttributeError, ValueError, TypeError) as e:
        rc, err = hx.close()
        orc.fail("c43:harness-died", "a harness process died / answered garbage: %s" % e, {"stderr": err[-800:]})
    layout_tie(ctx, pair)
    ctx.extra["oracle_checked"] = orc.n
    ctx.extra["oracle_failures"] = orc.nfail
    ctx.extra["oracle_failure_keys"] = orc.keys
    ctx.extra["generic_comparison_excludes"] = (
        "the generic C-vs-MJX comparison keeps out the situations of the confirmed findings (each is exercised on every run by its own directed "
        "case with a stable key): implicitfast with free joints or force-limited actuators, elliptic cone without frictional contacts, "
        "connect/weld equalities, bodies attached to a mocap body, colliding geoms on mocap bodies, models without degrees of freedom, "
        "acceleration-stage sensors in models without constraint rows, accelerometer/framelinacc slots of sensors on static bodies, states with a capsule "
        "standing within ~30 degrees of the normal of a plane it touches, solimp with d0 > dwidth or width <= mjMINVAL and mixed-sign solref (never drawn); (world/static/mocap, world/static/mocap) contact candidates that MJX "
        "lists and the C engine filters are not counted as contact-list differences; efc_pos is compared as efc_pos - efc_margin; contact "
        "geometry and the quantities downstream of it use the tolerance %g (closest_segment_point regularises its denominator with 1e-6), "
        "everything else %g" % (TOL_CONTACT, TOL_PIPE))
    if ctx.tier == "thorough":
        ctx.leanchecker(["MjProof.Props.C43", "MjProof.Props.C43Gate"])
