"""C20  Exhausted arena memory is handled gracefully (DESIGN.md §5.C20)."""
import concurrent.futures as cf
import hashlib
import importlib
import json
import os
import re
import subprocess

from . import common

META = {
    "technique": "Lean 4 proof (soundness of a dominance discipline over a statement language by induction on programs; "
                 "induction over X-macro request lists) + guard-table translator regenerated from the C source on every run "
                 "+ exact differential correspondence with the real static consumers + fork-per-size exhaustion oracle on "
                 "real mj_step (guard pages / ASan)",
    "text": "Every mj_arenaAllocByte call site of src/engine (pushPairArena, the four contact buffers, mj_addContact, "
            "arenaAllocEfc, mj_makeY, mj_makeAR, arenaAllocIsland, effAlloc; 15 sites) is written as a program over the C19 "
            "arena model: which variable receives the result, which variables the following `if` tests, what the failure "
            "block does and how it exits, which pointers are dereferenced afterwards. Proved for every arena "
            "configuration, every mjData state and every X-macro request list: a program in which every dereference is "
            "dominated by a success test on that variable never dereferences NULL and returns with its stack marks "
            "released (guarded_sound); all consumers except the tree's pushPairArena satisfy the discipline "
            "(never_use_failed_alloc); after a failure the counts are truncated, the arena pointers cleared and parena "
            "restored exactly as stated per consumer (state_consistent_after_failure_*); a granted contact lies directly "
            "behind the old ones and below the stack. pushPairArena as the tree has it tests `pair` instead of the fresh "
            "`new_pair`: proved that its model dereferences NULL exactly when the arena refuses the 24 bytes "
            "(pushPair_asIs_null_deref + concrete witness), and that the variant testing `new_pair` raises the error "
            "instead (never_use_failed_alloc_pushPair_after_fix). Which variant the tree matches is decided on every run "
            "by translate/c20_guards.py, which extracts the guard table (allocated / tested variable, failure actions, "
            "exit) of every call site from the source and is compared with the table computed from the Lean programs.",
    "note": "the numeric payload written through the pointers, contact[i].efc_address and ASAN poisoning are not modelled; "
            "the stack is a mark/free counter here (its memory safety is C19). The programs' statements *between* the "
            "guards (loads/stores) are hand-read; the guard table (what is allocated, what is tested, the failure block) "
            "is machine-compared with the source. The real arenaAllocEfc / arenaAllocIsland / mj_addContact / "
            "pushPairArena are run in-process against the interpreter on identical inputs (exact equality of return "
            "value, parena, counts, warning counters and every arena pointer offset); mj_narrowphase / flex / mj_makeY / "
            "mj_makeAR / effAlloc sites are tied by the guard table and exercised only through whole mj_step sweeps. "
            "'Every memory size' is sampled: adaptive sweep (geometric grid, bisection of every outcome-class boundary "
            "down to one byte) per model in quick, every 8 bytes from 0 to need for small models in thorough. "
            "Observation, not counted as a violation: after arenaAllocIsland fails, clearIsland sets nefc = 0 but leaves "
            "contact[i].efc_address pointing at the (still allocated, in-bounds) efc rows; the upstream 3.13.0 wheel "
            "behaves identically.",
}

P = "MjProof.C20."
THEOREMS = [P + n for n in (
    "wellGuarded_all", "never_use_failed_alloc", "pushPair_asIs_not_guarded", "pushPair_asIs_null_deref",
    "pushPair_asIs_witness", "never_use_failed_alloc_pushPair_after_fix",
    "state_consistent_after_failure_addContact", "addContact_block_in_arena",
    "state_consistent_after_failure_allocEfc", "state_consistent_after_failure_allocIsland",
    "state_consistent_after_failure_contactBuffer", "state_consistent_after_failure_dual")] + [
    "MjProof.ArenaConsumers.guarded_sound", "MjProof.ArenaConsumers.run_xmacro", "MjProof.ArenaConsumers.guarded_xmacro"]

SZCON = 584
KEY_PUSHPAIR = "c20:pushPairArena-null-deref"
# permanent regression probe of the recorded defect (fixed in /repo by 891ecd907): on the unfixed tree spheres14 died in
# pushPairArena for narena in 2608..2631; these sizes are run on every run, before the adaptive refinement
PROBE_SIZES = {"spheres14": tuple(range(2560, 2720, 2))}


# ------------------------------------------------------------------------------------------------ models
def spheres_model(n, dx=0.01, r=0.1, z=0.05, extra=()):
    L = ["option timestep 0.002"] + list(extra)
    h = 0
    for k in range(n):
        h += 1
        b = h
        L += ["body %d 0" % b, "set %d pos %r 0 %r" % (b, dx * k, z)]
        h += 1
        L += ["freejoint %d %d" % (h, b)]
        h += 1
        L += ["geom %d %d" % (h, b), "set %d type 2" % h, "set %d size %r 0 0" % (h, r)]
    return L


def cluster_model(rng, solver=None, jac=None):
    from gen.enums import E
    n = rng.randint(5, 18)
    solver = solver or rng.choice(("mjSOL_PGS", "mjSOL_CG", "mjSOL_NEWTON"))
    jac = jac or rng.choice(("mjJAC_DENSE", "mjJAC_SPARSE", "mjJAC_AUTO"))
    extra = ["option solver %d" % E(solver),
             "option cone %d" % rng.choice((E("mjCONE_PYRAMIDAL"), E("mjCONE_ELLIPTIC"))),
             "option jacobian %d" % E(jac)]
    if rng.random() < 0.3:
        extra.append("option disableflags %d" % E("mjDSBL_ISLAND"))
    if rng.random() < 0.3:
        extra.append("option noslip_iterations 2")
    L = ["option timestep 0.002"] + extra
    h = 0
    if rng.random() < 0.6:
        h += 1
        L += ["geom %d 0" % h, "set %d type 0" % h, "set %d size 2 2 0.1" % h]
    side = rng.choice((0.05, 0.15, 0.3))
    for k in range(n):
        h += 1
        b = h
        L += ["body %d 0" % b, "set %d pos %r %r %r" % (b, rng.uniform(-side, side), rng.uniform(-side, side), rng.uniform(0.02, 0.02 + side))]
        h += 1
        if rng.random() < 0.7:
            L += ["freejoint %d %d" % (h, b)]
        else:
            L += ["joint %d %d" % (h, b), "set %d type %d" % (h, E("mjJNT_SLIDE")), "set %d axis 0 0 1" % h]
        h += 1
        t = rng.choice(("sphere", "sphere", "capsule", "box"))
        L += ["geom %d %d" % (h, b)]
        if t == "sphere":
            L += ["set %d type %d" % (h, E("mjGEOM_SPHERE")), "set %d size %r 0 0" % (h, rng.uniform(0.05, 0.12))]
        elif t == "capsule":
            L += ["set %d type %d" % (h, E("mjGEOM_CAPSULE")), "set %d size %r %r 0" % (h, rng.uniform(0.03, 0.08), rng.uniform(0.05, 0.15))]
        else:
            L += ["set %d type %d" % (h, E("mjGEOM_BOX")), "set %d size %r %r %r" % (h, rng.uniform(0.03, 0.1), rng.uniform(0.03, 0.1), rng.uniform(0.03, 0.1))]
        if rng.random() < 0.3:
            L += ["set %d condim %d" % (h, rng.choice((1, 4, 6)))]
    return L


def limits_model(n, solver, jac):
    """a chain of hinges, every joint outside its range and with friction loss, no contacts: the efc / dual arrays are
    large compared with the stack the constraint assembly needs, so the mj_makeY / mj_makeAR failures are reachable."""
    from gen.enums import E
    L = ["option timestep 0.002", "option solver %d" % E(solver), "option jacobian %d" % E(jac)]
    h, parent = 0, 0
    for k in range(n):
        h += 1
        b = h
        L += ["body %d %d" % (b, parent), "set %d pos 0 0 %r" % (b, 1.5 if k == 0 else -0.2)]
        h += 1
        L += ["joint %d %d" % (h, b), "set %d type %d" % (h, E("mjJNT_HINGE")), "set %d axis 0 1 0" % h,
              "set %d limited 1" % h, "set %d range 0.2 0.5" % h, "set %d frictionloss 0.1" % h]
        h += 1
        L += ["geom %d %d" % (h, b), "set %d type %d" % (h, E("mjGEOM_CAPSULE")), "set %d size 0.02 0.08 0" % h,
              "set %d pos 0 0 -0.1" % h, "set %d contype 0" % h, "set %d conaffinity 0" % h]
        parent = b
    return L


def gen_model(rng):
    from gen.models import ModelGen
    mdl = ModelGen(rng, {"nbody": (2, 7), "free": 0.5, "plane": 1.0, "contacts": 1.0, "sleep": 0.0, "memory": None}).make()
    return list(mdl.lines)


def model_text(name, lines):
    return "model %s\n" % name + "\n".join(lines) + "\nend\n"


# ------------------------------------------------------------------------------------------------ sweeps
class Sweeper:
    def __init__(self, ctx, exe, env, workers):
        self.ctx, self.exe, self.env, self.workers = ctx, exe, env, workers
        self.nruns = 0

    def _one(self, args):
        text, nsteps, trace, sizes = args
        if not sizes:
            return []
        inp = text + "sweep %d %d %s\n" % (nsteps, trace, " ".join(map(str, sizes)))
        e = dict(os.environ)
        e.update(self.env)
        r = subprocess.run([self.exe], input=inp, capture_output=True, text=True, env=e, timeout=3000)
        out = []
        for l in r.stdout.split("\n"):
            m = re.match(r"r (\d+) (\S+) \| ?(.*)$", l)
            if m:
                out.append((int(m.group(1)), m.group(2), m.group(3)))
        if len(out) != len(sizes):
            raise common.Infra("sweep harness returned %d results for %d sizes: %s %s" % (len(out), len(sizes), r.stdout[:300], r.stderr[-300:]))
        return out

    def run(self, text, nsteps, trace, sizes):
        sizes = list(sizes)
        w = max(1, min(self.workers, len(sizes) // 24 or 1))   # every worker start compiles the model again
        chunks = [sizes[i::w] for i in range(w)]
        res = []
        with cf.ThreadPoolExecutor(w) as ex:
            for o in ex.map(self._one, [(text, nsteps, trace, c) for c in chunks]):
                res += o
        self.nruns += len(sizes)
        return res


def parse_report(rep):
    d = {"null": [], "t": [], "err": None, "inv": None, "fin": {}}
    for part in rep.split(";"):
        part = part.strip()
        if part.startswith("null "):
            w = part.split()
            if len(w) == 4:
                d["null"].append((w[1], int(w[2]), int(w[3])))
        elif part.startswith("t "):
            w = part.split()
            if len(w) == 9:
                d["t"].append((w[1], int(w[2])) + tuple(int(x) for x in w[3:]))
        elif part.startswith("err "):
            d["err"] = part[4:]
        elif part.startswith("inv "):
            d["inv"] = part[4:]
        elif part.startswith("fin "):
            for kv in part[4:].split():
                if "=" in kv:
                    k, v = kv.split("=", 1)
                    d["fin"][k] = v
    return d


def classify(status, rep):
    """-> (class string, failure key or None, description)"""
    d = parse_report(rep)
    sanit = "Sanitizer" in rep or "runtime error" in rep
    if status != "exit0" or sanit or not d["fin"]:
        site = d["null"][-1][0] if d["null"] else None
        what = "child died (%s%s)" % (status, ", sanitizer report" if sanit else "")
        if site:
            what += " right after mj_arenaAllocByte returned NULL in %s (line %d, %d bytes)" % d["null"][-1]
        if site == "pushPairArena":
            return "CRASH:pushPairArena", KEY_PUSHPAIR, what
        return "CRASH:" + str(site), "c20:crash-after-failed-alloc-in-%s" % site if site else "c20:crash", what
    if d["inv"]:
        txt = re.sub(r"^\d+ ", "", d["inv"])
        norm = re.sub(r"\d+", "#", txt)
        return "INV:" + norm, "c20:inconsistent-state:" + norm.replace(" ", "-")[:80], "after mj_step: " + txt
    if d["fin"].get("canary") != "ok":
        return "CANARY", "c20:write-outside-allocation", "bytes outside an mju_malloc block were overwritten"
    if d["err"]:
        m = re.search(r"stack overflow at (\w+), line (\d+)", d["err"])
        if m:
            return "err:stack@%s:%s" % (m.group(1), m.group(2)), None, d["err"]
        return "err:" + re.sub(r"[\d.]+", "#", re.sub(r"^-?\d+ ", "", d["err"]))[:60], None, d["err"]
    f = d["fin"]
    # the site of the last refused allocation is part of the class, so the sweep bisects between "A failed" and "B failed"
    site = "@%s:%d" % d["null"][-1][:2] if d["null"] else ""
    return "ok:wC%d:wF%d%s" % (int(f.get("wC", "0")) > 0, int(f.get("wF", "0")) > 0, site), None, ""


def adaptive_sizes(rng, need, npts):
    hi = int(need * 1.15) + 64
    s = {0, 1, 7, 8, 24, 63, 64, hi}
    x = 96.0
    ratio = (hi / x) ** (1.0 / max(2, npts))
    while x < hi:
        s.add(int(x) + rng.randint(0, 7))
        x *= ratio
    return sorted(s)


def sweep_model(ctx, sw, name, lines, nsteps, thorough_full, rng, fails, traces, hist, max_rounds=18, scan=66, budget=6000):
    """adaptive exhaustion sweep of one model; returns the number of sizes run."""
    text = model_text(name, lines)
    base = sw.run(text, nsteps, 0, [1 << 26])
    cls, key, what = classify(base[0][1], base[0][2])
    if not cls.startswith("ok"):
        hist.setdefault("skipped-models", []).append({"model": name, "baseline": cls, "what": what[:200]})
        return 0
    need = int(parse_report(base[0][2])["fin"].get("maxarena", "0"))
    results = {}

    def run_sizes(sizes, trace):
        sizes = [s for s in sizes if s not in results and s >= 0]
        sizes = sizes[:max(0, budget - len(results))] if not thorough_full else sizes
        if not sizes:
            return
        for sz, st, rep in sw.run(text, nsteps, trace, sizes):
            c, k, w = classify(st, rep)
            results[sz] = c
            hist[c[:70]] = hist.get(c[:70], 0) + 1
            if k:
                fails.append({"key": k, "what": what_full(name, sz, w), "model": name, "narena": sz, "class": c})
            pr = parse_report(rep)
            if int(pr["fin"].get("stale", "0") or 0) > 0:
                hist["(informational) runs ending with a contact efc_address >= nefc"] = hist.get("(informational) runs ending with a contact efc_address >= nefc", 0) + 1
            if trace:
                for t in pr["t"]:
                    traces.append((sz,) + t)
            ctx.count((name, sz), nontrivial=not c.startswith("err:mj_makeRawData"))

    if thorough_full:
        run_sizes(range(0, need + 64, 8), 0)
    run_sizes(PROBE_SIZES.get(name.replace("[asan]", ""), ()), 2)
    run_sizes(adaptive_sizes(rng, need, 36), 4)
    for _ in range(max_rounds):
        ks = sorted(results)
        mids = [(a + b) // 2 for a, b in zip(ks, ks[1:]) if results[a] != results[b] and b - a > 1]
        if not mids:
            break
        run_sizes(mids[:400], 2)
    # the outcome near a boundary is periodic in narena (the stack aligns absolute addresses): scan both sides of every
    # boundary with a stride coprime to 8
    ks = sorted(results)
    near = set()
    for a, b in zip(ks, ks[1:]):
        if results[a] != results[b]:
            near.update(range(a - scan, b + scan + 1, 3))
    run_sizes(sorted(near)[:3000], 0)
    return len(results)


def what_full(name, sz, w):
    return "model %s with m->narena = %d: %s" % (name, sz, w)


# ------------------------------------------------------------------------------------------------ unit ops
def sim_thresholds(reqs, start):
    """parena after each request when everything fits (mirrors the padding rule); used only to aim the generator."""
    p, out = start, []
    for b, a in reqs:
        mis = p % a
        p += (a - mis if mis else 0) + b
        out.append(p)
    return out


def parse_reqs(s):
    return [tuple(int(x) for x in t.split(":")) for t in s.split()]


def unit_lines(ctx, exe, mfile, rng, variant, nmax):
    """op lines for one model file (probing the real request lists first)."""
    lines = []
    combos_e = [(rng.randint(1, 40), rng.randint(1, 400)) for _ in range(3)] + [(0, 0), (1, 1)]
    combos_i = [(rng.randint(1, 40), rng.randint(1, 6), rng.randint(0, 30)) for _ in range(3)] + [(1, 1, 1)]
    probes = ["probe efc %d %d" % c for c in combos_e] + ["probe island %d %d %d" % c for c in combos_i]
    rc, out, err = ctx.run_lines([exe, "--model", mfile], probes)
    if rc != 0 or len(out) != len(probes) or not all(o.startswith("reqs") for o in out):
        raise common.Infra("probe failed: %s %s" % (out[:3], err[-300:]))
    per = max(8, nmax // (len(probes) + 3))
    for c, o in zip(combos_e, out[:len(combos_e)]):
        rs = o[5:].strip()
        reqs = parse_reqs(rs)
        for _ in range(per):
            ncon = rng.choice((0, 0, 1, 2, 5))
            th = sim_thresholds(reqs, ncon * SZCON)
            pst = rng.choice((0, 0, 24, 100, 1001, rng.randint(0, 5000)))
            r = rng.random()
            if r < 0.7 and th:
                avail = rng.choice(th) + rng.choice((-9, -8, -1, 0, 0, 1, 7))
            elif r < 0.85:
                avail = (th[-1] if th else 0) + rng.randint(0, 4096)
            else:
                avail = rng.randint(ncon * SZCON, (th[-1] if th else 0) + 64)
            avail = max(avail, ncon * SZCON)
            if avail + pst == 0:
                avail = 8
            lines.append("efc %d %d %d %d %d | %s" % (avail + pst, pst, ncon, c[0], c[1], rs))
    for c, o in zip(combos_i, out[len(combos_e):]):
        rs = o[5:].strip()
        reqs = parse_reqs(rs)
        for _ in range(per):
            par = rng.choice((0, 584, 1168 + 40, rng.randint(0, 6000)))
            th = sim_thresholds(reqs, par)
            pst = rng.choice((0, 0, 24, 100, 1001, rng.randint(0, 5000)))
            r = rng.random()
            if r < 0.7 and th:
                avail = rng.choice(th) + rng.choice((-9, -8, -1, 0, 0, 1, 7))
            elif r < 0.85:
                avail = (th[-1] if th else 0) + rng.randint(0, 4096)
            else:
                avail = rng.randint(par, (th[-1] if th else 0) + 64)
            avail = max(avail, par)
            if avail + pst == 0:
                avail = 8
            lines.append("island %d %d %d %d %d %d | %s" % (avail + pst, pst, par, c[0], c[1], c[2], rs))
    for _ in range(per):
        ncon = rng.choice((0, 1, 2, 3, 7))
        pst = rng.choice((0, 0, 24, 100, 1001))
        avail = ncon * SZCON + 24 + rng.choice((0, 1, 8, 100, 559, 560, 561, 567, 568, 583, 584, 585, 600, 5000))
        lines.append("addcon %d %d %d" % (avail + pst, pst, ncon))
    for _ in range(per):
        par = rng.choice((0, 4, 584, 586, rng.randint(0, 4000)))
        pst = rng.choice((0, 24, 100, 1001, rng.randint(0, 3000)))
        slack = rng.choice((0, 1, 3, 4, 20, 23, 24, 25, 26, 27, 28, 48, 1000))
        lines.append("pushpair %s %d %d %d" % (variant, par + slack + pst, pst, par))
    for _ in range(per):
        na = rng.randint(1, 10000)
        par = rng.randint(0, na)
        pst = rng.randint(0, na - par)
        lines.append("alloc %d %d %d %d %d" % (na, par, pst, rng.choice((0, 1, 4, 24, 584, rng.randint(0, na))), rng.choice((1, 2, 4, 8, 16, 64, 3, 12))))
    lines += ["facts", "groups", "frob 1", "efc 10 0 0"]
    return lines


def unit_oracle(line, out):
    """property oracle on the implementation's output of one unit op; None or (key, description)."""
    w = line.split("|")[0].split()
    op = w[0]
    if op in ("facts", "groups"):
        return None
    if op == "frob" or (op == "efc" and "|" not in line):
        return None if out == "bad-op" else ("c20:harness", "malformed op accepted")
    if out == "FAULT":
        return (KEY_PUSHPAIR if op == "pushpair" else "c20:fault-in-" + op,
                "the real %s died (signal / sanitizer) instead of reporting the full arena" % ("pushPairArena" if op == "pushpair" else op))
    if out.startswith("error makeData"):
        return None
    kv = dict(t.split("=", 1) for t in out.split() if "=" in t)
    if op == "pushpair":
        na, pst, par = int(w[2]), int(w[3]), int(w[4])
        p1 = int(kv.get("parena", -1))
        if out.startswith("ok"):
            return None if par <= p1 - 24 and p1 + pst <= na else ("c20:pushpair-bounds", "granted pair outside the arena")
        return None if out.startswith("error") and p1 == par else ("c20:pushpair-state", "unexpected pushPairArena result: " + out)
    if op == "alloc":
        return None
    na, pst = int(w[1]), int(w[2])
    parena = int(kv["parena"])
    if parena + pst > na:
        return ("c20:parena-above-stack", "parena + pstack > narena after " + op)
    if "reqs" in kv and kv["reqs"] != "ok":
        return ("c20:request-list", "the real function did not make the announced requests: " + kv["reqs"])
    solver = [x for x in kv["solver"].split(",") if x != ""]
    island = [x for x in kv["island"].split(",") if x != ""]
    if op == "efc":
        ncon = int(w[3])
        if kv["ret"] == "0":
            ok = all(x == "-" for x in solver + island) and set(kv["dual"]) <= {"0"} and kv["nefc"] == "0" and \
                kv["nisland"] == "0" and parena == ncon * SZCON and kv["wF"] == "1" and kv["ncon"] == str(ncon)
            return None if ok else ("c20:efc-failure-state", "arenaAllocEfc returned 0 but left pointers/counts/parena inconsistent: " + out[:200])
        offs = [int(x) for x in solver]
        ok = all(ncon * SZCON <= o <= parena for o in offs) and offs == sorted(offs) and kv["wF"] == "0"
        return None if ok else ("c20:efc-success-state", "arenaAllocEfc returned 1 with pointers outside [contacts, parena]: " + out[:200])
    if op == "island":
        par = int(w[3])
        if kv["ret"] == "0":
            ok = all(x == "-" for x in island) and kv["nisland"] == "0" and kv["nidof"] == "0" and parena == par and kv["wF"] == "1"
            return None if ok else ("c20:island-failure-state", "arenaAllocIsland returned 0 but left pointers/counts/parena inconsistent: " + out[:200])
        offs = [int(x) for x in island]
        ok = all(par <= o <= parena for o in offs) and offs == sorted(offs)
        return None if ok else ("c20:island-success-state", "arenaAllocIsland returned 1 with pointers outside [parena_old, parena]: " + out[:200])
    if op == "addcon":
        ncon = int(w[3])
        if kv["ret"] == "1":
            ok = kv["ncon"] == str(ncon) and parena == ncon * SZCON and kv["wC"] == "1" and kv["nefc"] == "0" and \
                all(x == "-" for x in solver + island)
            return None if ok else ("c20:addcontact-failure-state", "mj_addContact returned 1 but the state is inconsistent: " + out[:200])
        ok = kv["ncon"] == str(ncon + 1) and parena == (ncon + 1) * SZCON and kv["copied"] == "1" and kv["nefc"] == "0"
        return None if ok else ("c20:addcontact-success-state", "mj_addContact returned 0 but the state is inconsistent: " + out[:200])
    return None


# ------------------------------------------------------------------------------------------------ run
def run(ctx):
    thorough = ctx.tier == "thorough"
    rng = ctx.rng
    ctx.rule = ("(a) unit ops: the real arenaAllocEfc / arenaAllocIsland / mj_addContact / pushPairArena / mj_arenaAllocByte on a "
                "real mjData with prescribed narena, pstack, parena, ncon, nefc, aimed at every failure index of the request "
                "list (distinct by full line; non-trivial = not a malformed op); (b) exhaustion sweep: (model, narena) pairs, "
                "each run in a forked child (mj_makeData + mj_step x2) behind guard pages; sizes = geometric grid from 0 to "
                "1.15 x need plus bisection of every boundary between outcome classes down to one byte (thorough: plus every "
                "8 bytes for three small models, plus an ASan/UBSan build); distinct by (model, narena)")
    import time
    tm = {}
    t0 = time.time()
    ctx.lean_props(THEOREMS)
    tm["lean_props(incl. waiting for the shared lake lock)"] = round(time.time() - t0, 1)

    # ---- T1: guard table regenerated from the source vs the table of the Lean programs
    os.environ.setdefault("VERIF_REPO", common.REPO)
    g = importlib.import_module("translate.c20_guards")
    g.REPO = common.REPO
    table = g.extract()
    ctx.oblige("translator c20_guards: every mj_arenaAllocByte call site has a known shape (%d sites)" % len(table["sites"]),
               "translator", not table["refused"], "; ".join(table["refused"]))
    ctx.extra["guard_table_from_source"] = table["canon"]
    drv = ctx.driver("drv_c20")
    variant = None
    if drv:
        rc, out, err = ctx.run_lines([drv], ["sites asis", "sites fixed"])
        tabs = {"asis": out[0].split(" ;; "), "fixed": out[1].split(" ;; ")} if rc == 0 and len(out) == 2 else {}
        for v in ("fixed", "asis"):
            if tabs.get(v) and [x for x in tabs[v] if x.startswith("pushPairArena|")] == [x for x in table["canon"] if x.startswith("pushPairArena|")]:
                variant = v
                break
        ref = tabs.get(variant or "fixed", [])
        diff = sorted(set(ref) ^ set(table["canon"]))
        ctx.oblige("guard table of the Lean consumer programs == guard table extracted from the source (%d sites)" % len(ref),
                   "translator", ref and sorted(ref) == sorted(table["canon"]), "differs in: " + json.dumps(diff)[:1500])
        ctx.extra["pushPairArena_variant_matched"] = variant
        ctx.oblige("pushPairArena tests the pointer it allocated (never_use_failed_alloc_pushPair_after_fix applies; with the "
                   "as-is variant pushPair_asIs_null_deref applies instead)", "theorem-applicability",
                   variant == "fixed" or (variant == "asis" and KEY_PUSHPAIR in {k["key"] for k in ctx.known()}),
                   "source guard: " + "; ".join(x for x in table["canon"] if x.startswith("pushPairArena|")) +
                   " (an as-is guard is accepted only when %s is a recorded known finding)" % KEY_PUSHPAIR)
    variant = variant or "asis"

    # ---- implementation side
    t0 = time.time()
    impl = ctx.harness("harness/c/c20_exhaust.c", "c20_exhaust", deps=["harness/mjbuild.h"])
    if not (drv and impl):
        return
    cdir = os.path.join(common.CACHE, "c20")
    os.makedirs(cdir, exist_ok=True)

    models = [("spheres14", spheres_model(14)), ("limits-pgs-sparse", limits_model(12, "mjSOL_PGS", "mjJAC_SPARSE")),
              ("limits-pgs-dense", limits_model(9, "mjSOL_PGS", "mjJAC_DENSE"))]
    nclu, ngen = (5, 5) if thorough else (1, 1)
    forced = [("mjSOL_PGS", "mjJAC_SPARSE"), ("mjSOL_PGS", "mjJAC_DENSE"), ("mjSOL_CG", "mjJAC_SPARSE")]
    for i in range(nclu):
        so, ja = forced[i] if i < len(forced) else (None, None)   # the dual (mj_makeY / mj_makeAR) paths are always covered
        models.append(("cluster%d" % i, cluster_model(rng, so, ja)))
    for i in range(ngen):
        models.append(("gen%d" % i, gen_model(rng)))

    tm["build"] = round(time.time() - t0, 1)
    t0 = time.time()
    # ---- T2 + S1: unit ops, differential with the Lean interpreter, then the oracle on the implementation's output
    nunit = 0
    unit_models = models[:6] if thorough else models[:3]
    for name, lines in unit_models:
        mfile = os.path.join(cdir, "m_%s.txt" % hashlib.md5("\n".join(lines).encode()).hexdigest()[:12])
        with open(mfile, "w") as f:
            f.write("\n".join(lines) + "\nend\n")
        ops = unit_lines(ctx, impl, mfile, rng, variant, 1200 if thorough else 500)
        nunit += len(ops)
        rc, outs, err = ctx.run_lines([impl, "--model", mfile], ops)
        # the harness output is computed once; the correspondence compares exactly these lines with the model's
        ofile = mfile + ".out"
        with open(ofile, "w") as f:
            f.write("".join(o + "\n" for o in outs))
        ctx.differential("real consumers vs Lean interpreter on %s" % name, [drv], ["cat", ofile] if rc == 0 else [impl, "--model", mfile], ops,
                         keyf=lambda l: None if l.split()[0] in ("frob", "facts", "groups") or l == "efc 10 0 0" else l)
        os.remove(ofile)
        if rc != 0 or len(outs) != len(ops):
            ctx.oracle_failure("c20:harness-crash", "unit harness died (rc=%s)" % rc, {"model": name, "stderr": err[-400:]})
        else:
            seen = set()
            for l, o in zip(ops, outs):
                r = unit_oracle(l, o)
                if r and r[0] not in seen:
                    seen.add(r[0])
                    ctx.oracle_failure(r[0], r[1], {"model": name, "description": lines, "op": l, "impl_output": o[:400],
                                                    "replay": "c20_exhaust --model <description + 'end'> ; feed the op line on stdin"})
            ctx.sample({"unit_op": ops[3][:160], "impl_and_model_output": outs[3][:200]})
        try:
            os.remove(mfile)
        except OSError:
            pass
    ctx.extra["unit_ops"] = nunit
    tm["unit_ops"] = round(time.time() - t0, 1)
    t0 = time.time()

    # ---- S2: exhaustion sweep on real mj_step, every size in a forked child
    fails, traces, hist = [], [], {}
    sw = Sweeper(ctx, impl, {}, 8 if thorough else 6)
    nsizes = {}
    for idx, (name, lines) in enumerate(models):
        nsizes[name] = sweep_model(ctx, sw, name, lines, 2 if thorough else 1, thorough and idx in (1, 2, len(models) - 1), rng, fails,
                                   traces, hist, scan=66 if thorough else 21, budget=6000 if thorough else 650)
    if thorough:
        asan = ctx.harness("harness/c/c20_exhaust.c", "c20_exhaust", variant="asan", deps=["harness/mjbuild.h"])
        if asan:
            sa = Sweeper(ctx, asan, {"C20_NOFENCE": "1", "ASAN_OPTIONS": "detect_leaks=0:abort_on_error=0:allocator_may_return_null=1:detect_odr_violation=0",
                                     "UBSAN_OPTIONS": "print_stacktrace=0"}, 8)
            for name, lines in models[:4]:
                nsizes[name + "[asan]"] = sweep_model(ctx, sa, name + "[asan]", lines, 2, False, rng, fails, traces, hist, max_rounds=12)
            sw.nruns += sa.nruns
    tm["sweeps"] = round(time.time() - t0, 1)
    ctx.extra["timing_s"] = tm
    ctx.extra["sweep_children_run"] = sw.nruns
    ctx.extra["sweep_sizes_per_model"] = nsizes
    ctx.extra["sweep_outcome_classes"] = {k: v for k, v in sorted(hist.items()) if k != "skipped-models"}
    if hist.get("skipped-models"):
        ctx.extra["sweep_skipped_models"] = hist["skipped-models"]
    seen = {}
    nst = 2 if thorough else 1
    for f in fails:
        seen.setdefault(f["key"], []).append(f)
    by_name = dict(models)
    for key, fl in seen.items():
        f = fl[0]
        mname = f["model"].replace("[asan]", "")
        ctx.oracle_failure(key, f["what"], {
            "model": f["model"], "narena": f["narena"], "other_failing_sizes_same_key": sorted({(x["model"], x["narena"]) for x in fl[1:]})[:30],
            "description": by_name.get(mname), "nsteps": nst,
            "replay": "printf 'model m\\n<description lines>\\nend\\nsweep %d 0 %d\\n' | <c20_exhaust harness>: the child runs "
                      "mj_makeData with m->narena = %d and %d mj_step" % (nst, f["narena"], f["narena"], nst)})
    if traces:
        ctx.sample({"sweep": "model %s narena %d" % (models[0][0], traces[0][0]), "last_alloc": traces[0][1:]})

    # ---- T3: the allocator answers recorded in the sweeps vs the Lean arena model
    tl, want = [], []
    for t in traces[:40000 if thorough else 6000]:
        sz, func, line, par0, pst, by, al, res, par1 = t
        if al == 0 or sz == 0:
            continue
        tl.append("alloc %d %d %d %d %d" % (sz, par0, pst, by, al))
        want.append("null %d" % par1 if res < 0 else "ptr %d %d" % (res, par1))
    if tl:
        rc, got, err = ctx.run_lines([drv], tl)
        bad = [{"line": l, "model": g_, "impl": w_} for l, g_, w_ in zip(tl, got, want) if g_ != w_]
        if rc != 0 or len(got) != len(tl):
            raise common.Infra("drv_c20 failed on the allocator trace: " + err[-300:])
        ctx.oblige("correspondence: %d mj_arenaAllocByte answers recorded in real mj_step runs == Lean arena model" % len(tl),
                   "correspondence", not bad, json.dumps(bad[:5]))
        for l in tl:
            ctx.count(("trace", l))
        if bad:
            ctx.disagreements += [dict(b, stream="allocator trace") for b in bad[:20]]

    def directed(c):
        # a proof/tie obligation broke and nothing failed so far: every 8 bytes from 0 to need, full boundary refinement
        # and wide neighbourhood scans on the models that reach every allocation site
        s2 = Sweeper(c, impl, {}, 8)
        cand = [("limits-pgs-sparse", limits_model(12, "mjSOL_PGS", "mjJAC_SPARSE")), ("limits-pgs-dense", limits_model(9, "mjSOL_PGS", "mjJAC_DENSE")),
                ("limits-cg-sparse", limits_model(16, "mjSOL_CG", "mjJAC_SPARSE")), ("spheres14", spheres_model(14)), ("spheres9", spheres_model(9))]
        for nm, ls in cand:
            fl, tr, hi = [], [], {}
            sweep_model(c, s2, nm, ls, 2, True, c.rng, fl, tr, hi)
            if fl:
                f = fl[0]
                return {"key": f["key"], "what": f["what"], "replay": {"model": f["model"], "narena": f["narena"], "description": ls, "nsteps": 2,
                        "replay": "printf 'model m\\n<description lines>\\nend\\nsweep 2 0 %d\\n' | <c20_exhaust harness>" % f["narena"]}}
        return None
    ctx.directed_search = directed
    if thorough:
        ctx.leanchecker(["MjProof.Props.C20"])
