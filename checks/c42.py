"""C42  Schema generators faithfully translate any valid schema (DESIGN.md §5.C42)."""
import os
import time

from checks import common, c41
from checks import c42_gen as G
from checks import c42_oracle as O

# this check never reads lean/MjProof/Gen: no generated-code lock needed
USES_GEN = False

META = {
    "technique": "Lean 4 proof (byte-level printer/parser round trip by composition over ++; well-founded walks) + exact byte-for-byte differential "
                 "correspondence of six generators with doc/generate/generate_*.py + independent extraction oracle on all seven",
    "text": "Lean re-implementations (core Lean, compiled) of generate_mjcf_map, generate_mjcf_table, generate_default_table (stage 1) and "
            "generate_read_table, generate_xsd, generate_dmcontrol (stage 2) as pure functions of the schema parsed by the C41 model "
            "(plus the struct layouts / mjN* macros returned by the tree's header parsers), including Python's repr(float) (shortest "
            "round-trip digits on exact rationals), str.ljust/capitalize, sorted(), xml escape/quoteattr, the 100-column row wrapping, the "
            "recursion/queue disciplines of the element walks (well-founded: RecursionError / AssertionError / KeyError / ValueError / "
            "OverflowError are outcomes of the model). Stage 1 is split into a row layer (schema -> structured rows) and a render layer; "
            "extraction functions parse the bytes back. Proved for every schema: extract(render(rows)) = rows for the keyword-map header, "
            "the MJCF[] grammar table (whatever the line wrapping) with its constraint array, and the default table (nothing missing, "
            "nothing extra, order, names, cardinalities, constants, kinds, lengths, ndecl and default values preserved), under lexical "
            "well-formedness of the names/values in the rows; every table row lists exactly the element's expanded (projected) attributes "
            "under its XML tag and declared cardinality; nested rows are the declared children in order; an enum default is emitted as "
            "its declared constant, a vector default value by value; an attribute without default never gets values; determinism as "
            "functional purity. The model is hand-written; it is tied to the tree by running the unmodified Python generators (module "
            "paths pointed at the op's schema/header text) against the compiled model: outputs must be byte-identical (or the same "
            "exception class) on grammar-generated valid schemas with synthesised C headers and on the real mjcf.schema with the real "
            "headers. Oracle on the Python outputs alone, all seven generators incl. generate_schema.py: a second run under another "
            "PYTHONHASHSEED must give identical bytes; an independent regex / xml.etree extraction of every artefact is compared with "
            "the schema as parsed by the C41 Lean model (element, expanded attribute, type, arity, default, required, enum constants, "
            "children, nothing extra).",
    "note": "the three round-trip theorems are named _partial: the lexical hypotheses (no quote/newline/separator inside identifiers and "
            "values) are assumed, not derived from parseString (the driver's xgen op evaluates extract(generate s) = rows on every sampled "
            "schema instead); stage-2 generators have byte-exact models tied by the differential run but no extraction theorem; "
            "generate_schema.py (rst) is oracle-only; exception *classes* are modelled, not messages; the overlay tables of the Python "
            "modules (NOT_TABLE_DRIVEN, CONFLICTS, SINGLETONS, ...) are transcribed constants (a changed entry is detected only if a "
            "sampled or the real schema exercises it); SENSOR_DISPATCH / EMIT_GROUPS are replaced per generated schema (they must name "
            "schema elements) and kept for the real schema; parse_spec_structs / parse_dims are run by the harness, their results are "
            "inputs of the model; Python's recursion limit is modelled only as 'unbounded recursion'.",
}

P = "MjProof.C42."
THEOREMS = [P + n for n in [
    "generators_deterministic",
    "map_rows_are_declarations",
    "map_extract_generate_partial",
    "table_extract_generate_partial",
    "row_lists_expanded_attrs",
    "kids_are_declared_children",
    "default_extract_generate_partial",
    "default_values_enum",
    "default_values_vec",
    "no_default_no_values",
]]

IMPL = os.path.join(common.VERIF, "harness", "py", "c42_generate.py")
PY = "/venv/bin/python"
MODELLED = ("map", "table", "default", "read", "xsd", "dmcontrol")
ALL = MODELLED + ("rst",)


class Case:
    pass


def make_case(rng, size):
    c = Case()
    g = G.Gen42(rng, size)
    s = g.schema()
    c.text = c41.Render(rng, wild=False).schema(s)
    names = [e["name"] for e in s["elements"]]
    c.sensors = rng.sample(names, min(len(names), rng.randint(0, 3)))
    specs = [e["spec"] for e in s["elements"] if e["spec"]]
    c.groups = [(gr["name"], rng.choice(specs) if specs and rng.random() < 0.95 else "mjsNone", "kGroup%dAttrs" % k)
                for k, gr in enumerate(rng.sample(s["groups"], min(len(s["groups"]), rng.randint(0, 2))))]
    c.hdr = G.header_for(rng, s, c.groups)
    c.stream = "generated"
    return c


DIRECTED = [
    # group expansion through two levels, the last attribute of the innermost group is the last of the expansion
    "group g2 {\n p : double[3] = {1, 2, 3}\n q : int = 4\n}\ngroup g1 {\n a : double\n use g2\n}\n"
    "element mujoco : mjsA {\n use g1\n child body R\n}\nelement body : mjsA {\n use g2\n child body R\n}\n"
    "element worldbody (alias=body) {\n}\n",
    # required attribute (no default allowed), vector arities, enum constants
    "enum kind : mjtKind {\n none = mjKIND_NONE\n \"2d\" = mjKIND_2D\n cube = 7\n}\n"
    "element mujoco : mjsA {\n k : enum<kind> = cube\n r : double (required)\n v : double[2..5] = {0.5, 1e-10}\n"
    " w : float[] \n f : flags<kind>\n child option ?\n}\nelement option : mjsA (field=sub) {\n t : double = 0.002 (min=0, positive)\n}\n",
    # the default section: projection, default_* children, plugin
    "element mujoco {\n model : string = \"MuJoCo Model\"\n child default ?\n child plugin *\n}\n"
    "element default {\n class : id<default>\n child default R\n child geom ?\n child default_x ?\n}\n"
    "element geom : mjsG {\n name : id<geom>\n class : ref<default>\n size : double[0..3] = {0.005} (nodefault)\n"
    " rgba : float[4] = {0.5, 0.5, 0.5, 1}\n child plugin ?\n}\nelement default_x : mjsG {\n size : double[0..3]\n}\n"
    "element plugin {\n plugin : string\n}\n",
]
DIRECTED_HDR = ("#define mjNREF 2\ntypedef struct mjsA_ {\n  double p[3];\n  int q;\n  double a;\n  mjtKind k;\n  double r;\n  double v[5];\n"
                "  mjFloatVec* w;\n  int f;\n  struct {\n    mjtNum t;\n  } sub;\n} mjsA;\n"
                "typedef struct mjsG_ {\n  mjString* name;\n  double size[3];\n  float rgba[4];\n} mjsG;\n")


def gen_cases(ctx):
    rng = ctx.rng
    n = 110 if ctx.tier == "quick" else 3000
    cases = []
    for text in DIRECTED:
        c = Case()
        c.text, c.hdr, c.sensors, c.groups, c.stream = text, DIRECTED_HDR, [], [], "directed"
        cases.append(c)
    for _ in range(n):
        cases.append(make_case(rng, rng.randint(2, 8) if rng.random() < 0.9 else rng.randint(9, 16)))
    real = Case()
    real.text = open(os.path.join(common.REPO, "src", "xml", "mjcf.schema"), encoding="utf-8").read()
    real.hdr, real.sensors, real.groups, real.stream = None, None, None, "real"
    cases.append(real)
    return cases


def parse_inputs(tok):
    """`structs ... dims ...` (harness serialisation) -> (structs dict, dims dict)"""
    t = tok.split(" ")
    i = 0

    def nxt():
        nonlocal i
        v = t[i]
        i += 1
        return v

    def s():
        v = nxt()
        return None if v == "-" else G.unesc(v[1:])
    assert nxt() == "structs"
    structs = {}
    for _ in range(int(nxt())):
        name = s()
        fields = {}
        for _ in range(int(nxt())):
            f = s()
            ct = s()
            fields[f] = (ct, s())
        structs[name] = fields
    assert nxt() == "dims"
    dims = {}
    for _ in range(int(nxt())):
        k = s()
        dims[k] = int(nxt())
    return structs, dims


def text_of(out):
    return G.unesc(out[4:]) if out.startswith("ok =") else None


def oracle_case(c, S, which, out):
    text = text_of(out)
    if text is None:
        return []
    if which == "map":
        return O.check_map(S, text)
    if which == "table":
        return O.check_table(S, text)
    if which == "default":
        return O.check_default(S, c.structs, text)
    if which == "read":
        return O.check_read(S, c.structs, c.sensors if c.sensors is not None else REAL_SENSORS, c.groups if c.groups is not None else REAL_GROUPS, text)
    if which == "xsd":
        return O.check_xsd(S, c.dims, text)
    if which == "dmcontrol":
        return O.check_dmcontrol(S, c.dims, text)
    return O.check_rst(S, text)


# the module constants of generate_read_table.py, as the oracle's expectation for the real schema (read from the tree's
# source text by the `ast` module: configuration, not code)
REAL_SENSORS, REAL_GROUPS = [], []


def load_real_cfg():
    import ast
    global REAL_SENSORS, REAL_GROUPS
    src = open(os.path.join(common.REPO, "doc", "generate", "generate_read_table.py"), encoding="utf-8").read()
    for node in ast.parse(src).body:
        if isinstance(node, ast.Assign) and len(node.targets) == 1 and isinstance(node.targets[0], ast.Name):
            if node.targets[0].id == "SENSOR_DISPATCH":
                REAL_SENSORS = ast.literal_eval(node.value)
            elif node.targets[0].id == "EMIT_GROUPS":
                REAL_GROUPS = [(k, v[0], v[1]) for k, v in ast.literal_eval(node.value).items()]


def build_lines(cases, which_set):
    lines, meta = [], []
    for ci, c in enumerate(cases):
        for w in which_set:
            hdr = c.hdr
            if w == "rst":
                hdr = c.links
            lines.append(G.op_line(w, c.text, hdr, c.inputs, G.ser_cfg(c.sensors, c.groups)))
            meta.append((ci, w))
    return lines, meta


def prepare(ctx, cases, drv41):
    """header parser results (implementation), reference schema (C41 Lean model)"""
    rc, outs, err = ctx.run_lines([PY, IMPL, common.REPO], ["inputs " + ("-" if c.hdr is None else "=" + G.esc(c.hdr)) for c in cases])
    if rc != 0 or len(outs) != len(cases) or not all(o.startswith("ok ") for o in outs):
        ctx.oblige("header parsers (parse_spec_structs / parse_dims) run on every header", "impl-build", False,
                   "rc=%s outs=%d %s %s" % (rc, len(outs), [o for o in outs if not o.startswith("ok ")][:2], err[-500:]))
        return False
    for c, o in zip(cases, outs):
        c.inputs = o[3:]
        c.structs, c.dims = parse_inputs(c.inputs)
    rc, dumps, err = ctx.run_lines([drv41], ["parse " + c41.enc(c.text) for c in cases])
    if rc != 0 or len(dumps) != len(cases):
        raise common.Infra("drv_c41 failed: rc=%s %s" % (rc, err[-300:]))
    for c, d in zip(cases, dumps):
        c.S = O.Sch(c41.DumpReader(d).schema()) if d.startswith("ok ") else None
        c.links = None
        if c.S is not None and c.stream != "real":
            c.links = "Reference\n=========\n\n" + "".join(".. _%s:\n\n" % l for l in O.rst_links(c.S))
    return True


def run_oracle(ctx, cases, meta, outs, outs2, lines, limit=3):
    n_fail, seen = 0, {}
    stats = {}
    for (ci, w), o, o2, line in zip(meta, outs, outs2, lines):
        c = cases[ci]
        k = o.split(" ")[0] if o.startswith("ok") else o
        stats.setdefault(w, {}).setdefault(k, 0)
        stats[w][k] += 1
        fails = []
        if o != o2:
            fails.append(("c42:nondeterministic-" + w, "two runs (different PYTHONHASHSEED) of generate_%s differ" % w))
        if o == "bad-op" or o.startswith("error input-mismatch"):
            fails.append(("c42:harness-" + w, "harness answered %r" % o))
        if c.S is not None and o.startswith("ok ="):
            try:
                fails += oracle_case(c, c.S, w, o)
            except RecursionError:
                fails.append(("c42:oracle-recursion-" + w, "generator terminated on a schema whose element walk does not"))
        elif c.S is None and o.startswith("ok ="):
            fails.append(("c42:generated-from-invalid-schema", "generator %s produced output for a schema the C41 model rejects" % w))
        for key, what in fails:
            n_fail += 1
            if seen.get(key, 0) < limit:
                seen[key] = seen.get(key, 0) + 1
                ctx.oracle_failure(key, what, {"stream": c.stream, "generator": w, "schema": c.text[:6000], "header": (c.hdr or "<real headers>")[:3000],
                                               "sensors": c.sensors, "groups": c.groups, "impl_output_head": o[:300],
                                               "op_head": line[:200],
                                               "replay": "re-run with the recorded seed; the op line is `gen %s ...` fed to %s %s %s" % (w, PY, IMPL, common.REPO)})
    return n_fail, stats


def run(ctx):
    ctx.rule = ("op lines `gen <which> <schema> <header> <structs> <dims> <cfg>`: grammar-generated VALID schemas (mujoco root, acyclic "
                "child graph with self-recursion, aliases, default/plugin/worldbody and dm_control overlay names, enums with quoted "
                "keywords, groups with nested use, vector/symbolic arities, numeric/enum/bool/string defaults incl. float edge cases, "
                "facets) rendered with random layout, each with a synthesised C header (mostly consistent bindings, a few deliberately "
                "wrong), plus 3 directed schemas and the real mjcf.schema with the real headers; x 6 modelled generators (+ rst for "
                "the oracle); distinct by (generator, schema text); non-trivial = the generator produced an artefact (not an exception)")
    phase, t_last = {}, [time.time()]

    def mark(name):
        now = time.time()
        phase[name] = round(now - t_last[0], 1)
        t_last[0] = now
    ctx.extra["phase_seconds"] = phase
    ctx.lean_props(THEOREMS)
    mark("lean_props")
    drv = ctx.driver("drv_c42")
    drv41 = ctx.driver("drv_c41")
    mark("driver_build")
    gen_dir = os.path.join(common.REPO, "doc", "generate")
    missing = [f for f in ("mjcf_schema.py", "generate_mjcf_map.py", "generate_mjcf_table.py", "generate_default_table.py",
                           "generate_read_table.py", "generate_xsd.py", "generate_dmcontrol.py", "generate_schema.py")
               if not os.path.exists(os.path.join(gen_dir, f))]
    if missing:
        ctx.oblige("anchors doc/generate/*.py exist", "impl-build", False, "missing: %s" % missing)
        return
    if not drv or not drv41:
        return
    try:
        load_real_cfg()
    except Exception as e:  # the configuration constants moved: the oracle cannot state its expectation for the real schema
        ctx.oblige("SENSOR_DISPATCH / EMIT_GROUPS readable from generate_read_table.py", "impl-build", False, repr(e))
    cases = gen_cases(ctx)
    if not prepare(ctx, cases, drv41):
        return
    mark("generate")
    lines, meta = build_lines(cases, MODELLED)
    bad_ops = ["gen", "gen map", "frob 1", "gen nosuch =x - structs 0 dims 0 sensors 0 groups 0", "gen map =x - structs 0 dims 0 sensors 0"]
    ctx.differential("malformed ops are rejected", [drv], [PY, IMPL, common.REPO], bad_ops, keyf=lambda l: None)
    outs = []

    def cmp(a, b):
        outs.append(b)
        return a == b

    def keyf(l):
        return None
    nontrivial = {"n": 0}
    bad = ctx.differential("generate_{mjcf_map,mjcf_table,default_table,read_table,xsd,dmcontrol}.generate() vs Lean model (bytes)",
                           [drv], [PY, IMPL, common.REPO], lines, keyf=keyf, cmp=cmp)
    # count as non-trivial the ops on which an artefact was produced
    if len(outs) == len(lines):
        for l, o in zip(lines, outs):
            if o.startswith("ok ="):
                ctx.nontrivial.add(common.hashlib.md5(l.encode()).hexdigest()[:12])
    mark("differential")
    if len(outs) != len(lines):
        rc, outs, err = ctx.run_lines([PY, IMPL, common.REPO], lines)
        if rc != 0 or len(outs) != len(lines):
            ctx.oracle_failure("c42:harness-crash", "python harness stopped (rc=%s) after %d of %d ops" % (rc, len(outs), len(lines)),
                               {"stderr": err[-800:]})
            return
    # rst: implementation only
    rlines, rmeta = build_lines(cases, ("rst",))
    rc, routs, err = ctx.run_lines([PY, IMPL, common.REPO], rlines)
    if rc != 0 or len(routs) != len(rlines):
        ctx.oracle_failure("c42:harness-crash", "python harness stopped on generate_schema ops (rc=%s)" % rc, {"stderr": err[-800:]})
        return
    all_lines, all_meta, all_outs = lines + rlines, meta + rmeta, outs + routs
    # ---- S: determinism (fresh process, different hash seed) + independent extraction
    rc, outs2, err = ctx.run_lines([PY, IMPL, common.REPO], all_lines, env={"PYTHONHASHSEED": str(1 + ctx.seed % 1000)})
    if rc != 0 or len(outs2) != len(all_lines):
        ctx.oracle_failure("c42:harness-crash", "second run of the python harness stopped (rc=%s)" % rc, {"stderr": err[-800:]})
        return
    mark("second_run")
    n_fail, stats = run_oracle(ctx, cases, all_meta, all_outs, outs2, all_lines)
    mark("oracle")
    ctx.extra["oracle_checked"] = len(all_lines)
    ctx.extra["oracle_failures"] = n_fail
    ctx.extra["outcomes_per_generator"] = stats
    ctx.extra["schemas"] = {"generated": sum(1 for c in cases if c.stream == "generated"), "directed": len(DIRECTED), "real": 1,
                            "rejected_by_c41_model": sum(1 for c in cases if c.S is None)}
    sizes = [len(c.text) for c in cases if c.stream == "generated"]
    ctx.extra["schema_text_chars"] = {"min": min(sizes), "median": sorted(sizes)[len(sizes) // 2], "max": max(sizes)}
    art = [len(text_of(o)) for o in all_outs if o.startswith("ok =")]
    ctx.extra["artefact_chars_total"] = sum(art)
    # ---- model-side evaluation of extract(generate s) = rows on every sample (what the _partial theorems conclude)
    xl = ["x" + l for (ci, w), l in zip(meta, lines) if w in ("map", "table", "default")]
    rc, xo, err = ctx.run_lines([drv], xl)
    ok = rc == 0 and len(xo) == len(xl) and all(o.startswith("error ") or o.endswith(" extract=rows") for o in xo)
    ctx.oblige("model: extract(generate s) = rows(s) evaluated on %d sampled (schema, stage-1 generator) pairs" % len(xl), "correspondence", ok,
               str([o for o in xo if not (o.startswith("error ") or o.endswith(" extract=rows"))][:3]) + err[-300:])
    ctx.extra["model_roundtrip_ok"] = sum(1 for o in xo if o.endswith(" extract=rows"))
    mark("model_roundtrip")
    k = next((i for i, (ci, w) in enumerate(meta) if w == "table" and outs[i].startswith("ok =") and cases[ci].stream == "generated"), 0)
    ctx.sample({"stream": cases[meta[k][0]].stream, "generator": meta[k][1], "schema": cases[meta[k][0]].text[:500],
                "model_and_impl_output": (text_of(outs[k]) or outs[k])[-600:]})
    k = next((i for i, (ci, w) in enumerate(meta) if w == "default" and outs[i].startswith("ok =") and cases[ci].stream == "generated"
              and "kDefaults_" in outs[i]), 0)
    ctx.sample({"stream": cases[meta[k][0]].stream, "generator": meta[k][1], "header": (cases[meta[k][0]].hdr or "")[:300],
                "model_and_impl_output": (text_of(outs[k]) or outs[k])[-500:]})
    k = next((i for i, o in enumerate(outs) if o.startswith("error ")), 0)
    ctx.sample({"stream": cases[meta[k][0]].stream, "generator": meta[k][1], "model_and_impl_output": outs[k]})

    def directed(ctx2):
        """a tie broke and the oracle was silent: more schemas through the real generators and the oracle only"""
        rng = ctx2.rng
        for rnd in range(6):
            cs = [make_case(rng, rng.randint(2, 10)) for _ in range(80)]
            if not prepare(ctx2, cs, drv41):
                return None
            ls, mt = build_lines(cs, ALL)
            rc_, os_, _ = ctx2.run_lines([PY, IMPL, common.REPO], ls)
            if rc_ != 0 or len(os_) != len(ls):
                return None
            for (ci, w), o in zip(mt, os_):
                c = cs[ci]
                if c.S is None or not o.startswith("ok ="):
                    continue
                try:
                    f = oracle_case(c, c.S, w, o)
                except RecursionError:
                    continue
                if f:
                    return {"key": f[0][0], "what": f[0][1], "replay": {"generator": w, "schema": c.text[:6000], "header": c.hdr[:3000],
                                                                         "sensors": c.sensors, "groups": c.groups}}
        return None
    ctx.directed_search = directed
