"""C03  Thread-pool dispatch runs each task exactly once (DESIGN.md §5.C03)."""
import concurrent.futures as cf
import json
import os
import subprocess
import sys

from . import common

sys.path.insert(0, os.path.join(common.VERIF, "translate"))
import c03_orders  # noqa: E402

META = {
    "technique": "Lean 4 proof (inductive invariant over a per-thread program-counter transition system, ranking function) + "
                 "step-level schedule replay of the unmodified engine_thread.cc under a controlled scheduler + "
                 "memory-order table extracted from the source",
    "text": "ThreadPoolContext (constructor, destructor, Dispatch, Worker) and mju_threadpool / mju_dispatch modelled as a "
            "transition system with one program counter per thread and one transition per atomic operation, sequentially "
            "consistent atomics, C++20 wait/notify semantics incl. spurious wake-ups. Proved for every pool size, task count, "
            "API history and interleaving: the ownership/completion-counter invariant; every dispatch return has run each id "
            "0..n-1 exactly once on a pool thread id with no worker left inside the task function; no lost/duplicate task in "
            "any reachable state; a non-spin step is always enabled during a call (deadlock freedom); a ranking function "
            "bounds the non-spin steps of a dispatch by 3n+5N+7 (termination under a fair scheduler); every mju_threadpool "
            "return leaves exactly the requested workers parked (none after destroy). Tie: the unmodified engine_thread.cc is "
            "compiled against instrumented std::atomic/std::thread replacements; for every schedule (all schedules up to a "
            "preemption bound for small pools, seeded random ones for larger) the event trace of the real code must equal the "
            "model's trace exactly; the memory_order argument of every atomic operation is extracted from the source and must "
            "give release on publishing stores/RMWs and acquire on consuming loads/waits.",
    "note": "atomics are sequentially consistent in the model: weak-memory behaviour is covered only by the checked "
            "release/acquire table, not by the proofs or the replay; the OS-level implementation of std::atomic::wait/notify "
            "and of std::thread is replaced by the controlled scheduler in the replay (real threads are exercised only by the "
            "seeded random-yield runs, which compare the multiset of executed task ids); int overflow of next_ is not modelled "
            "(Nat counters).",
}

THEOREMS = [
    "MjProof.C03.inv_reachable",
    "MjProof.C03.exactly_once",
    "MjProof.C03.idle_workers_parked",
    "MjProof.C03.no_lost_or_duplicate",
    "MjProof.C03.deadlock_free",
    "MjProof.C03.call_enabled",
    "MjProof.C03.bounded_progress",
    "MjProof.C03.dispatch_step_bound",
    "MjProof.C03.threadpool_step_bound",
    "MjProof.C03.can_always_finish",
    "MjProof.C03.lifecycle",
    "MjProof.C03.ntask_race_free",
    "MjProof.C03.orders_pairing",
]

ENGINE_THREAD = os.path.join(common.REPO, "src", "engine", "engine_thread.cc")

# (history, preemption bound) enumerated exhaustively by the Lean model
ENUM_QUICK = [
    ("p1,d2,p0", 2), ("p1,d3,p0", 2), ("p2,d2,p0", 2), ("p2,d3,p0", 2),
    ("p1,p0", 2), ("p2,p0", 2), ("p3,p0", 1),
    ("p1,d2,d2,p0", 1), ("p2,d2,d3,p0", 1), ("p1,d2,p2,d2,p0", 1), ("p2,d2,p1,d2,p0", 1),
    ("p2,p2,d2,p0", 1), ("p1,d1,d0,d2,p0", 1), ("d3", 2), ("p0,d2,p0", 2),
]
ENUM_THOROUGH = [
    ("p1,d2,p0", 3), ("p1,d3,p0", 3), ("p1,d5,p0", 3), ("p2,d2,p0", 3), ("p2,d3,p0", 3),
    ("p2,d4,p0", 2), ("p3,d3,p0", 1), ("p3,d2,p0", 1), ("p3,d5,p0", 1), ("p4,d3,p0", 0), ("p5,d4,p0", 0),
    ("p1,p0", 3), ("p2,p0", 3), ("p3,p0", 2), ("p4,p0", 1),
    ("p1,d2,d2,p0", 2), ("p2,d2,d3,p0", 2), ("p1,d2,p2,d2,p0", 2), ("p2,d2,p1,d2,p0", 2), ("p2,d3,p3,d3,p0", 1),
    ("p3,d3,p2,d3,p0", 0), ("p2,p2,d2,p0", 2), ("p3,p3,p0", 1), ("p1,d1,d0,d2,p0", 2), ("d3", 2), ("p0,d2,p0", 2),
    ("p2,d2,d2,d2,p0", 1),
]
MALFORMED = ["run p2 | 0", "run x3 |", "frob 1 2", "run p1,p0", "run p17,p0 |", "run p1,p0 | 17", "run p1,d1001,p0 |",
             "free x p1,p0", "free 1 p1", "run p1,,p0 |"]


def strip_suffix(out):
    return out.split(" # ")[0] if " # " in out else out


# ------------------------------------------------------------------------------------------ generators

def enum_lines(ctx, drv, table, cap):
    lines, info = [], {}
    qs = ["enum %d %d %s" % (pb, cap, h) for h, pb in table]
    rc, outs, err = ctx.run_lines([drv], qs)
    if rc != 0 or len(outs) != len(qs):
        raise common.Infra("model driver failed on enum: " + err[-300:])
    for (h, pb), o in zip(table, outs):
        head, _, rest = o.partition(";")
        cnt, exh = head.split(":")
        scheds = rest.split(";") if rest else []
        if len(scheds) != int(cnt):
            raise common.Infra("enum output malformed for " + h)
        info["%s pb<=%d" % (h, pb)] = {"schedules": int(cnt), "exhaustive": exh == "1"}
        lines += ["run %s | %s" % (h, s) for s in scheds]
    return lines, info


def rand_hist(rng, maxN, maxn, free=False):
    ops, alive = [], 0
    nops = rng.randint(1, 6)
    for _ in range(nops):
        r = rng.random()
        if r < 0.35 or (not alive and r < 0.5):
            k = rng.choice((0, 1, 1, 2, 2, 3, rng.randint(1, maxN), rng.randint(1, maxN), alive))
            ops.append("p%d" % k)
            alive = k
        else:
            n = rng.choice((0, 1, 2, 2, 3, 3, 4, 5, rng.randint(2, maxn), rng.randint(2, maxn)))
            ops.append("d%d" % n)
    if alive:
        ops.append("p0")
    return ",".join(ops)


def rand_sched(rng, N, length):
    style = rng.choice(("uniform", "bursty", "bursty", "starve-main", "starve-worker", "main-first", "pairs"))
    ids = list(range(N + 1))
    out = []
    if style == "uniform":
        out = [rng.choice(ids) for _ in range(length)]
    elif style == "bursty":
        while len(out) < length:
            t = rng.choice(ids)
            out += [t] * min(length - len(out), 1 + int(rng.expovariate(0.25)))
    elif style == "starve-main":
        w = ids[1:] or [0]
        out = [rng.choice(w) if rng.random() < 0.93 else 0 for _ in range(length)]
    elif style == "starve-worker":
        v = rng.choice(ids[1:] or [0])
        w = [t for t in ids if t != v] or [0]
        out = [rng.choice(w) if rng.random() < 0.95 else v for _ in range(length)]
    elif style == "main-first":
        k = rng.randint(0, length)
        out = [0] * k + [rng.choice(ids) for _ in range(length - k)]
    else:
        a, b = rng.choice(ids), rng.choice(ids)
        out = [a if rng.random() < 0.5 else b for _ in range(length)]
    return style, ",".join(map(str, out))


def random_lines(ctx, count):
    rng = ctx.rng
    lines, hist = [], {}
    for _ in range(count):
        maxN = rng.choice((2, 3, 4, 4, 6, 8, 12, 16))
        maxn = rng.choice((3, 5, 8, 12, 20, 40))
        h = rand_hist(rng, maxN, maxn)
        ks = [int(w[1:]) for w in h.split(",") if w[0] == "p"]
        N = max(ks) if ks else 0
        work = sum(12 + 6 * N for _ in h.split(",")) + 4 * sum(int(w[1:]) for w in h.split(",") if w[0] == "d")
        length = rng.choice((0, work // 4, work // 2, work, work, 2 * work))
        style, sc = rand_sched(rng, N, length)
        lines.append("run %s | %s" % (h, sc))
        b = "N<=2" if N <= 2 else "N<=4" if N <= 4 else "N<=8" if N <= 8 else "N<=16"
        hist[b + ":" + style] = hist.get(b + ":" + style, 0) + 1
    return lines, hist


def free_lines(ctx, count):
    rng = ctx.rng
    fixed = ["p4,p0", "p1,p0", "p8,p0", "p2,d2,p0", "p4,d100,d100,p0", "p3,d7,p5,d7,p1,d7,p0", "p2,p2,d9,p3,p0"]
    out = []
    for i in range(count):
        h = fixed[i] if i < len(fixed) else rand_hist(rng, rng.choice((2, 4, 8)), rng.choice((5, 30, 200)))
        out.append("free %d %s" % (rng.randint(0, 9999999), h))
    return out


# ------------------------------------------------------------------------------------------ running the implementation

def run_impl(exe, lines, nproc, timeout):
    """Run the harness on `lines` split over nproc processes. -> (outputs, problems) where outputs[i] is None when the
    process died / hung before answering line i, problems = [(kind, line, detail)]."""
    if not lines:
        return [], []
    nproc = max(1, min(nproc, len(lines) // 50 + 1))
    chunks = [lines[i::nproc] for i in range(nproc)]

    def one(ch):
        try:
            r = subprocess.run([exe], input="".join(l + "\n" for l in ch), capture_output=True, text=True, timeout=timeout)
            outs = r.stdout.split("\n")
            if outs and outs[-1] == "":
                outs.pop()
            return r.returncode, outs, r.stderr
        except subprocess.TimeoutExpired as e:
            so = e.stdout.decode() if isinstance(e.stdout, bytes) else (e.stdout or "")
            outs = so.split("\n")
            if outs and outs[-1] == "":
                outs.pop()
            return "timeout", outs, ""

    with cf.ThreadPoolExecutor(max_workers=nproc) as ex:
        res = list(ex.map(one, chunks))
    outputs = [None] * len(lines)
    problems = []
    for c, (rc, outs, err) in enumerate(res):
        ch = chunks[c]
        for j, o in enumerate(outs[:len(ch)]):
            outputs[c + j * nproc] = o
        if rc != 0 or len(outs) < len(ch):
            bad = ch[min(len(outs), len(ch) - 1)]
            if rc == "timeout" or "WATCHDOG" in err:
                problems.append(("deadlock", bad, "no answer within the watchdog limit (rc=%s) %s" % (rc, err[-200:])))
            else:
                problems.append(("crash", bad, "harness died rc=%s after %d answers: %s" % (rc, len(outs), err[-300:])))
    return outputs, problems


# ------------------------------------------------------------------------------------------ property oracle

def oracle_run(line, out):
    """Oracle on the implementation's event trace alone. -> list of (key, what)."""
    fails = []
    toks = strip_suffix(out).split()
    if "DEADLOCK" in toks or "LIVELOCK" in toks:
        fails.append(("c03:deadlock", "replay ends in %s: no thread can make progress before the call returns" % toks[-1]))
    nthread = 1          # mju_numThread reported by the last threadpool return
    window = None        # [n, counts] while inside a dispatch
    spawned = joined = 0
    pending_p = None
    for t in toks:
        f = t.split(":")
        if len(f) < 2:
            continue
        if f[1] == "call" and f[2] == "d":
            window = [int(f[3]), {}]
        elif f[1] == "call" and f[2] == "p":
            pending_p = int(f[3])
        elif f[1] == "spawn":
            spawned += 1
        elif f[1] == "join":
            joined += 1
        elif f[1] == "ret" and f[2] == "p":
            nthread = int(f[3])
            want = pending_p + 1 if pending_p else 1
            if nthread != want:
                fails.append(("c03:numthread", "mju_numThread is %d after mju_threadpool(%s)" % (nthread, pending_p)))
            if pending_p == 0 and spawned != joined:
                fails.append(("c03:worker-left-running", "%d workers spawned but %d joined when destroy returned" % (spawned, joined)))
            if pending_p and spawned - joined != pending_p:
                fails.append(("c03:worker-left-running", "%d workers alive after mju_threadpool(%d)" % (spawned - joined, pending_p)))
        elif f[1] == "exec":
            tid, targ, task = int(f[0]), int(f[2]), int(f[3])
            if window is None:
                fails.append(("c03:invocation-after-return", "task %d invoked by thread %d outside any dispatch" % (task, tid)))
                continue
            window[1][task] = window[1].get(task, 0) + 1
            if targ < 0 or targ >= nthread:
                fails.append(("c03:thread-id-range", "task %d ran with thread id %d, pool has ids 0..%d" % (task, targ, nthread - 1)))
            if targ != tid:
                fails.append(("c03:thread-id-mismatch", "thread %d passed thread id %d to the task function" % (tid, targ)))
        elif f[1] == "ret" and f[2] == "d":
            if window is not None:
                n, cnt = window
                if sorted(cnt) != list(range(n)) or any(v != 1 for v in cnt.values()):
                    fails.append(("c03:lost-or-duplicate", "dispatch of %d tasks returned with execution counts %s" %
                                  (n, {k: cnt[k] for k in sorted(cnt)})))
            window = None
    return fails


def oracle_free(line, out):
    fails = []
    for t in strip_suffix(out).split():
        f = t.split(":")
        if t[0] == "d":
            if f[1] != "all1":
                fails.append(("c03:lost-or-duplicate", "real threads: %s" % t))
            if f[2] != "ok":
                fails.append(("c03:thread-id-range", "real threads: %s" % t))
            if f[3] != "0":
                fails.append(("c03:invocation-after-return", "real threads: %s task invocations finished after mju_dispatch returned" % f[3]))
        elif t[0] == "p":
            k, nt = int(f[0][1:]), int(f[1])
            if nt != (k + 1 if k else 1):
                fails.append(("c03:numthread", "real threads: %s" % t))
    return fails


def oracle(line, out):
    if out is None:
        return []
    if line.startswith("run ") and out != "bad-op":
        return oracle_run(line, out)
    if line.startswith("free ") and out != "bad-op":
        return oracle_free(line, out)
    return []


def report(ctx, impl, line, out, fails, seen):
    for key, what in fails:
        seen[key] = seen.get(key, 0) + 1
        if seen[key] <= 3:
            ctx.oracle_failure(key, what, {"line": line, "impl_output": (out or "")[:3000],
                                           "replay": "echo '%s' | %s" % (line, impl)})


# ------------------------------------------------------------------------------------------ the check

def run(ctx):
    thorough = ctx.tier == "thorough"
    ctx.rule = ("op lines `run <history> | <schedule>` (history of mju_threadpool/mju_dispatch calls; schedule = thread id per "
                "atomic-operation step) - all schedules up to a preemption bound for the small histories listed in "
                "extra.enumerated, seeded random schedules (uniform / bursty / starving) for pools up to 16 and up to 40 tasks, "
                "plus `free <seed> <history>` lines on real threads with seeded random yields; a case is distinct by its full "
                "line; non-trivial = it contains a pooled dispatch (pool alive and n >= 2)")
    import time
    stage, t0 = {}, [time.time()]

    def lap(name):
        stage[name] = round(time.time() - t0[0], 2)
        t0[0] = time.time()
        ctx.extra["stage_seconds"] = stage

    ctx.lean_props(THEOREMS)
    lap("lean_props")
    drv = ctx.driver("drv_c03")
    lap("driver_build")
    impl = ctx.harness("harness/cc/c03_pool.cc", "c03_pool",
                       deps=["harness/cc/c03_sched_shim.h", ENGINE_THREAD])
    lap("harness_build")

    # ---- T(i): memory-order table extracted from the tree vs the table the model states
    try:
        ex = c03_orders.extract(ENGINE_THREAD)
    except Exception as e:  # unreadable / unparsable source: refusal
        ex = {"members": [], "sites": [], "notify": [], "refusals": ["extraction failed: %r" % (e,)]}
    ctx.extra["orders_extracted"] = [(x["fn"], x["obj"], x["op"], x["order"]) for x in ex["sites"]]
    static_set = set()
    if drv:
        rc, outs, err = ctx.run_lines([drv], ["orders"])
        model_sites = c03_orders.parse_model_sites(outs[0]) if rc == 0 and outs else []
        ok, problems, notes = c03_orders.compare(ex, model_sites)
        ctx.oblige("memory-order table of engine_thread.cc: release on publishing stores / fetch_add, acquire on consuming "
                   "loads / waits, same operation sites as the model (%d sites)" % len(ex["sites"]), "translator", ok,
                   "; ".join(problems))
        if notes:
            ctx.extra["orders_notes"] = notes
        static_set = {(x["obj"].rstrip("_"), x["op"], x["order"]) for x in ex["sites"]}
    if not (drv and impl):
        return

    # ---- op lines
    recorded = []
    if getattr(ctx, "replay", None):
        # replay: the recorded failing lines first, then the normal run with the recorded seed / tier
        try:
            rp = json.load(open(ctx.replay))
            recorded = [f["replay"]["line"] for f in rp.get("failures", [])
                        if isinstance(f.get("replay"), dict) and "line" in f["replay"]]
            recorded += [d["line"] for d in rp.get("disagreements", []) if "line" in d]
        except (OSError, ValueError, KeyError, TypeError):
            recorded = []
    lines, enum_info = enum_lines(ctx, drv, ENUM_THOROUGH if thorough else ENUM_QUICK, 400000)
    rl, rhist = random_lines(ctx, 20000 if thorough else 1500)
    fl = free_lines(ctx, 400 if thorough else 40)
    nfree = len(fl)
    lines = recorded + lines + rl + fl + MALFORMED
    lap("generate")
    ctx.extra["enumerated"] = enum_info
    ctx.extra["exhaustive_small_scope"] = ("every complete schedule with at most the stated number of preemptions (the running "
                                           "thread is switched out only when blocked / spinning / done, except at the counted "
                                           "preemption points), enumerated by the Lean model")
    ctx.extra["random_distribution"] = rhist
    ctx.extra["free_running_lines"] = nfree

    # ---- run the implementation once (parallel processes), then model vs implementation
    outputs, problems = run_impl(impl, lines, 6, 3000 if thorough else 900)
    lap("implementation_run")
    seen = {}
    for kind, line, detail in problems:
        ctx.oracle_failure("c03:" + kind, detail, {"line": line, "replay": "echo '%s' | %s" % (line, impl)})
    cdir = os.path.join(common.CACHE, "c03")
    os.makedirs(cdir, exist_ok=True)
    ipath = os.path.join(cdir, "impl_%s_%d_%d.out" % (ctx.tier, ctx.seed, os.getpid()))
    with open(ipath, "w") as f:
        for o in outputs:
            f.write(strip_suffix(o if o is not None else "<no output: harness died or hung>") + "\n")

    def keyf(l):
        if not l.startswith(("run ", "free ")):
            return None
        h = l.split("|")[0].split()[-1]
        alive, nontriv = 0, False
        for w in h.split(","):
            if w[:1] == "p" and w[1:].isdigit():
                alive = int(w[1:])
            elif w[:1] == "d" and w[1:].isdigit() and alive and int(w[1:]) >= 2:
                nontriv = True
        return l if nontriv else None

    try:
        # the implementation side of the differential is the output just produced by the harness (traces are exact strings)
        ctx.differential("event trace of the real engine_thread.cc under the controlled scheduler vs the Lean model",
                         [drv], ["cat", ipath], lines, keyf=keyf)
    finally:
        try:
            os.remove(ipath)
        except OSError:
            pass

    lap("model_run_and_diff")
    # ---- S: oracle on the implementation's own output; dynamic memory orders
    dyn, nsteps, maxlen = set(), 0, 0
    for l, o in zip(lines, outputs):
        report(ctx, impl, l, o, oracle(l, o), seen)
        if o and " # " in o:
            for item in o.split(" # ")[1].split(","):
                if "=" in item:
                    a, order = item.split("=")
                    obj, op = a.split(".")
                    dyn.add((obj, op, order))
            k = len(strip_suffix(o).split())
            nsteps += k
            maxlen = max(maxlen, k)
    ctx.oblige("memory orders observed while running equal the extracted table", "translator",
               dyn <= static_set and (not static_set or bool(dyn)), "observed-but-not-extracted: %r" % sorted(dyn - static_set))
    lap("oracle")
    ctx.extra["oracle_checked"] = sum(1 for o in outputs if o is not None)
    ctx.extra["oracle_failures"] = seen
    ctx.extra["replayed_events_total"] = nsteps
    ctx.extra["longest_trace_events"] = maxlen
    for l, o in list(zip(lines, outputs))[:: max(1, len(lines) // 5)][:5]:
        ctx.sample({"op": l[:300], "impl_trace": (o or "")[:400]})

    def directed(ctx2):
        """A proof / tie obligation broke but no oracle failure was seen: search harder on the implementation alone."""
        extra, _ = random_lines(ctx2, 6000)
        extra += free_lines(ctx2, 150)
        outs2, probs2 = run_impl(impl, extra, 6, 900)
        for kind, line, detail in probs2:
            return {"key": "c03:" + kind, "what": detail, "replay": {"line": line, "replay": "echo '%s' | %s" % (line, impl)}}
        for l, o in zip(extra, outs2):
            fs = oracle(l, o)
            if fs:
                return {"key": fs[0][0], "what": fs[0][1],
                        "replay": {"line": l, "impl_output": (o or "")[:3000], "replay": "echo '%s' | %s" % (l, impl)}}
        return None

    ctx.directed_search = directed
    if thorough:
        ctx.leanchecker(["MjProof.Props.C03"])
