"""C33  Compilation is deterministic and copy-invariant (DESIGN.md §5.C33).

P  Lean theorems (lean/MjProof/Props/C33.lean) about the transition-system model lean/MjProof/Model/UserPool.lean of the
   mutex / condition-variable task queue of src/user/user_threadpool.{h,cc}: exactly-once, deadlock freedom, clean
   shutdown, commutation of tasks that write only their own asset.
T  schedule replay: the UNMODIFIED user_threadpool.cc is compiled against a controlled-scheduler shim
   (harness/cc/c33_sched_shim.h: std::mutex / unique_lock / lock_guard / condition_variable / thread replaced through
   `#define std c33std`) and driven by the same schedule tokens as the Lean model; the event traces (lock, unlock, wait
   passes / blocks, notify_one with the woken thread, notify_all, task execution, join, thread exit) must be identical.
S  (a) the traces of the implementation alone: every task executed exactly once, ctr_ == T when WaitCount returns, mutual
       exclusion, no deadlock, plus real-thread runs with seeded random yields;
   (b) the compiler through the mjSpec API of the tree (harness/cc/c33_compile.cc): compile twice, compile a mj_copySpec,
       mj_copyModel, usethread on/off with several procedural meshes and textures, mj_recompile state preservation —
       bitwise comparison of every mjModel array and of the mj_saveModel byte stream.
"""
import itertools
import os
import re

from checks import common
from gen.enums import E
from gen.models import ModelGen

USES_GEN = False

META = {
    "technique": "Lean 4 proof (inductive invariant over a transition system with one transition per critical section; 12 transition kinds incl. spurious wake-ups and adversarial notify_one) + exact replay correspondence of the unmodified user_threadpool.cc under a controlled scheduler shim + bitwise compile-determinism oracle through the mjSpec C API",
    "text": "For the model of ThreadPool in the compiler's usage pattern (construct N >= 1 workers, Schedule T tasks, WaitCount(T), destructor), for all N, T and every interleaving including spurious condition-variable wake-ups and any choice of the thread woken by each notify_one: no task body ever runs twice and no unscheduled task runs; once WaitCount(T) has returned every one of the T tasks has run exactly once, to completion, on the one worker thread that popped it (pool_exactly_once); ctr_ counts finished tasks plus exited workers and WaitCount cannot return before all T tasks are popped (pool_counter); without spurious wake-ups and whichever waiter notify_one picks, some thread can always take a step until the destructor has returned — WaitCount cannot block forever, no wake-up is lost, every join becomes enabled (pool_deadlock_free); when the destructor has returned all workers have exited and the queue is empty (pool_done_clean); a ranking function strictly decreases on every such transition, so no run is longer than 6N + 7T + 4 transitions (pool_bounded_runs) and every run that cannot be extended has returned from the destructor with all T tasks executed exactly once and all workers exited (pool_terminates). Tasks that only replace their own slot of an asset array give the same array under every permutation of the execution order, and any order in which each task < T runs exactly once yields slot i = f_i(old slot i) (asset_tasks_schedule_independent, asset_result_exactly_once).",
    "note": "Partial by design: the compiler itself (what a mesh / texture task computes, CopyFromSpec, the copy constructors of mjCModel, mj_recompile) is NOT modelled; that mesh and texture tasks write only their own asset is an assumption of asset_tasks_schedule_independent (the exception_ptr / warning-text slots are per-task or mutex-protected in the source, not modelled). One model transition = one critical section (all shared state of ThreadPool is accessed under m_); the hand-written model is tied to the source by replaying identical schedules on the unmodified user_threadpool.cc under the shim (exhaustive short schedules for small N, T + seeded random schedules with picks and spurious wake-ups) — the shim replaces the standard mutex/condition-variable/thread classes, so the memory-model aspects of the real primitives are outside the tie; real-thread runs with random yields check only the observable outcome. With spurious wake-ups runs are not bounded (a waiter may wake spuriously forever), so termination is proved for the relation without them only. Determinism / copy-invariance of compilation is sampled by the oracle only (bitwise over all mjModel arrays); src/xml is stubbed, so specs are built through the mjSpec C API; qhull is stubbed, so mesh geoms are non-colliding (no convex hulls) and builtin cone / wedge meshes cannot be compiled; the LengthRange pool use is not exercised.",
}

P = "MjProof.C33."
THEOREMS = [P + t for t in ("pool_exactly_once", "pool_counter", "pool_deadlock_free", "pool_done_clean",
                            "pool_bounded_runs", "pool_terminates",
                            "asset_tasks_schedule_independent", "asset_result_exactly_once")]


# ------------------------------------------------------------------------------------------ schedules
def gen_pool_lines(ctx):
    rng = ctx.rng
    thorough = ctx.tier == "thorough"
    lines = []
    # exhaustive short schedules
    L = 7 if thorough else 5
    for (n, t) in ((1, 1), (1, 2), (2, 1), (2, 2), (2, 3)):
        toks = [str(i) for i in range(n + 1)]
        for sched in itertools.product(toks, repeat=L):
            lines.append("run %d %d | %s" % (n, t, " ".join(sched)))
    ctx.extra["exhaustive_small_scope"] = "all schedules of length %d over thread ids for (N,T) in {(1,1),(1,2),(2,1),(2,2),(2,3)}, then round-robin completion" % L
    hist = {}
    nrand = 6000 if thorough else 500
    for _ in range(nrand):
        n = rng.choice((1, 1, 2, 2, 3, 3, 4, 5, 6, 8))
        t = rng.choice((0, 1, 2, 3, 3, 4, 5, 8, 12, 16))
        ln = rng.choice((0, 3, 10, 25, 60, 120))
        style = rng.choice(("uniform", "main-first", "workers-first", "bursty"))
        toks = []
        for k in range(ln):
            if style == "uniform":
                tid = rng.randint(0, n)
            elif style == "main-first":
                tid = 0 if k < ln // 2 else rng.randint(0, n)
            elif style == "workers-first":
                tid = rng.randint(1, n) if k < ln // 2 else rng.randint(0, n)
            else:
                tid = toks and rng.random() < 0.7 and int(re.match(r"s?(\d+)", toks[-1]).group(1)) or rng.randint(0, n)
            r = rng.random()
            if r < 0.08:
                toks.append("s%d" % rng.randint(0, n + 1))
            elif r < 0.35:
                toks.append("%d>%d" % (tid, rng.randint(1, n + 1)))
            elif r < 0.38:
                toks.append(str(n + 1 + rng.randint(0, 2)))      # thread that does not exist
            else:
                toks.append(str(tid))
        lines.append("run %d %d | %s" % (n, t, " ".join(toks)))
        k = "N=%d" % n
        hist[k] = hist.get(k, 0) + 1
    for _ in range(400 if thorough else 40):
        lines.append("free %d %d %d" % (rng.randint(0, 99999), rng.choice((1, 2, 3, 4, 8)), rng.choice((0, 1, 2, 5, 17, 40, 64))))
    lines += ["frob", "run 0 3 | 0", "run 2 99 | 0", "run 2 2 | x", "free 1 2"]
    ctx.extra["random_schedule_distribution"] = hist
    return lines


def pool_oracle(line, out):
    """property oracle on one implementation trace; returns None or (key, description)"""
    w = line.split()
    if not w or w[0] not in ("run", "free") or out == "bad-op":
        ok_bad = line in ("frob", "run 0 3 | 0", "run 2 99 | 0", "run 2 2 | x", "free 1 2")
        return None if (out == "bad-op") == ok_bad else ("malformed", "malformed op accepted / valid op rejected: " + out[:60])
    if out.startswith("TIMEOUT") or out.startswith("CRASH"):
        return ("hang", "the pool did not terminate (%s)" % out[:40])
    if w[0] == "free":
        return None if out == "ok ctr>=T exec=all1" else ("free:" + out[:30], "real-thread run: " + out[:200])
    n, t = int(w[1]), int(w[2])
    if " # " not in out:
        return ("format", "no summary in " + out[:80])
    trace, summ = out.split(" # ")
    ev = trace.split()
    if "DEADLOCK" in ev:
        return ("deadlock", "no thread can move before the destructor returned")
    m = re.match(r"ctr=(\S+) exec=(\S*) by=(\S*) done=(\d)", summ)
    if not m:
        return ("format", "bad summary " + summ[:80])
    if m.group(4) != "1":
        return ("not-done", "destructor did not return")
    execs = [int(x) for x in m.group(2).split(",")] if m.group(2) else []
    bys = [int(x) for x in m.group(3).split(",")] if m.group(3) else []
    if len(execs) != t or any(c != 1 for c in execs):
        return ("exactly-once", "task execution counts %r for T=%d" % (execs, t))
    if any(not (1 <= b <= n) for b in bys):
        return ("worker-id", "task executed by a thread outside 1..N: %r" % (bys,))
    if m.group(1) != str(t):
        return ("ctr", "ctr_ = %s when WaitCount(%d) returned" % (m.group(1), t))
    # trace-level: mutual exclusion, every X once and by the popper, X before WaitCount passes
    owner = None
    seen = {}
    waitpass = None
    for i, e in enumerate(ev):
        c = e[0]
        if c == "L":
            if owner is not None:
                return ("mutex", "lock acquired by %s while held by %s" % (e[1:], owner))
            owner = e[1:]
        elif c == "U":
            if owner != e[1:]:
                return ("mutex", "unlock by %s while owner is %s" % (e[1:], owner))
            owner = None
        elif c == "B":
            tid = e[1:].split(".")[0]
            if owner != tid:
                return ("mutex", "wait by %s without holding the mutex" % tid)
            owner = None
        elif c == "X":
            tid, task = e[1:].split(".")
            if task in seen:
                return ("exactly-once", "task %s executed twice (trace)" % task)
            seen[task] = tid
            if waitpass is not None:
                return ("wait-early", "task %s executed after WaitCount had returned" % task)
        elif c == "P" and e.startswith("P0.1"):
            waitpass = i
    if len(seen) != t:
        return ("exactly-once", "%d of %d tasks in the trace" % (len(seen), t))
    return None


# ------------------------------------------------------------------------------------------ compile cases
MESH_KINDS = (("SPHERE", lambda r: [r.randint(0, 3)], ("EXACT", "SHELL", "LEGACY")),
              ("HEMISPHERE", lambda r: [r.randint(1, 6)], ("EXACT", "SHELL")),
              ("SUPERSPHERE", lambda r: [r.randint(4, 14), r.uniform(0.3, 2.0), r.uniform(0.3, 2.0)], ("EXACT", "SHELL")),
              ("SUPERTORUS", lambda r: [r.randint(4, 14), r.uniform(0.15, 0.6), r.uniform(0.5, 1.5), r.uniform(0.5, 1.5)], ("EXACT", "SHELL")),
              ("PLATE", lambda r: [r.randint(2, 6), r.randint(2, 6)], ("SHELL",)))


def gen_case(rng, thorough):
    prof = {"nbody": (1, 6 if thorough else 4), "keys": 0.8, "mocap": 0.3, "sleep": 0.0}
    mdl = ModelGen(rng, prof).make()
    lines = list(mdl.lines)
    h = 3000
    nmesh = rng.choice((0, 1, 2, 3, 4, 6))
    for k in range(nmesh):
        name, prm, inert = rng.choice(MESH_KINDS)
        mh = h
        h += 1
        lines += ["mesh %d" % mh, "name %d msh%d" % (mh, k),
                  "makemesh %d %d %s" % (mh, E("mjMESH_BUILTIN_" + name), " ".join(repr(float(x)) for x in prm(rng))),
                  "set %d inertia %d" % (mh, E("mjMESH_INERTIA_" + rng.choice(inert))),
                  "set %d scale %r %r %r" % (mh, rng.uniform(0.03, 0.2), rng.uniform(0.03, 0.2), rng.uniform(0.03, 0.2))]
        if rng.random() < 0.3:
            lines.append("set %d refpos %r %r %r" % (mh, rng.uniform(-.1, .1), rng.uniform(-.1, .1), rng.uniform(-.1, .1)))
        for _ in range(rng.choice((1, 1, 2))):
            b = rng.choice(mdl.bodies)
            gh = h
            h += 1
            lines += ["geom %d %d" % (gh, b["handle"]), "set %d type %d" % (gh, E("mjGEOM_MESH")),
                      "set %d meshname msh%d" % (gh, k), "set %d contype 0" % gh, "set %d conaffinity 0" % gh,
                      "set %d pos %r %r %r" % (gh, rng.uniform(-.1, .1), rng.uniform(-.1, .1), rng.uniform(-.1, .1))]
    if rng.random() < 0.2:
        lines.append("compiler usethread 0")
    ntex = rng.choice((0, 1, 2, 3, 5, 8))
    head = "case %d %d %d" % (ntex, rng.randint(1, 2 ** 31 - 1), rng.randint(0, 30))
    return head + "\n" + "\n".join(lines) + "\nend\n", nmesh, ntex


def run(ctx):
    ctx.rule = ("pool: schedule lines `run N T | tokens` (exhaustive short schedules for small N, T; seeded random schedules with "
                "notify picks, spurious wake-ups and non-existent thread ids; real-thread `free` runs); compile: generated specs "
                "with 0-6 procedural meshes and 0-8 builtin textures; a case is distinct by its full text; non-trivial = accepted op")
    ctx.lean_props(THEOREMS)
    drv = ctx.driver("drv_c33")
    # the harness TU #includes the tree's user_threadpool.cc: it is part of the cache key
    pool = ctx.harness("harness/cc/c33_pool.cc", "c33_pool", link_lib=False,
                       deps=["harness/cc/c33_sched_shim.h", os.path.join(common.REPO, "src/user/user_threadpool.cc"),
                             os.path.join(common.REPO, "src/user/user_threadpool.h")])
    comp = ctx.harness("harness/cc/c33_compile.cc", "c33_compile", deps=["harness/mjbuild.h"])
    # ---- T + S(a): the thread pool
    if drv and pool:
        lines = gen_pool_lines(ctx)
        ctx.differential("user_threadpool.cc under the controlled scheduler vs the Lean transition system (event traces)",
                         [drv], [pool], lines, keyf=lambda l: l if l.split()[0] in ("run", "free") else None)
        rc, outs, err = ctx.run_lines([pool], lines)
        nfail = 0
        for l, o in zip(lines, outs):
            r = pool_oracle(l, o)
            if r:
                nfail += 1
                if nfail <= 5:
                    ctx.oracle_failure("c33:pool:" + r[0], r[1], {"line": l[:1500], "impl_output": o[:3000],
                                                               "replay": "echo '<line>' | <c33_pool harness>"})
        if rc != 0 or len(outs) != len(lines):
            if not nfail:
                ctx.oracle_failure("c33:pool:crash", "c33_pool stopped early (rc=%s) after %d of %d lines" % (rc, len(outs), len(lines)),
                                   {"line": lines[min(len(outs), len(lines) - 1)][:1500], "stderr": err[-400:]})
        elif outs:
            ctx.sample({"op": lines[len(lines) // 2][:300], "impl_and_model_trace": outs[len(lines) // 2][:600]})
        ctx.extra["pool_oracle_checked"] = len(lines)
        ctx.extra["pool_oracle_failures"] = nfail
    # ---- S(b): compile determinism
    if comp:
        thorough = ctx.tier == "thorough"
        ncase = 300 if thorough else 24
        cases = [gen_case(ctx.rng, thorough) for _ in range(ncase)]
        text = "".join(c[0] for c in cases)
        r = common.sh([comp], inp=text, timeout=3000)
        outs = r.stdout.split("\n")
        if outs and outs[-1] == "":
            outs.pop()
        hist = {"ok": 0, "error": 0, "diff": 0}
        pooled = 0
        if r.returncode != 0 or len(outs) != len(cases):
            hang = bool(outs) and outs[-1] == "TIMEOUT"
            idx = min(len(outs) - (1 if hang else 0), len(cases) - 1)
            ctx.oracle_failure("c33:compile:hang" if hang else "c33:compile:crash",
                               ("mj_compile did not return within 120 s on case %d (asset thread pool dead-locked?)" % idx) if hang
                               else "c33_compile crashed (rc=%s) on case %d" % (r.returncode, idx),
                               {"case": cases[idx][0][:6000], "stderr": r.stderr[-500:],
                                "replay": "feed the case text to <c33_compile harness>"})
        else:
            for (ctext, nmesh, ntex), o in zip(cases, outs):
                ctx.count(ctext)
                if o.startswith("ok"):
                    hist["ok"] += 1
                    m = re.search(r"pooltasks=(\d+)", o)
                    if m and int(m.group(1)) >= 2:
                        pooled += 1
                elif o.startswith("DIFF"):
                    hist["diff"] += 1
                    for item in o.split()[1:4]:
                        ctx.oracle_failure("c33:" + item, "compile check failed (%s); all differences: %s" % (item, o[:300]),
                                           {"case": ctext[:8000], "impl_output": o,
                                            "replay": "feed the case text to <c33_compile harness>"})
                else:
                    hist["error"] += 1
                    ctx.extra.setdefault("compile_errors", []).append(o[:160])
            ctx.oblige("generated specs compile (errors %d of %d)" % (hist["error"], len(cases)), "generator",
                       hist["error"] * 5 <= len(cases), str(ctx.extra.get("compile_errors", [])[:3]))
            ctx.sample({"case_head": cases[0][0].split("\n")[0], "result": outs[0]})
        ctx.extra["compile_cases"] = hist
        ctx.extra["compile_cases_with_pool_running"] = pooled
        ctx.extra["compile_checks_per_case"] = ["twice", "copyspec", "copymodel", "thread", "recompile", "edit"]
    if ctx.tier == "thorough":
        ctx.leanchecker(["MjProof.Props.C33"])
