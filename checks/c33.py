"""C33  Compilation is deterministic and copy-invariant (DESIGN.md §5.C33).

P  Lean theorems (lean/MjProof/Props/C33.lean) about the transition-system model lean/MjProof/Model/UserPool.lean of the
   mutex / condition-variable task queue of src/user/user_threadpool.{h,cc}: exactly-once, deadlock freedom, clean
   shutdown, commutation of tasks that write only their own asset; and about the element-survival model
   lean/MjProof/Model/SpecCopy.lean of the deep copy behind mj_copySpec (the CopyList sequence of mjCModel::operator+=, which
   silently skips an element whose references do not resolve yet): a CopyList order that is a topological order of the
   reference edges between element kinds loses no element (copy_lossless, copy_keeps_every_element).
T  copy order: translate/c33_copyorder.py extracts the CopyList order, the tree lists and the static reference edges from
   user_model.cc / user_objects.cc / user_mesh.cc on every run; the hypothesis kindOK of copy_lossless is evaluated on them
   (plus the edges of the generated specs) by the Lean driver, and the model's per-kind surviving-element counts are compared
   with mj_copySpec of the tree (copy taken before and after the first compile) on every generated spec.
T  LengthRange partition: translate/c33_lrslices.py extracts the per-thread count, the slice start / length and the LRfunc loop
   of the threaded branch of mjCModel::LengthRange as integer expressions on every run; the slices they give must be those of
   the Lean model Model/LRSlices.lean (lr_slices_partition: every actuator index is visited by exactly one worker) on an
   exhaustive grid of (nactuator, actuators needing work, threads).
T  schedule replay: the UNMODIFIED user_threadpool.cc is compiled against a controlled-scheduler shim
   (harness/cc/c33_sched_shim.h: std::mutex / unique_lock / lock_guard / condition_variable / thread replaced through
   `#define std c33std`) and driven by the same schedule tokens as the Lean model; the event traces (lock, unlock, wait
   passes / blocks, notify_one with the woken thread, notify_all, task execution, join, thread exit) must be identical.
S  (a) the traces of the implementation alone: every task executed exactly once, ctr_ == T when WaitCount returns, mutual
       exclusion, no deadlock, plus real-thread runs with seeded random yields;
   (b) the compiler through the mjSpec API of the tree (harness/cc/c33_compile.cc): compile twice, compile a mj_copySpec
       (taken before / after the first compile, and a copy of the copy; element counts per kind of the copies),
       mj_copyModel, usethread on/off with several procedural meshes and textures, mj_recompile state preservation
       (unchanged spec, body added, stateful actuator added, body deleted, bodies becoming / ceasing to be mocap and actuators gaining / losing activation with state kept by identity and defaults for new state) — bitwise comparison of every mjModel array and
       of the mj_saveModel byte stream.  The specs carry every element kind the mjSpec API can build without files or
       plugins and every kind of cross-reference between them (class Rich: each feature is forced at least once per run);
       a second family of specs (gen_lr_case) makes the threaded mjCModel::LengthRange run: limited joints, 2..T+1 actuators
       that need a length-range computation (T = compiler threads) mixed with motors / muscles that have a range, trailing /
       leading / interleaved / shuffled, under the lengthrange modes none / muscle / muscleuser / all, useexisting, uselimit.
"""
import itertools
import json
import os
import re

from checks import common
from gen.enums import E
from gen.models import ModelGen

USES_GEN = False

META = {
    "technique": "Lean 4 proof (inductive invariant over a transition system with one transition per critical section; 12 transition kinds incl. spurious wake-ups and adversarial notify_one) + exact replay correspondence of the unmodified user_threadpool.cc under a controlled scheduler shim + Lean proof that a topologically ordered CopyList sequence loses no element, its hypothesis evaluated on the order / reference edges extracted from the source on every run, element-survival correspondence with mj_copySpec + bitwise compile-determinism oracle through the mjSpec C API on specs with every element kind and reference edge",
    "text": "For the model of ThreadPool in the compiler's usage pattern (construct N >= 1 workers, Schedule T tasks, WaitCount(T), destructor), for all N, T and every interleaving including spurious condition-variable wake-ups and any choice of the thread woken by each notify_one: no task body ever runs twice and no unscheduled task runs; once WaitCount(T) has returned every one of the T tasks has run exactly once, to completion, on the one worker thread that popped it (pool_exactly_once); ctr_ counts finished tasks plus exited workers and WaitCount cannot return before all T tasks are popped (pool_counter); without spurious wake-ups and whichever waiter notify_one picks, some thread can always take a step until the destructor has returned — WaitCount cannot block forever, no wake-up is lost, every join becomes enabled (pool_deadlock_free); when the destructor has returned all workers have exited and the queue is empty (pool_done_clean); a ranking function strictly decreases on every such transition, so no run is longer than 6N + 7T + 4 transitions (pool_bounded_runs) and every run that cannot be extended has returned from the destructor with all T tasks executed exactly once and all workers exited (pool_terminates). Tasks that only replace their own slot of an asset array give the same array under every permutation of the execution order, and any order in which each task < T runs exactly once yields slot i = f_i(old slot i) (asset_tasks_schedule_independent, asset_result_exactly_once). For the model of the deep copy behind mj_copySpec (tree elements copied unconditionally, then one CopyList per non-tree list in a fixed order, each keeping an element iff all its references resolve among the tree elements, the lists copied before and the earlier elements of its own list): if every reference edge between different element kinds goes to a tree kind or to a kind copied strictly earlier (kindOK order tree edges) then, for every source spec whose references use only these edges, name existing elements and are backward inside a list, the copy holds the tree elements followed by every source list whole and in order (copy_lossless), in particular every element (copy_keeps_every_element). For the work partition of the threaded LengthRange (num = nactuator / nthread, incremented while num * nthread < nactuator; worker i visits the indices of [i*num, i*num + num) below nactuator): for every nactuator and every nthread >= 1, num * nthread >= nactuator (lr_per_thread_covers), every actuator index lies in the slice of exactly one worker and no worker visits an index >= nactuator (lr_slices_partition) — the threaded compile calls mj_setLengthRange for exactly the actuators the serial loop visits.",
    "note": "Partial by design: the compiler itself (what a mesh / texture task computes, CopyFromSpec, the element copy constructors, mj_recompile) is NOT modelled; of the deep copy only WHICH elements survive is modelled (an element = kind, name, referenced (kind, name) pairs; the tree copy by the mjCBody copy constructor, plugins, defaults and keyframe resizing are not), tied to the source by text extraction of the CopyList order / ResetTreeLists / the mjOBJ_* constants reaching FindObject in each ResolveReferences (sensor and tuple look-ups have a free kind: their edges are the ones of the generated specs) and by comparing the surviving-element counts with mj_copySpec on every generated spec; kindOK does NOT hold for the order of the tree: the edges sensor->tuple, sensor->key, tuple->key are against it and forward references inside tuples_ / sensors_ are lost as well — these are genuine losses of mj_copySpec, reproduced on dedicated specs on every run and recorded in known_findings.json (c33:copy-order:*); a further edge against the order is a violation; that mesh and texture tasks write only their own asset is an assumption of asset_tasks_schedule_independent (the exception_ptr / warning-text slots are per-task or mutex-protected in the source, not modelled). One model transition = one critical section (all shared state of ThreadPool is accessed under m_); the hand-written model is tied to the source by replaying identical schedules on the unmodified user_threadpool.cc under the shim (exhaustive short schedules for small N, T + seeded random schedules with picks and spurious wake-ups) — the shim replaces the standard mutex/condition-variable/thread classes, so the memory-model aspects of the real primitives are outside the tie; real-thread runs with random yields check only the observable outcome. With spurious wake-ups runs are not bounded (a waiter may wake spuriously forever), so termination is proved for the relation without them only. Apart from element survival, determinism / copy-invariance of compilation is sampled by the oracle only (bitwise over all mjModel arrays); that a spec edited after a compile is recompiled faithfully (e.g. mjCFrame::Compile keeps the pose of the first compile) is not part of this property — the original, its deep copy and mj_recompile agree; src/xml is stubbed, so specs are built through the mjSpec C API; qhull is stubbed, so mesh geoms are non-colliding (no convex hulls) and builtin cone / wedge meshes cannot be compiled; of mjCModel::LengthRange only the index partition of the threaded branch is modelled (what mj_setLengthRange computes, the per-thread mjData and the error reporting are not), tied to the source by text extraction of the integer expressions and comparison of the resulting slices with the Lean model on an exhaustive small grid; that the threaded branch gives the same model is then sampled bitwise on specs where it runs (needs >= 4 hardware threads; the number of compiler threads of the machine is recorded in lengthrange_cases).",
}

P = "MjProof.C33."
THEOREMS = [P + t for t in ("pool_exactly_once", "pool_counter", "pool_deadlock_free", "pool_done_clean",
                            "pool_bounded_runs", "pool_terminates",
                            "asset_tasks_schedule_independent", "asset_result_exactly_once",
                            "copy_lossless", "copy_keeps_every_element", "lr_per_thread_covers", "lr_slices_partition")]


# ------------------------------------------------------------------------------------------ schedules
def gen_pool_lines(ctx):
    rng = ctx.rng
    thorough = ctx.tier == "thorough"
    lines = []
    # exhaustive short schedules
    L = 7 if thorough else 5
    for (n, t) in ((1, 1), (1, 2), (2, 1), (2, 2), (2, 3)):
        toks = [str(i) for i in range(n + 1)]
        for sched in itertools.product(toks, repeat=L):
            lines.append("run %d %d | %s" % (n, t, " ".join(sched)))
    ctx.extra["exhaustive_small_scope"] = "all schedules of length %d over thread ids for (N,T) in {(1,1),(1,2),(2,1),(2,2),(2,3)}, then round-robin completion" % L
    hist = {}
    nrand = 6000 if thorough else 500
    for _ in range(nrand):
        n = rng.choice((1, 1, 2, 2, 3, 3, 4, 5, 6, 8))
        t = rng.choice((0, 1, 2, 3, 3, 4, 5, 8, 12, 16))
        ln = rng.choice((0, 3, 10, 25, 60, 120))
        style = rng.choice(("uniform", "main-first", "workers-first", "bursty"))
        toks = []
        for k in range(ln):
            if style == "uniform":
                tid = rng.randint(0, n)
            elif style == "main-first":
                tid = 0 if k < ln // 2 else rng.randint(0, n)
            elif style == "workers-first":
                tid = rng.randint(1, n) if k < ln // 2 else rng.randint(0, n)
            else:
                tid = toks and rng.random() < 0.7 and int(re.match(r"s?(\d+)", toks[-1]).group(1)) or rng.randint(0, n)
            r = rng.random()
            if r < 0.08:
                toks.append("s%d" % rng.randint(0, n + 1))
            elif r < 0.35:
                toks.append("%d>%d" % (tid, rng.randint(1, n + 1)))
            elif r < 0.38:
                toks.append(str(n + 1 + rng.randint(0, 2)))      # thread that does not exist
            else:
                toks.append(str(tid))
        lines.append("run %d %d | %s" % (n, t, " ".join(toks)))
        k = "N=%d" % n
        hist[k] = hist.get(k, 0) + 1
    for _ in range(400 if thorough else 40):
        lines.append("free %d %d %d" % (rng.randint(0, 99999), rng.choice((1, 2, 3, 4, 8)), rng.choice((0, 1, 2, 5, 17, 40, 64))))
    lines += ["frob", "run 0 3 | 0", "run 2 99 | 0", "run 2 2 | x", "free 1 2"]
    ctx.extra["random_schedule_distribution"] = hist
    return lines


def pool_oracle(line, out):
    """property oracle on one implementation trace; returns None or (key, description)"""
    w = line.split()
    if not w or w[0] not in ("run", "free") or out == "bad-op":
        ok_bad = line in ("frob", "run 0 3 | 0", "run 2 99 | 0", "run 2 2 | x", "free 1 2")
        return None if (out == "bad-op") == ok_bad else ("malformed", "malformed op accepted / valid op rejected: " + out[:60])
    if out.startswith("TIMEOUT") or out.startswith("CRASH"):
        return ("hang", "the pool did not terminate (%s)" % out[:40])
    if w[0] == "free":
        return None if out == "ok ctr>=T exec=all1" else ("free:" + out[:30], "real-thread run: " + out[:200])
    n, t = int(w[1]), int(w[2])
    if " # " not in out:
        return ("format", "no summary in " + out[:80])
    trace, summ = out.split(" # ")
    ev = trace.split()
    if "DEADLOCK" in ev:
        return ("deadlock", "no thread can move before the destructor returned")
    m = re.match(r"ctr=(\S+) exec=(\S*) by=(\S*) done=(\d)", summ)
    if not m:
        return ("format", "bad summary " + summ[:80])
    if m.group(4) != "1":
        return ("not-done", "destructor did not return")
    execs = [int(x) for x in m.group(2).split(",")] if m.group(2) else []
    bys = [int(x) for x in m.group(3).split(",")] if m.group(3) else []
    if len(execs) != t or any(c != 1 for c in execs):
        return ("exactly-once", "task execution counts %r for T=%d" % (execs, t))
    if any(not (1 <= b <= n) for b in bys):
        return ("worker-id", "task executed by a thread outside 1..N: %r" % (bys,))
    if m.group(1) != str(t):
        return ("ctr", "ctr_ = %s when WaitCount(%d) returned" % (m.group(1), t))
    # trace-level: mutual exclusion, every X once and by the popper, X before WaitCount passes
    owner = None
    seen = {}
    waitpass = None
    for i, e in enumerate(ev):
        c = e[0]
        if c == "L":
            if owner is not None:
                return ("mutex", "lock acquired by %s while held by %s" % (e[1:], owner))
            owner = e[1:]
        elif c == "U":
            if owner != e[1:]:
                return ("mutex", "unlock by %s while owner is %s" % (e[1:], owner))
            owner = None
        elif c == "B":
            tid = e[1:].split(".")[0]
            if owner != tid:
                return ("mutex", "wait by %s without holding the mutex" % tid)
            owner = None
        elif c == "X":
            tid, task = e[1:].split(".")
            if task in seen:
                return ("exactly-once", "task %s executed twice (trace)" % task)
            seen[task] = tid
            if waitpass is not None:
                return ("wait-early", "task %s executed after WaitCount had returned" % task)
        elif c == "P" and e.startswith("P0.1"):
            waitpass = i
    if len(seen) != t:
        return ("exactly-once", "%d of %d tasks in the trace" % (len(seen), t))
    return None


# ------------------------------------------------------------------------------------------ compile cases
MESH_KINDS = (("SPHERE", lambda r: [r.randint(0, 3)], ("EXACT", "SHELL", "LEGACY")),
              ("HEMISPHERE", lambda r: [r.randint(1, 6)], ("EXACT", "SHELL")),
              ("SUPERSPHERE", lambda r: [r.randint(4, 14), r.uniform(0.3, 2.0), r.uniform(0.3, 2.0)], ("EXACT", "SHELL")),
              ("SUPERTORUS", lambda r: [r.randint(4, 14), r.uniform(0.15, 0.6), r.uniform(0.5, 1.5), r.uniform(0.5, 1.5)], ("EXACT", "SHELL")),
              ("PLATE", lambda r: [r.randint(2, 6), r.randint(2, 6)], ("SHELL",)))

TREE_OPS = {"body": "BODY", "joint": "JOINT", "freejoint": "JOINT", "geom": "GEOM", "site": "SITE", "camera": "CAMERA",
            "light": "LIGHT", "frame": "FRAME"}
LIST_OPS = {"actuator": "ACTUATOR", "sensor": "SENSOR", "tendon": "TENDON", "equality": "EQUALITY", "pair": "PAIR",
            "exclude": "EXCLUDE", "key": "KEY", "numeric": "NUMERIC", "text": "TEXT", "tuple": "TUPLE", "mesh": "MESH"}


def K(name):
    return E("mjOBJ_" + name)


def kind_name(code):
    for n in ("BODY", "JOINT", "GEOM", "SITE", "CAMERA", "LIGHT", "FRAME", "FLEX", "MESH", "SKIN", "HFIELD", "TEXTURE",
              "MATERIAL", "PAIR", "EXCLUDE", "EQUALITY", "TENDON", "ACTUATOR", "SENSOR", "NUMERIC", "TEXT", "TUPLE", "KEY",
              "PLUGIN"):
        if K(n) == code:
            return n.lower()
    return "obj%d" % code


class Rich:
    """Adds, to a description produced by gen/models.py, elements of the kinds and with the reference edges the generic
    generator does not produce (every feature below = one edge of the reference graph between element kinds, or one
    element kind).  A fixture of three jointed bodies (names x*) guarantees that the prerequisites of every feature exist."""

    def __init__(self, rng, mdl, lines, h0, ntex, nmesh):
        self.rng, self.mdl, self.L, self.X, self.h = rng, mdl, lines, [], h0
        self.ntex, self.nmesh = ntex, nmesh
        self.nu_add = self.na_add = 0
        self.used = []
        self.n = 0                       # counter for fresh names
        L = self.L
        J, G = lambda t: E("mjJNT_" + t), lambda t: E("mjGEOM_" + t)
        self.bh = {}                     # body name -> handle
        for b in mdl.bodies:
            self.bh[b["name"]] = b["handle"]
        fx = (("xb1", 0, "HINGE", "SPHERE", [0.06]), ("xb2", "xb1", "SLIDE", "CYLINDER", [0.05, 0.08]), ("xb3", 0, "HINGE", "SPHERE", [0.05]))
        for i, (bn, par, jt, gt, size) in enumerate(fx):
            bh, jh, gh, sh = self.newh(), self.newh(), self.newh(), self.newh()
            ph = 0 if par == 0 else self.bh[par]
            L += ["body %d %d" % (bh, ph), "name %d %s" % (bh, bn),
                  "set %d pos %r %r %r" % (bh, rng.uniform(-2, 2), 2.0 + 0.7 * i + rng.uniform(0, 0.2), rng.uniform(0.5, 1.5)),
                  "joint %d %d" % (jh, bh), "name %d xj%d" % (jh, i + 1), "set %d type %d" % (jh, J(jt)),
                  "set %d axis %r %r %r" % (jh, rng.uniform(0.2, 1), rng.uniform(-1, 1), rng.uniform(-1, 1)),
                  "set %d damping %r" % (jh, rng.uniform(0.1, 1.0)),
                  "geom %d %d" % (gh, bh), "name %d xg%d" % (gh, i + 1), "set %d type %d" % (gh, G(gt)),
                  "set %d size %s" % (gh, " ".join(repr(x) for x in size)), "set %d contype 0" % gh, "set %d conaffinity 0" % gh,
                  "site %d %d" % (sh, bh), "name %d xs%d" % (sh, i + 1),
                  "set %d pos %r %r %r" % (sh, rng.uniform(-.1, .1), rng.uniform(-.1, .1), 0.15)]
            self.bh[bn] = bh
        ch = self.newh()
        L += ["camera %d %d" % (ch, self.bh["xb2"]), "name %d xcam" % ch, "set %d pos 0 0 0.3" % ch]
        self.bodies = [b["name"] for b in mdl.bodies] + ["xb1", "xb2", "xb3"]
        self.sjoints = [j["name"] for j in mdl.joints if j["type"] in ("hinge", "slide")] + ["xj1", "xj2", "xj3"]
        self.joints = [j["name"] for j in mdl.joints] + ["xj1", "xj2", "xj3"]
        self.sites = [x["name"] for x in mdl.sites] + ["xs1", "xs2", "xs3"]
        self.geoms = [g["name"] for g in mdl.geoms] + ["xg1", "xg2", "xg3"]
        self.wrapgeoms = ["xg1", "xg2", "xg3"]
        self.cams = ["xcam"]
        self.tendons = [t["name"] for t in mdl.tendons]
        self.acts = [a["name"] for a in mdl.actuators]
        self.sensors = [x["name"] for x in mdl.sensors]
        self.eqs = ["eq1"] if mdl.equalities else []
        self.tuples, self.flexes, self.numerics = [], [], []
        self.meshes = ["msh%d" % k for k in range(nmesh)]
        self.mats = ["mat%d" % k for k in range(ntex)]
        self.texs = ["tex%d" % k for k in range(ntex)]
        # the three fixture joints come last in the depth-first joint order: extend the generated keyframe
        for idx, l in enumerate(L):
            w = l.split()
            if len(w) > 3 and w[0] == "set" and w[2] in ("qpos", "qvel") and self.is_key(w[1]):
                L[idx] = l + " 0.1 -0.05 0.2"

    def is_key(self, h):
        return any(l == "key " + h for l in self.L)

    def newh(self):
        self.h += 1
        return self.h - 1

    def fresh(self, stem):
        self.n += 1
        return "%s%d" % (stem, self.n)

    def pick2(self, xs):
        return self.rng.sample(xs, 2)

    # ---- prerequisites
    def need_tendon(self, avoid=None):
        c = [t for t in self.tendons if t != avoid]
        if c and self.rng.random() < 0.5:
            return self.rng.choice(c)
        th, tn = self.newh(), self.fresh("xt")
        a, b = self.pick2(self.sjoints)
        self.L += ["tendon %d" % th, "name %d %s" % (th, tn), "wrap %d joint %s %r" % (th, a, self.rng.uniform(0.5, 2)),
                   "wrap %d joint %s %r" % (th, b, self.rng.uniform(-2, -0.5))]
        self.tendons.append(tn)
        return tn

    def need_actuator(self):
        if self.acts and self.rng.random() < 0.5:
            return self.rng.choice(self.acts)
        return self.actuator("JOINT", self.rng.choice(self.sjoints))

    def need_flex(self):
        if self.flexes:
            return self.flexes[0]
        fn, dim = self.fresh("xf"), self.rng.choice((1, 2))
        self.X.append("flex %s %d %s" % (fn, dim, " ".join(["xb1", "xb2", "xb3"][:dim + 1])))
        self.flexes.append(fn)
        return fn

    def actuator(self, trn, target, extra=(), stateful=False):
        ah, an = self.newh(), self.fresh("xa")
        self.L += ["actuator %d" % ah, "name %d %s" % (ah, an), "set %d trntype %d" % (ah, E("mjTRN_" + trn)),
                   "set %d target %s" % (ah, target), "set %d gear %r" % (ah, self.rng.uniform(0.5, 2))]
        self.L += [x % ah for x in extra]
        if stateful:
            self.L += ["set %d dyntype %d" % (ah, E("mjDYN_INTEGRATOR"))]
            self.na_add += 1
        self.nu_add += 1
        self.acts.append(an)
        return an

    def sensor(self, typ, objtype=None, objname=None, reftype=None, refname=None, extra=()):
        sh, sn = self.newh(), self.fresh("xsens")
        self.L += ["sensor %d" % sh, "name %d %s" % (sh, sn), "set %d type %d" % (sh, E("mjSENS_" + typ))]
        if objtype:
            self.L += ["set %d objtype %d" % (sh, K(objtype)), "set %d objname %s" % (sh, objname)]
        if reftype:
            self.L += ["set %d reftype %d" % (sh, K(reftype)), "set %d refname %s" % (sh, refname)]
        self.L += [x % sh for x in extra]
        self.sensors.append(sn)
        return sn

    USER = ("set %%d dim %d", "set %%d datatype %d", "set %%d needstage %d")

    def user_sensor(self, objtype, objname):
        return self.sensor("USER", objtype, objname,
                           extra=(self.USER[0] % self.rng.randint(1, 3), self.USER[1] % E("mjDATATYPE_REAL"),
                                  self.USER[2] % E(self.rng.choice(("mjSTAGE_POS", "mjSTAGE_VEL", "mjSTAGE_ACC")))))

    def equality(self, typ, objtype, n1, n2=None, data=None):
        eh, en = self.newh(), self.fresh("xeq")
        self.L += ["equality %d" % eh, "name %d %s" % (eh, en), "set %d type %d" % (eh, E("mjEQ_" + typ)),
                   "set %d objtype %d" % (eh, K(objtype)), "set %d name1 %s" % (eh, n1)]
        if n2:
            self.L.append("set %d name2 %s" % (eh, n2))
        if data:
            self.L.append("set %d data %s" % (eh, data))
        self.eqs.append(en)
        return en

    def tuple_(self, entries):
        tn = self.fresh("xtup")
        self.X.append("tuple %s %s" % (tn, " ".join("%d %s %r" % (K(k), n, self.rng.uniform(0, 1)) for k, n in entries)))
        self.tuples.append(tn)
        return tn

    # ---- features: one edge of the reference graph (or one element kind) each
    def f_eq_tendon(self):
        a = self.need_tendon()
        b = self.need_tendon(avoid=a) if self.rng.random() < 0.6 else None
        self.equality("TENDON", "TENDON", a, b if b != a else None, "0 1 0 0 0")

    def f_eq_site(self):
        a = self.rng.choice(("xs1", "xs2", "xs3"))          # at least one side on a jointed body
        b = self.rng.choice([x for x in self.sites if x != a])
        if self.rng.random() < 0.5:
            self.equality("CONNECT", "SITE", a, b)
        else:
            self.equality("WELD", "SITE", a, b, "0 0 0 0 0 0 1 0 0 0 1")

    def f_eq_joint(self):
        a, b = self.pick2(self.sjoints)
        self.equality("JOINT", "JOINT", a, b if self.rng.random() < 0.7 else None, "0.1 1 0 0 0")

    def f_eq_body(self):
        a = self.rng.choice(("xb1", "xb2", "xb3"))          # at least one side jointed
        b = self.rng.choice([x for x in self.bodies if x != a])
        self.equality("CONNECT", "BODY", a, b if self.rng.random() < 0.6 else None, "0.01 0.02 0.03")

    def f_eq_flex(self):
        self.equality("FLEX", "FLEX", self.need_flex())

    def f_flex(self):
        self.need_flex()

    def f_act_tendon(self):
        self.actuator("TENDON", self.need_tendon(), stateful=self.rng.random() < 0.4)

    def f_act_site(self):
        a, b = self.pick2(self.sites)
        ex = ("set %%d refsite %s" % b, "set %d gear 1 0 0.5 0 0.2 0") if self.rng.random() < 0.6 else ("set %d gear 0 1 0 0.3 0 0",)
        self.actuator("SITE", a, ex)

    def f_act_body(self):
        self.actuator("BODY", self.rng.choice(self.bodies), ("set %d ctrllimited " + str(E("mjLIMITED_TRUE")), "set %d ctrlrange 0 1"))

    def f_act_slidercrank(self):
        a, b = self.pick2(self.sites)
        self.actuator("SLIDERCRANK", a, ("set %%d slidersite %s" % b, "set %%d cranklength %r" % self.rng.uniform(0.1, 0.5)))

    def f_act_jointinparent(self):
        self.actuator("JOINTINPARENT", self.rng.choice(self.joints if self.rng.random() < 0.5 else self.sjoints))

    def f_sens_tendon(self):
        self.sensor(self.rng.choice(("TENDONPOS", "TENDONVEL")), "TENDON", self.need_tendon())

    def f_sens_actuator(self):
        self.sensor(self.rng.choice(("ACTUATORPOS", "ACTUATORVEL", "ACTUATORFRC")), "ACTUATOR", self.need_actuator())

    def f_sens_joint(self):
        self.sensor(self.rng.choice(("JOINTPOS", "JOINTVEL", "JOINTACTFRC")), "JOINT", self.rng.choice(self.sjoints))

    def f_sens_frame(self):
        ot, on = self.rng.choice((("GEOM", self.geoms), ("CAMERA", self.cams), ("BODY", self.bodies), ("XBODY", self.bodies), ("SITE", self.sites)))
        ref = self.rng.choice((None, ("CAMERA", self.cams), ("GEOM", self.geoms), ("BODY", self.bodies), ("XBODY", self.bodies), ("SITE", self.sites)))
        typ = self.rng.choice(("FRAMEPOS", "FRAMEQUAT", "FRAMEZAXIS", "FRAMELINVEL", "FRAMEANGVEL") if ref else
                              ("FRAMEPOS", "FRAMEQUAT", "FRAMELINACC", "FRAMEANGACC"))
        self.sensor(typ, ot, self.rng.choice(on), ref[0] if ref else None, self.rng.choice(ref[1]) if ref else None)

    def f_sens_subtree(self):
        self.sensor(self.rng.choice(("SUBTREECOM", "SUBTREELINVEL", "SUBTREEANGMOM")), "BODY", self.rng.choice(self.bodies))

    def f_sens_user(self):
        opts = [("JOINT", self.joints), ("GEOM", self.geoms), ("BODY", self.bodies), ("SITE", self.sites), ("CAMERA", self.cams),
                ("TENDON", [self.need_tendon()]), ("ACTUATOR", [self.need_actuator()])]
        for k, xs in (("EQUALITY", self.eqs), ("MATERIAL", self.mats), ("TEXTURE", self.texs), ("MESH", self.meshes),
                      ("NUMERIC", self.numerics), ("SENSOR", self.sensors), ("FLEX", self.flexes)):
            if xs:
                opts.append((k, xs))
        k, xs = self.rng.choice(opts)
        self.user_sensor(k, self.rng.choice(xs))

    def f_wrap_geom(self):
        th, tn = self.newh(), self.fresh("xt")
        g = self.rng.choice(self.wrapgeoms)
        side = {"xg1": "xs1", "xg2": "xs2", "xg3": "xs3"}[g] if self.rng.random() < 0.5 else "~"
        ends = [s for s in ("xs1", "xs2", "xs3") if s != side]
        self.L += ["tendon %d" % th, "name %d %s" % (th, tn), "wrap %d site %s" % (th, ends[0]),
                   "wrap %d geom %s %s" % (th, g, side), "wrap %d site %s" % (th, ends[1])]
        if self.rng.random() < 0.4:
            a, b = self.pick2(self.sites)
            self.L += ["wrap %d pulley %r" % (th, self.rng.choice((1.0, 2.0))), "wrap %d site %s" % (th, a), "wrap %d site %s" % (th, b)]
        self.tendons.append(tn)

    def f_tuple(self):
        opts = [("BODY", self.bodies), ("GEOM", self.geoms), ("SITE", self.sites), ("JOINT", self.joints), ("CAMERA", self.cams)]
        for k, xs in (("TENDON", self.tendons), ("ACTUATOR", self.acts), ("SENSOR", self.sensors), ("EQUALITY", self.eqs),
                      ("MATERIAL", self.mats), ("TEXTURE", self.texs), ("MESH", self.meshes), ("NUMERIC", self.numerics),
                      ("TUPLE", self.tuples), ("FLEX", self.flexes)):
            if xs:
                opts += [(k, xs)] * 2
        ent = []
        for _ in range(self.rng.randint(1, 4)):
            k, xs = self.rng.choice(opts)
            ent.append((k, self.rng.choice(xs)))
        self.tuple_(ent)

    def f_skin(self):
        a, b = self.pick2(self.bodies)
        self.X.append("skin %s %s %s %s" % (self.fresh("xskin"), a, b, self.rng.choice(self.mats) if self.mats and self.rng.random() < 0.5 else "~"))

    def f_hfield(self):
        hn, gh, gn = self.fresh("xhf"), self.newh(), self.fresh("xhg")
        self.X.append("hfield %s %d %d %d" % (hn, self.rng.randint(2, 9), self.rng.randint(2, 9), self.rng.randint(1, 10 ** 6)))
        self.L += ["geom %d 0" % gh, "name %d %s" % (gh, gn), "set %d type %d" % (gh, E("mjGEOM_HFIELD")),
                   "set %d pos -4 -4 0" % gh, "set %d contype 0" % gh, "set %d conaffinity 0" % gh]
        self.X.append("geomstr %s hfieldname %s" % (gn, hn))

    def f_geom_material(self):
        if self.mats:
            self.X.append("geomstr %s material %s" % (self.rng.choice(self.geoms), self.rng.choice(self.mats)))
        else:
            self.f_text()

    def f_text(self):
        th = self.newh()
        self.L += ["text %d" % th, "name %d %s" % (th, self.fresh("xtxt")), "set %d data payload%d" % (th, self.rng.randint(0, 999))]

    def f_numeric(self):
        nh, nn = self.newh(), self.fresh("xnum")
        k = self.rng.randint(1, 5)
        self.L += ["numeric %d" % nh, "name %d %s" % (nh, nn), "set %d size %d" % (nh, k),
                   "set %d data %s" % (nh, " ".join(repr(self.rng.uniform(-1, 1)) for _ in range(self.rng.randint(1, k))))]
        self.numerics.append(nn)

    def f_light(self):
        lh, b = self.newh(), self.rng.choice(self.bodies)
        self.L += ["light %d %d" % (lh, self.bh[b]), "name %d %s" % (lh, self.fresh("xl")), "set %d pos 0 0 1" % lh, "set %d dir 0.1 0 -1" % lh]
        if self.rng.random() < 0.5:
            self.L += ["set %d mode %d" % (lh, E("mjCAMLIGHT_TARGETBODY")), "set %d targetbody %s" % (lh, self.rng.choice([x for x in self.bodies if x != b]))]

    def f_camera_target(self):
        ch, b, cn = self.newh(), self.rng.choice(self.bodies), self.fresh("xc")
        self.L += ["camera %d %d" % (ch, self.bh[b]), "name %d %s" % (ch, cn), "set %d pos 0.2 0 0.4" % ch,
                   "set %d mode %d" % (ch, E(self.rng.choice(("mjCAMLIGHT_TARGETBODY", "mjCAMLIGHT_TARGETBODYCOM")))),
                   "set %d targetbody %s" % (ch, self.rng.choice([x for x in self.bodies if x != b]))]
        self.cams.append(cn)

    def f_frames(self):
        b = self.rng.choice(self.bodies)
        bh = self.bh[b]
        q = [self.rng.gauss(0, 1) for _ in range(4)]
        f1 = self.newh()
        self.L += ["frame %d %d" % (f1, bh), "name %d %s" % (f1, self.fresh("xfr")),
                   "set %d pos %r %r %r" % (f1, self.rng.uniform(-.2, .2), self.rng.uniform(-.2, .2), self.rng.uniform(-.2, .2)),
                   "set %d quat %r %r %r %r" % (f1, q[0] + 2, q[1], q[2], q[3])]
        fr = f1
        if self.rng.random() < 0.5:
            f2 = self.newh()
            self.L += ["frame %d %d" % (f2, bh), "name %d %s" % (f2, self.fresh("xfr")), "setframe %d %d" % (f2, f1),
                       "set %d pos 0.05 -0.02 0.1" % f2, "set %d alt.type %d" % (f2, E("mjORIENTATION_EULER")),
                       "set %d alt.euler %r %r 0.3" % (f2, self.rng.uniform(-1, 1), self.rng.uniform(-1, 1))]
            fr = f2
        gh, gn, sh, sn = self.newh(), self.fresh("xfg"), self.newh(), self.fresh("xfs")
        self.L += ["geom %d %d" % (gh, bh), "name %d %s" % (gh, gn), "set %d size 0.03" % gh, "set %d contype 0" % gh,
                   "set %d conaffinity 0" % gh, "set %d pos 0.1 0 0" % gh, "setframe %d %d" % (gh, fr),
                   "site %d %d" % (sh, bh), "name %d %s" % (sh, sn), "set %d pos 0 0.1 0" % sh, "setframe %d %d" % (sh, self.rng.choice((f1, fr)))]
        self.geoms.append(gn)
        self.sites.append(sn)

    def f_defaults(self):
        c1, c2 = self.fresh("xcls"), self.fresh("xcls")
        self.X += ["default %s ~ %d" % (c1, self.rng.randint(1, 10 ** 6)), "default %s %s %d" % (c2, c1, self.rng.randint(1, 10 ** 6)),
                   "setdefault %d %s %s" % (K("GEOM"), self.rng.choice(self.geoms), self.rng.choice((c1, c2))),
                   "setdefault %d %s %s" % (K("JOINT"), self.rng.choice(self.joints), c2)]
        self.L.append("set %d childclass %s" % (self.bh[self.rng.choice(self.bodies)], c1))

    def f_pair(self):
        # one geom of a jointed fixture body, one of another body (a pair inside one static body is an engine error)
        a = self.rng.choice(("xg1", "xg3"))
        b = self.rng.choice([g for g in self.geoms if g != a])
        ph = self.newh()
        self.L += ["pair %d" % ph, "name %d %s" % (ph, self.fresh("xpair")), "set %d geomname1 %s" % (ph, a), "set %d geomname2 %s" % (ph, b)]

    def f_exclude(self):
        a, b = self.pick2(self.bodies)
        xh = self.newh()
        self.L += ["exclude %d" % xh, "name %d %s" % (xh, self.fresh("xexc")), "set %d bodyname1 %s" % (xh, a), "set %d bodyname2 %s" % (xh, b)]

    def f_key(self):
        kh = self.newh()
        self.L += ["key %d" % kh, "name %d %s" % (kh, self.fresh("xkey")), "set %d time %r" % (kh, self.rng.uniform(0, 3))]

    # ---- references the deep copy is known to lose (dedicated cases only; see known_findings.json)
    def late_sensor_tuple(self):
        self.user_sensor("TUPLE", self.tuple_([("BODY", self.rng.choice(self.bodies))]))

    def late_sensor_key(self):
        self.f_key()
        self.user_sensor("KEY", "xkey%d" % self.n)

    def late_tuple_key(self):
        self.f_key()
        self.tuple_([("KEY", "xkey%d" % self.n), ("SITE", self.rng.choice(self.sites))])

    def late_tuple_forward(self):
        later = "xtup%d" % (self.n + 2)
        self.tuple_([("TUPLE", later)])
        self.tuple_([("GEOM", self.rng.choice(self.geoms))])

    def late_sensor_forward(self):
        later = "xsens%d" % (self.n + 2)
        self.user_sensor("SENSOR", later)
        self.sensor("CLOCK")

    def finish(self):
        # the added actuators come after the generated ones: extend ctrl / act of the generated keyframe
        for idx, l in enumerate(self.L):
            w = l.split()
            if len(w) > 3 and w[0] == "set" and self.is_key(w[1]):
                if w[2] == "ctrl" and self.nu_add:
                    self.L[idx] = l + " 0.0" * self.nu_add
                if w[2] == "act" and self.na_add:
                    self.L[idx] = l + " 0.0" * self.na_add


FEATURES = sorted(n[2:] for n in dir(Rich) if n.startswith("f_"))
LATE = sorted(n for n in dir(Rich) if n.startswith("late_"))


def ref_table(lines, extras, ntex):
    """(kind code, name, [(kind code, name)]) of every element of the spec the harness builds from this text, in list order
    per kind — the input of the Lean model of the deep copy.  XBODY references are BODY references."""
    H, order = {}, []
    world = {"kind": "BODY", "name": "world", "f": {}, "wraps": []}
    order.append(world)
    for l in lines:
        w = l.split()
        if not w:
            continue
        op = w[0]
        if op in TREE_OPS or op in LIST_OPS:
            H[w[1]] = {"kind": TREE_OPS.get(op) or LIST_OPS[op], "name": None, "f": {}, "wraps": []}
            order.append(H[w[1]])
        elif op == "name":
            H[w[1]]["name"] = w[2]
        elif op == "set" and w[1] in H:
            H[w[1]]["f"][w[2]] = w[3:]
        elif op == "wrap":
            H[w[1]]["wraps"].append(w[2:])
    for i in range(ntex):
        order.append({"kind": "TEXTURE", "name": "tex%d" % i, "f": {}, "wraps": []})
        order.append({"kind": "MATERIAL", "name": "mat%d" % i, "f": {}, "wraps": []})
    xrefs = {}
    for l in extras:
        w = l.split()
        if w[0] == "tuple":
            e = {"kind": "TUPLE", "name": w[1], "f": {}, "wraps": []}
            xrefs[id(e)] = [(int(w[i]), w[i + 1]) for i in range(2, len(w), 3)]
            order.append(e)
        elif w[0] == "skin":
            e = {"kind": "SKIN", "name": w[1], "f": {}, "wraps": []}
            xrefs[id(e)] = [(K("BODY"), w[2]), (K("BODY"), w[3])]
            order.append(e)
        elif w[0] == "flex":
            e = {"kind": "FLEX", "name": w[1], "f": {}, "wraps": []}
            xrefs[id(e)] = [(K("BODY"), b) for b in w[3:]]
            order.append(e)
        elif w[0] == "hfield":
            order.append({"kind": "HFIELD", "name": w[1], "f": {}, "wraps": []})
    out = []
    for n, e in enumerate(order):
        f, k, refs = e["f"], e["kind"], []
        one = lambda key: f[key][0] if key in f and f[key][0] != "~" else None
        if id(e) in xrefs:
            refs = xrefs[id(e)]
        elif k == "PAIR":
            refs = [(K("GEOM"), one("geomname1")), (K("GEOM"), one("geomname2"))]
        elif k == "EXCLUDE":
            refs = [(K("BODY"), one("bodyname1")), (K("BODY"), one("bodyname2"))]
        elif k == "EQUALITY":
            t = int(one("type") or 0)
            ot = {E("mjEQ_JOINT"): K("JOINT"), E("mjEQ_TENDON"): K("TENDON"), E("mjEQ_FLEX"): K("FLEX"),
                  E("mjEQ_FLEXVERT"): K("FLEX"), E("mjEQ_FLEXSTRAIN"): K("FLEX")}.get(t) or int(one("objtype") or K("BODY"))
            refs = [(ot, one("name1")), (ot, one("name2"))]
        elif k == "ACTUATOR":
            t = int(one("trntype") or 0)
            if t in (E("mjTRN_JOINT"), E("mjTRN_JOINTINPARENT")):
                refs = [(K("JOINT"), one("target"))]
            elif t == E("mjTRN_SLIDERCRANK"):
                refs = [(K("SITE"), one("slidersite")), (K("SITE"), one("target"))]
            elif t == E("mjTRN_TENDON"):
                refs = [(K("TENDON"), one("target"))]
            elif t == E("mjTRN_SITE"):
                refs = [(K("SITE"), one("refsite")), (K("SITE"), one("target"))]
            elif t == E("mjTRN_BODY"):
                refs = [(K("BODY"), one("target"))]
        elif k == "SENSOR":
            if int(one("objtype") or 0):
                refs.append((int(one("objtype")), one("objname")))
            if int(one("reftype") or 0):
                refs.append((int(one("reftype")), one("refname")))
        elif k == "TENDON":
            for wr in e["wraps"]:
                if wr[0] == "joint":
                    refs.append((K("JOINT"), wr[1]))
                elif wr[0] == "site":
                    refs.append((K("SITE"), wr[1]))
                elif wr[0] == "geom":
                    refs.append((K("GEOM"), wr[1]))
                    if len(wr) > 2 and wr[2] != "~":
                        refs.append((K("SITE"), wr[2]))
        refs = [(K("BODY") if a == K("XBODY") else a, b) for a, b in refs if b is not None]
        out.append((K(k), e["name"] if e["name"] is not None else "#%d" % n, refs))
    return out


def gen_case(rng, thorough, focus=(), late=None):
    """one case: (text, nmesh, ntex, features used, reference table)"""
    prof = {"nbody": (1, 6 if thorough else 3), "keys": 0.8, "mocap": 0.3, "sleep": 0.0, "tendons": 0.5, "equalities": 0.4,
            "sites": 0.8, "cameras": 0.3, "pairs": 0.2, "excludes": 0.2}
    mdl = ModelGen(rng, prof).make()
    lines = list(mdl.lines)
    h = 3000
    nmesh = rng.choice((0, 1, 2, 3, 4, 6))
    for k in range(nmesh):
        name, prm, inert = rng.choice(MESH_KINDS)
        mh = h
        h += 1
        lines += ["mesh %d" % mh, "name %d msh%d" % (mh, k),
                  "makemesh %d %d %s" % (mh, E("mjMESH_BUILTIN_" + name), " ".join(repr(float(x)) for x in prm(rng))),
                  "set %d inertia %d" % (mh, E("mjMESH_INERTIA_" + rng.choice(inert))),
                  "set %d scale %r %r %r" % (mh, rng.uniform(0.03, 0.2), rng.uniform(0.03, 0.2), rng.uniform(0.03, 0.2))]
        if rng.random() < 0.3:
            lines.append("set %d refpos %r %r %r" % (mh, rng.uniform(-.1, .1), rng.uniform(-.1, .1), rng.uniform(-.1, .1)))
        for _ in range(rng.choice((1, 1, 2))):
            b = rng.choice(mdl.bodies)
            gh = h
            h += 1
            lines += ["geom %d %d" % (gh, b["handle"]), "set %d type %d" % (gh, E("mjGEOM_MESH")),
                      "set %d meshname msh%d" % (gh, k), "set %d contype 0" % gh, "set %d conaffinity 0" % gh,
                      "set %d pos %r %r %r" % (gh, rng.uniform(-.1, .1), rng.uniform(-.1, .1), rng.uniform(-.1, .1))]
    if rng.random() < 0.2:
        lines.append("compiler usethread 0")
    ntex = rng.choice((0, 1, 2, 3, 5, 8))
    used, extras = [], []
    plain = not focus and late is None and rng.random() < 0.15       # a few cases exactly as the generic generator makes them
    if not plain:
        r = Rich(rng, mdl, lines, h, ntex, nmesh)
        todo = list(focus) + [f for f in FEATURES if f not in focus and rng.random() < (0.2 if late is None else 0.08)]
        rng.shuffle(todo)
        for f in todo:
            getattr(r, "f_" + f)()
        if late:
            getattr(r, late)()
            todo.append(late)
        r.finish()
        used, extras = todo, r.X
    head = "case %d %d %d x" % (ntex, rng.randint(1, 2 ** 31 - 1), rng.randint(0, 30))
    text = head + "\n" + "\n".join(lines) + "\nend\n" + "".join(x + "\n" for x in extras) + "xend\n"
    return text, nmesh, ntex, used, ref_table(lines, extras, ntex)


def gen_lr_case(rng, hw_threads, force=None):
    """a spec made for mjCModel::LengthRange: limited joints (so the length-range simulation converges) and a sequence of
    actuators of which some need a length-range computation (muscles without a range) and some do not (motors, muscles
    with a range) — counts and positions around the slice boundaries of the threaded branch.
    Returns (text, info) with info = n, cnt (actuators needing work), nthread, kinds, options."""
    J, G = lambda t: E("mjJNT_" + t), lambda t: E("mjGEOM_" + t)
    L, X, h = [], [], [1]

    def newh():
        h[0] += 1
        return h[0] - 1
    L += ["option timestep 0.004", "option integrator %d" % E("mjINT_EULER")]
    nj = rng.randint(2, 5)
    joints, parent = [], 0
    for i in range(nj):
        bh, jh, gh = newh(), newh(), newh()
        chain = rng.random() < 0.4 and parent
        L += ["body %d %d" % (bh, parent if chain else 0), "name %d lb%d" % (bh, i),
              "set %d pos %r %r %r" % (bh, 0.25 if chain else 0.6 * i, 0.0 if chain else 1.0, 0.0 if chain else 1.0),
              "joint %d %d" % (jh, bh), "name %d lj%d" % (jh, i), "set %d type %d" % (jh, J(rng.choice(("HINGE", "HINGE", "SLIDE")))),
              "set %d axis 0 1 0" % jh, "set %d limited %d" % (jh, E("mjLIMITED_TRUE")),
              "set %d range %r %r" % (jh, -rng.uniform(0.3, 0.9), rng.uniform(0.3, 1.1)),
              "geom %d %d" % (gh, bh), "set %d type %d" % (gh, G("CAPSULE")), "set %d size 0.03 0.1" % gh,
              "set %d contype 0" % gh, "set %d conaffinity 0" % gh]
        joints.append("lj%d" % i)
        parent = bh
    tendon = None
    if rng.random() < 0.4:
        th = newh()
        a, b = rng.sample(joints, 2)
        L += ["tendon %d" % th, "name %d lt0" % th, "wrap %d joint %s 1.0" % (th, a), "wrap %d joint %s -0.5" % (th, b),
              "set %d limited %d" % (th, E("mjLIMITED_TRUE")), "set %d range -0.4 0.6" % th]
        tendon = "lt0"
    mode = rng.choice(("MUSCLE",) * 7 + ("ALL", "ALL", "MUSCLEUSER", "NONE"))
    useexisting = 0 if rng.random() < 0.12 else 1
    uselimit = 1 if rng.random() < 0.3 else 0
    # the sequence of actuator kinds: w = needs work (muscle without range), m = motor, e = muscle with an existing range
    cnt_t = force[1] if force else rng.choice((2, 2, 3, 4, 5, 7, 8, 9, 10, hw_threads, hw_threads + 1))
    rest = force[2] if force else rng.choice((0, 1, 2, 3, 4, 6, 9))
    pattern = force[0] if force else rng.choice(("trailing", "leading", "interleaved", "random", "random"))
    others = [rng.choice("mme") for _ in range(rest)]
    if pattern == "trailing":
        kinds = others + ["w"] * cnt_t
    elif pattern == "leading":
        kinds = ["w"] * cnt_t + others
    elif pattern == "interleaved":
        kinds, o = [], list(others)
        for _ in range(cnt_t):
            kinds.append("w")
            if o:
                kinds.append(o.pop())
        kinds = o + kinds
    else:
        kinds = others + ["w"] * cnt_t
        rng.shuffle(kinds)
    musc = "0.75 1.05 %r 200 0.5 1.6 1.5 1.3 1.2"
    for i, kd in enumerate(kinds):
        ah = newh()
        on_tendon = tendon and uselimit and rng.random() < 0.3    # (the simulated range of a tendon over coupled joints may not converge)
        L += ["actuator %d" % ah, "name %d la%d" % (ah, i),
              "set %d trntype %d" % (ah, E("mjTRN_TENDON") if on_tendon else E("mjTRN_JOINT")),
              "set %d target %s" % (ah, tendon if on_tendon else rng.choice(joints))]
        if kd in "we":
            prm = musc % rng.choice((-1.0, rng.uniform(20, 200)))
            L += ["set %d dyntype %d" % (ah, E("mjDYN_MUSCLE")), "set %d gaintype %d" % (ah, E("mjGAIN_MUSCLE")),
                  "set %d biastype %d" % (ah, E("mjBIAS_MUSCLE")), "set %d gainprm %s" % (ah, prm), "set %d biasprm %s" % (ah, prm),
                  "set %d dynprm 0.01 0.04 0" % ah]
            if kd == "e":
                L.append("set %d lengthrange %r %r" % (ah, rng.uniform(0.1, 0.4), rng.uniform(0.6, 1.5)))
        else:
            L.append("set %d gear %r" % (ah, rng.uniform(0.5, 2)))
    X.append("lropt %d %d %d %r %r" % (E("mjLRMODE_" + mode), useexisting, uselimit, 1.5, 0.3))
    if rng.random() < 0.15:
        L.append("compiler usethread 0")
    # how many actuators need work under these options (mirrors the counting loop of LengthRange)
    def needs(kd):
        if mode == "NONE" or (mode in ("MUSCLE", "MUSCLEUSER") and kd == "m"):
            return False
        return not (useexisting and kd == "e")
    cnt = sum(1 for kd in kinds if needs(kd))
    info = {"n": len(kinds), "cnt": cnt, "nthread": max(1, min(hw_threads, cnt)) if cnt > 0 else max(1, hw_threads),
            "kinds": "".join(kinds), "mode": mode, "useexisting": useexisting, "uselimit": uselimit, "pattern": pattern}
    ntex = rng.choice((0, 0, 2))
    head = "case %d %d %d x" % (ntex, rng.randint(1, 2 ** 31 - 1), rng.choice((0, 3)))
    text = head + "\n" + "\n".join(L) + "\nend\n" + "".join(x + "\n" for x in X) + "xend\n"
    info["usethread"] = 0 if "compiler usethread 0" in L else 1
    return text, 0, ntex, ["lengthrange_" + pattern], ref_table(L, X, ntex), info


def parse_counts(txt):
    return {} if txt in ("-", "") else {int(a): int(b) for a, b in (x.split(":") for x in txt.split(","))}


def copy_line(cm, table):
    """op line of the Lean model for one spec: names are coded as numbers per kind"""
    code = {}
    nm = lambda k, n: code.setdefault((k, n), len(code) + 1)
    words = []
    for k, n, refs in table:
        rs = refs if cm["skips"] else []
        words.append("%d:%d:%s" % (k, nm(k, n), "+".join("%d.%d" % (a, nm(a, b)) for a, b in rs)))
    csv = lambda xs: ",".join(str(x) for x in xs) or "-"
    return "copy %s | %s | %s" % (csv(cm["order"]), csv(cm["tree"]), " ".join(words)), {v: k for k, v in code.items()}


def lr_tie(ctx, drv, hw):
    """T for the work partition of the threaded LengthRange: the slices computed by the expressions extracted from the source
    of the tree must be the slices of the Lean model (for which lr_slices_partition is proved), on an exhaustive grid."""
    from translate import c33_copyorder, c33_lrslices
    name = "extraction of the LengthRange work partition (num, slice start / length, LRfunc loop) from src/user/user_model.cc"
    try:
        ex = c33_lrslices.extract(common.REPO)
        ctx.oblige(name, "translator", True)
    except (c33_copyorder.ExtractError, OSError, SyntaxError) as e:
        ctx.oblige(name, "translator", False, repr(e))
        return
    ctx.extra["lengthrange_partition_extracted"] = ex
    if not drv:
        return
    NMAX, TMAX = (40, 16) if ctx.tier == "thorough" else (26, 10)
    grid = [(n, cnt, t) for n in range(0, NMAX + 1) for t in range(2, TMAX + 1) for cnt in range(max(2, t), n + 1)
            if cnt == n or cnt == t or cnt % 3 == 0]
    lines = sorted({"lrslices %d %d" % (n, t) for n, cnt, t in grid})
    rc, mo, err = ctx.run_lines([drv], lines)
    if rc != 0 or len(mo) != len(lines) or "bad-op" in mo:
        raise common.Infra("drv_c33 failed on lrslices: rc=%s %s" % (rc, err[-300:]))
    model = dict(zip(lines, mo))
    bad = []
    try:
        for n, cnt, t in grid:
            num, sl = c33_lrslices.slices(ex, n, cnt, t)
            got = "num=%d | %s" % (num, " ; ".join(",".join(str(k) for k in x) or "-" for x in sl))
            want = model["lrslices %d %d" % (n, t)]
            # the model's property (every index < n exactly once) is what matters; compare the visited indices per worker
            if got.split(" | ")[1] != want.split(" | ")[1]:
                bad.append({"n": n, "cnt": cnt, "nthread": t, "source": got, "model": want})
    except c33_copyorder.ExtractError as e:
        bad.append({"error": repr(e)})
    for n, cnt, t in grid:
        ctx.count(("lrslices", n, cnt, t))
    ctx.oblige("correspondence LengthRange work partition: slices from the extracted source expressions vs Lean LRSlices.slices "
               "(%d (n, cnt, nthread) triples, n <= %d, nthread <= %d)" % (len(grid), NMAX, TMAX), "correspondence", not bad,
               json.dumps(bad[:4]))
    if bad:
        ctx.disagreements += [dict(stream="lrslices", line=str((b.get("n"), b.get("cnt"), b.get("nthread"))),
                                   model=b.get("model"), impl=b.get("source")) for b in bad[:10]]
        # name the actuators the threaded compile never visits, for the reader of the replay
        miss = [b for b in bad if "n" in b and set(range(b["n"])) - {int(k) for x in b["source"].split(" | ")[1].split(" ; ") for k in x.split(",") if k != "-"}]
        ctx.extra["lengthrange_partition_misses_indices"] = miss[:3]


def compile_part(ctx, drv, comp):
    from translate import c33_copyorder
    thorough = ctx.tier == "thorough"
    rng = ctx.rng
    # ---- the translator tie: order of the CopyList calls, tree lists and static reference edges of THIS tree
    cm = None
    try:
        ex = c33_copyorder.extract(common.REPO)
        cm = {"order": [E(k) for k in ex["order"]], "tree": [E(k) for k in ex["tree"]], "skips": ex["skips"],
              "static": sorted({(E(a), E(b)) for a, b in ex["edges"] if a not in ex["tree"]})}
        ctx.oblige("extraction of the CopyList order, the tree lists and the reference edges from src/user/user_model.cc, "
                   "user_objects.cc, user_mesh.cc", "translator", True)
        ctx.extra["copy_order_extracted"] = {"order": ex["order"], "tree": ex["tree"], "static_edges": ["%s>%s" % e for e in ex["edges"]],
                                             "dynamic_lookups": ["%s:%s" % tuple(d) for d in ex["dynamic"]],
                                             "CopyList_skips_unresolved": ex["skips"]}
    except (c33_copyorder.ExtractError, OSError, KeyError) as e:
        ctx.oblige("extraction of the CopyList order, the tree lists and the reference edges from src/user/user_model.cc, "
                   "user_objects.cc, user_mesh.cc", "translator", False, repr(e))
    # ---- cases: every feature forced at least once (two per case), a few generic ones, one per known-lossy reference
    feats = list(FEATURES)
    rng.shuffle(feats)
    plan = [tuple(feats[i:i + 2]) for i in range(0, len(feats), 2)]
    cases = [gen_case(rng, thorough, focus=f) for f in plan]
    cases += [gen_case(rng, thorough) for _ in range(260 if thorough else 3)]
    nlate = 0
    for rep in range(6 if thorough else 1):
        for lt in LATE:
            cases.append(gen_case(rng, thorough, late=lt))
            nlate += 1
    # ---- LengthRange: the other threaded path of the compiler
    hw = max(1, len(os.sched_getaffinity(0)) // 2)          # NumCompilerThreads: hardware_concurrency() / 2
    forced = [("trailing", 2, 4), ("trailing", hw, 3), ("leading", 3, 5), ("interleaved", hw + 1, 6), ("random", 2, 1)]
    lr_cases = [gen_lr_case(rng, hw, force=f) for f in forced] + [gen_lr_case(rng, hw) for _ in range(80 if thorough else 5)]
    lr_first = len(cases)
    cases += [c[:5] for c in lr_cases]
    lrh = {"threaded_path_runs": 0, "serial": 0, "n": {}, "cnt": {}, "pattern": {}, "mode": {}}
    for c in lr_cases:
        i = c[5]
        runs = i["usethread"] and i["cnt"] >= 2 and min(hw, i["cnt"]) >= 2
        lrh["threaded_path_runs" if runs else "serial"] += 1
        for k in ("n", "cnt", "pattern", "mode"):
            lrh[k][str(i[k])] = lrh[k].get(str(i[k]), 0) + 1
    lrh["compiler_threads"] = hw
    ctx.extra["lengthrange_cases"] = lrh
    if hw < 2:
        ctx.assumptions.append("fewer than 4 hardware threads: the threaded branches of the compiler cannot run on this machine")
    lr_tie(ctx, drv, hw)
    fh, eh = {}, {}
    for c in cases:
        for f in c[3]:
            fh[f] = fh.get(f, 0) + 1
        for k, n, refs in c[4]:
            for a, b in refs:
                e = "%s>%s" % (kind_name(k), kind_name(a))
                eh[e] = eh.get(e, 0) + 1
    ctx.extra["compile_case_features"] = fh
    ctx.extra["reference_edges_generated"] = eh
    text = "".join(c[0] for c in cases)
    r = common.sh([comp], inp=text, timeout=3000)
    outs = r.stdout.split("\n")
    if outs and outs[-1] == "":
        outs.pop()
    hist = {"ok": 0, "error": 0, "diff": 0}
    pooled = 0
    if r.returncode != 0 or len(outs) != len(cases):
        hang = bool(outs) and outs[-1] == "TIMEOUT"
        idx = min(len(outs) - (1 if hang else 0), len(cases) - 1)
        ctx.oracle_failure("c33:compile:hang" if hang else "c33:compile:crash",
                           ("mj_compile did not return within 120 s on case %d (asset thread pool dead-locked?)" % idx) if hang
                           else "c33_compile crashed (rc=%s) on case %d" % (r.returncode, idx),
                           {"case": cases[idx][0][:12000], "stderr": r.stderr[-500:],
                            "replay": "feed the case text to <c33_compile harness>"})
        return
    # ---- the Lean model of the deep copy on the same specs, with the order extracted from this tree
    model = [None] * len(cases)
    known = {k["key"] for k in ctx.known()}
    if cm and drv:
        observed = sorted({(k, a) for c in cases for k, n, refs in c[4] for a, b in refs if k not in cm["tree"]})
        edges = sorted(set(cm["static"]) | set(observed))
        csv = lambda xs: ",".join(str(x) for x in xs) or "-"
        lines = ["kindok %s | %s | %s" % (csv(cm["order"]), csv(cm["tree"]), ",".join("%d>%d" % e for e in edges) or "-")]
        decode = []
        for c in cases:
            l, dec = copy_line(cm, c[4])
            lines.append(l)
            decode.append(dec)
        rc, mo, err = ctx.run_lines([drv], lines)
        if rc != 0 or len(mo) != len(lines) or "bad-op" in mo:
            raise common.Infra("drv_c33 failed on the copy ops: rc=%s %s %s" % (rc, err[-300:], [l[:200] for l, o in zip(lines, mo) if o == "bad-op"][:2]))
        bad = [] if mo[0] == "ok" or not cm["skips"] else [tuple(int(x) for x in e.split(">")) for e in mo[0].split()[1].split(",")]
        badkeys = ["c33:copy-order:%s->%s" % (kind_name(a), kind_name(b)) for a, b in bad]
        ctx.extra["copy_order_edges_not_topological"] = badkeys
        ctx.oblige("hypothesis kindOK of copy_lossless: the CopyList order of the tree is a topological order of the %d reference "
                   "edges between element kinds (static + generated), except the edges recorded as known findings" % len(edges),
                   "hypothesis", all(k in known for k in badkeys), "edges against the order: " + ", ".join(badkeys))
        for idx in range(len(cases)):
            m = re.match(r"kept (\S+) dropped (\S+)$", mo[idx + 1])
            dropped = [] if m.group(2) == "-" else [tuple(int(x) for x in d.split(".")) for d in m.group(2).split(",")]
            model[idx] = {"kept": parse_counts(m.group(1)), "dropped": [(k, decode[idx][n][1]) for k, n in dropped]}
    # ---- correspondence (element counts of the copies) and oracle
    mism, gen_bad = [], []
    for idx, ((ctext, nmesh, ntex, used, table), o) in enumerate(zip(cases, outs)):
        ctx.count(ctext)
        status, _, cnt = o.partition(" # ")
        if status.startswith("error") or not cnt:
            hist["error"] += 1
            ctx.extra.setdefault("compile_errors", []).append(("%s: " % ",".join(used)) + o[:160])
            continue
        m = re.match(r"src=(\S+) copy=(\S+) copy0=(\S+)$", cnt)
        src, cp, cp0 = (parse_counts(m.group(i)) for i in (1, 2, 3))
        mine = {}
        for k, n, refs in table:
            mine[k] = mine.get(k, 0) + 1
        if any(src.get(k, 0) != v for k, v in mine.items()) or sum(src.values()) != sum(mine.values()):
            gen_bad.append({"case": idx, "harness": src, "table": mine})
        explained = None
        if model[idx]:
            kept = model[idx]["kept"]
            agree = all(cp.get(k) == v and cp0.get(k) == v for k, v in kept.items()) if cp and cp0 else False
            if not agree:
                mism.append({"case": idx, "features": used, "model_kept": kept, "impl_copy": cp, "impl_copy0": cp0,
                             "text": ctext[:4000]})
            elif model[idx]["dropped"]:
                # the loss is the one the model derives from the order of the CopyList calls: name the edge
                pos = {k: i for i, k in reversed(list(enumerate(cm["order"])))}
                edge = None
                for dk, dn in model[idx]["dropped"]:
                    refs = [rf for k, n, rf in table if k == dk and n == dn][0]
                    late = [a for a, b in refs if a not in cm["tree"] and (a == dk or pos.get(a, 10 ** 6) >= pos.get(dk, -1))]
                    if late and not edge:
                        edge = "%s->%s" % (kind_name(dk), kind_name(late[0]))
                k0 = model[idx]["dropped"][0][0]
                if not edge:
                    edge = kind_name(k0) + ("-not-copied" if k0 not in cm["order"] and k0 not in cm["tree"] else "->?")
                explained = ("c33:copy-order:" + edge,
                             ", ".join("%s '%s'" % (kind_name(k), n) for k, n in model[idx]["dropped"]))
        if status.startswith("ok"):
            hist["ok"] += 1
            if "simerror=1" in status:
                ctx.extra["compile_cases_with_engine_error_while_stepping"] = ctx.extra.get("compile_cases_with_engine_error_while_stepping", 0) + 1
            tg = re.search(r" tog=(\S+)", status)
            th = ctx.extra.setdefault("recompile_toggle_cases", {"cases": 0, "body_becomes_mocap": 0, "body_stops_being_mocap": 0,
                                                                 "new_mocap_body": 0, "actuator_gains_activation": 0,
                                                                 "actuator_loses_activation": 0, "edited_spec_invalid": 0})
            if tg:
                th["cases"] += 1
                for part in tg.group(1).split(","):
                    for pre, name in (("M+", "body_becomes_mocap"), ("M-", "body_stops_being_mocap"), ("Mnew", "new_mocap_body"),
                                      ("A+", "actuator_gains_activation"), ("A-", "actuator_loses_activation")):
                        if part.startswith(pre) and int(part[len(pre):]) > 0:
                            th[name] += 1
                    if part == "invalid":
                        th["edited_spec_invalid"] += 1
            mm = re.search(r"pooltasks=(\d+)", status)
            if mm and int(mm.group(1)) >= 2:
                pooled += 1
            if explained:
                mism.append({"case": idx, "note": "model predicts a loss, the harness reports none", "model": model[idx]})
        elif status.startswith("DIFF"):
            hist["diff"] += 1
            items = status.split()[1:]
            rep = {"case": ctext[:12000], "impl_output": o, "features": used,
                   "replay": "feed the case text to <c33_compile harness>"}
            if explained:
                ctx.oracle_failure(explained[0], "mj_copySpec silently drops %s (its reference is resolved before the referenced list is "
                                   "copied: CopyList skips elements whose ResolveReferences throws); the copy compiles to a different "
                                   "model: %s" % (explained[1], " ".join(items[:6])), rep)
                items = [it for it in items if it.split(":")[0] not in ("copyspec", "copyspec0", "copycopy")]
            for item in items[:3]:
                ctx.oracle_failure("c33:" + item, "compile check failed (%s); all differences: %s" % (item, status[:300]), rep)
    if model[0] is not None:
        ctx.oblige("correspondence element survival in mj_copySpec (before and after the first compile) vs Lean SpecCopy.copySpec "
                   "with the extracted order (%d specs)" % len(cases), "correspondence", not mism, json.dumps(mism[:3])[:1900])
        if mism:
            ctx.disagreements += [dict(stream="copy", line=str(x.get("features")), model=str(x.get("model_kept")),
                                       impl=str(x.get("impl_copy"))) for x in mism[:10]]
    ctx.oblige("reference table of the generator matches the element counts of the built spec (%d specs)" % len(cases),
               "generator", not gen_bad, json.dumps(gen_bad[:2])[:1500])
    ctx.oblige("generated specs compile (errors %d of %d)" % (hist["error"], len(cases)), "generator",
               hist["error"] * 5 <= len(cases), str(ctx.extra.get("compile_errors", [])[:3]))
    ctx.sample({"case_head": cases[0][0].split("\n")[0], "features": cases[0][3], "result": outs[0][:300]})
    ctx.extra["compile_cases"] = hist
    ctx.extra["compile_cases_known_lossy_reference"] = nlate
    ctx.extra["compile_cases_with_pool_running"] = pooled
    ctx.extra["compile_checks_per_case"] = ["twice", "copyspec0", "copyspec", "copycopy", "copymodel", "thread", "recompile",
                                            "edit", "edit2", "undo", "toggle"]


def run(ctx):
    ctx.rule = ("pool: schedule lines `run N T | tokens` (exhaustive short schedules for small N, T; seeded random schedules with "
                "notify picks, spurious wake-ups and non-existent thread ids; real-thread `free` runs); compile: generated specs "
                "with 0-6 procedural meshes and 0-8 builtin textures plus elements of every kind / reference edge (31 features, each "
                "forced at least once per run, histogram in compile_case_features / reference_edges_generated) and one spec per "
                "known-lossy reference; LengthRange specs (pattern x count of actuators needing work x others, histogram in lengthrange_cases) and "
                "the (n, cnt, nthread) grid of the partition tie; a case is distinct by its full text; non-trivial = accepted op")
    ctx.lean_props(THEOREMS)
    drv = ctx.driver("drv_c33")
    # the harness TU #includes the tree's user_threadpool.cc: it is part of the cache key
    pool = ctx.harness("harness/cc/c33_pool.cc", "c33_pool", link_lib=False,
                       deps=["harness/cc/c33_sched_shim.h", os.path.join(common.REPO, "src/user/user_threadpool.cc"),
                             os.path.join(common.REPO, "src/user/user_threadpool.h")])
    comp = ctx.harness("harness/cc/c33_compile.cc", "c33_compile", deps=["harness/mjbuild.h"])
    # ---- T + S(a): the thread pool
    if drv and pool:
        lines = gen_pool_lines(ctx)
        ctx.differential("user_threadpool.cc under the controlled scheduler vs the Lean transition system (event traces)",
                         [drv], [pool], lines, keyf=lambda l: l if l.split()[0] in ("run", "free") else None)
        rc, outs, err = ctx.run_lines([pool], lines)
        nfail = 0
        for l, o in zip(lines, outs):
            r = pool_oracle(l, o)
            if r:
                nfail += 1
                if nfail <= 5:
                    ctx.oracle_failure("c33:pool:" + r[0], r[1], {"line": l[:1500], "impl_output": o[:3000],
                                                               "replay": "echo '<line>' | <c33_pool harness>"})
        if rc != 0 or len(outs) != len(lines):
            if not nfail:
                ctx.oracle_failure("c33:pool:crash", "c33_pool stopped early (rc=%s) after %d of %d lines" % (rc, len(outs), len(lines)),
                                   {"line": lines[min(len(outs), len(lines) - 1)][:1500], "stderr": err[-400:]})
        elif outs:
            ctx.sample({"op": lines[len(lines) // 2][:300], "impl_and_model_trace": outs[len(lines) // 2][:600]})
        ctx.extra["pool_oracle_checked"] = len(lines)
        ctx.extra["pool_oracle_failures"] = nfail
    # ---- T + S(b): the deep copy (element survival) and compile determinism
    if comp:
        compile_part(ctx, drv, comp)
    if ctx.tier == "thorough":
        ctx.leanchecker(["MjProof.Props.C33"])
