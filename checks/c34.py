"""C34  Name lookup inverts naming for every object type (DESIGN.md §5.C34)."""
import importlib.util
import json
import os
import subprocess
import sys

from . import common

META = {
    "technique": "Lean 4 proof (linear-probing table invariant by induction over the insertions; probe-loop "
                 "induction; segment/prefix-sum arithmetic) + translator-regenerated object-type orders "
                 "(decided equal in Lean) + exact differential correspondence with mj_compile / mj_name2id / "
                 "mj_id2name / mj_hashString of the tree build",
    "text": "Proved for the executable model, for every number of objects, every byte content of the names and "
            "every hash function with values below the table size (hence for all hash collisions): mj_name2id of "
            "the i-th non-empty name is i when the non-empty names of the list are pairwise distinct; -1 for every "
            "other string (empty string, prefixes, extensions, colliding strings) and for every type that is no "
            "case label; mj_id2name is NULL exactly for out-of-range ids and unnamed objects and otherwise returns "
            "the name; name2id(id2name(id)) = id; every insertion probe of namelist ends (load factor < 1) and a "
            "free slot remains for mjLOAD_MULTIPLE >= 2; no read or write leaves names_map / names / name_*adr; "
            "the subtract-from-the-end offsets of _getnumadr equal the prefix sums of CopyNames. The orders of "
            "_getnumadr, CopyNames and the nnames_map sum, mjLOAD_MULTIPLE and the hash constants are regenerated "
            "from the source on every run and their agreement is decided inside Lean (orders_equal, "
            "load_multiple_consistent); the loop bodies of mj_hashString / mj_name2id / mj_id2name / namelist / "
            "addtolist must match the token templates the hand-written model was written against (translator "
            "refuses otherwise). The model is tied to the real code by exact comparison of names, names_map, every "
            "name_*adr array and all lookup results on models compiled through the mjSpec C API (all 23 "
            "name-bearing object types incl. flex, skin, plugin).",
    "note": "the probe/insert loops and the strncmp are hand-modelled (tied by token templates + differential runs, "
            "not translated); C int/uint64 index arithmetic is modelled in Nat/Int (faithful below INT_MAX, which "
            "mj_makeModel enforces); `char` is taken to be signed (x86-64 gcc: bytes >= 0x80 are sign-extended "
            "into the hash; exercised by the correspondence); names are NUL-free byte strings as the C API "
            "delivers them; that m->nX equals the size of the compiler's object list is assumed (SetSizes) and only "
            "sampled; duplicate non-empty names are rejected by the compiler and are outside the theorem's "
            "hypothesis; XML loading is not exercised (no tinyxml2): models are built with mjs_add*.",
}

THEOREMS = [
    "MjProof.C34.lookup_build",
    "MjProof.C34.lookup_absent",
    "MjProof.C34.id2name_none_iff",
    "MjProof.C34.name2id_id2name",
    "MjProof.C34.probe_terminates",
    "MjProof.C34.free_slot_remains",
    "MjProof.C34.segment_offsets_agree",
    "MjProof.C34.orders_equal",
    "MjProof.C34.load_multiple_consistent",
    "MjProof.C34.labels_select",
    "MjProof.C34.lookup_unknown_type",
    "MjProof.C34.lookup_build_of_orders",
    "MjProof.C34.lookup_absent_of_orders",
    "MjProof.C34.id2name_eq_of_orders",
    "MjProof.C34.id2name_none_iff_of_orders",
    "MjProof.C34.name2id_id2name_of_orders",
    "MjProof.C34.name2id_total_of_orders",
    "MjProof.C34.probe_terminates_of_orders",
    "MjProof.C34.segment_offsets_agree_of_orders",
]

TRANSLATOR = os.path.join(common.VERIF, "translate", "c34_tables.py")

# mjtObj enumerator -> name_*adr array of mjModel (public API documentation of mjModel; the oracle's own knowledge,
# independent of _getnumadr)
OBJ_FIELD = {
    "mjOBJ_BODY": "name_bodyadr", "mjOBJ_XBODY": "name_bodyadr", "mjOBJ_JOINT": "name_jntadr",
    "mjOBJ_GEOM": "name_geomadr", "mjOBJ_SITE": "name_siteadr", "mjOBJ_CAMERA": "name_camadr",
    "mjOBJ_LIGHT": "name_lightadr", "mjOBJ_FLEX": "name_flexadr", "mjOBJ_MESH": "name_meshadr",
    "mjOBJ_SKIN": "name_skinadr", "mjOBJ_HFIELD": "name_hfieldadr", "mjOBJ_TEXTURE": "name_texadr",
    "mjOBJ_MATERIAL": "name_matadr", "mjOBJ_PAIR": "name_pairadr", "mjOBJ_EXCLUDE": "name_excludeadr",
    "mjOBJ_EQUALITY": "name_eqadr", "mjOBJ_TENDON": "name_tendonadr", "mjOBJ_ACTUATOR": "name_actuatoradr",
    "mjOBJ_SENSOR": "name_sensoradr", "mjOBJ_NUMERIC": "name_numericadr", "mjOBJ_TEXT": "name_textadr",
    "mjOBJ_TUPLE": "name_tupleadr", "mjOBJ_KEY": "name_keyadr", "mjOBJ_PLUGIN": "name_pluginadr",
}
# object types the harness can create, by enumerator; MUSTNAME: the compiler rejects unnamed assets of these types
CREATABLE = ["mjOBJ_BODY", "mjOBJ_JOINT", "mjOBJ_GEOM", "mjOBJ_SITE", "mjOBJ_CAMERA", "mjOBJ_LIGHT", "mjOBJ_FLEX",
             "mjOBJ_MESH", "mjOBJ_SKIN", "mjOBJ_HFIELD", "mjOBJ_TEXTURE", "mjOBJ_MATERIAL", "mjOBJ_PAIR",
             "mjOBJ_EXCLUDE", "mjOBJ_EQUALITY", "mjOBJ_TENDON", "mjOBJ_ACTUATOR", "mjOBJ_SENSOR", "mjOBJ_NUMERIC",
             "mjOBJ_TEXT", "mjOBJ_TUPLE", "mjOBJ_KEY", "mjOBJ_PLUGIN"]
MUSTNAME = {"mjOBJ_MESH", "mjOBJ_HFIELD", "mjOBJ_TEXTURE", "mjOBJ_MATERIAL"}
NEED_JOINT = {"mjOBJ_EQUALITY", "mjOBJ_TENDON", "mjOBJ_ACTUATOR"}

M64 = (1 << 64) - 1


def gen_hash(b):
    """Generator-side copy of the hash, used ONLY to construct colliding inputs (never to judge an output)."""
    h = 5381
    for c in b:
        if c >= 128:
            c = (c - 256) & M64
        h = ((((h << 5) + h) & M64) ^ c) & M64
    return h


def hx(b):
    return b.hex() if b else "-"


def unhx(s):
    return b"" if s == "-" else bytes.fromhex(s)


_FULL = None


def full_collisions():
    """groups of distinct 2-byte strings with identical 64-bit hash (collide for every table size)"""
    global _FULL
    if _FULL is None:
        d = {}
        for a in range(1, 256):
            for b in range(1, 256):
                s = bytes((a, b))
                d.setdefault(gen_hash(s), []).append(s)
        _FULL = [v for v in d.values() if len(v) >= 2]
    return _FULL


ALPHA = b"abcdefghijklmnopqrstuvwxyzABCDEFGHIJKLMNOPQRSTUVWXYZ0123456789_-./: "


def rand_name(rng, style=None):
    style = style or rng.choice(("ascii", "ascii", "short", "high", "mixed", "long", "punct"))
    if style == "ascii":
        return bytes(rng.choice(ALPHA) for _ in range(rng.randint(1, 10)))
    if style == "short":
        return bytes((rng.choice(ALPHA),))
    if style == "high":
        return bytes(rng.randint(128, 255) for _ in range(rng.randint(1, 6)))
    if style == "mixed":
        return bytes(rng.randint(1, 255) for _ in range(rng.randint(1, 8)))
    if style == "long":
        return bytes(rng.choice(ALPHA) for _ in range(rng.randint(40, 300)))
    return bytes(rng.choice(b"!\"#$%&'()*+,;<=>?@[\\]^`{|}~\t") for _ in range(rng.randint(1, 4)))


def colliding(rng, n, slot, k, taken, high=False, maxtry=200000):
    """k distinct names (not in taken) with hash % n == slot"""
    out = []
    tries = 0
    while len(out) < k and tries < maxtry:
        tries += 1
        L = rng.randint(1, 5)
        s = bytes(rng.randint(128, 255) if (high and rng.random() < 0.5) else rng.choice(ALPHA) for _ in range(L))
        if s in taken or s in out:
            continue
        if gen_hash(s) % n == slot:
            out.append(s)
    return out


def make_names(rng, count, extra, must_name, taken, tier):
    """count names for one object list whose table has 2*(count+extra) slots; b'' = unnamed"""
    n = 2 * (count + extra)
    strat = rng.choice(("rand", "rand", "collide-end", "collide-any", "full", "prefix", "sparse", "high", "chain2"))
    names = []
    used = set(taken)

    def add(s):
        if s and s not in used and len(names) < count:
            used.add(s)
            names.append(s)

    if strat == "collide-end" and n <= 400:
        for s in colliding(rng, n, n - 1 - rng.randint(0, 1), min(count, rng.randint(2, 12)), used, high=rng.random() < 0.3):
            add(s)
    elif strat == "collide-any" and n <= 400:
        for s in colliding(rng, n, rng.randrange(n), min(count, rng.randint(2, 8)), used):
            add(s)
    elif strat == "chain2" and n <= 400:
        # two adjacent clusters: the second one is pushed behind the first one's overflow
        slot = rng.randrange(n)
        for s in colliding(rng, n, slot, min(count, rng.randint(2, 5)), used):
            add(s)
        for s in colliding(rng, n, (slot + 1) % n, min(count - len(names), rng.randint(1, 4)), used):
            add(s)
    elif strat == "full":
        groups = full_collisions()
        for _ in range(rng.randint(1, 4)):
            g = rng.choice(groups)
            for s in g[:rng.randint(2, len(g))]:
                add(s)
    elif strat == "prefix":
        base = rand_name(rng, "ascii") + rand_name(rng, "ascii")
        for k in range(1, len(base) + 1):
            if rng.random() < 0.7:
                add(base[:k])
        add(base + b"x")
        add(base + base)
    elif strat == "high":
        for _ in range(count):
            add(rand_name(rng, rng.choice(("high", "mixed"))))
    while len(names) < count:
        if not must_name and (strat == "sparse" and rng.random() < 0.7 or rng.random() < 0.2):
            names.append(b"")
        else:
            s = rand_name(rng)
            if s not in used:
                used.add(s)
                names.append(s)
    rng.shuffle(names)
    return names


def gen_spec(rng, enum, tier, kind=None):
    """returns dict: mname, wname (or None), lists {enumerator: [names]}"""
    thorough = tier == "thorough"
    kind = kind or rng.choice(("all", "few", "few", "few", "one", "big", "empty"))
    counts = {}
    if kind == "all":
        for t in CREATABLE:
            counts[t] = rng.randint(1, 4)
    elif kind == "alldistinct":
        perm = list(range(1, len(CREATABLE) + 1))
        rng.shuffle(perm)
        for t, c in zip(CREATABLE, perm):
            counts[t] = min(c, 12) if t in ("mjOBJ_FLEX", "mjOBJ_SKIN") else c
    elif kind == "few":
        for t in rng.sample(CREATABLE, rng.randint(1, 6)):
            counts[t] = rng.randint(1, 9)
    elif kind == "one":
        counts[rng.choice(CREATABLE)] = rng.randint(1, 30)
    elif kind == "big":
        t = rng.choice([c for c in CREATABLE if c not in ("mjOBJ_FLEX", "mjOBJ_SKIN", "mjOBJ_PAIR", "mjOBJ_EXCLUDE", "mjOBJ_MESH")])
        counts[t] = rng.randint(300, 2500) if thorough and rng.random() < 0.3 else rng.randint(40, 250)
        for t in rng.sample(CREATABLE, 2):
            counts.setdefault(t, rng.randint(1, 3))
    # structural requirements of the harness / compiler
    if any(t in counts for t in NEED_JOINT):
        counts.setdefault("mjOBJ_JOINT", 1)
    if "mjOBJ_JOINT" in counts or "mjOBJ_FLEX" in counts or "mjOBJ_EXCLUDE" in counts:
        counts.setdefault("mjOBJ_BODY", 1)
    if "mjOBJ_PAIR" in counts:
        counts["mjOBJ_GEOM"] = max(counts.get("mjOBJ_GEOM", 0), 2)
    if "mjOBJ_JOINT" in counts:   # at most 6 dofs per body; the harness puts joint i on body i % nbody
        counts["mjOBJ_BODY"] = max(counts["mjOBJ_BODY"], (counts["mjOBJ_JOINT"] + 5) // 6)
    wname = None
    r = rng.random()
    if r < 0.25:
        wname = rand_name(rng)
    elif r < 0.3:
        wname = rng.choice(full_collisions())[0]
    world = wname if wname is not None else b"world"
    lists = {}
    for t in CREATABLE:
        c = counts.get(t, 0)
        if not c:
            continue
        extra = 1 if t == "mjOBJ_BODY" else 0
        taken = {world} if t == "mjOBJ_BODY" else set()
        lists[t] = make_names(rng, c, extra, t in MUSTNAME, taken, tier)
    # referents must be named
    def ensure_named(t, k):
        l = lists.get(t, [])
        idx = [i for i, s in enumerate(l) if not s]
        have = len(l) - len(idx)
        while have < k and idx:
            i = idx.pop()
            s = rand_name(rng, "ascii") + b"#%d" % i
            if s not in l and s != world:
                l[i] = s
                have += 1
    if any(t in lists for t in NEED_JOINT):
        ensure_named("mjOBJ_JOINT", 1)
    if "mjOBJ_FLEX" in lists:
        ensure_named("mjOBJ_BODY", 1)
    if "mjOBJ_PAIR" in lists:
        need, k = len(lists["mjOBJ_PAIR"]), 2
        while k * (k - 1) // 2 < need:
            k += 1
        while len(lists["mjOBJ_GEOM"]) < k:
            lists["mjOBJ_GEOM"].append(b"")
        ensure_named("mjOBJ_GEOM", k)
    if "mjOBJ_EXCLUDE" in lists:
        need, k = len(lists["mjOBJ_EXCLUDE"]), 1
        while k + k * (k - 1) // 2 < need:
            k += 1
        while len(lists["mjOBJ_BODY"]) < k:
            lists["mjOBJ_BODY"].append(b"")
        ensure_named("mjOBJ_BODY", k)
    mname = rng.choice((b"", b"m", rand_name(rng), rand_name(rng, "high")))
    return {"mname": mname, "wname": wname, "lists": lists, "kind": kind}


def spec_line(spec, enum):
    parts = ["model", "M=" + hx(spec["mname"])]
    if spec["wname"] is not None:
        parts.append("W=" + hx(spec["wname"]))
    for t in CREATABLE:
        if t in spec["lists"] and spec["lists"][t]:
            parts.append("T%d=%s" % (enum[t], ",".join(hx(s) for s in spec["lists"][t])))
    return " ".join(parts)


def parse_dump(out):
    """harness/driver `ok ...` line -> (nnames_map, map, names bytes, {field: (count, [adr])})"""
    w = out.split(" ")
    if not w or w[0] != "ok":
        return None
    nmap = int(w[1].split("=")[1])
    mp = [] if w[2] == "map=-" else [int(x) for x in w[2][4:].split(",")]
    names = unhx(w[3][6:])
    fields = {}
    for f in w[4:]:
        nm, cnt, adrs = f.split(":")
        fields[nm] = (int(cnt), [] if adrs == "-" else [int(a) for a in adrs.split(",")])
    return nmap, mp, names, fields


def raw_lists(names, fields):
    """names of every object list, read raw from the names buffer through the name_*adr arrays"""
    res = {}
    for nm, (cnt, adrs) in fields.items():
        l = []
        for a in adrs:
            if a < 0 or a >= len(names):
                return None
            e = names.find(b"\0", a)
            if e < 0:
                return None
            l.append(names[a:e])
        if len(l) != cnt:
            return None
        res[nm] = l
    return res


def queries_for(rng, spec, lists, enum, tier):
    """query lines for one compiled model (lists: raw-read {field: [names]})"""
    q = []
    types = sorted(set(enum.values()) | {-2, -1, 27, 28, 31, 99, 103, 1000})
    allnames = sorted({s for l in lists.values() for s in l if s})
    for t in types:
        tn = [k for k, v in enum.items() if v == t]
        field = next((OBJ_FIELD[k] for k in tn if k in OBJ_FIELD), None)
        l = lists.get(field, []) if field else []
        n = len(l)
        ids = set(range(-2, min(n, 40) + 3)) | {n - 1, n, n + 1, 2 * n, 2147483647, -2147483648}
        if n > 40:
            ids |= {rng.randrange(n) for _ in range(40)}
        for i in sorted(ids):
            if -2000000000 <= i <= 2000000000:
                q.append("i %d %d" % (t, i))
        cand = []
        named = [s for s in l if s]
        pick = named if len(named) <= 60 else rng.sample(named, 60)
        cand += pick
        cand.append(b"")
        for s in pick[:12]:
            cand += [s[:-1], s + b"\x01", s + s[-1:], s[1:], s.swapcase(), s + b" "]
        if named and n <= 200:
            # absent strings colliding with a stored name
            s0 = rng.choice(named)
            cand += colliding(rng, 2 * n, gen_hash(s0) % (2 * n), 2, set(l), maxtry=4000)
        for g in rng.sample(full_collisions(), 2):
            cand += g[:2]
        cand += rng.sample(allnames, min(len(allnames), 6)) if allnames else []
        cand += [rand_name(rng) for _ in range(2)]
        cand += [b"world", spec["mname"]]
        seen = set()
        for s in cand:
            if s not in seen and 0 not in s:
                seen.add(s)
                q.append("q %d %s" % (t, hx(s)))
    return q


def hash_lines(rng, tier):
    out = []
    ns = [1, 2, 3, 4, 5, 7, 8, 16, 31, 32, 33, 64, 100, 127, 128, 255, 256, 1000, 65535, 65536, (1 << 31) - 1, 1 << 31,
          (1 << 32) - 1, 1 << 32, (1 << 63) - 1, 1 << 63, (1 << 64) - 1, (1 << 64) - 2]
    for _ in range(1500 if tier == "thorough" else 300):
        s = rng.choice((b"", rand_name(rng), rand_name(rng, "high"), rand_name(rng, "long"), rng.choice(full_collisions())[0]))
        n = rng.choice(ns) if rng.random() < 0.7 else rng.randint(1, M64)
        out.append("h %s %d" % (hx(s), n))
    return out


class Oracle:
    """judges the implementation's outputs alone"""

    def __init__(self, ctx, enum):
        self.ctx, self.enum = ctx, enum
        self.nfail = 0
        self.checked = 0
        self.named_found = 0
        self.hung = False
        self.hist = {}

    def fail(self, key, what, replay):
        self.nfail += 1
        if self.nfail <= 12:
            self.ctx.oracle_failure(key, what, replay)

    def model(self, spec, sline, out):
        """conformance of the compiled lists with the spec; returns raw lists or None"""
        if out is None or not out.startswith("ok "):
            self.fail("c34:compile", "a valid mjSpec (distinct names per type) did not compile: %s" % (out or "<no output>")[:300],
                      {"spec_line": sline, "replay": "echo '<spec_line>' | <c34_name harness>"})
            return None
        d = parse_dump(out)
        nmap, mp, names, fields = d
        lists = raw_lists(names, fields)
        if lists is None:
            self.fail("c34:adr-out-of-range", "a name_*adr entry points outside names or at an unterminated string",
                      {"spec_line": sline, "dump": out[:2000]})
            return None
        for t in CREATABLE:
            want = list(spec["lists"].get(t, []))
            if t == "mjOBJ_BODY":
                want = [spec["wname"] if spec["wname"] is not None else b"world"] + want
            got = lists.get(OBJ_FIELD[t], [])
            if sorted(want) != sorted(got):
                self.fail("c34:names-lost:" + t, "names stored for %s differ from the names given to mjs_setName" % t,
                          {"spec_line": sline, "want": [hx(s) for s in want], "got": [hx(s) for s in got]})
        total = sum(c for c, _ in fields.values())
        if len(mp) != nmap:
            self.fail("c34:nnames_map", "names_map dump length differs from nnames_map", {"spec_line": sline})
        return lists

    def query(self, sline, lists, line, out):
        self.checked += 1
        w = line.split()
        t = int(w[1])
        tn = [k for k, v in self.enum.items() if v == t]
        field = next((OBJ_FIELD[k] for k in tn if k in OBJ_FIELD), None)
        l = lists.get(field, []) if field else []
        tname = tn[0] if tn else "type%d" % t
        if w[0] == "i":
            i = int(w[2])
            exp = hx(l[i]) if 0 <= i < len(l) and l[i] else "null"
            if out != exp:
                what = ("mj_id2name(%s, %d) = %s, expected %s (list has %d objects)" % (tname, i, out, exp, len(l)))
                self.fail("c34:id2name:" + tname, what, {"spec_line": sline, "query": line, "observed": out, "expected": exp})
        else:
            s = unhx(w[2])
            exp = l.index(s) if s and s in l else -1
            if exp >= 0:
                self.named_found += 1
            self.hist["hit" if exp >= 0 else "miss"] = self.hist.get("hit" if exp >= 0 else "miss", 0) + 1
            if out != str(exp):
                what = ("mj_name2id(%s, %s) = %s, expected %d" % (tname, w[2], out, exp))
                self.fail("c34:name2id:" + tname, what, {"spec_line": sline, "query": line, "observed": out, "expected": exp,
                                                       "replay": "printf '<spec_line>\\n<query>\\n' | <c34_name harness>"})

    def hashline(self, line, out):
        self.checked += 1
        n = int(line.split()[2])
        try:
            v = int(out)
        except ValueError:
            v = -1
        if not (0 <= v < n):
            self.fail("c34:hash-range", "mj_hashString(s, n) = %s is not below n = %d" % (out, n), {"query": line})


def load_enum(ctx):
    spec = importlib.util.spec_from_file_location("c34_tables", TRANSLATOR)
    mod = importlib.util.module_from_spec(spec)
    spec.loader.exec_module(mod)
    try:
        return mod.parse_objenum()
    except mod.Refuse as e:
        raise common.Infra("cannot read enum mjtObj: %s" % e)


def run_impl(ctx, impl, lines, oracle, what):
    """run the harness with a hang guard; returns outputs or None (failure already reported)"""
    budget = 900 if ctx.tier == "thorough" else 150
    try:
        rc, outs, err = ctx.run_lines([impl], lines, timeout=budget)
    except subprocess.TimeoutExpired:
        # find the first line on which the real code does not return (each model line is self-contained)
        hung = None
        for l in [x for x in lines if x.startswith("model ")][:400]:
            try:
                ctx.run_lines([impl], [l], timeout=10)
            except subprocess.TimeoutExpired:
                hung = l
                break
        oracle.hung = True
        oracle.fail("c34:hang", "the harness did not finish %s within %d s: mj_compile / mj_name2id does not terminate" % (what, budget),
                    {"line": (hung or lines[0])[:4000], "replay": "echo '<line>' | <c34_name harness>   (does not return)"})
        return None
    if rc != 0 or len(outs) != len(lines):
        k = min(len(outs), len(lines) - 1)
        mk = max([i for i in range(k + 1) if lines[i].startswith("model ")] or [0])
        oracle.fail("c34:crash", "harness crashed during %s (rc=%s) on `%s`: %s" % (what, rc, lines[k][:80], err[-300:]),
                    {"model_line": lines[mk][:6000], "line": lines[k][:4000], "last_output": outs[-1][:300] if outs else None,
                     "replay": "printf '<model_line>\\n<line>\\n' | <c34_name harness>"})
        return None
    return outs


def run_models(ctx, impl, drv, specs, enum, oracle, label, with_model=True):
    """stage A (compile + raw lists), then differential + oracle on model/query lines"""
    rng = ctx.rng
    slines = [spec_line(s, enum) for s in specs]
    outs = run_impl(ctx, impl, slines, oracle, "compiling valid specs")
    if outs is None:
        return
    lines, owner = [], []
    per_model = []
    for s, sl, o in zip(specs, slines, outs):
        lists = oracle.model(s, sl, o)
        if lists is None:
            continue
        _, _, names, _ = parse_dump(o)
        mn = names[:names.index(b"\0")] if b"\0" in names else names
        ordpart = "M=%s " % hx(mn) + " ".join("%s=%s" % (k, ",".join(hx(x) for x in v)) for k, v in sorted(lists.items()) if v)
        full = sl + " | " + ordpart
        qs = queries_for(rng, s, lists, enum, ctx.tier)
        per_model.append((sl, lists, len(lines), qs))
        lines.append(full)
        lines += qs
    if not lines:
        return
    outs = run_impl(ctx, impl, lines, oracle, "lookups")
    if outs is None:
        return
    for sl, lists, start, qs in per_model:
        if outs[start].split(" ", 1)[0] != "ok":
            oracle.fail("c34:compile", "spec compiled in the first pass but not in the second: " + outs[start][:200], {"spec_line": sl})
            continue
        for k, ql in enumerate(qs):
            oracle.query(sl, lists, ql, outs[start + 1 + k])
    if with_model and drv:
        ctx.differential(label, [drv], [impl], lines, keyf=lambda l: None if l.startswith("i ") and " -" in l else l[:4000])
        if per_model and len(ctx.samples) < 4:
            sl, lists, start, qs = per_model[0]
            ctx.sample({"model_line": lines[start][:300] + (" ..." if len(lines[start]) > 300 else ""),
                        "impl_and_model_output": outs[start][:300] + " ..." if len(outs) > start else None,
                        "first_queries": [(q, outs[start + 1 + k]) for k, q in enumerate(qs[:1] + qs[40:44]) if start + 1 + k < len(outs)]})


def run(ctx):
    ctx.rule = ("models built through the mjSpec C API from seeded name sets (all 23 name-bearing object types; per "
                "list: random / hash-colliding at the segment end / full 64-bit collisions / prefix chains / mostly "
                "unnamed / bytes >= 0x80 / long names), each followed by mj_id2name for ids around the range and "
                "mj_name2id for every stored name, the empty string, prefixes, extensions, colliding absent strings, "
                "names of other types, for every mjtObj value and out-of-enum types; a case is distinct by its line; "
                "non-trivial = a name2id/id2name call or a model dump")
    # T: regenerate the tables from the source of this tree, then P: build the theorems and the driver on them.
    # lean/MjProof/Gen is shared: translate/regen_all.py (run by setup and by other checks) may rewrite
    # NameOrder.lean from another tree concurrently, so the file is compared with this tree's tables after the
    # builds and the step is repeated if it was replaced meanwhile.
    gen_path = os.path.join(common.LEAN, "MjProof", "Gen", "NameOrder.lean")
    drv = None
    for attempt in range(4):
        n_obl = len(ctx.obligations)
        want = common.sh([sys.executable, TRANSLATOR, "--stdout"], timeout=300)
        r = common.sh([sys.executable, TRANSLATOR], timeout=300)
        ctx.oblige("translator c34_tables (orders of _getnumadr / CopyNames / nnames_map, loop templates)", "translator",
                   r.returncode == 0, (r.stdout + r.stderr)[-1500:])
        ctx.lean_props(THEOREMS)
        drv = ctx.driver("drv_c34")
        if r.returncode != 0 or want.returncode != 0:
            break   # refused: nothing was written for this tree
        try:
            same = open(gen_path).read() == want.stdout
        except OSError:
            same = False
        if same:
            break
        if attempt == 3:
            raise common.Infra("lean/MjProof/Gen/NameOrder.lean keeps being rewritten by another process")
        del ctx.obligations[n_obl:]
    impl = ctx.harness("harness/c/c34_name.c", "c34_name")
    enum = load_enum(ctx)
    oracle = Oracle(ctx, enum)
    thorough = ctx.tier == "thorough"
    rng = ctx.rng

    def directed(ctx_):
        """searches harder for a failing input on the implementation alone (all types populated with pairwise
        distinct counts so that any mis-ordered segment shows; many collision clusters)"""
        if not impl:
            return None
        o2 = Oracle(ctx_, enum)
        o2.fail = lambda key, what, replay: o2.__dict__.setdefault("found", {"key": key, "what": what, "replay": replay})
        for rounds in range(6):
            specs = [gen_spec(rng, enum, ctx_.tier, kind=rng.choice(("alldistinct", "all", "few", "one"))) for _ in range(40)]
            run_models(ctx_, impl, None, specs, enum, o2, "directed", with_model=False)
            if "found" in o2.__dict__:
                return o2.found
        return None

    ctx.directed_search = directed
    if impl:
        nmodels = 2500 if thorough else 70
        specs = [gen_spec(rng, enum, ctx.tier, kind="alldistinct"), gen_spec(rng, enum, ctx.tier, kind="all"),
                 gen_spec(rng, enum, ctx.tier, kind="empty")]
        specs += [gen_spec(rng, enum, ctx.tier) for _ in range(nmodels)]
        kinds = {}
        for s in specs:
            kinds[s["kind"]] = kinds.get(s["kind"], 0) + 1
        batch = 100
        for b in range(0, len(specs), batch):
            if oracle.hung:
                break
            run_models(ctx, impl, drv, specs[b:b + batch], enum, oracle,
                       "mj_compile tables + mj_name2id/mj_id2name vs Lean model [%d]" % (b // batch))
        hl = hash_lines(rng, ctx.tier) + ["h 00 5", "h 61 0", "frob", "q 1", "i 1 x", "q x 61"]
        if drv and not oracle.hung:
            ctx.differential("mj_hashString vs Lean model", [drv], [impl], hl, keyf=lambda l: l if l.startswith("h ") else None)
        rc, outs, err = ctx.run_lines([impl], hl)
        if rc == 0 and len(outs) == len(hl):
            for l, o in zip(hl, outs):
                if o != "bad-op":
                    oracle.hashline(l, o)
        ctx.extra["model_kinds"] = kinds
        ctx.extra["object_types_created"] = sorted({t for s in specs for t in s["lists"]})
        ctx.extra["objects_total"] = sum(len(l) for s in specs for l in s["lists"].values())
        ctx.extra["largest_list"] = max([len(l) for s in specs for l in s["lists"].values()] or [0])
    ctx.extra["oracle_checked"] = oracle.checked
    ctx.extra["oracle_failures"] = oracle.nfail
    ctx.extra["name2id_queries"] = oracle.hist
    if thorough:
        ctx.leanchecker(["MjProof.Props.C34"])
