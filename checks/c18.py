"""C18  Sleeping islands are frozen and wake on the documented events (DESIGN.md §5.C18)."""
import itertools
import json
import os
import struct

from gen.enums import E
from gen.models import ModelGen

META = {
    "technique": "Lean 4 proof (cycle-permutation invariant of tree_asleep preserved by every modelled sleep/wake operation; "
                 "walk termination from the invariant; filtered-list characterisation of the awake index arrays; frozen "
                 "dofs in the modelled mj_advance) + exact differential correspondence of the executable model with "
                 "mj_sleepCycle / mj_wakeIsland / mj_sleepTrees / mj_sleep / mj_wake / mj_wakeCollision / mj_updateSleepInit / "
                 "mj_Euler on real mjModel/mjData + property oracle on stepped scenes of the real engine",
    "text": "Model: tree_asleep as an int vector and the operations of engine_sleep.c exactly as coded (including their "
            "SHOULD-NOT-OCCUR error exits and the loops' own iteration bounds). Proved for any number of trees and any history "
            "of operations from the all-awake array: the non-negative entries always form a permutation of the sleeping set made "
            "of closed cycles (Cyc); mj_sleepTrees/mj_sleep/mj_wakeIsland/mj_wake/mj_wakeCollision preserve Cyc; under Cyc the "
            "walk of mj_wakeIsland returns to its start before the nwoke<ntree bound fires, never takes an error exit, and wakes "
            "exactly the whole cycle; mj_sleepCycle returns the minimum index of the cycle; the derived arrays are exactly the "
            "filtered index lists; in the modelled advance step sleeping trees keep qpos and have zero qvel (frozen_partial). "
            "Tie: every op line is run through the compiled Lean model and the real functions of the tree (all arrays over "
            "<=4 trees x all arguments, exhaustive histories, random long histories, random topologies); mjMINAWAKE and the "
            "mjtSleepState values are read from the headers.",
    "note": "Wake *triggers* (which trees mj_wake / mj_wakeCollision / mj_wakeEquality / mj_wakeTendon decide to wake, the "
            "xpos/xquat mismatch test of mj_kinematics1, the collision filters) are decision logic: mj_wake and the geom-geom "
            "part of mj_wakeCollision are modelled and tied by correspondence, equality/tendon/flex triggers and the full step "
            "are only exercised by the scene oracle (cycle well-formedness, bit-frozen qpos / zero qvel, wake on qpos / qvel / "
            "xfrc_applied / qfrc_applied / contact / equality, sleep-enabled == sleep-disabled while nobody is asleep; compound "
            "trees - free base with rigidly attached or hinged mast and pad - touched on every one of their bodies while asleep). "
            "The statement of wakeCollision_wakes_touching is also evaluated on the outputs of the real mj_wakeCollision for every "
            "wakecol line. When the tie is broken the ops that disagree select a directed search of the stepped engine (wakecol: all "
            "toucher x sleeping tree x touch site combinations of the compound scenes; other ops: more stack scenes, every wake test). "
            "frozen_partial covers the modelled mj_advance (Euler/implicit path), not RK4 (documented as unsupported with sleep) "
            "nor the forward pipeline. C ints are modelled as unbounded integers (countdown_spec: values stay in [kAwake,-1] or are "
            "tree indices). Known deviation reported by the oracle under the stable key "
            "c18:static-static-pair-dropped-by-sleep-flag: with the sleep flag set and nobody asleep, filterCollisionPair drops "
            "explicit contact pairs between two static (dof-less, non-mocap) bodies, which sleep-disabled runs keep; generated models "
            "containing such a pair are excluded from the enabled==disabled comparison so that only the directed test reports it.",
}

THEOREMS = [
    "MjProof.C18.cyc_iff_returns",
    "MjProof.C18.init_cyc",
    "MjProof.C18.sleepTrees_preserves",
    "MjProof.C18.sleepTrees_links_cycle",
    "MjProof.C18.sleep_preserves",
    "MjProof.C18.countdown_spec",
    "MjProof.C18.wakeIsland_preserves",
    "MjProof.C18.wakeIsland_wakes_whole_cycle",
    "MjProof.C18.wake_preserves",
    "MjProof.C18.wakeCollision_preserves",
    "MjProof.C18.wakeCollision_wakes_touching",
    "MjProof.C18.history_cyc",
    "MjProof.C18.sleepCycle_min",
    "MjProof.C18.derived_lists",
    "MjProof.C18.frozen_partial",
    "MjProof.C18.sleep_keeps_zero",
]

KAWAKE = -11


# ------------------------------------------------------------------------------------------ small helpers
def ints(s):
    return [int(x) for x in s.split()]


def J(a):
    return " ".join(str(x) for x in a)


def hexf(x):
    return "%016x" % struct.unpack("<Q", struct.pack("<d", x))[0]


def unhex(s):
    return struct.unpack("<d", struct.pack("<Q", int(s, 16)))[0]


def is_cyc(ta):
    """closed cycles: every non-negative entry is a valid index of a sleeping tree and the map is injective"""
    n = len(ta)
    seen = set()
    for v in ta:
        if v >= 0:
            if v >= n or ta[v] < 0 or v in seen:
                return False
            seen.add(v)
    return True


def orbit(ta, i):
    out, c = [i], ta[i]
    while c != i:
        out.append(c)
        c = ta[c]
    return out


def cycles(ta):
    """canonical set of cycles of a Cyc array"""
    done, out = set(), []
    for i, v in enumerate(ta):
        if v >= 0 and i not in done:
            o = orbit(ta, i)
            done.update(o)
            out.append(frozenset(o))
    return out


# ------------------------------------------------------------------------------------------ op-level models
KINDS_ALL = ("h", "s", "hh", "f", "b", "-", "-", "h", "s")


def op_model_desc(bodies):
    """bodies: list of (parent_index (0 = world, k = k-th body), kind) with kind in h s hh f b - m.
    One non-colliding geom per body (world: a plane), gravity off."""
    L = ["option gravity 0 0 0", "geom 1 0", "set 1 type %d" % E("mjGEOM_PLANE"), "set 1 size 5 5 0.1",
         "set 1 contype 0", "set 1 conaffinity 0"]
    for k, (par, kind) in enumerate(bodies, start=1):
        h = 10 * k
        L.append("body %d %d" % (h, 10 * par if par else 0))
        L.append("set %d pos %g %g %g" % (h, 0.3 * k, 0.1 * (k % 3), 0.2))
        if kind == "m":
            L.append("set %d mocap 1" % h)
        elif kind == "f":
            L.append("freejoint %d %d" % (h + 1, h))
        elif kind != "-":
            for jn, c in enumerate(kind):
                jh = h + 1 + jn
                L.append("joint %d %d" % (jh, h))
                L.append("set %d type %d" % (jh, E({"h": "mjJNT_HINGE", "s": "mjJNT_SLIDE", "b": "mjJNT_BALL"}[c])))
                if c != "b":
                    L.append("set %d axis %d %d %d" % (jh, jn == 0, jn == 1, 0))
        gh = h + 5
        L.append("geom %d %d" % (gh, h))
        L.append("set %d type %d" % (gh, E("mjGEOM_SPHERE")))
        L.append("set %d size %g" % (gh, 0.05 + 0.01 * k))
        L.append("set %d contype 0" % gh)
        L.append("set %d conaffinity 0" % gh)
    return "model " + " ; ".join(L)


def random_topology(rng, nb, kinds):
    bodies = []
    for k in range(1, nb + 1):
        par = 0 if (k == 1 or rng.random() < 0.45) else rng.randrange(1, k)
        kind = rng.choice(kinds)
        if par == 0 and rng.random() < 0.12:
            kind = "m"
        if par != 0 and kind == "f":
            kind = "b"          # free joints only at the top level
        bodies.append((par, kind))
    if all(k in ("-", "m") for _, k in bodies):
        bodies[0] = (0, "h")
    return bodies


def parse_model_out(o):
    """'model-ok ntree N ... | name v.. | ...' -> dict"""
    if not o.startswith("model-ok "):
        return None
    segs = o.split(" | ")
    hd = segs[0].split()
    info = {hd[i]: int(hd[i + 1]) for i in range(1, len(hd), 2)}
    for s in segs[1:]:
        w = s.split()
        info[w[0]] = w[1:] if w[0] == "dof_length" else [int(x) for x in w[1:]]
    return info


def rand_ta(rng, n, style=None):
    """random tree_asleep array: mostly well-formed cycles + awake countdowns"""
    style = style or rng.choice(("cyc", "cyc", "cyc", "awake", "junk"))
    if style == "junk":
        return [rng.choice([KAWAKE, -2, -1] + list(range(-1, n + 1))) for _ in range(n)]
    ta = [rng.choice((KAWAKE, -1, -1, -2, rng.randint(KAWAKE, -1))) for _ in range(n)]
    if style == "cyc":
        idx = list(range(n))
        rng.shuffle(idx)
        k = rng.randint(0, n)
        pool = idx[:k]
        while pool:
            sz = rng.randint(1, min(len(pool), 4))
            grp, pool = pool[:sz], pool[sz:]
            for a, b in zip(grp, grp[1:] + grp[:1]):
                ta[a] = b
    return ta


def rand_codes(rng, n, tame=0.6):
    out = []
    for _ in range(n):
        if rng.random() < tame:
            out.append([rng.choice((0, 0, 3, 4, 5)), 0, 0, rng.choice((0, 0, 1, 2))])
        else:
            out.append([rng.randint(0, 5), rng.choice((0, 0, 1, 2)), rng.choice((0, 0, 1, 2)), rng.randint(0, 4)])
    return out


def codes_str(codes):
    return " / ".join(J(c) for c in codes)


def facts_can_sleep(c, tol):
    p, x, q, v = c
    if p in (1, 2) or x != 0 or q != 0:
        return False
    return v <= 2 if tol else v == 0


def gen_ta_ops(ctx, lines, models):
    """exhaustive single ops over all arrays; histories"""
    rng, thorough = ctx.rng, ctx.tier == "thorough"
    nmax = 5 if thorough else 4
    scopes = {}
    for n in range(1, nmax + 1):
        lines.append(models[("chain", n)])
        vals = [KAWAKE, -2, -1] + list(range(n))
        arrays = list(itertools.product(vals, repeat=n))
        scopes[n] = len(arrays)
        subsets = [p for k in range(1, n + 1) for p in itertools.permutations(range(n), k)]
        for ta in arrays:
            s = J(ta)
            for i in range(-1, n + 1):
                lines.append("cycle %d | %s" % (i, s))
                for w in (KAWAKE, -1):
                    lines.append("wakeisland %d %d | %s" % (i, w, s))
            if n <= 3 or (thorough and n == 4):
                for p in subsets:
                    lines.append("hist | %s | S %s" % (s, J(p)))
            else:
                for p in rng.sample(subsets, 3):
                    lines.append("hist | %s | S %s" % (s, J(p)))
        # arrays with out-of-range entries, odd wake values
        for _ in range(300):
            ta = [rng.choice(vals + [n, n + 1, -12, 7]) for _ in range(n)]
            lines.append("cycle %d | %s" % (rng.randint(-2, n + 1), J(ta)))
            lines.append("wakeisland %d %d | %s" % (rng.randint(-2, n + 1), rng.choice((KAWAKE, -1, -5, 0, 2)), J(ta)))
    ctx.extra["exhaustive_single_ops"] = {"arrays_per_ntree": scopes,
                                          "values": "{-11,-2,-1,0..n-1}", "ops": "mj_sleepCycle(i), mj_wakeIsland(i, -11|-1) for i in -1..n; "
                                          "mj_sleepTrees over every ordered subset (n<=3%s)" % (", n=4" if thorough else "")}
    # exhaustive histories from the all-ready array
    n = 3
    lines.append(models[("chain", n)])
    alpha = ["S " + J(p) for k in range(1, n + 1) for p in itertools.permutations(range(n), k)]
    alpha += ["W %d %d" % (i, w) for i in range(n) for w in (KAWAKE, -1)]
    L = 4 if thorough else 3
    for seq in itertools.product(alpha, repeat=L):
        lines.append("hist | -1 -1 -1 | " + " ; ".join(seq))
    ctx.extra["exhaustive_histories"] = "all %d^%d op sequences over %d trees from the all-ready array (alphabet: mj_sleepTrees over " \
                                        "every ordered subset, mj_wakeIsland(i,-11|-1))" % (len(alpha), L, n)
    if thorough:
        n = 4
        lines.append(models[("chain", n)])
        alpha4 = ["S " + J(p) for k in range(1, n + 1) for p in itertools.combinations(range(n), k)]
        alpha4 += ["S " + J(p[::-1]) for k in range(2, n + 1) for p in itertools.combinations(range(n), k)]
        alpha4 += ["W %d %d" % (i, w) for i in range(n) for w in (KAWAKE, -1)]
        for seq in itertools.product(alpha4, repeat=3):
            lines.append("hist | -1 -1 -1 -1 | " + " ; ".join(seq))
    # random long histories
    hist_len = {}
    for _ in range(2500 if thorough else 350):
        n = rng.randint(1, 8)
        lines.append(models[("chain", n)])
        ta = rand_ta(rng, n, rng.choice(("cyc", "awake", "awake")))
        cur = list(ta)
        ops = []
        for _ in range(rng.randint(5, 120)):
            r = rng.random()
            if r < 0.45:
                ready = [t for t in range(n) if cur[t] == -1]
                if ready and rng.random() < 0.9:
                    k = rng.randint(1, len(ready))
                    p = rng.sample(ready, k)
                else:
                    p = [rng.randrange(n) for _ in range(rng.randint(1, 3))]
                ops.append("S " + J(p))
                # track the state only approximately (generator guidance, not an oracle)
                if all(cur[t] == -1 for t in p) and len(set(p)) == len(p):
                    for a, b in zip(p, p[1:] + p[:1]):
                        cur[a] = b
            elif r < 0.9:
                i = rng.randrange(n) if rng.random() < 0.95 else rng.choice((-1, n))
                w = rng.choice((-1, -1, KAWAKE, -3))
                ops.append("W %d %d" % (i, w))
                if 0 <= i < n and is_cyc(cur):
                    if cur[i] >= 0:
                        for t in orbit(cur, i):
                            cur[t] = w
                    else:
                        cur[i] = min(cur[i], w)
            else:
                ops.append("C %d" % rng.randint(-1, n))
        lines.append("hist | %s | %s" % (J(ta), " ; ".join(ops)))
        b = "<=20" if len(ops) <= 20 else "<=60" if len(ops) <= 60 else ">60"
        hist_len[b] = hist_len.get(b, 0) + 1
    ctx.extra["random_history_lengths"] = hist_len


def gen_rich_ops(ctx, lines, models, infos):
    rng, thorough = ctx.rng, ctx.tier == "thorough"
    keys = [k for k in models if k[0] == "rich"]
    akeys = [k for k in models if k[0] == "adv"]
    reps = 6 if thorough else 1
    hist = {}

    def bump(k):
        hist[k] = hist.get(k, 0) + 1

    for key in keys * reps:
        info = infos[key]
        n, nb, nv = info["ntree"], info["nbody"], info["nv"]
        lines.append(models[key])
        dofs = "%d | %s | %s" % (nv, J(info["tree_dofadr"]), J(info["tree_dofnum"]))
        topo = " | ".join(J(info[k]) for k in ("body_treeid", "body_parentid", "body_rootid", "body_mocapid", "dof_bodyid"))
        for _ in range(8):
            ta = rand_ta(rng, n)
            ready = [t for t in range(n) if ta[t] == -1]
            p = rng.sample(ready, rng.randint(1, len(ready))) if ready and rng.random() < 0.7 else [rng.randrange(n) for _ in range(rng.randint(1, 3))]
            lines.append("sleeptrees %s | %s | %s" % (J(p), J(ta), dofs))
            bump("sleeptrees")
        for _ in range(30):
            # mj_sleep: islands partition a subset of the (mostly awake) trees, rest = the others
            ta = rand_ta(rng, n, rng.choice(("cyc", "cyc", "awake", "junk")))
            codes = rand_codes(rng, n)
            tol = rng.choice((1, 1, 1, 0))
            if rng.random() < 0.5:
                # make most awake trees ready so that islands really go to sleep
                for t in range(n):
                    if ta[t] < 0 and rng.random() < 0.8:
                        ta[t] = rng.choice((-1, -1, -2))
            awake = [t for t in range(n) if ta[t] < 0]
            pool = awake if rng.random() < 0.9 else list(range(n))
            rng.shuffle(pool)
            k = rng.randint(0, len(pool))
            inisl, islands = pool[:k], []
            while inisl:
                sz = rng.randint(1, min(4, len(inisl)))
                islands.append(inisl[:sz])
                inisl = inisl[sz:]
            used = {t for g in islands for t in g}
            rest = [t for t in range(n) if t not in used]
            rng.shuffle(rest)
            nefc = rng.choice((0, 0, 5))
            lines.append("sleep %d %d %d | %s | %s | %s | %s | %s" % (rng.random() < 0.93, nefc, tol, J(ta), codes_str(codes),
                                                                  " / ".join(J(g) for g in islands), J(rest), dofs))
            bump("sleep")
        for _ in range(20):
            ta = rand_ta(rng, n, rng.choice(("cyc", "cyc", "cyc", "junk")))
            stale = [int(rng.random() < 0.15) for _ in range(n)]
            codes = rand_codes(rng, n, tame=0.8)
            en = int(rng.random() < 0.9)
            nta = sum(1 for v in ta if v < 0) if rng.random() < 0.8 else rng.randint(0, n)
            lines.append("wake %d %d | %s | %s | %s" % (en, nta, J(ta), J(stale), codes_str(codes)))
            bump("wake")
        for _ in range(20):
            ta = rand_ta(rng, n, rng.choice(("cyc", "cyc", "cyc", "junk")))
            stale = [int(v < 0) for v in ta]
            if rng.random() < 0.1:
                stale = [int(rng.random() < 0.5) for _ in range(n)]
            ba = []
            for b in range(nb):
                t = info["body_treeid"][b]
                if t >= 0:
                    ba.append(1 if ta[t] < 0 else 0)
                else:
                    ba.append(1 if info["body_mocapid"][info["body_rootid"][b]] >= 0 else -1)
            cons = []
            for _ in range(rng.randint(0, 6)):
                b1, b2 = rng.randrange(nb), rng.randrange(nb)
                t1, t2 = info["body_treeid"][b1], info["body_treeid"][b2]
                # mostly the contacts the collision filter lets through (not both asleep)
                if t1 >= 0 and t2 >= 0 and not stale[t1] and not stale[t2] and rng.random() < 0.9:
                    continue
                cons.append((b1, b2))
            if rng.random() < 0.5:
                # the only touch of a sleeping tree is on one (sometimes two) of its bodies - root, jointed or jointless
                # descendant - by a body of an awake tree; no other contact of the line involves that tree
                asl = [t for t in range(n) if not stale[t]]
                awk = [b for b in range(nb) if info["body_treeid"][b] >= 0 and stale[info["body_treeid"][b]]]
                if asl and awk:
                    t = rng.choice(asl)
                    cons = [c for c in cons if t not in (info["body_treeid"][c[0]], info["body_treeid"][c[1]])]
                    own = [b for b in range(nb) if info["body_treeid"][b] == t]
                    # stratified by the kind of body: tree root / descendant with joints / descendant without joints
                    strata = {}
                    for b in own:
                        strata.setdefault((b == info["tree_bodyadr"][t], info["body_jntnum"][b] > 0), []).append(b)
                    own = strata[rng.choice(sorted(strata))] if rng.random() < 0.8 else own
                    for b in rng.sample(own, min(len(own), rng.choice((1, 1, 2)))):
                        pair = (b, rng.choice(awk))
                        cons.insert(rng.randint(0, len(cons)), pair if rng.random() < 0.5 else pair[::-1])
            lines.append("wakecol %d | %s | %s | %s | %s | %s" % (rng.random() < 0.93, J(ta), J(stale), " / ".join("%d %d" % c for c in cons),
                                                               J(info["body_treeid"]), J(ba)))
            bump("wakecol")
        for _ in range(20):
            ta = rand_ta(rng, n, rng.choice(("cyc", "cyc", "awake", "junk")))
            old = [rng.choice((-1, 0, 1)) for _ in range(nb)]
            lines.append("update %d | %s | %s | %s" % (rng.random() < 0.3, J(ta), J(old), topo))
            bump("update")
    for key in akeys * reps:
        info = infos[key]
        n, nb, nv, nj = info["ntree"], info["nbody"], info["nv"], info["njnt"]
        lines.append(models[key])
        topo = " | ".join(J(info[k]) for k in ("body_treeid", "body_parentid", "body_rootid", "body_mocapid", "dof_bodyid"))
        tail = " | ".join([J(info["tree_dofadr"]), J(info["tree_dofnum"]), " ".join(info["dof_length"]), J(info["body_jntadr"]),
                           J(info["body_jntnum"]), J(info["jnt_dofadr"])])
        for _ in range(25):
            ta = rand_ta(rng, n, rng.choice(("cyc", "cyc", "awake")))
            for t in range(n):
                if ta[t] < 0 and rng.random() < 0.5:
                    ta[t] = rng.choice((-1, -2))
            tol = rng.choice((1e-3, 1e-3, 0.0, 1e-2))
            dt = rng.choice((0.002, 0.01, 0.001))
            qpos = [rng.uniform(-1, 1) for _ in range(nj)]
            qvel, qacc = [], []
            slow = [rng.random() < 0.6 for _ in range(n)]
            for i in range(nv):
                t = info["dof_treeid"][i]
                asleep = ta[t] >= 0
                if asleep and rng.random() < 0.9:
                    qvel.append(0.0)
                elif slow[t]:
                    qvel.append(rng.choice((0.0, 0.0, -0.0, rng.uniform(-1, 1) * 1e-4, rng.uniform(-1, 1) * tol)))
                else:
                    qvel.append(rng.uniform(-2, 2))
                qacc.append(rng.uniform(-5, 5))
            codes = [[rng.choice((0, 0, 0, 3, 1, 2)), rng.choice((0, 0, 0, 1)), rng.choice((0, 0, 0, 2))] for _ in range(n)]
            lines.append("advance %d | %s %s | %s | %s | %s | %s | %s | %s | %s" % (
                rng.random() < 0.92, hexf(tol), hexf(dt), J(ta), " ".join(map(hexf, qpos)), " ".join(map(hexf, qvel)),
                " ".join(map(hexf, qacc)), " / ".join(J(c) for c in codes), topo, tail))
            bump("advance")
    ctx.extra["random_op_lines"] = hist


# ------------------------------------------------------------------------------------------ op-level oracle (implementation outputs only)
def spec_update(flg, ta, info):
    """the documented meaning of the derived arrays, from tree_asleep and the model topology"""
    nb = info["nbody"]
    tawake = [int(v < 0) for v in ta]
    ba = []
    for b in range(nb):
        t = info["body_treeid"][b]
        if t >= 0:
            ba.append(1 if tawake[t] else 0)
        elif info["body_mocapid"][info["body_rootid"][b]] >= 0 or flg:
            ba.append(1)
        else:
            ba.append(-1)
    bind = [b for b in range(nb) if ba[b] != 0]
    pind = [b for b in range(1, nb) if ba[info["body_parentid"][b]] != 0]
    dind = [i for i in range(info["nv"]) if info["body_treeid"][info["dof_bodyid"][i]] >= 0 and ba[info["dof_bodyid"][i]] == 1]
    return tawake, sum(tawake), ba, bind, pind, dind


def op_oracle(ctx, lines, outs, infos_by_line, model_by_line):
    nfail, checked = 0, 0
    cur_model = [None]
    wc = {"calls": 0, "awake-asleep contacts": 0, "... sleeping side is a jointless body of its tree": 0}
    ctx.extra["op_oracle_wakecol"] = wc

    def fail(key, what, line, out):
        nonlocal nfail
        nfail += 1
        if nfail <= 8:
            ctx.oracle_failure(key, what, {"model_line": (cur_model[0] or "")[:6000], "line": line[:1500], "impl_output": out[:1500],
                                           "replay": "feed model_line, then line, to the harness built from harness/c/c18_sleep.c "
                                                     "(python3 -c \"import sys;sys.path.insert(0,'/verif/harness');import build;"
                                                     "print(build.build_harness('/verif/harness/c/c18_sleep.c','c18_sleep',deps=['/verif/harness/mjbuild.h']))\")"})

    for l, o, info, ml in zip(lines, outs, infos_by_line, model_by_line):
        cur_model[0] = ml
        w = l.split(" ", 1)[0]
        if o == "bad-op" or o.startswith("model"):
            continue
        if w == "cycle":
            a, ta = l.split(" | ")
            i, ta = int(a.split()[1]), ints(ta)
            if is_cyc(ta) and 0 <= i < len(ta) and ta[i] >= 0:
                checked += 1
                if int(o) != min(orbit(ta, i)):
                    fail("c18:sleepCycle-min", "mj_sleepCycle did not return the smallest index of the cycle", l, o)
        elif w == "wakeisland":
            a, ta = l.split(" | ")
            i, wv = ints(a.split(" ", 1)[1])
            ta = ints(ta)
            if is_cyc(ta) and 0 <= i < len(ta) and ta[i] >= 0 and wv < 0:
                checked += 1
                orb = orbit(ta, i)
                exp = [wv if t in orb else v for t, v in enumerate(ta)]
                if o != "ok %d | %s" % (len(orb), J(exp)):
                    fail("c18:wakeIsland-whole-cycle", "mj_wakeIsland did not wake exactly the whole cycle of the tree", l, o)
        elif w == "hist":
            _, ta, ops = l.split(" | ")
            cur = ints(ta)
            if not is_cyc(cur):
                continue
            res = o.split(" ; ")
            for op, r in zip(ops.split(" ; "), res):
                t = op.split()
                if t[0] == "C":
                    continue
                got = ints(r.split(" ", 2 if t[0] == "W" and r.startswith("ok") else (2 if r.startswith("err") else 1))[-1])
                if r.startswith("err"):
                    # an error exit on a well-formed array is only legitimate for an invalid request
                    if t[0] == "S":
                        p = [int(x) for x in t[1:]]
                        if all(cur[x] == -1 for x in p) and len(set(p)) == len(p):
                            fail("c18:sleepTrees-error", "mj_sleepTrees raised an error on distinct ready trees", l, o)
                    else:
                        i = int(t[1])
                        if 0 <= i < len(cur):
                            fail("c18:wakeIsland-error", "mj_wakeIsland raised an error on a well-formed array", l, o)
                    break
                checked += 1
                if t[0] == "S":
                    p = [int(x) for x in t[1:]]
                    exp = list(cur)
                    for a, b in zip(p, p[1:] + p[:1]):
                        exp[a] = b
                    if got != exp:
                        fail("c18:sleepTrees-cycle", "mj_sleepTrees did not link the trees into one closed cycle", l, o)
                        break
                else:
                    i, wv = int(t[1]), int(t[2])
                    if wv < 0 and 0 <= i < len(cur):
                        if cur[i] >= 0:
                            orb = orbit(cur, i)
                            exp = [wv if x in orb else v for x, v in enumerate(cur)]
                        else:
                            exp = list(cur)
                            exp[i] = min(cur[i], wv)
                        if got != exp:
                            fail("c18:wakeIsland-whole-cycle", "mj_wakeIsland did not wake exactly the whole cycle of the tree", l, o)
                            break
                cur = got
                if not is_cyc(cur):
                    fail("c18:cyc-broken", "tree_asleep no longer encodes closed cycles after a valid operation", l, o)
                    break
        elif w == "wakecol":
            # wake on touch (the statement of wakeCollision_wakes_touching, on the outputs of the real function): sleep enabled,
            # well-formed array, tree_awake only reports awake trees as awake, completed call -> every geom-geom contact
            # between two trees of which tree_awake reported at least one awake leaves both trees awake
            segs = l.split(" | ")
            en, ta, stale = int(segs[0].split()[1]), ints(segs[1]), ints(segs[2])
            if not en or not is_cyc(ta) or not o.startswith("ok") or len(stale) != len(ta) or any(s and v >= 0 for s, v in zip(stale, ta)):
                continue
            nta = ints(o.split(" | ")[1])
            btree = info["body_treeid"]
            checked += 1
            wc["calls"] += 1
            for c in segs[3].split(" / ") if segs[3].strip() else []:
                b1, b2 = ints(c)
                t1, t2 = btree[b1], btree[b2]
                if t1 >= 0 and t2 >= 0 and stale[t1] != stale[t2]:
                    wc["awake-asleep contacts"] += 1
                    if info["body_jntnum"][b1 if not stale[t1] else b2] == 0:
                        wc["... sleeping side is a jointless body of its tree"] += 1
                if t1 >= 0 and t2 >= 0 and (stale[t1] or stale[t2]) and (nta[t1] >= 0 or nta[t2] >= 0):
                    fail("c18:wakeCollision-missed-touching", "mj_wakeCollision left a tree asleep that is in contact (bodies %d, %d: trees %d, %d) "
                         "with a tree reported awake" % (b1, b2, t1, t2), l, o)
                    break
        elif w == "update":
            segs = l.split(" | ")
            flg, ta = int(segs[0].split()[1]), ints(segs[1])
            checked += 1
            exp = spec_update(flg, ta, info)
            got = [ints(x) for x in o.split(" | ")]
            if len(got) != 6 or got[0] != exp[0] or got[1] != [exp[1]] or got[2] != exp[2] or got[3] != exp[3] or got[4] != exp[4] or got[5] != exp[5]:
                fail("c18:derived-arrays", "mj_updateSleepInit: derived arrays are not the filtered index lists", l, o)
        elif w == "sleep":
            segs = l.split(" | ")
            ta = ints(segs[1])
            if not is_cyc(ta) or not o.startswith("ok"):
                continue
            checked += 1
            so = o.split(" | ")
            nta, qv = ints(so[1]), ints(so[2])
            if not is_cyc(nta):
                fail("c18:cyc-broken", "tree_asleep no longer encodes closed cycles after mj_sleep", l, o)
            adr, num = info["tree_dofadr"], info["tree_dofnum"]
            for t in range(len(nta)):
                if nta[t] >= 0 and ta[t] < 0 and any(qv[adr[t]:adr[t] + num[t]]):
                    fail("c18:qvel-not-zeroed", "mj_sleep put a tree to sleep without zeroing its qvel", l, o)
                    break
        elif w == "advance":
            segs = l.split(" | ")
            en, ta = int(segs[0].split()[1]), ints(segs[2])
            if not en or not is_cyc(ta) or not o.startswith("ok"):
                continue
            so = o.split(" | ")
            nta, qp, qv = ints(so[1]), so[2].split(), so[3].split()
            qp0, qv0 = segs[3].split(), segs[4].split()
            checked += 1
            for t in range(len(nta)):
                if nta[t] < 0:
                    continue
                dofs = [i for i in range(info["nv"]) if info["dof_treeid"][i] == t]
                was_asleep = ta[t] >= 0
                # frozen: qpos of the tree bit-identical; qvel zero (if it was zero / newly slept)
                if any(qp[i] != qp0[i] for i in dofs):
                    fail("c18:frozen-qpos", "mj_Euler moved qpos of a sleeping tree", l, o)
                    break
                if any(int(qv[i], 16) != 0 for i in dofs if (not was_asleep) or int(qv0[i], 16) == 0):
                    fail("c18:frozen-qvel", "sleeping tree has non-zero qvel after mj_Euler", l, o)
                    break
    ctx.extra["op_oracle_checked"] = checked
    ctx.extra["op_oracle_failures"] = nfail


# ------------------------------------------------------------------------------------------ engine scenes
SLEEP = None


def scene_desc(rng, kind=None):
    """Free bodies on a plane (some stacked -> multi-tree islands), optionally a damped pendulum, a mocap body, an
    equality between two free bodies.  Returns (description lines, meta)."""
    global SLEEP
    SLEEP = E("mjENBL_SLEEP")
    L = ["option timestep %r" % rng.choice((0.002, 0.004, 0.005)),
         "option integrator %d" % E(rng.choice(("mjINT_EULER", "mjINT_EULER", "mjINT_IMPLICIT", "mjINT_IMPLICITFAST"))),
         "option solver %d" % E(rng.choice(("mjSOL_NEWTON", "mjSOL_NEWTON", "mjSOL_CG", "mjSOL_PGS"))),
         "option cone %d" % E(rng.choice(("mjCONE_PYRAMIDAL", "mjCONE_ELLIPTIC"))),
         "option enableflags %d" % SLEEP,
         "geom 1 0", "set 1 type %d" % E("mjGEOM_PLANE"), "set 1 size 10 10 0.1", "name 1 floor"]
    if rng.random() < 0.2:
        L.append("option disableflags %d" % E("mjDSBL_ISLAND"))
    meta = {"bodies": []}
    h, x = 10, -2.0
    nstack = rng.randint(2, 5)
    for s in range(nstack):
        height = rng.choice((1, 1, 2, 3))
        z = 0.0
        for lvl in range(height):
            half = 0.1 - 0.01 * lvl
            z += half
            L += ["body %d 0" % h, "name %d b%d" % (h, h), "set %d pos %r 0 %r" % (h, x, z), "freejoint %d %d" % (h + 1, h),
                  "geom %d %d" % (h + 2, h), "set %d type %d" % (h + 2, E("mjGEOM_BOX")), "set %d size %r %r %r" % (h + 2, half, half, half)]
            if rng.random() < 0.3:
                L.append("set %d condim %d" % (h + 2, rng.choice((1, 4, 6))))
            meta["bodies"].append({"name": "b%d" % h, "stack": s, "level": lvl, "x": x, "z": z, "half": half})
            z += half
            h += 10
        x += 1.0
    bottoms = [b["name"] for b in meta["bodies"] if b["level"] == 0]
    if len(bottoms) >= 2 and rng.random() < 0.6:
        # a connect equality between two stacks, inactive while they fall asleep (activated by the "equality" wake test)
        L += ["equality %d" % h, "set %d type %d" % (h, E("mjEQ_CONNECT")), "set %d objtype %d" % (h, E("mjOBJ_BODY")),
              "set %d name1 %s" % (h, bottoms[0]), "set %d name2 %s" % (h, bottoms[1]), "set %d data 0.5 0 0" % h, "set %d active 0" % h]
        meta["equality"] = (bottoms[0], bottoms[1])
        h += 10
    if rng.random() < 0.5:
        # damped pendulum on its own tree
        L += ["body %d 0" % h, "set %d pos %r 2 1" % (h, x), "joint %d %d" % (h + 1, h), "set %d type %d" % (h + 1, E("mjJNT_HINGE")),
              "set %d axis 0 1 0" % (h + 1), "set %d damping 0.5" % (h + 1),
              "geom %d %d" % (h + 2, h), "set %d type %d" % (h + 2, E("mjGEOM_CAPSULE")), "set %d fromto 0 0 0 0 0 -0.3" % (h + 2),
              "set %d size 0.03" % (h + 2)]
        meta["pendulum"] = True
        h += 10
    if rng.random() < 0.3:
        L += ["body %d 0" % h, "set %d pos 0 3 0.5" % h, "set %d mocap 1" % h, "geom %d %d" % (h + 2, h),
              "set %d type %d" % (h + 2, E("mjGEOM_SPHERE")), "set %d size 0.1" % (h + 2)]
        meta["mocap"] = True
        h += 10
    return L, meta


def run_impl(ctx, impl, lines):
    rc, outs, err = ctx.run_lines([impl], lines)
    return rc, outs, err


def parse_rec(rec):
    f = rec.split(" / ")
    c = ints(f[4])
    cons = []
    for t in f[7].split()[1:]:
        a, b, ex = t.split(":")
        cons.append((int(a), int(b), int(ex)))
    return {"ta": ints(f[0]), "qpos": f[1].split(), "qvel": f[2].split(), "hash": f[3], "ncon": c[0], "ntree_awake": c[1],
            "nbody_awake": c[2], "nv_awake": c[3], "tree_awake": ints(f[5]), "body_awake": ints(f[6]), "cons": cons}


def tree_slices(info):
    """qpos / dof index sets of every tree"""
    n = info["ntree"]
    qidx = [[] for _ in range(n)]
    for j in range(info["njnt"]):
        t = info["body_treeid"][info["jnt_bodyid"][j]]
        w = {E("mjJNT_FREE"): 7, E("mjJNT_BALL"): 4}.get(info["jnt_type"][j], 1)
        qidx[t] += list(range(info["jnt_qposadr"][j], info["jnt_qposadr"][j] + w))
    vidx = [[i for i in range(info["nv"]) if info["dof_treeid"][i] == t] for t in range(n)]
    return qidx, vidx


def check_records(ctx, info, recs, perturbed_at, replay, stats):
    """generic invariants over the records of one run.  perturbed_at: record indices before which the user wrote state."""
    qidx, vidx = tree_slices(info)
    n = info["ntree"]
    prev = None
    for k, r in enumerate(recs):
        ta = r["ta"]
        stats["steps"] += 1
        if not is_cyc(ta):
            ctx.oracle_failure("c18:cyc-broken", "d->tree_asleep does not encode closed cycles after mj_step", dict(replay, step=k, tree_asleep=ta))
            return False
        if r["tree_awake"] != [int(v < 0) for v in ta] or r["ntree_awake"] != sum(v < 0 for v in ta):
            ctx.oracle_failure("c18:derived-arrays", "tree_awake / ntree_awake disagree with tree_asleep after mj_step", dict(replay, step=k, tree_asleep=ta, tree_awake=r["tree_awake"]))
            return False
        for t in range(n):
            if ta[t] >= 0:
                stats["asleep_tree_steps"] += 1
                if any(int(r["qvel"][i], 16) != 0 for i in vidx[t]):
                    ctx.oracle_failure("c18:frozen-qvel", "sleeping tree has non-zero qvel", dict(replay, step=k, tree=t))
                    return False
                if prev is not None and prev["ta"][t] >= 0 and k not in perturbed_at:
                    if any(r["qpos"][i] != prev["qpos"][i] for i in qidx[t]):
                        ctx.oracle_failure("c18:frozen-qpos", "qpos of a sleeping tree changed across a step", dict(replay, step=k, tree=t))
                        return False
        for a, b, ex in r["cons"]:
            if ex == 0 and a >= 0 and b >= 0 and a != b and (ta[a] >= 0) != (ta[b] >= 0):
                ctx.oracle_failure("c18:touching-awake-asleep", "an awake tree touches a sleeping tree after the step", dict(replay, step=k, trees=[a, b], tree_asleep=ta))
                return False
        prev = r
    return True


def scene_scripts(ctx, impl, nscenes, all_tests=False, stats_key="scene_stats"):
    rng = ctx.rng
    stats = {"scenes": 0, "steps": 0, "asleep_tree_steps": 0, "wake_tests": {}, "equal_hash_steps": 0, "scenes_with_sleep": 0,
             "multi_tree_cycles": 0}
    for sc in range(nscenes):
        L, meta = scene_desc(rng)
        model_line = "model " + " ; ".join(L)
        settle = rng.choice((150, 250, 400))
        # ---- run 1: settle with sleep enabled; run 2: same with sleep disabled (hash comparison while nobody is asleep)
        # each run in its own process (fresh heap: no stale arena / malloc content can leak between the runs)
        lines = [model_line, "sstep %d" % settle]
        lines_off = [model_line, "sflag 0", "sreset", "sstep %d" % settle]
        rc, outs, err = run_impl(ctx, impl, lines)
        rc2, outs2, err2 = run_impl(ctx, impl, lines_off)
        rc3, outs3, err3 = run_impl(ctx, impl, lines)
        replay = {"scene_lines": lines[:1], "settle": settle, "how": "feed scene_lines + the listed commands to the c18_sleep harness"}
        if (rc or rc2 or rc3) or len(outs) != 2 or len(outs2) != 4 or len(outs3) != 2 or not outs[0].startswith("model-ok") or \
                any(o.startswith("error") for o in outs + outs2 + outs3):
            ctx.oracle_failure("c18:scene-error", "engine error / crash while stepping a sleep scene",
                               dict(replay, rc=[rc, rc2, rc3], outs=[o[:300] for o in (outs + outs2)[:8]], stderr=(err + err2)[-300:]))
            continue
        info = parse_model_out(outs[0])
        stats["scenes"] += 1
        recs_on = [parse_rec(x) for x in outs[1][3:].split(" ; ")]
        recs_off = [parse_rec(x) for x in outs2[3][3:].split(" ; ")]
        recs_on2 = [parse_rec(x) for x in outs3[1][3:].split(" ; ")]
        if not check_records(ctx, info, recs_on, set(), dict(replay, commands=lines[1:2]), stats):
            continue
        # determinism of the harness itself (guards the comparison below against false alarms)
        if [r["hash"] for r in recs_on] != [r["hash"] for r in recs_on2]:
            ctx.oblige("scene replay is deterministic", "correspondence", False, json.dumps(replay)[:500])
            continue
        for k, (a, b) in enumerate(zip(recs_on, recs_off)):
            if any(v >= 0 for v in a["ta"]):
                break
            stats["equal_hash_steps"] += 1
            if a["hash"] != b["hash"] or a["qpos"] != b["qpos"] or a["qvel"] != b["qvel"]:
                ctx.oracle_failure("c18:enabled-differs-while-awake", "sleep enabled but no tree asleep: outputs differ from sleep disabled",
                                   dict(replay, step=k, commands_enabled=lines[1:], commands_disabled=lines_off[1:]))
                break
        final = recs_on[-1]["ta"]
        if any(v >= 0 for v in final):
            stats["scenes_with_sleep"] += 1
        cyc = cycles(final) if is_cyc(final) else []
        stats["multi_tree_cycles"] += sum(1 for c in cyc if len(c) > 1)
        if not cyc:
            continue
        # ---- wake tests on the settled state (each from a fresh settle run; one perturbation, one step)
        qidx, vidx = tree_slices(info)
        tests = ["qpos", "qvel", "xfrc", "qfrc", "contact", "negzero", "none"]
        rng.shuffle(tests)
        tests = tests[:4 if ctx.tier == "quick" and not all_tests else 7]
        if "equality" in meta:
            tests.append("equality")
        for kind in tests:
            isl = sorted(rng.choice(cyc))
            t = rng.choice(isl)
            if kind == "equality":
                # trees of the two connected bodies (bodies are numbered in declaration order: stack bodies first)
                names = [b["name"] for b in meta["bodies"]]
                ta_, tb_ = (info["body_treeid"][1 + names.index(nm)] for nm in meta["equality"])
                if final[ta_] < 0 or final[tb_] < 0 or ta_ in orbit(final, tb_):
                    continue
                isl = sorted(set(orbit(final, ta_)) | set(orbit(final, tb_)))
                t = ta_
            body = info["tree_bodyadr"][t]
            cmds = []
            if kind == "qpos":
                # lift the root body (free joint: qpos[0..2] is the position)
                q0 = info["jnt_qposadr"][info["body_jntadr"][body]]
                z = unhex(recs_on[-1]["qpos"][q0 + 2]) if info["jnt_type"][info["body_jntadr"][body]] == E("mjJNT_FREE") else None
                if z is None:
                    cmds.append("sset qpos %d %r" % (q0, unhex(recs_on[-1]["qpos"][q0]) + 0.3))
                else:
                    cmds.append("sset qpos %d %r" % (q0 + 2, z + 0.05))
            elif kind == "qvel":
                cmds.append("sset qvel %d %r" % (rng.choice(vidx[t]), rng.choice((0.5, -1.0, 1e-9))))
            elif kind == "negzero":
                cmds.append("sset %s %d -0.0" % (rng.choice(("qvel", "qfrc_applied")), rng.choice(vidx[t])))
            elif kind == "xfrc":
                cmds.append("sset xfrc_applied %d %r" % (6 * body + rng.randrange(6), rng.choice((1.0, -0.3, 1e-12))))
            elif kind == "qfrc":
                cmds.append("sset qfrc_applied %d %r" % (rng.choice(vidx[t]), rng.choice((1.0, -0.3, 1e-12))))
            elif kind == "equality":
                cmds.append("sseti eq_active 0 1")
            elif kind == "contact":
                # drop a moving awake body onto the top of the island's stack: pick an awake free body or wake one from another island
                isfree = lambda u: info["jnt_type"][info["body_jntadr"][info["tree_bodyadr"][u]]] == E("mjJNT_FREE")
                others = [u for u in range(info["ntree"]) if u not in isl and isfree(u)]
                if not others or not all(isfree(u) for u in isl):
                    continue
                u = rng.choice(others)
                bu = info["tree_bodyadr"][u]
                qu = info["jnt_qposadr"][info["body_jntadr"][bu]]
                vu = info["jnt_dofadr"][info["body_jntadr"][bu]]
                # target: highest body of the island
                top = max(isl, key=lambda tt: unhex(recs_on[-1]["qpos"][info["jnt_qposadr"][info["body_jntadr"][info["tree_bodyadr"][tt]]] + 2]))
                bt = info["tree_bodyadr"][top]
                qt = info["jnt_qposadr"][info["body_jntadr"][bt]]
                tx, ty, tz = (unhex(recs_on[-1]["qpos"][qt + i]) for i in range(3))
                cmds.append("sset qpos %d %r %r %r 1 0 0 0" % (qu, tx, ty, tz + 0.19))
                cmds.append("sset qvel %d 0 0 -0.5 0 0 0" % vu)
            lines2 = [model_line, "sstep %d" % settle] + cmds + ["sstep 1", "sstep 3"]
            rc, o2, err = run_impl(ctx, impl, lines2)
            rp = {"scene_lines": [model_line], "commands": lines2[1:], "island": isl, "perturbed_tree": t, "kind": kind}
            if rc != 0 or len(o2) != len(lines2) or any(x.startswith("error") or x == "bad-op" for x in o2):
                ctx.oracle_failure("c18:scene-error", "engine error / crash in a wake test", dict(rp, outs=[x[:300] for x in o2[-3:]], stderr=err[-300:]))
                continue
            before = parse_rec(o2[1][3:].split(" ; ")[-1])
            if before["ta"] != final:
                ctx.oblige("scene replay is deterministic", "correspondence", False, json.dumps(rp)[:500])
                continue
            after = parse_rec(o2[-2][3:])
            later = [parse_rec(x) for x in o2[-1][3:].split(" ; ")]
            stats["wake_tests"][kind] = stats["wake_tests"].get(kind, 0) + 1
            check_records(ctx, info, [before, after] + later, {1}, rp, stats)
            if kind == "none":
                if after["ta"] != before["ta"]:
                    ctx.oracle_failure("c18:spurious-wake", "a sleeping island changed without any perturbation", dict(rp, before=before["ta"], after=after["ta"]))
                continue
            awake_now = [u for u in isl if after["ta"][u] < 0]
            if kind == "contact" and not any((a in isl) != (b in isl) for a, b, ex in after["cons"] if ex == 0 and a >= 0 and b >= 0):
                stats["wake_tests"]["contact(no touch yet)"] = stats["wake_tests"].get("contact(no touch yet)", 0) + 1
                continue
            if len(awake_now) != len(isl):
                ctx.oracle_failure("c18:missed-wake:" + (kind if kind in ("contact", "equality") else "user-" + kind),
                                   "sleeping island did not wake as a whole when an awake body touched it" if kind == "contact" else
                                   "two sleeping islands joined by a newly active equality did not both wake" if kind == "equality" else
                                   "sleeping island did not wake as a whole after the user changed %s" % kind,
                                   dict(rp, before=before["ta"], after=after["ta"]))
    ctx.extra[stats_key] = stats


# ---- compound trees: wake on touch for every kind of body of a sleeping tree
STAND_KINDS = ("none", "fixed", "hinge", "hinge+pad", "fixed+pad")


def stand_scene(rng):
    """Stands on a plane, 1 m apart, each its own tree: a free base box (half 0.1 0.1 0.05) and optionally a mast (child body,
    box half 0.03 0.03 0.1 standing on the base; rigidly attached = no joint of its own, or on a damped vertical hinge) and
    optionally a pad (box half 0.05 0.05 0.02) rigidly attached on top of the mast.  Returns (description lines, stands)."""
    L = ["option timestep %r" % rng.choice((0.002, 0.004)),
         "option integrator %d" % E(rng.choice(("mjINT_EULER", "mjINT_IMPLICITFAST", "mjINT_IMPLICIT"))),
         "option cone %d" % E(rng.choice(("mjCONE_PYRAMIDAL", "mjCONE_ELLIPTIC"))),
         "option enableflags %d" % E("mjENBL_SLEEP"),
         "geom 1 0", "set 1 type %d" % E("mjGEOM_PLANE"), "set 1 size 10 10 0.1", "name 1 floor"]
    kinds = list(STAND_KINDS)
    rng.shuffle(kinds)          # declaration order decides which side of a contact is geom[0]
    stands, h = [], 10
    for i, kind in enumerate(kinds):
        x = 1.0 * i
        L += ["body %d 0" % h, "name %d s%d" % (h, i), "set %d pos %r 0 0.05" % (h, x), "freejoint %d %d" % (h + 1, h),
              "geom %d %d" % (h + 2, h), "set %d type %d" % (h + 2, E("mjGEOM_BOX")), "set %d size 0.1 0.1 0.05" % (h + 2)]
        top = 0.05                                   # height of the top face above the centre of the base
        if kind != "none":
            L += ["body %d %d" % (h + 3, h), "set %d pos 0 0 0.15" % (h + 3)]
            if kind.startswith("hinge"):
                L += ["joint %d %d" % (h + 4, h + 3), "set %d type %d" % (h + 4, E("mjJNT_HINGE")), "set %d axis 0 0 1" % (h + 4),
                      "set %d damping 0.5" % (h + 4)]
            L += ["geom %d %d" % (h + 5, h + 3), "set %d type %d" % (h + 5, E("mjGEOM_BOX")), "set %d size 0.03 0.03 0.1" % (h + 5)]
            top = 0.25
            if kind.endswith("+pad"):
                L += ["body %d %d" % (h + 6, h + 3), "set %d pos 0 0 0.12" % (h + 6),
                      "geom %d %d" % (h + 7, h + 6), "set %d type %d" % (h + 7, E("mjGEOM_BOX")), "set %d size 0.05 0.05 0.02" % (h + 7)]
                top = 0.29
        stands.append({"kind": kind, "top": top})
        h += 10
    return L, stands


def compound_contact_scenes(ctx, impl, nscenes, ntests):
    """Every geom-bearing body of a sleeping compound tree (root with its own dofs, rigidly attached child, hinged child, rigidly
    attached grandchild) is touched by an awake tree, which touches with its root body (upright) or with its top-most body
    (upside down).  ntests: number of (toucher, target, site) combinations tried per scene (None = all)."""
    rng = ctx.rng
    st = ctx.extra.setdefault("compound_contact_stats", {"scenes": 0, "runs": 0, "touch_checked": 0, "no_touch": 0, "target_awake": 0,
                                                         "steps": 0, "asleep_tree_steps": 0, "by_site": {}})
    for _ in range(nscenes):
        L, stands = stand_scene(rng)
        model_line = "model " + " ; ".join(L)
        settle = rng.choice((150, 250))
        base = [model_line, "sstep %d" % settle]
        rc, outs, err = run_impl(ctx, impl, base)
        rp0 = {"scene_lines": [model_line], "commands": base[1:], "stands": [s["kind"] for s in stands],
               "how": "feed scene_lines + commands to the c18_sleep harness"}
        if rc or len(outs) != 2 or not outs[0].startswith("model-ok") or not outs[1].startswith("ok "):
            ctx.oracle_failure("c18:scene-error", "engine error / crash while settling compound trees", dict(rp0, rc=rc, outs=[o[:300] for o in outs[:2]], stderr=err[-300:]))
            continue
        info = parse_model_out(outs[0])
        if info["ntree"] != len(stands):
            raise RuntimeError("stand scene: unexpected tree count %s" % info["ntree"])
        recs = [parse_rec(x) for x in outs[1][3:].split(" ; ")]
        st["scenes"] += 1
        if not check_records(ctx, info, recs, set(), rp0, st):
            continue
        final, q = recs[-1]["ta"], [unhex(v) for v in recs[-1]["qpos"]]
        # tree i is stand i (trees are numbered in declaration order of their root bodies)
        qadr = [info["jnt_qposadr"][info["body_jntadr"][info["tree_bodyadr"][t]]] for t in range(len(stands))]
        vadr = [info["jnt_dofadr"][info["body_jntadr"][info["tree_bodyadr"][t]]] for t in range(len(stands))]
        combos = []
        for t, tgt in enumerate(stands):
            sites = ["top", "top-flipped", "base"] + (["mast-side"] if tgt["kind"] != "none" else [])
            combos += [(u, t, s) for u in range(len(stands)) if u != t for s in sites]
        rng.shuffle(combos)
        for u, t, site in combos[:ntests]:
            if final[t] < 0 or abs(q[qadr[t] + 3]) < 1 - 1e-6:
                st["target_awake"] += 1          # target did not fall asleep upright: nothing to test
                continue
            tx, ty, tz = q[qadr[t]:qadr[t] + 3]
            pen, quat, vel = 0.004, "1 0 0 0", "0 0 -0.5"
            if site == "top":                    # toucher's base comes down on the top-most geom of the target
                pos = (tx, ty, tz + stands[t]["top"] + 0.05 - pen)
            elif site == "top-flipped":          # toucher upside down: its top-most geom comes down on the top-most geom of the target
                pos, quat = (tx, ty, tz + stands[t]["top"] + stands[u]["top"] - pen), "0 1 0 0"
            elif site == "base":                 # toucher's base comes down on the rim of the target's base, clear of mast and pad
                pos = (tx + (0.17 if stands[t]["kind"] != "none" else 0.0), ty, tz + 0.05 + 0.05 - pen)
            else:                                # toucher's base slides into the side of the mast, between base and pad
                pos, vel = (tx + 0.03 + 0.1 - pen, ty, tz + 0.15), "-0.5 0 0"
            cmds = ["sset qpos %d %r %r %r %s" % (qadr[u], pos[0], pos[1], pos[2], quat), "sset qvel %d %s 0 0 0" % (vadr[u], vel)]
            lines2 = base + cmds + ["sstep 1", "sstep 3"]
            rc, o2, err = run_impl(ctx, impl, lines2)
            st["runs"] += 1
            rp = {"scene_lines": [model_line], "commands": lines2[1:], "stands": [s["kind"] for s in stands], "toucher_tree": u,
                  "sleeping_tree": t, "site": site, "how": "feed scene_lines + commands to the c18_sleep harness"}
            if rc != 0 or len(o2) != len(lines2) or any(x.startswith("error") or x == "bad-op" for x in o2):
                msg = " ".join(x for x in o2 if x.startswith("error"))
                if "sleeping" in msg:
                    ctx.oracle_failure("c18:missed-wake:contact", "an awake tree touched a sleeping tree (%s stand, site %s) and the step "
                                       "aborted instead of waking it: %s" % (stands[t]["kind"], site, msg[:200]), rp)
                else:
                    ctx.oracle_failure("c18:scene-error", "engine error / crash in a compound-tree touch test", dict(rp, outs=[x[:300] for x in o2[-3:]], stderr=err[-300:]))
                continue
            before = parse_rec(o2[1][3:].split(" ; ")[-1])
            if before["ta"] != final:
                ctx.oblige("scene replay is deterministic", "correspondence", False, json.dumps(rp)[:500])
                continue
            after = [parse_rec(o2[-2][3:])] + [parse_rec(x) for x in o2[-1][3:].split(" ; ")]
            if not check_records(ctx, info, [before] + after, {1}, rp, st):
                continue
            isl = orbit(final, t)
            touched = [k for k, r in enumerate(after) if any({a, b} == {u, t} for a, b, ex in r["cons"] if ex == 0)]
            if not touched:
                st["no_touch"] += 1
                continue
            st["touch_checked"] += 1
            st["by_site"][site + "/" + stands[t]["kind"]] = st["by_site"].get(site + "/" + stands[t]["kind"], 0) + 1
            r = after[touched[0]]
            if any(r["ta"][x] >= 0 for x in isl):
                ctx.oracle_failure("c18:missed-wake:contact", "sleeping island did not wake as a whole when an awake tree touched it "
                                   "(%s stand, site %s)" % (stands[t]["kind"], site), dict(rp, before=before["ta"], after=r["ta"]))


def random_model_scenes(ctx, impl, nmodels):
    """gen/models.py models (sleep flag on): invariants every step and enabled == disabled while nobody is asleep"""
    rng = ctx.rng
    st = {"models": 0, "steps": 0, "asleep_tree_steps": 0, "equal_hash_steps": 0, "compile_errors": 0, "engine_errors": 0}
    for _ in range(nmodels):
        prof = {"sleep": 1.0, "integrators": ("Euler", "implicit", "implicitfast"), "free": 0.6, "plane": 1.0, "nbody": (2, 6),
                "damping": 0.8, "actuators": (0, 1), "mocap": 0.15, "keys": 0.0, "tendons": 0.2, "equalities": 0.25}
        mdl = ModelGen(rng, prof).make()
        tol = rng.choice((None, None, 1e-2, 1e-12))
        model_line = "model " + " ; ".join(mdl.lines)
        nstep = rng.choice((60, 120, 200))
        pre = ["sopt sleep_tolerance %r" % tol] if tol is not None else []
        lines = [model_line] + pre + ["sreset", "sstep %d" % nstep]
        lines_off = [model_line] + pre + ["sflag 0", "sreset", "sstep %d" % nstep]
        rc, outs, err = run_impl(ctx, impl, lines)
        rc2, outs_off, err2 = run_impl(ctx, impl, lines_off)
        rp = {"scene_lines": [model_line], "commands_enabled": lines[1:], "commands_disabled": lines_off[1:]}
        if rc != 0 or rc2 != 0 or len(outs) != len(lines) or len(outs_off) != len(lines_off):
            ctx.oracle_failure("c18:scene-error", "crash while stepping a generated model with sleep enabled", dict(rp, rc=[rc, rc2], stderr=(err + err2)[-300:]))
            continue
        if not outs[0].startswith("model-ok"):
            st["compile_errors"] += 1
            continue
        info = parse_model_out(outs[0])
        o_on, o_off = outs[-1], outs_off[-1]
        if o_on.startswith("error") or o_off.startswith("error"):
            # engine errors are legitimate for some generated models (e.g. tendon equality + sleep); they must agree in kind
            st["engine_errors"] += 1
            if o_on.startswith("error") and "sleep" in o_on.lower() and "does not yet support" not in o_on:
                ctx.oracle_failure("c18:sleep-error", "sleep bookkeeping raised a SHOULD-NOT-OCCUR error on a generated model",
                                   dict(rp, error=o_on[:300]))
            continue
        st["models"] += 1
        static_pair = any(info["body_treeid"][info["geom_bodyid"][g1]] < 0 and info["body_treeid"][info["geom_bodyid"][g2]] < 0
                          for g1, g2 in zip(info.get("pair_geom1", []), info.get("pair_geom2", [])))
        recs_on = [parse_rec(x) for x in o_on[3:].split(" ; ")]
        recs_off = [parse_rec(x) for x in o_off[3:].split(" ; ")]
        if not check_records(ctx, info, recs_on, set(), rp, st):
            continue
        if static_pair:
            st["static_pair_models_skipped"] = st.get("static_pair_models_skipped", 0) + 1
            continue
        for k, (a, b) in enumerate(zip(recs_on, recs_off)):
            if any(v >= 0 for v in a["ta"]):
                break
            st["equal_hash_steps"] += 1
            if a["hash"] != b["hash"] or a["qpos"] != b["qpos"] or a["qvel"] != b["qvel"]:
                ctx.oracle_failure("c18:enabled-differs-while-awake", "sleep enabled but no tree asleep: outputs differ from sleep disabled",
                                   dict(rp, step=k))
                break
    ctx.extra["generated_model_stats"] = st


def static_pair_finding(ctx, impl):
    """Directed test of a known deviation: an explicit contact pair between two dof-less bodies (not mocap) is dropped by
    filterCollisionPair as soon as the sleep flag is set (body_awake is mjS_STATIC != mjS_AWAKE for both), although no tree
    is asleep; with sleep disabled the contacts are generated."""
    L = ["option enableflags %d" % E("mjENBL_SLEEP"), "option disableflags %d" % E("mjDSBL_ISLAND"),
         "geom 1 0", "set 1 type %d" % E("mjGEOM_PLANE"), "set 1 size 5 5 0.1", "name 1 floor",
         "body 10 0", "set 10 pos 0 0 0.05", "geom 12 10", "set 12 type %d" % E("mjGEOM_BOX"), "set 12 size 0.1 0.1 0.1", "name 12 sbox",
         "body 20 0", "set 20 pos 2 0 1", "freejoint 21 20", "geom 22 20", "set 22 type %d" % E("mjGEOM_SPHERE"), "set 22 size 0.1",
         "pair 30", "set 30 geomname1 floor", "set 30 geomname2 sbox"]
    ml = "model " + " ; ".join(L)
    lines, lines_off = [ml, "sstep 2"], [ml, "sflag 0", "sreset", "sstep 2"]
    rc, outs, err = ctx.run_lines([impl], lines)
    rc2, outs2, err2 = ctx.run_lines([impl], lines_off)
    if rc != 0 or rc2 != 0 or len(outs) != 2 or len(outs2) != 4 or not outs[1].startswith("ok ") or not outs2[3].startswith("ok "):
        ctx.extra["static_pair_directed"] = "not evaluated: %s" % [o[:120] for o in (outs[1:] + outs2[3:])]
        return
    on = [parse_rec(x) for x in outs[1][3:].split(" ; ")]
    off = [parse_rec(x) for x in outs2[3][3:].split(" ; ")]
    ctx.extra["static_pair_directed"] = {"ncon_sleep_enabled": [r["ncon"] for r in on], "ncon_sleep_disabled": [r["ncon"] for r in off],
                                         "tree_asleep_enabled": [r["ta"] for r in on]}
    if all(v < 0 for r in on for v in r["ta"]) and [r["hash"] for r in on] != [r["hash"] for r in off]:
        ctx.oracle_failure("c18:static-static-pair-dropped-by-sleep-flag",
                           "sleep enabled, no tree asleep: an explicit contact pair between two static (dof-less, non-mocap) bodies is "
                           "filtered out (ncon %s) while with sleep disabled it produces contacts (ncon %s)"
                           % ([r["ncon"] for r in on], [r["ncon"] for r in off]),
                           {"scene_lines": [ml], "commands_enabled": lines[1:], "commands_disabled": lines_off[1:], "where": "engine_collision_driver.c: filterCollisionPair, ipair >= 0 branch"})


# ------------------------------------------------------------------------------------------ run
def run(ctx):
    ctx.rule = ("op lines against the real functions on compiled multi-tree models: every tree_asleep array over {-11,-2,-1,0..n-1} "
                "(n<=4) x every argument of mj_sleepCycle / mj_wakeIsland / (n<=3) mj_sleepTrees, all op histories of a small length from "
                "the all-ready array, seeded random long histories, random mj_sleep / mj_wake / mj_wakeCollision / mj_updateSleepInit / "
                "mj_Euler calls over random body topologies; a case is distinct by its full line; scenes: seeded stacks of free boxes "
                "(+pendulum, mocap), compound stands (free base + rigid / hinged mast + pad) touched while asleep, and gen/models.py "
                "models stepped with sleep enabled")
    ctx.lean_props(THEOREMS)
    drv = ctx.driver("drv_c18")
    impl = ctx.harness("harness/c/c18_sleep.c", "c18_sleep", deps=["harness/mjbuild.h"])
    if not (drv and impl):
        return
    rng, thorough = ctx.rng, ctx.tier == "thorough"
    # ---- compile the op-level models once to learn their arrays (from the real compiler)
    models = {("chain", n): op_model_desc([(0, "h")] * n) for n in range(1, 9)}
    for k in range(40 if thorough else 14):
        models[("rich", k)] = op_model_desc(random_topology(rng, rng.randint(2, 9), KINDS_ALL))
    for k in range(20 if thorough else 8):
        models[("adv", k)] = op_model_desc(random_topology(rng, rng.randint(2, 8), ("h", "s", "hh", "-", "h", "s")))
    keys = list(models)
    rc, outs, err = ctx.run_lines([impl], [models[k] for k in keys])
    infos = {}
    for k, o in zip(keys, outs):
        info = parse_model_out(o)
        if rc != 0 or info is None:
            raise RuntimeError("op model did not compile: %s %s" % (o[:300], err[-300:]))
        infos[k] = info
    for k in [k for k in keys if k[0] != "chain" and infos[k]["ntree"] == 0]:
        del models[k]
    lines = ["const"]
    gen_ta_ops(ctx, lines, models)
    gen_rich_ops(ctx, lines, models, infos)
    lines.append("frob 1 | 2")
    lines.append("cycle x | 1 0")
    lines.append("wakeisland 0 | 0")

    def cmp(a, b):
        return a == b or (a == "model-ok" and b.startswith("model-ok "))

    def keyf(l):
        return None if l.startswith("model") else l

    bad = ctx.differential("engine_sleep.c functions vs Lean model", [drv], [impl], lines, keyf=keyf, cmp=cmp)
    rc, outs, err = ctx.run_lines([impl], lines)
    if rc == 0 and len(outs) == len(lines):
        line_model = {v: k for k, v in models.items()}
        cur, curm, by_line, model_by_line = None, None, [], []
        for l in lines:
            if l in line_model:
                cur, curm = infos[line_model[l]], l
            by_line.append(cur)
            model_by_line.append(curm)
        op_oracle(ctx, lines, outs, by_line, model_by_line)
        if outs[0] != "minawake 10 kawake -11 states -1 0 1":
            ctx.sample({"note": "header constants changed", "const": outs[0]})
        for i in (5, len(lines) // 2, len(lines) - 10):
            ctx.sample({"op": lines[i][:300], "impl_output": outs[i][:300]})
    else:
        ctx.oracle_failure("c18:crash", "sleep harness crashed on op lines (rc=%s)" % rc, {"stderr": err[-500:]})
    # ---- scenes
    scene_scripts(ctx, impl, 120 if thorough else 7)
    compound_contact_scenes(ctx, impl, 8 if thorough else 1, None if thorough else 8)
    random_model_scenes(ctx, impl, 400 if thorough else 25)
    static_pair_finding(ctx, impl)

    # ---- directed search of the engine when the tie (or a theorem) is broken: the ops that disagree say where to look
    state = {"done": False}

    def directed(c=ctx):
        n0 = len(ctx.oracle_failures)
        if not state["done"]:
            state["done"] = True
            kinds = {b["line"].split(" ", 1)[0] for b in bad if b.get("line")}
            if not kinds or "wakecol" in kinds:
                # contact wake decision: touch every kind of body of sleeping compound trees, all combinations
                compound_contact_scenes(ctx, impl, 3, None)
            if not kinds or kinds - {"wakecol"}:
                # sleep / wake / derived arrays / advance: more stack scenes with every perturbation test
                scene_scripts(ctx, impl, 12, all_tests=True, stats_key="directed_scene_stats")
            ctx.extra["directed_search"] = {"disagreeing_ops": sorted(kinds), "new_failures": len(ctx.oracle_failures) - n0}
        new = ctx.oracle_failures[n0:]
        knownk = {k["key"] for k in ctx.known()}
        new = [f for f in new if f["key"] not in knownk] or new
        return new[0] if new else None

    if bad:
        directed()
    ctx.directed_search = directed

    if thorough:
        ctx.leanchecker(["MjProof.Props.C18"])
