"""Translation validation of c2lean kernels (DESIGN.md §2 T): the generated Lean definition, evaluated on
`Float`, is compared *bitwise* with the compiled C function of the tree on the same inputs."""
import json
import math
import os
import struct
import subprocess
import sys

from . import common

GEN = os.path.join(common.LEAN, "MjProof", "Gen")


def regen(ctx):
    """Re-run every translator against /repo's working tree; returns the kernel manifest."""
    r = common.sh([sys.executable, os.path.join(common.VERIF, "translate", "regen_all.py")], timeout=600)
    ok = r.returncode == 0
    ctx.oblige("translators regenerate lean/MjProof/Gen from the working tree", "translator", ok, (r.stdout + r.stderr)[-1500:])
    mp = os.path.join(GEN, "kernels_manifest.json")
    if not os.path.exists(mp):
        return {"kernels": {}, "refused": {}}
    return json.load(open(mp))


def fbits(x):
    if x != x:
        return "nan"
    return "%016x" % struct.unpack("<Q", struct.pack("<d", x))[0]


def frombits(t):
    if t == "nan":
        return float("nan")
    return struct.unpack("<d", struct.pack("<Q", int(t, 16)))[0]


SPECIALS = [0.0, -0.0, 1.0, -1.0, 0.5, -0.5, 2.0, 1e-15, -1e-15, 1e-16, 1e-8, 1e-300, 1e300, math.pi, -math.pi,
            math.pi / 2, 1e10, -1e10, 3.0, 1e-6, 0.25, 0.1]


def rand_num(rng, style):
    if style == "unit":
        return rng.uniform(-1, 1)
    if style == "small":
        return rng.uniform(-1e-7, 1e-7)
    if style == "special":
        return rng.choice(SPECIALS)
    if style == "wide":
        return rng.uniform(-1, 1) * 10 ** rng.randint(-12, 12)
    return rng.gauss(0, 1)


def default_gen(rng, inputs):
    """inputs: list of [name, kind].  Groups consecutive cells of the same array and sometimes normalises
    4-vectors named *quat*/q* to unit length (valid quaternions are the interesting domain)."""
    style = rng.choice(("gauss", "gauss", "unit", "special", "wide", "small", "mixed"))
    vals = []
    for nm, kind in inputs:
        if kind == "int":
            vals.append(rng.choice((0, 1, 2, 3, -1, rng.randint(-5, 5))))
        else:
            st = rng.choice(("gauss", "unit", "special", "wide")) if style == "mixed" else style
            vals.append(rand_num(rng, st))
    # normalise quaternion-like groups with probability 1/2
    groups = {}
    for i, (nm, kind) in enumerate(inputs):
        base = nm.rsplit("_", 1)[0]
        groups.setdefault(base, []).append(i)
    for base, idxs in groups.items():
        if len(idxs) == 4 and ("q" in base.lower()) and rng.random() < 0.6:
            n = math.sqrt(sum(vals[i] * vals[i] for i in idxs))
            if n > 0 and math.isfinite(n):
                for i in idxs:
                    vals[i] /= n
        if len(idxs) == 3 and rng.random() < 0.2:
            n = math.sqrt(sum(vals[i] * vals[i] for i in idxs))
            if n > 0 and math.isfinite(n):
                for i in idxs:
                    vals[i] /= n
    return vals


def validate(ctx, manifest, names, per_kernel, gens=None, label="c2lean kernels", allow_ulps=None):
    """Bitwise differential of generated Lean (Float) vs compiled C.  allow_ulps: {kernel: n} for kernels
    where gcc may legally differ (none expected with -ffp-contract=off)."""
    gens = gens or {}
    allow_ulps = allow_ulps or {}
    kernels = manifest.get("kernels", {})
    refused = manifest.get("refused", {})
    ok_names = []
    for n in names:
        if n in refused or n not in kernels:
            ctx.oblige("c2lean translates " + n, "translator", False,
                       refused.get(n, "kernel missing from the generated manifest"))
        else:
            ctx.oblige("c2lean translates %s (sha %s)" % (n, kernels[n]["sha256"][:12]), "translator", True)
            ok_names.append(n)
    drv = ctx.driver("drv_kernels")
    hsrc = os.path.join(common.CACHE, "gen", "kernels_harness.c")
    impl = ctx.harness(os.path.relpath(hsrc, common.VERIF), "kernels_harness") if os.path.exists(hsrc) else None
    if not drv or not impl or not ok_names:
        return []
    lines = []
    for n in ok_names:
        ins = kernels[n]["inputs"]
        g = gens.get(n, default_gen)
        for _ in range(per_kernel):
            vals = g(ctx.rng, ins)
            toks = [("i%d" % v) if kind == "int" else fbits(float(v)) for v, (nm, kind) in zip(vals, ins)]
            lines.append(n + " " + " ".join(toks))
    lines.append("no_such_kernel 0000000000000000")

    maxulp = [0]

    def cmp(a, b):
        if a == b:
            return True
        ta, tb = a.split(), b.split()
        if len(ta) != len(tb):
            return False
        return all(x == y for x, y in zip(ta, tb))

    bad = ctx.differential(label + " — Lean(Float) vs compiled C, bitwise", [drv], [impl], lines,
                           keyf=lambda l: l, cmp=cmp)
    ctx.extra.setdefault("kernel_validation", {})[label] = {
        "kernels": ok_names, "cases_per_kernel": per_kernel, "comparison": "bitwise (IEEE-754 bit patterns)",
        "disagreements": len(bad)}
    if lines:
        ctx.sample({"kernel_case": lines[0][:200]})
    return bad
