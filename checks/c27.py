"""C27  Actuation follows the documented transmission and force laws (DESIGN.md §5.C27).

P  lean/MjProof/Props/C27.lean (over the reals): limited controls lie in ctrlrange (or all controls were zeroed because
   one was bad), mj_nextActivation keeps limited activations in actrange, the forcerange / tendon actfrcrange / joint
   actfrcrange limits hold at their stage, the SISO law p = a(w or u) + b0 + b1 l + b2 ldot, the generated muscle kernels
   equal the documented formulas where documentation and code agree (and provably differ where they do not), disabled
   groups give zero force when the forcerange contains 0, the sparse transpose product equals moment' * force.
T  (a) c2lean kernels (mju_clip, mju_max, mju_isBad, mju_sigmoid, mju_muscleGainLength, mju_muscleGain, mju_muscleBias,
       mju_muscleDynamicsTimescale, mju_muscleDynamics) regenerated and validated bitwise on every run;
   (b) per-actuator / per-dof differential against the REAL engine: parameters and state are read from mjModel / mjData
       through harness/c/engine_repl.c, fed to drv_c27 (the Lean model of Model/Actuation.lean on Float) stage by stage
       (control stage, act_dot, unclamped force, tendon total-force limit, forcerange clamp, sparse moment' * force, joint
       post-processing) and compared BITWISE with act_dot, actuator_force and qfrc_actuator of mj_forward.
S  property oracle on the engine alone: range predicates, qfrc_actuator = moment' * force (+ actuator-routed gravcomp,
   joint clamp) recomputed densely in Python (1e-12), clamp equivalence (controls beyond the limit act like controls at
   the limit), activations inside actrange after mj_step, the affine law recomputed independently, disabled groups give
   zero force, moment = d length / d qpos by finite differences (joint / tendon transmissions), documented anchor
   points of the muscle curves on the real kernels.
"""
import json
import math
import subprocess

from checks import common, kernelval
from gen.enums import E
from gen.models import ModelGen

META = {
    "technique": "hand-written executable Lean model of the per-actuator computations of mj_fwdActuation (control clamp and bad-control zeroing, act_dot, SISO gain/bias force law, disabled groups, tendon total-force limit, forcerange clamp, sparse moment-transpose product, actuator-routed gravcomp and joint actfrcrange clamp) over the law-free number class MjNum, built on c2lean-generated kernels (mju_clip, mju_max, mju_isBad, the five muscle kernels; regenerated and validated bitwise each run); documented formulas transcribed independently from doc/ into Spec/Muscle.lean; Lean 4 proofs over the reals (case splits on the spline knots, field_simp/ring, linarith, list induction for the sparse product); bitwise stage-by-stage differential of the Float instance against act_dot / actuator_force / qfrc_actuator of the real mj_forward on generated models (joint, tendon and site transmissions); independent property oracle in Python and on the real kernels",
    "text": "Proved over the reals for the model (all inputs): a limited control, clamped, lies in ctrlrange and every entry of the control vector the forces use is that clamped control or 0 when some control was bad; mj_nextActivation keeps a limited activation in actrange (DC motors exempt, as coded); after the forcerange clamp the force lies in forcerange, after the joint clamp qfrc_actuator lies in actfrcrange, after the tendon rescaling the total force of the actuators on a tendon lies in its actfrcrange; fixed/affine gain with none/affine bias give p = a(w or u) + b0 + b1 l + b2 ldot; integrator and filter act_dot are the documented ones; the generated muscle kernels equal the documented scaled length/velocity, F0, F_V, the main bump of F_L (knots included) and the Millard activation dynamics (act in [0,1], hard switching); an actuator in a disabled group yields zero force through all later stages for every forcerange (the clamp loop skips disabled actuators); the sparse transpose product as coded equals the dense moment' * force. Tied to /repo on every run by translation (kernels) and the bitwise stage-by-stage differential against the real engine.",
    "note": "Stated over the reals (rounding outside the proofs; the Float instance is compared bitwise). Not modelled (filtered out of the differential / not generated): delayed controls, actearly, servo setpoint wrapping on ball joints / rotational sites, PID / DC-motor / SO3 actuators, plugins, callbacks, sleeping. Transmission geometry (actuator_length, actuator_moment of joint / tendon / site transmissions; slider-crank and body transmissions are not generated) is oracle-only (finite differences), as planned in DESIGN.md. The muscle theorems need non-degenerate parameters (every mjMAX(mjMINVAL, .) guard inactive; stated as hypotheses). FINDINGS: (1) documentation vs code: XMLreference documents fpmax as the passive force at lmax and doc/_static/FLV.m gives F_P(lmax) = fpmax, the code (C, MJX and Warp alike) gives 1.5 fpmax; FLV.m adds a second bump 0.15*bump(L, lmin, (lmin+0.95)/2, 0.95) to F_L that the code does not have (theorems muscleBias_differs_from_doc, muscleGainLength_differs_from_FLVm; oracle key c27:muscle-passive-force-at-lmax-differs-from-doc); (2) FIXED in /repo (ea3125434): the forcerange clamp used to be applied to actuators of disabled groups too, so a disabled actuator whose forcerange excluded 0 output the nearest bound instead of zero; model and theorem disabled_group_zero_force now follow the fixed code (zero force for every forcerange), the oracle key c27:disabled-actuator-nonzero-force stays and a directed regression input (group 0 disabled, forcerange [1, 2]) is evaluated on every run.",
}

P = "MjProof.C27."
THEOREMS = [P + t for t in (
    "ctrl_clamped_in_range", "ctrl_unlimited", "ctrlStage_entry", "act_in_actrange", "actdot_integrator", "actdot_filter",
    "force_in_forcerange", "force_clamp_noop", "jointforce_in_range", "tendon_total_in_range",
    "fixed_affine_eq_spec", "fixed_none_eq_spec", "affine_affine_eq_spec",
    "force_in_forcerange_enabled", "actuatorDisabled_iff", "disabled_group_zero_force", "clampStage_enabled",
    "muscle_scaling", "muscleGainLength_eq_bump", "muscleGain_eq_spec", "muscleDynamics_eq_spec",
    "muscleBias_at_lmax", "muscleBias_differs_from_doc", "muscleGainLength_differs_from_FLVm",
    "qfrc_actuator_eq_momentT_force",
)]
KERNELS = ["mju_clip", "mju_max", "mju_min", "mju_sign", "mju_isBad", "mju_sigmoid", "mju_muscleGainLength", "mju_muscleGain",
           "mju_muscleBias", "mju_muscleDynamicsTimescale", "mju_muscleDynamics"]

fbits = kernelval.fbits
frombits = kernelval.frombits
RTOL = 1e-12
GAIN = {E("mjGAIN_FIXED"): "fixed", E("mjGAIN_AFFINE"): "affine", E("mjGAIN_MUSCLE"): "muscle", E("mjGAIN_USER"): "user"}
BIAS = {E("mjBIAS_NONE"): "none", E("mjBIAS_AFFINE"): "affine", E("mjBIAS_MUSCLE"): "muscle", E("mjBIAS_USER"): "user"}
DYN = {E("mjDYN_NONE"): "none", E("mjDYN_INTEGRATOR"): "integrator", E("mjDYN_FILTER"): "filter", E("mjDYN_FILTEREXACT"): "filterexact",
       E("mjDYN_MUSCLE"): "muscle", E("mjDYN_USER"): "user"}
TRN_JOINT, TRN_JIP, TRN_TENDON, TRN_SITE = E("mjTRN_JOINT"), E("mjTRN_JOINTINPARENT"), E("mjTRN_TENDON"), E("mjTRN_SITE")
JFREE, JBALL, JSLIDE, JHINGE = (E("mjJNT_FREE"), E("mjJNT_BALL"), E("mjJNT_SLIDE"), E("mjJNT_HINGE"))
NDOF = {JFREE: 6, JBALL: 3, JSLIDE: 1, JHINGE: 1}

PROFILE = {"nbody": (1, 5), "actuators": (1, 5), "sensors": (0, 0), "cameras": 0.0, "keys": 0.0, "numeric": 0.0, "mocap": 0.05,
           "contacts": 0.0, "plane": 0.0, "equalities": 0.0, "pairs": 0.0, "excludes": 0.0, "tendons": 0.7, "sites": 0.9,
           "free": 0.2, "ball": 0.15, "limits": 0.0, "frictionloss": 0.0, "gravcomp": 0.3, "energy": 0.0, "sleep": 0.0}


# ------------------------------------------------------------------------------------------ model generation
def make_model(ctx):
    rng = ctx.rng
    mdl = ModelGen(rng, PROFILE).make()
    lines, retarget = [], None
    info = {"tendon_targets": 0, "site_targets": 0, "range_excludes_zero": 0}
    for l in mdl.lines:
        t = l.split()
        if t[0] == "actuator":
            r = rng.random()
            retarget = None
            if r < 0.35 and mdl.tendons:
                retarget = ("tendon", rng.choice(mdl.tendons)["name"])
            elif r < 0.5 and mdl.sites:
                retarget = ("site", rng.choice(mdl.sites)["name"])
            lines.append(l)
            if rng.random() < 0.6:
                lines.append("set %s group %d" % (t[1], rng.randint(0, 4)))
            continue
        if retarget and len(t) >= 4 and t[0] == "set" and t[2] == "trntype":
            l = "set %s trntype %d" % (t[1], TRN_TENDON if retarget[0] == "tendon" else TRN_SITE)
            info["tendon_targets" if retarget[0] == "tendon" else "site_targets"] += 1
        elif retarget and len(t) >= 4 and t[0] == "set" and t[2] == "target":
            l = "set %s target %s" % (t[1], retarget[1])
        elif retarget and retarget[0] == "site" and len(t) >= 4 and t[0] == "set" and t[2] == "gear":
            l = "set %s gear %s" % (t[1], " ".join(repr(rng.choice((0.0, rng.uniform(-2, 2)))) for _ in range(6)))
        elif len(t) >= 4 and t[0] == "set" and t[2] == "group":
            continue      # the generator's own group line: replaced by ours above
        elif len(t) >= 5 and t[0] == "set" and t[2] == "forcerange" and rng.random() < 0.25:
            lo = rng.uniform(0.2, 1.0) * rng.choice((1, -1))
            l = "set %s forcerange %r %r" % ((t[1], lo, lo + rng.uniform(0.5, 3)) if lo > 0 else (t[1], lo - rng.uniform(0.5, 3), lo))
            info["range_excludes_zero"] += 1
        lines.append(l)
        if t[0] == "joint" and rng.random() < 0.25:
            lines.append("set %s actfrclimited %d" % (t[1], E("mjLIMITED_TRUE")))
            lines.append("set %s actfrcrange %r %r" % (t[1], -rng.uniform(0.2, 3), rng.uniform(0.2, 3)))
        if t[0] == "joint" and rng.random() < 0.2:
            lines.append("set %s actgravcomp 1" % t[1])
        if t[0] == "tendon" and rng.random() < 0.5:
            lines.append("set %s actfrclimited %d" % (t[1], E("mjLIMITED_TRUE")))
            lines.append("set %s actfrcrange %r %r" % (t[1], -rng.uniform(0.2, 3), rng.uniform(0.2, 3)))
    if rng.random() < 0.6:
        lines.append("option disableactuator %d" % rng.randint(1, 31))
    mdl.clampdisabled = rng.random() < 0.15
    if mdl.clampdisabled:
        lines = [("option disableflags %d" % (int(l.split()[2]) | E("mjDSBL_CLAMPCTRL"))) if l.startswith("option disableflags ") else l
                 for l in lines]
    mdl.lines = lines
    mdl.info = info
    return mdl


# ------------------------------------------------------------------------------------------ REPL plumbing
class Repl:
    def __init__(self, exe):
        self.exe, self.cmds, self.tags = exe, [], []

    def cmd(self, c, tag=None):
        self.cmds.append(c)
        self.tags.append(tag)

    def run(self):
        r = subprocess.run([self.exe], input="\n".join(self.cmds) + "\n", capture_output=True, text=True, timeout=1800)
        out = r.stdout.split("\n")
        if out and out[-1] == "":
            out.pop()
        res = {}
        for tg, o in zip(self.tags, out):
            if tg is not None:
                res[tg] = o
        return r.returncode, out, res, r.stderr


def toks(line):
    return line.split(":", 1)[1].split() if ":" in line else None


def F(line):
    return [frombits(x) for x in toks(line)]


def I(line):
    return [int(x) for x in toks(line)]


def fmtv(v):
    return " ".join(repr(float(x)) for x in v)


MODEL_FIELDS = ("actuator_gaintype", "actuator_biastype", "actuator_dyntype", "actuator_gainprm", "actuator_biasprm", "actuator_dynprm",
                "actuator_ctrlrange", "actuator_ctrllimited", "actuator_forcerange", "actuator_forcelimited", "actuator_actrange",
                "actuator_actlimited", "actuator_group", "actuator_actadr", "actuator_actnum", "actuator_ctrladr", "actuator_ctrlnum",
                "actuator_outadr", "actuator_outnum", "actuator_trntype", "actuator_trnid", "actuator_lengthrange", "actuator_acc0",
                "actuator_actearly", "actuator_delay", "actuator_plugin", "tendon_actfrclimited", "tendon_actfrcrange",
                "jnt_actfrclimited", "jnt_actfrcrange", "jnt_actgravcomp", "jnt_dofadr", "jnt_qposadr", "jnt_type", "dof_jntid",
                "body_gravcomp", "opt.disableactuator", "opt.disableflags", "opt.enableflags", "opt.gravity", "opt.timestep")
DATA_FIELDS = ("ctrl", "act", "act_dot", "actuator_force", "actuator_length", "actuator_velocity", "actuator_moment", "moment_rownnz",
               "moment_rowadr", "moment_colind", "qfrc_actuator", "qfrc_gravcomp", "qpos")


class Snap:
    def __init__(self, res, key):
        self.raw = {f: res[("m", f)] for f in MODEL_FIELDS}
        self.raw.update({f: res[(key, f)] for f in DATA_FIELDS})
        g = lambda f: F(self.raw[f])
        gi = lambda f: I(self.raw[f])
        self.gaintype, self.biastype, self.dyntype = gi("actuator_gaintype"), gi("actuator_biastype"), gi("actuator_dyntype")
        self.gainprm, self.biasprm, self.dynprm = g("actuator_gainprm"), g("actuator_biasprm"), g("actuator_dynprm")
        self.ctrlrange, self.ctrllimited = g("actuator_ctrlrange"), gi("actuator_ctrllimited")
        self.forcerange, self.forcelimited = g("actuator_forcerange"), gi("actuator_forcelimited")
        self.actrange, self.actlimited = g("actuator_actrange"), gi("actuator_actlimited")
        self.group, self.actadr, self.actnum = gi("actuator_group"), gi("actuator_actadr"), gi("actuator_actnum")
        self.ctrladr, self.ctrlnum, self.outadr, self.outnum = gi("actuator_ctrladr"), gi("actuator_ctrlnum"), gi("actuator_outadr"), gi("actuator_outnum")
        self.trntype, self.trnid = gi("actuator_trntype"), gi("actuator_trnid")
        self.lengthrange, self.acc0 = g("actuator_lengthrange"), g("actuator_acc0")
        self.actearly, self.delay, self.plugin = gi("actuator_actearly"), g("actuator_delay"), gi("actuator_plugin")
        self.tlim, self.trange = gi("tendon_actfrclimited"), g("tendon_actfrcrange")
        self.jlim, self.jrange, self.jgc = gi("jnt_actfrclimited"), g("jnt_actfrcrange"), gi("jnt_actgravcomp")
        self.jdof, self.jqadr, self.jtype, self.dofjnt = gi("jnt_dofadr"), gi("jnt_qposadr"), gi("jnt_type"), gi("dof_jntid")
        self.bgc = g("body_gravcomp")
        self.disact, self.dflags, self.grav = gi("opt.disableactuator")[0], gi("opt.disableflags")[0], g("opt.gravity")
        self.ctrl, self.act, self.act_dot = g("ctrl"), g("act"), g("act_dot")
        self.force, self.length, self.velocity = g("actuator_force"), g("actuator_length"), g("actuator_velocity")
        self.moment, self.rownnz, self.rowadr, self.colind = g("actuator_moment"), gi("moment_rownnz"), gi("moment_rowadr"), gi("moment_colind")
        self.qfrc, self.qgc, self.qpos = g("qfrc_actuator"), g("qfrc_gravcomp"), g("qpos")
        self.nact, self.nv, self.nu, self.njnt = len(self.gaintype), len(self.qfrc), len(self.ctrl), len(self.jtype)

    def bits(self, f):
        return toks(self.raw[f])

    def disabled(self, i):
        g = self.group[i]
        return 0 <= g <= 30 and bool(self.disact & (1 << g))

    def clamp_disabled(self):
        return bool(self.dflags & E("mjDSBL_CLAMPCTRL"))

    def gravcomp_active(self):
        gn = math.sqrt(sum(x * x for x in self.grav))
        return any(x != 0 for x in self.bgc) and not (self.dflags & E("mjDSBL_GRAVITY")) and gn != 0

    def modelled(self, i):
        """is actuator i inside the fragment Model/Actuation.lean models?"""
        if self.gaintype[i] not in GAIN or self.biastype[i] not in BIAS or self.dyntype[i] not in DYN:
            return False
        if self.actearly[i] or self.delay[i] != 0 or self.plugin[i] >= 0 or self.ctrlnum[i] != 1 or self.outnum[i] != 1:
            return False
        if self.actnum[i] not in (0, 1):
            return False
        # servo-shaped actuators on ball joints / sites with refsite wrap their setpoint (wrapPeriod > 0): not modelled
        if self.trntype[i] in (TRN_JOINT, TRN_JIP) and self.jtype[self.trnid[2 * i]] == JBALL:
            return False
        if self.trntype[i] == TRN_SITE and self.trnid[2 * i + 1] >= 0:
            return False
        return True

    def scaling_active(self):
        """tendon_frclimited as mj_fwdActuation computes it"""
        for i in range(self.nact):
            if self.disabled(i) or self.plugin[i] >= 0:
                continue
            if self.trntype[i] == TRN_TENDON and self.tlim[self.trnid[2 * i]]:
                return True
        return False


# ------------------------------------------------------------------------------------------ Lean differential
def lean_differential(ctx, drv, s, stats, mism, ident):
    def call(lines):
        rc, out, err = ctx.run_lines([drv], lines)
        if rc != 0 or len(out) != len(lines) or any(o == "bad-op" for o in out):
            raise common.Infra("drv_c27 failed: %s / %r" % (err[-300:], [l[:120] for l, o in zip(lines, out) if o == "bad-op"][:2]))
        return out

    def compare(what, got, want, line):
        stats["bitwise_cases"] += 1
        ctx.count((ident, what))
        if got != want:
            stats["bitwise_bad"] += 1
            if len(mism) < 20:
                mism.append(dict(ident=ident, what=what, line=line[:500], model=got, impl=want))

    if not all(s.modelled(i) for i in range(s.nact)):
        stats["models_outside_fragment"] += 1
        return
    cb, crb, fb_ = s.bits("ctrl"), s.bits("actuator_ctrlrange"), None
    # A: control stage
    lineA = "ctrl %d %d%s" % (1 if s.clamp_disabled() else 0, s.nu, "".join(" %s %d %s %s" % (cb[k], 1 if s.ctrllimited[k] else 0, crb[2 * k], crb[2 * k + 1])
                                                                           for k in range(s.nu)))
    u = call([lineA])[0].split()
    # B: act_dot and unclamped forces
    ab, lb, vb = s.bits("act"), s.bits("actuator_length"), s.bits("actuator_velocity")
    gp, bp, dp = s.bits("actuator_gainprm"), s.bits("actuator_biasprm"), s.bits("actuator_dynprm")
    lr, a0 = s.bits("actuator_lengthrange"), s.bits("actuator_acc0")
    linesB, tagB = [], []
    for i in range(s.nact):
        ui = u[s.ctrladr[i]]
        if s.actnum[i] == 1:
            adr = s.actadr[i]
            linesB.append("actdot %s %s %s %s %s %s" % (DYN[s.dyntype[i]], dp[10 * i], dp[10 * i + 1], dp[10 * i + 2], ui, ab[adr]))
            tagB.append(("actdot", i))
            inp = ab[adr]
        else:
            inp = ui
        o = s.outadr[i]
        linesB.append("force %s %s %d %d %s %s %s %s %s %s %s %s" % (
            GAIN[s.gaintype[i]], BIAS[s.biastype[i]], s.group[i], s.disact, inp, lb[o], vb[o], lr[2 * o], lr[2 * o + 1], a0[o],
            " ".join(gp[10 * i:10 * i + 10]), " ".join(bp[10 * i:10 * i + 10])))
        tagB.append(("force", i))
    outB = call(linesB)
    f0 = {}
    adb = s.bits("act_dot")
    for (kind, i), o, l in zip(tagB, outB, linesB):
        if kind == "actdot":
            compare("act_dot[%d] (%s)" % (s.actadr[i], DYN[s.dyntype[i]]), o, adb[s.actadr[i]], l)
        else:
            f0[i] = o
    # C/D: tendon total-force limit
    f1 = dict(f0)
    if s.scaling_active():
        trb = s.bits("tendon_actfrcrange")
        tends = sorted({s.trnid[2 * i] for i in range(s.nact) if s.trntype[i] == TRN_TENDON and s.tlim[s.trnid[2 * i]]})
        members = {t: [i for i in range(s.nact) if s.trntype[i] == TRN_TENDON and s.trnid[2 * i] == t] for t in tends}
        totals = call(["tsum %d %s" % (len(members[t]), " ".join(f0[i] for i in members[t])) for t in tends])
        linesD, tagD = [], []
        for t, tot in zip(tends, totals):
            for i in members[t]:
                linesD.append("tscale %s %s %s %s" % (tot, trb[2 * t], trb[2 * t + 1], f0[i]))
                tagD.append(i)
        for i, o in zip(tagD, call(linesD) if linesD else []):
            f1[i] = o
        stats["tendon_scaling_models"] += 1
    # E: forcerange clamp
    frb = s.bits("actuator_forcerange")
    linesE = ["fclamp %d %d %d %s %s %s" % (1 if s.forcelimited[i] else 0, s.group[i], s.disact, f1[i], frb[2 * i], frb[2 * i + 1]) for i in range(s.nact)]
    outE = call(linesE)
    efb = s.bits("actuator_force")
    for i in range(s.nact):
        compare("actuator_force[%d] (gain %s, bias %s, trn %d%s)" % (s.outadr[i], GAIN[s.gaintype[i]], BIAS[s.biastype[i]], s.trntype[i],
                                                                     ", disabled" if s.disabled(i) else ""), outE[i], efb[s.outadr[i]], linesE[i])
    # F: qfrc_actuator = moment' * force (engine's own force vector), then the joint post-processing
    mb = s.bits("actuator_moment")
    nout = len(s.rownnz)
    rows = []
    for r in range(nout):
        ent = "".join(" %d %s" % (s.colind[a], mb[a]) for a in range(s.rowadr[r], s.rowadr[r] + s.rownnz[r]))
        rows.append("%d%s %s" % (s.rownnz[r], ent, efb[r]))
    lineF = "qfrc %d %d %s" % (s.nv, nout, " ".join(rows))
    q0 = call([lineF])[0].split() if s.nv else []
    gcb, jrb = s.bits("qfrc_gravcomp"), s.bits("jnt_actfrcrange")
    ga = s.gravcomp_active()
    linesG = []
    for k in range(s.nv):
        j = s.dofjnt[k]
        hg = 1 if (ga and s.jgc[j]) else 0
        lim = 1 if (s.jlim[j] and s.jdof[j] == k) else 0
        linesG.append("jpost %s %d %s %d %s %s" % (q0[k], hg, gcb[k], lim, jrb[2 * j], jrb[2 * j + 1]))
    outG = call(linesG) if linesG else []
    qb = s.bits("qfrc_actuator")
    for k in range(s.nv):
        compare("qfrc_actuator[%d]" % k, outG[k], qb[k], linesG[k])
    stats["models_compared"] += 1
    if stats["models_compared"] <= 3 and s.nact:
        ctx.sample({"ident": ident, "lean_line": linesE[0][:200], "lean_bits": outE[0], "engine_actuator_force_bits": efb[s.outadr[0]]})


# ------------------------------------------------------------------------------------------ oracle
def clip(x, lo, hi):
    return lo if x < lo else (hi if x > hi else x)


def py_force(s, i, u):
    """documented SISO law + limits, recomputed in Python for fixed/affine gain and none/affine bias (None otherwise)"""
    g, b = GAIN.get(s.gaintype[i]), BIAS.get(s.biastype[i])
    if g not in ("fixed", "affine") or b not in ("none", "affine"):
        return None
    o = s.outadr[i]
    L, V = s.length[o], s.velocity[o]
    gp, bp = s.gainprm[10 * i:10 * i + 10], s.biasprm[10 * i:10 * i + 10]
    a = gp[0] if g == "fixed" else gp[0] + gp[1] * L + gp[2] * V
    inp = s.act[s.actadr[i]] if s.actnum[i] == 1 else u[s.ctrladr[i]]
    p = a * inp + ((bp[0] + bp[1] * L + bp[2] * V) if b == "affine" else 0.0)
    return p


def oracle(s, fail, rp, stats, extra):
    # local controls per the documentation: clamped unless disabled, all zero if one is bad
    u = [clip(s.ctrl[k], s.ctrlrange[2 * k], s.ctrlrange[2 * k + 1]) if (s.ctrllimited[k] and not s.clamp_disabled()) else s.ctrl[k]
         for k in range(s.nu)]
    if any((x != x or abs(x) > 1e10) for x in u):
        u = [0.0] * s.nu
    for i in range(s.nact):
        o = s.outadr[i]
        f = s.force[o]
        # O1 forcerange
        if s.forcelimited[i] and not s.disabled(i) and s.biastype[i] != E("mjBIAS_DCMOTOR") and s.gaintype[i] != E("mjGAIN_SO3"):
            lo, hi = s.forcerange[2 * i], s.forcerange[2 * i + 1]
            stats["forcerange_checked"] += 1
            if not (lo <= f <= hi):
                fail("c27:force-outside-forcerange", "actuator %d: actuator_force = %r outside forcerange [%r, %r]" % (i, f, lo, hi), dict(rp, actuator=i))
                return
        # O4 disabled groups
        if s.disabled(i):
            stats["disabled_checked"] += 1
            if f != 0:
                fail("c27:disabled-actuator-nonzero-force",
                     "actuator %d is in disabled group %d (opt.disableactuator = %d) but actuator_force = %r (forcelimited %d, forcerange [%r, %r])"
                     % (i, s.group[i], s.disact, f, s.forcelimited[i], s.forcerange[2 * i], s.forcerange[2 * i + 1]), dict(rp, actuator=i))
    # O7 affine law + limits, recomputed
    if all(s.modelled(i) for i in range(s.nact)):
        raw = {}
        for i in range(s.nact):
            p = py_force(s, i, u)
            raw[i] = 0.0 if s.disabled(i) else p
        if all(v is not None for v in raw.values()):
            if s.scaling_active():
                tot = {}
                for i in range(s.nact):
                    if s.trntype[i] == TRN_TENDON and s.tlim[s.trnid[2 * i]]:
                        tot[s.trnid[2 * i]] = tot.get(s.trnid[2 * i], 0.0) + raw[i]
                for i in range(s.nact):
                    if s.trntype[i] == TRN_TENDON and s.tlim[s.trnid[2 * i]]:
                        t = s.trnid[2 * i]
                        T, lo, hi = tot[t], s.trange[2 * t], s.trange[2 * t + 1]
                        if T != 0 and T < lo:
                            raw[i] *= lo / T
                        elif T != 0 and T > hi:
                            raw[i] *= hi / T
            for i in range(s.nact):
                e = clip(raw[i], s.forcerange[2 * i], s.forcerange[2 * i + 1]) if (s.forcelimited[i] and not s.disabled(i)) else raw[i]
                f = s.force[s.outadr[i]]
                sc = abs(e) + abs(f) + 1e-9
                stats["affine_law_checked"] += 1
                stats["max_dev_force"] = max(stats["max_dev_force"], abs(e - f) / sc)
                if abs(e - f) > RTOL * sc:
                    fail("c27:affine-law", "actuator %d: actuator_force = %r, documented law p = a*input + b0 + b1*l + b2*ldot with limits gives %r" % (i, f, e),
                         dict(rp, actuator=i))
                    return
    # O3 qfrc_actuator = moment' * force (+ actuator-routed gravcomp, joint clamp), dense recomputation
    q = [0.0] * s.nv
    for r in range(len(s.rownnz)):
        for a in range(s.rowadr[r], s.rowadr[r] + s.rownnz[r]):
            q[s.colind[a]] += s.moment[a] * s.force[r]
    ga = s.gravcomp_active()
    for j in range(s.njnt):
        if ga and s.jgc[j]:
            for k in range(s.jdof[j], s.jdof[j] + NDOF[s.jtype[j]]):
                q[k] += s.qgc[k]
    for j in range(s.njnt):
        if s.jlim[j]:
            k = s.jdof[j]
            q[k] = clip(q[k], s.jrange[2 * j], s.jrange[2 * j + 1])
            stats["jointrange_checked"] += 1
            if not (s.jrange[2 * j] <= s.qfrc[k] <= s.jrange[2 * j + 1]):
                fail("c27:jointforce-outside-actfrcrange", "joint %d: qfrc_actuator[%d] = %r outside actfrcrange [%r, %r]" % (j, k, s.qfrc[k], s.jrange[2 * j], s.jrange[2 * j + 1]),
                     dict(rp, joint=j))
                return
    sc = max([abs(x) for x in q + s.qfrc] + [1e-9])
    for k in range(s.nv):
        stats["max_dev_qfrc"] = max(stats["max_dev_qfrc"], abs(q[k] - s.qfrc[k]) / sc)
        if abs(q[k] - s.qfrc[k]) > RTOL * sc:
            fail("c27:qfrc-not-momentT-force", "qfrc_actuator[%d] = %r but moment' * force (+ gravcomp, joint clamp) = %r" % (k, s.qfrc[k], q[k]), dict(rp, dof=k))
            return
    stats["qfrc_checked"] += 1
    # O9 tendon total inside the range when no later clamp touches those actuators
    if s.scaling_active():
        for t in range(len(s.tlim)):
            mem = [i for i in range(s.nact) if s.trntype[i] == TRN_TENDON and s.trnid[2 * i] == t]
            if s.tlim[t] and mem and not any(s.forcelimited[i] for i in mem):
                T = sum(s.force[s.outadr[i]] for i in mem)
                lo, hi = s.trange[2 * t], s.trange[2 * t + 1]
                stats["tendon_total_checked"] += 1
                if not (lo - 1e-9 * (1 + abs(lo)) <= T <= hi + 1e-9 * (1 + abs(hi))):
                    fail("c27:tendon-total-outside-actfrcrange", "tendon %d: total actuator force %r outside actfrcrange [%r, %r]" % (t, T, lo, hi), dict(rp, tendon=t))
                    return
    # O5 clamp equivalence: controls beyond the limit act exactly like controls at the limit
    if extra.get("clamped_force") is not None and not s.clamp_disabled():
        stats["clamp_equivalence_checked"] += 1
        if extra["clamped_force"] != s.raw["actuator_force"] or extra["clamped_actdot"] != s.raw["act_dot"]:
            fail("c27:ctrl-not-clamped", "actuator_force / act_dot change when the controls are replaced by their clamped values (clamping enabled)",
                 dict(rp, clamped_ctrl=extra["clamped_ctrl"]))
            return
    # O6 activations stay inside actrange after a step
    if extra.get("act_after") is not None:
        for i in range(s.nact):
            if s.actnum[i] == 1 and s.actlimited[i] and s.dyntype[i] != E("mjDYN_DCMOTOR") and s.modelled(i):
                a = extra["act_after"][s.actadr[i]]
                stats["actrange_checked"] += 1
                if not (s.actrange[2 * i] <= a <= s.actrange[2 * i + 1]):
                    fail("c27:act-outside-actrange", "actuator %d: act = %r after mj_step, actrange [%r, %r]" % (i, a, s.actrange[2 * i], s.actrange[2 * i + 1]),
                         dict(rp, actuator=i))
                    return
    # O10 moment = d length / d qpos (scalar joints; joint / tendon transmissions)
    for (i, k, dl) in extra.get("fd", []):
        m = 0.0
        r = s.outadr[i]
        for a in range(s.rowadr[r], s.rowadr[r] + s.rownnz[r]):
            if s.colind[a] == k:
                m += s.moment[a]
        stats["moment_fd_checked"] += 1
        stats["max_dev_moment_fd"] = max(stats["max_dev_moment_fd"], abs(m - dl) / (1 + abs(m)))
        if abs(m - dl) > 1e-5 * (1 + abs(m)):
            fail("c27:moment-not-length-gradient", "actuator %d, dof %d: actuator_moment = %r but d length / d qpos = %r (central difference)" % (i, k, m, dl),
                 dict(rp, actuator=i, dof=k))
            return


def run_models(ctx, exe, drv, nmodels):
    stats = {"models": 0, "models_compared": 0, "models_outside_fragment": 0, "bitwise_cases": 0, "bitwise_bad": 0, "forcerange_checked": 0,
             "disabled_checked": 0, "affine_law_checked": 0, "jointrange_checked": 0, "qfrc_checked": 0, "tendon_total_checked": 0,
             "clamp_equivalence_checked": 0, "actrange_checked": 0, "moment_fd_checked": 0, "tendon_scaling_models": 0,
             "max_dev_force": 0.0, "max_dev_qfrc": 0.0, "max_dev_moment_fd": 0.0, "gain_types": {}, "bias_types": {}, "dyn_types": {},
             "trn_types": {}, "clamp_disabled_models": 0, "range_excludes_zero": 0}
    failures, mism = {}, []

    def fail(key, what, replay):
        failures[key] = failures.get(key, 0) + 1
        if failures[key] <= 3:
            ctx.oracle_failure(key, what, replay)

    EPS = 1e-6
    for mi in range(nmodels):
        mdl = make_model(ctx)
        if mdl.nu == 0 or mdl.nv == 0:
            continue
        rng = ctx.rng
        st = mdl.random_state(rng)
        # controls: beyond, at and inside the limits
        st["ctrl"] = [rng.choice((rng.uniform(-1.5, 1.5), rng.uniform(-3, 3), 0.0, 1.0, -1.0, 2.0)) for _ in range(mdl.nu)]
        text = mdl.text()
        R = Repl(exe)
        R.cmd("model\n" + text.rstrip("\n"), "model")
        for f in MODEL_FIELDS:
            R.cmd("getm " + f, ("m", f))
        R.cmd("data 0")
        for f in ("qpos", "qvel", "act", "ctrl"):
            if st[f]:
                R.cmd("set 0 %s %s" % (f, fmtv(st[f])))
        R.cmd("forward 0", "fwd")
        for f in DATA_FIELDS:
            R.cmd("get 0 " + f, ("s0", f))
        rc, out, res, err = R.run()
        rp = {"model": text, "state": {k: st[k] for k in ("qpos", "qvel", "act", "ctrl")},
              "how": "feed `model` + description, then `data 0`, `set 0 qpos|qvel|act|ctrl ...`, `forward 0`, `num 0 actuator_force`, `num 0 qfrc_actuator` to harness/c/engine_repl.c"}
        if rc != 0 or len(out) != len(R.cmds):
            fail("c27:engine-crash", "engine REPL crashed (rc=%s): %s" % (rc, err[-300:]), rp)
            continue
        if not res["model"].startswith("ok") or res["fwd"].startswith("error"):
            continue
        s = Snap(res, "s0")
        stats["models"] += 1
        stats["clamp_disabled_models"] += 1 if s.clamp_disabled() else 0
        stats["range_excludes_zero"] += mdl.info["range_excludes_zero"]
        for i in range(s.nact):
            for nm, tab, val in (("gain_types", GAIN, s.gaintype[i]), ("bias_types", BIAS, s.biastype[i]), ("dyn_types", DYN, s.dyntype[i])):
                stats[nm][tab.get(val, str(val))] = stats[nm].get(tab.get(val, str(val)), 0) + 1
            stats["trn_types"][str(s.trntype[i])] = stats["trn_types"].get(str(s.trntype[i]), 0) + 1
        # ---- T: stage-by-stage bitwise differential
        lean_differential(ctx, drv, s, stats, mism, mi)
        # ---- follow-up engine runs for the oracle
        extra = {}
        R2 = Repl(exe)
        R2.cmd("model\n" + text.rstrip("\n"), "model")
        R2.cmd("data 0")
        for f in ("qpos", "qvel", "act"):
            if st[f]:
                R2.cmd("set 0 %s %s" % (f, fmtv(st[f])))
        cc = [clip(s.ctrl[k], s.ctrlrange[2 * k], s.ctrlrange[2 * k + 1]) if s.ctrllimited[k] else s.ctrl[k] for k in range(s.nu)]
        R2.cmd("set 0 ctrl " + fmtv(cc))
        R2.cmd("forward 0")
        R2.cmd("get 0 actuator_force", "cf")
        R2.cmd("get 0 act_dot", "cd")
        R2.cmd("set 0 ctrl " + fmtv(st["ctrl"]))
        R2.cmd("step 0", "step")
        R2.cmd("get 0 act", "aa")
        fds = []
        for i in range(s.nact):
            if s.trntype[i] not in (TRN_JOINT, TRN_TENDON):
                continue
            for j in range(s.njnt):
                if s.jtype[j] in (JSLIDE, JHINGE) and len(fds) < 6 and rng.random() < 0.5:
                    fds.append((i, j))
        for (i, j) in fds:
            for sg in (1, -1):
                q = list(st["qpos"])
                q[s.jqadr[j]] += sg * EPS
                R2.cmd("set 0 qpos " + fmtv(q))
                R2.cmd("kinematics 0")
                R2.cmd("forward 0")
                R2.cmd("get 0 actuator_length", ("fd", i, j, sg))
        rc, out, res2, err = R2.run()
        if rc != 0 or len(out) != len(R2.cmds):
            fail("c27:engine-crash", "engine REPL crashed in the follow-up runs (rc=%s): %s" % (rc, err[-300:]), rp)
            continue
        extra["clamped_force"], extra["clamped_actdot"], extra["clamped_ctrl"] = res2["cf"], res2["cd"], cc
        if not res2["step"].startswith("error"):
            extra["act_after"] = F(res2["aa"])
        extra["fd"] = []
        for (i, j) in fds:
            lp, lm = F(res2[("fd", i, j, 1)])[s.outadr[i]], F(res2[("fd", i, j, -1)])[s.outadr[i]]
            extra["fd"].append((i, s.jdof[j], (lp - lm) / (2 * EPS)))
        oracle(s, fail, rp, stats, extra)
    stats["failure_keys"] = failures
    return stats, mism


def disabled_regression(ctx, exe):
    """directed regression input of the fixed defect c27:disabled-actuator-nonzero-force: group 0 disabled, forcerange [1, 2]"""
    desc = ["option disableactuator 1", "body 1 0", "name 1 b", "set 1 pos 0 0 1", "joint 2 1", "name 2 j", "set 2 type %d" % JHINGE,
            "geom 3 1", "set 3 type %d" % E("mjGEOM_SPHERE"), "set 3 size 0.1", "actuator 4", "name 4 a", "set 4 trntype %d" % TRN_JOINT,
            "set 4 target j", "set 4 forcelimited %d" % E("mjLIMITED_TRUE"), "set 4 forcerange 1 2", "set 4 group 0", "end"]
    cmds = ["data 0", "set 0 ctrl 0.3", "forward 0", "num 0 actuator_force", "num 0 qfrc_actuator"]
    inp = "model\n" + "\n".join(desc) + "\n" + "\n".join(cmds) + "\n"
    r = subprocess.run([exe], input=inp, capture_output=True, text=True, timeout=120)
    out = r.stdout.split("\n")
    ok = len(out) >= 6 and out[0].startswith("ok") and out[4].strip() == "1: 0" and out[5].strip() == "1: 0"
    if not ok:
        ctx.oracle_failure("c27:disabled-actuator-nonzero-force",
                           "regression input: actuator in disabled group 0 with forcerange [1, 2]: actuator_force / qfrc_actuator = %r (expected 0)" % (out[4:6],),
                           {"model": "\n".join(desc), "commands": cmds, "how": "feed `model` + description + commands to harness/c/engine_repl.c"})
    return {"actuator_force": out[4] if len(out) > 4 else None, "qfrc_actuator": out[5] if len(out) > 5 else None, "ok": ok}


# ------------------------------------------------------------------------------------------ muscle anchors on the real kernels
def muscle_anchor_oracle(ctx, khar, nsets):
    """documented anchor points of the muscle curves, evaluated on the REAL kernels (generic kernel harness)"""
    rng = ctx.rng
    lines, expect = [], []

    def bump(L, A, mid, B):
        left, right = 0.5 * (A + mid), 0.5 * (mid + B)
        if L <= A or L >= B:
            return 0.0
        if L < left:
            x = (L - A) / (left - A)
            return 0.5 * x * x
        if L < mid:
            x = (mid - L) / (mid - left)
            return 1 - 0.5 * x * x
        if L < right:
            x = (L - mid) / (right - mid)
            return 1 - 0.5 * x * x
        x = (B - L) / (B - right)
        return 0.5 * x * x

    for _ in range(nsets):
        lmin, lmax = rng.uniform(0.3, 0.8), rng.uniform(1.2, 2.0)
        vmax, fpmax, fvmax = rng.uniform(0.5, 3), rng.uniform(0.5, 2), rng.uniform(1.1, 1.8)
        force = rng.uniform(1, 500)
        # lengthrange [0,1], range [0,1]: L = len, L0 = 1, V = vel / vmax
        prm = [0.0, 1.0, force, 200.0, lmin, lmax, vmax, fpmax, fvmax]

        def gain(L, vel):
            return "mju_muscleGain " + " ".join(fbits(x) for x in [L, vel, 0.0, 1.0, 1.0] + prm[:7] + [prm[8]])

        def bias(L):
            return "mju_muscleBias " + " ".join(fbits(x) for x in [L, 0.0, 1.0, 1.0, prm[0], prm[1], prm[2], prm[3], prm[5], prm[7]])

        # (line, documented value, key, description)
        lines.append(gain(1.0, 0.0)); expect.append((-force, "c27:muscle-peak-active-force", "F0 = peak active force at optimal length and zero velocity"))
        lines.append(gain(1.0, -vmax)); expect.append((0.0, "c27:muscle-vmax", "vmax = shortening velocity at which the force drops to zero"))
        lines.append(gain(1.0, vmax * (fvmax - 1) * 1.5)); expect.append((-force * fvmax, "c27:muscle-fvmax", "fvmax = active force at saturating lengthening velocity"))
        lines.append(gain(lmin, 0.0)); expect.append((0.0, "c27:muscle-lmin", "lmin = lower end of the active range"))
        lines.append(gain(lmax, 0.0)); expect.append((0.0, "c27:muscle-lmax", "lmax = upper end of the active range"))
        lines.append(bias(1.0)); expect.append((0.0, "c27:muscle-passive-at-rest-length", "no passive force up to the optimal length"))
        lines.append(bias(lmax)); expect.append((-force * fpmax, "c27:muscle-passive-force-at-lmax-differs-from-doc",
                                                "fpmax = passive force generated at lmax, relative to the peak rest force (XMLreference; FLV.m: F_P(lmax) = fpmax)"))
        for _ in range(4):
            L = rng.uniform(lmin - 0.1, lmax + 0.1)
            lines.append("mju_muscleGainLength " + " ".join(fbits(x) for x in (L, lmin, lmax)))
            expect.append((bump(L, lmin, 1.0, lmax), "c27:muscle-length-curve", "F_L main bump of FLV.m: bump(L, lmin, 1, lmax)"))
    rc, out, err = ctx.run_lines([khar], lines)
    res = {"evaluated": len(lines), "failures": {}}
    if rc != 0 or len(out) != len(lines):
        ctx.oracle_failure("c27:kernel-harness-crash", "kernel harness crashed (rc=%s)" % rc, {"stderr": err[-300:]})
        return res
    for l, o, (want, key, desc) in zip(lines, out, expect):
        got = frombits(o.split()[0])
        if abs(got - want) > 1e-9 * (1 + abs(want)):
            res["failures"][key] = res["failures"].get(key, 0) + 1
            if res["failures"][key] <= 2:
                ctx.oracle_failure(key, "real kernel returns %r where the documentation gives %r (%s)" % (got, want, desc),
                                   {"kernel_line": l, "output_bits": o, "how": "echo '<kernel_line>' | kernels harness (.cache/gen/kernels_harness.c; arguments are IEEE bit patterns)",
                                    "arguments": [frombits(x) for x in l.split()[1:]]})
    return res


def run(ctx):
    import os
    quick = ctx.tier != "thorough"
    ctx.rule = ("generated models (motor / position / velocity / intvelocity / damper / cylinder / muscle / general actuators on joint, tendon and "
                "site transmissions; ctrl / force / act / tendon actfrc / joint actfrc limits; groups and opt.disableactuator; actuator-routed gravcomp; "
                "mjDSBL_CLAMPCTRL) at random states with controls beyond, at and inside the limits; a case is one (model, quantity) bit comparison; "
                "oracle per model: ranges, dense moment' * force, clamp equivalence, affine law, disabled groups, moment finite differences")
    import time
    T, t0 = {}, [time.time()]

    def lap(nm):
        T[nm] = round(time.time() - t0[0], 1)
        t0[0] = time.time()
        ctx.extra["stage_seconds"] = T
    manifest = kernelval.regen(ctx)
    lap("regen")
    ctx.lean_props(THEOREMS)
    lap("lean_props")
    kernelval.validate(ctx, manifest, KERNELS, 150 if quick else 2000, label="c2lean kernels used by the actuation model")
    lap("kernel_validation")
    drv = ctx.driver("drv_c27")
    exe = ctx.harness("harness/c/engine_repl.c", "engine_repl", deps=["harness/mjbuild.h"])
    if drv and exe:
        stats, mism = run_models(ctx, exe, drv, 50 if quick else 600)
        ok = stats["bitwise_bad"] == 0 and stats["bitwise_cases"] > 0
        ctx.oblige("correspondence Lean actuation model (Float) vs act_dot / actuator_force / qfrc_actuator of the real engine, bitwise, stage by stage (%d cases, %d models)"
                   % (stats["bitwise_cases"], stats["models_compared"]), "correspondence", ok, json.dumps(mism[:4])[:3000])
        ctx.disagreements += [dict(m, stream="actuation") for m in mism[:20]]
        ctx.extra["actuation_oracle"] = stats
        ctx.extra["disabled_regression_input"] = disabled_regression(ctx, exe)
        lap("engine_differential_and_oracle")
        ctx.extra["max_float_deviation"] = {"force_rel": stats["max_dev_force"], "qfrc_rel": stats["max_dev_qfrc"],
                                            "moment_fd_rel": stats["max_dev_moment_fd"], "tolerances": {"law": RTOL, "moment_fd": 1e-5}}
    hsrc = os.path.join(common.CACHE, "gen", "kernels_harness.c")
    khar = ctx.harness(os.path.relpath(hsrc, common.VERIF), "kernels_harness") if os.path.exists(hsrc) else None
    if khar:
        ctx.extra["muscle_anchor_oracle"] = muscle_anchor_oracle(ctx, khar, 10 if quick else 200)


if __name__ == "__main__":
    common.main(run, "C27")
