"""C27  Actuation follows the documented transmission and force laws (DESIGN.md §5.C27).

P  lean/MjProof/Props/C27.lean (over the reals): limited controls lie in ctrlrange (or all controls were zeroed because
   one was bad), mj_nextActivation keeps limited activations in actrange, the forcerange / tendon actfrcrange / joint
   actfrcrange limits hold at their stage, the SISO law p = a(w or u) + b0 + b1 l + b2 ldot, the generated muscle kernels
   equal the documented formulas where documentation and code agree (and provably differ where they do not), disabled
   groups give zero force when the forcerange contains 0, the sparse transpose product equals moment' * force;
   DELAYED CONTROLS: the local control of a delayed actuator is the clamp of the history-buffer read (mj_readCtrl /
   mju_historyRead modelled: circular search, extrapolation, exact match, zero-order hold, linear, cubic), so it lies in
   ctrlrange whatever raw controls the buffer holds (delayed_ctrl_in_range); actearly feeds mj_nextActivation (inside actrange).
T  (a) c2lean kernels (mju_clip, mju_max, mju_isBad, mju_sigmoid, mju_muscleGainLength, mju_muscleGain, mju_muscleBias,
       mju_muscleDynamicsTimescale, mju_muscleDynamics) regenerated and validated bitwise on every run;
   (b) per-actuator / per-dof differential against the REAL engine: parameters and state are read from mjModel / mjData
       through harness/c/engine_repl.c, fed to drv_c27 (the Lean model of Model/Actuation.lean on Float) stage by stage
       (control stage INCLUDING the source of each control — d->ctrl or the history buffer mj_step filled while a random
       control sequence was stepped through —, act_dot, mj_nextActivation of EVERY activation against act after a real mj_step
       from the same state (Euler / implicit integrators; also the actearly force input), unclamped force, tendon total-force limit, forcerange clamp, sparse moment' * force, joint
       post-processing) and compared BITWISE with act_dot, actuator_force and qfrc_actuator of mj_forward.
S  property oracle on the engine alone: range predicates, qfrc_actuator = moment' * force (+ actuator-routed gravcomp,
   joint clamp) recomputed densely in Python (1e-12), clamp equivalence (controls beyond the limit act like controls at
   the limit — for the whole stepped control sequence when delayed reads do not interpolate), the control every actuator
   demonstrably USED (recovered from act_dot / actuator_force) inside ctrlrange, delayed or not, documented act_dot and
   affine law recomputed independently per actuator (delayed sample and next activation recomputed in Python),
   activations inside actrange after 1 and after 21 mj_step calls from states whose limited activations start at, just
   inside or beyond the bounds (every dyntype gets actlimited; filters are made exact half of the time), act after one
   step = documented next activation, disabled groups give
   zero force, moment = d length / d qpos by finite differences (joint / tendon transmissions), documented anchor
   points of the muscle curves on the real kernels.
"""
import json
import math
import subprocess

from checks import common, kernelval
from gen.enums import E
from gen.models import ModelGen

META = {
    "technique": "hand-written executable Lean model of the per-actuator computations of mj_fwdActuation (source of every control: d->ctrl or, for a delayed actuator, mj_readCtrl / mju_historyRead of its history buffer with zero-order hold / linear / cubic interpolation; control clamp and bad-control zeroing AFTER that read; act_dot; actearly via mj_nextActivation; SISO gain/bias force law, disabled groups, tendon total-force limit, forcerange clamp, sparse moment-transpose product, actuator-routed gravcomp and joint actfrcrange clamp) over the law-free number class MjNum, built on c2lean-generated kernels (mju_clip, mju_max, mju_isBad, the five muscle kernels; regenerated and validated bitwise each run); documented formulas transcribed independently from doc/ into Spec/Muscle.lean; Lean 4 proofs over the reals (case splits on the spline knots, field_simp/ring, linarith, list induction for the sparse product); bitwise stage-by-stage differential of the Float instance against act_dot / actuator_force / qfrc_actuator of the real mj_forward on generated models (joint, tendon, site and slider-crank transmissions; actuators with control delays / history buffers of 1..7 samples and all three interpolation orders, filled by stepping a random control sequence through the real mj_step; actearly; activation limits on every stateful kind with activations starting at / beyond the bounds, act after a real mj_step compared bitwise with the model's mj_nextActivation for every activation); independent property oracle in Python and on the real kernels",
    "text": "Proved over the reals for the model (all inputs): a limited control, clamped, lies in ctrlrange and every entry of the control vector the forces use is that clamped control or 0 when some control was bad; with control delays the clamped quantity is the SOURCE of the control (the history-buffer read for a delayed actuator, d->ctrl otherwise), hence a limited delayed control lies in ctrlrange for every buffer content (ctrlStageDelayed_entry, delayed_ctrl_in_range; without delays the stage reduces to the plain one, ctrlStageDelayed_nodelay; a zero-order-hold read returns a stored sample, historyRead_zoh_mem); with actearly the force input is mj_nextActivation, inside actrange when limited; mj_nextActivation keeps a limited activation in actrange (DC motors exempt, as coded); after the forcerange clamp the force lies in forcerange, after the joint clamp qfrc_actuator lies in actfrcrange, after the tendon rescaling the total force of the actuators on a tendon lies in its actfrcrange; fixed/affine gain with none/affine bias give p = a(w or u) + b0 + b1 l + b2 ldot; integrator and filter act_dot are the documented ones; the generated muscle kernels equal the documented scaled length/velocity, F0, F_V, the main bump of F_L (knots included) and the Millard activation dynamics (act in [0,1], hard switching); an actuator in a disabled group yields zero force through all later stages for every forcerange (the clamp loop skips disabled actuators); the sparse transpose product as coded equals the dense moment' * force. Tied to /repo on every run by translation (kernels) and the bitwise stage-by-stage differential against the real engine.",
    "note": "Stated over the reals (rounding outside the proofs; the Float instance is compared bitwise). Not modelled (filtered out of the differential / not generated): the WRITING of history buffers (mju_historyInsert in mj_advance; the buffers the real mj_step produced are read back and fed to the model), servo setpoint wrapping on ball joints / rotational sites, PID / DC-motor / SO3 actuators, plugins, callbacks, sleeping. Transmission geometry (actuator_length, actuator_moment of joint / tendon / site / slider-crank transmissions; body transmissions are not generated) is oracle-only (finite differences; for site transmissions, with or without a reference site and with structured gear vectors -- zero translational part, zero rotational part, single component -- every moment row is recomputed per actuator alone as site Jacobian' * gear wrench from cdof and compared with actuator_moment / actuator_velocity, keys c27:site-moment-not-jacobianT-gear, c27:site-velocity-not-moment-qvel), as planned in DESIGN.md. The muscle theorems need non-degenerate parameters (every mjMAX(mjMINVAL, .) guard inactive; stated as hypotheses). FINDINGS: (1) documentation vs code: XMLreference documents fpmax as the passive force at lmax and doc/_static/FLV.m gives F_P(lmax) = fpmax, the code (C, MJX and Warp alike) gives 1.5 fpmax; FLV.m adds a second bump 0.15*bump(L, lmin, (lmin+0.95)/2, 0.95) to F_L that the code does not have (theorems muscleBias_differs_from_doc, muscleGainLength_differs_from_FLVm; oracle key c27:muscle-passive-force-at-lmax-differs-from-doc); (2) FIXED in /repo (ea3125434): the forcerange clamp used to be applied to actuators of disabled groups too, so a disabled actuator whose forcerange excluded 0 output the nearest bound instead of zero; model and theorem disabled_group_zero_force now follow the fixed code (zero force for every forcerange), the oracle key c27:disabled-actuator-nonzero-force stays and a directed regression input (group 0 disabled, forcerange [1, 2]) is evaluated on every run; (3) KNOWN (c27:ctrl-not-clamped:implicit-derivative): with implicit / implicitfast integrators a control beyond ctrlrange does not act like the control at the limit once a step is taken, because mjd_actuator_vel uses the raw d->ctrl (mj_fwdActuation itself clamps correctly: the same sequences are bitwise equivalent under Euler; same root cause as c25:qderiv:actuator:ctrl-outside-ctrlrange).",
}

P = "MjProof.C27."
THEOREMS = [P + t for t in (
    "ctrl_clamped_in_range", "ctrl_unlimited", "ctrlStage_entry", "act_in_actrange", "actdot_integrator", "actdot_filter",
    "force_in_forcerange", "force_clamp_noop", "jointforce_in_range", "tendon_total_in_range",
    "fixed_affine_eq_spec", "fixed_none_eq_spec", "affine_affine_eq_spec",
    "force_in_forcerange_enabled", "actuatorDisabled_iff", "disabled_group_zero_force", "clampStage_enabled",
    "ctrlSource_nodelay", "ctrlSource_delayed", "ctrlSources_get", "ctrlStageDelayed_entry", "delayed_ctrl_in_range",
    "ctrlStageDelayed_nodelay", "historyRead_zoh_mem", "actearly_input_in_actrange", "forceInput_late",
    "muscle_scaling", "muscleGainLength_eq_bump", "muscleGain_eq_spec", "muscleDynamics_eq_spec",
    "muscleBias_at_lmax", "muscleBias_differs_from_doc", "muscleGainLength_differs_from_FLVm",
    "qfrc_actuator_eq_momentT_force",
)]
KERNELS = ["mju_clip", "mju_max", "mju_min", "mju_sign", "mju_isBad", "mju_sigmoid", "mju_muscleGainLength", "mju_muscleGain",
           "mju_muscleBias", "mju_muscleDynamicsTimescale", "mju_muscleDynamics"]

fbits = kernelval.fbits
frombits = kernelval.frombits
RTOL = 1e-12
GAIN = {E("mjGAIN_FIXED"): "fixed", E("mjGAIN_AFFINE"): "affine", E("mjGAIN_MUSCLE"): "muscle", E("mjGAIN_USER"): "user"}
BIAS = {E("mjBIAS_NONE"): "none", E("mjBIAS_AFFINE"): "affine", E("mjBIAS_MUSCLE"): "muscle", E("mjBIAS_USER"): "user"}
DYN = {E("mjDYN_NONE"): "none", E("mjDYN_INTEGRATOR"): "integrator", E("mjDYN_FILTER"): "filter", E("mjDYN_FILTEREXACT"): "filterexact",
       E("mjDYN_MUSCLE"): "muscle", E("mjDYN_USER"): "user"}
TRN_JOINT, TRN_JIP, TRN_TENDON, TRN_SITE = E("mjTRN_JOINT"), E("mjTRN_JOINTINPARENT"), E("mjTRN_TENDON"), E("mjTRN_SITE")
TRN_CRANK = E("mjTRN_SLIDERCRANK")
JFREE, JBALL, JSLIDE, JHINGE = (E("mjJNT_FREE"), E("mjJNT_BALL"), E("mjJNT_SLIDE"), E("mjJNT_HINGE"))
NDOF = {JFREE: 6, JBALL: 3, JSLIDE: 1, JHINGE: 1}

PROFILE = {"nbody": (1, 5), "actuators": (1, 5), "sensors": (0, 0), "cameras": 0.0, "keys": 0.0, "numeric": 0.0, "mocap": 0.05,
           "contacts": 0.0, "plane": 0.0, "equalities": 0.0, "pairs": 0.0, "excludes": 0.0, "tendons": 0.7, "sites": 0.9,
           "free": 0.2, "ball": 0.15, "limits": 0.0, "frictionloss": 0.0, "gravcomp": 0.3, "energy": 0.0, "sleep": 0.0}


# ------------------------------------------------------------------------------------------ model generation
def make_model(ctx):
    rng = ctx.rng
    mdl = ModelGen(rng, PROFILE).make()
    lines, retarget = [], None
    info = {"tendon_targets": 0, "site_targets": 0, "slidercrank_targets": 0, "range_excludes_zero": 0, "refsite_targets": 0, "gear_structure": {}}
    for l in mdl.lines:
        t = l.split()
        if t[0] == "actuator":
            r = rng.random()
            retarget = None
            if r < 0.35 and mdl.tendons:
                retarget = ("tendon", rng.choice(mdl.tendons)["name"])
            elif r < 0.5 and mdl.sites:
                retarget = ("site", rng.choice(mdl.sites)["name"])
                if len(mdl.sites) >= 2 and rng.random() < 0.25:
                    retarget = retarget + (rng.choice([x for x in mdl.sites if x["name"] != retarget[1]])["name"],)
            elif r < 0.62 and len(mdl.sites) >= 2:
                a, b = rng.sample(mdl.sites, 2)
                retarget = ("slidercrank", a["name"], b["name"])
            lines.append(l)
            if rng.random() < 0.6:
                lines.append("set %s group %d" % (t[1], rng.randint(0, 4)))
            continue
        if retarget and len(t) >= 4 and t[0] == "set" and t[2] == "trntype":
            l = "set %s trntype %d" % (t[1], {"tendon": TRN_TENDON, "site": TRN_SITE, "slidercrank": TRN_CRANK}[retarget[0]])
            info[retarget[0] + "_targets"] += 1
        elif retarget and len(t) >= 4 and t[0] == "set" and t[2] == "target":
            l = "set %s target %s" % (t[1], retarget[1])
            if retarget[0] == "slidercrank":
                # rod longer than any site distance of these small models (det > 0) most of the time; sometimes short (det <= 0 branch)
                lines.append(l)
                lines.append("set %s slidersite %s" % (t[1], retarget[2]))
                l = "set %s cranklength %r" % (t[1], rng.choice((rng.uniform(2.0, 5.0), rng.uniform(2.0, 5.0), rng.uniform(0.05, 0.5))))
            elif retarget[0] == "site" and len(retarget) == 3:
                lines.append(l)
                l = "set %s refsite %s" % (t[1], retarget[2])
                info["refsite_targets"] += 1
        elif retarget and retarget[0] == "site" and len(t) >= 4 and t[0] == "set" and t[2] == "gear":
            # structured wrench gears: zero translational part, zero rotational part, a single component, sparse, dense
            gs = rng.choice(("rot-only", "rot-only", "trans-only", "single-rot", "single-trans", "sparse", "sparse", "dense"))
            nz = lambda: rng.choice((1.0, -1.0, rng.uniform(-2, 2)))
            if gs == "rot-only":
                gv = [0.0, 0.0, 0.0] + [nz() for _ in range(3)]
            elif gs == "trans-only":
                gv = [nz() for _ in range(3)] + [0.0, 0.0, 0.0]
            elif gs in ("single-rot", "single-trans"):
                gv = [0.0] * 6
                gv[rng.randrange(3) + (3 if gs == "single-rot" else 0)] = nz()
            elif gs == "sparse":
                gv = [rng.choice((0.0, rng.uniform(-2, 2))) for _ in range(6)]
            else:
                gv = [rng.uniform(-2, 2) for _ in range(6)]
            info["gear_structure"][gs] = info["gear_structure"].get(gs, 0) + 1
            l = "set %s gear %s" % (t[1], " ".join(repr(x) for x in gv))
        elif len(t) >= 4 and t[0] == "set" and t[2] == "group":
            continue      # the generator's own group line: replaced by ours above
        elif len(t) >= 5 and t[0] == "set" and t[2] == "forcerange" and rng.random() < 0.25:
            lo = rng.uniform(0.2, 1.0) * rng.choice((1, -1))
            l = "set %s forcerange %r %r" % ((t[1], lo, lo + rng.uniform(0.5, 3)) if lo > 0 else (t[1], lo - rng.uniform(0.5, 3), lo))
            info["range_excludes_zero"] += 1
        lines.append(l)
        if t[0] == "joint" and rng.random() < 0.25:
            lines.append("set %s actfrclimited %d" % (t[1], E("mjLIMITED_TRUE")))
            lines.append("set %s actfrcrange %r %r" % (t[1], -rng.uniform(0.2, 3), rng.uniform(0.2, 3)))
        if t[0] == "joint" and rng.random() < 0.2:
            lines.append("set %s actgravcomp 1" % t[1])
        if t[0] == "tendon" and rng.random() < 0.5:
            lines.append("set %s actfrclimited %d" % (t[1], E("mjLIMITED_TRUE")))
            lines.append("set %s actfrcrange %r %r" % (t[1], -rng.uniform(0.2, 3), rng.uniform(0.2, 3)))
    # delayed controls (history buffers) and actearly: appended `set` lines (the builder accepts them anywhere before `end`)
    dt = [float(l.split()[2]) for l in lines if l.startswith("option timestep ")]
    dt = dt[-1] if dt else 0.002
    handles = [l.split()[1] for l in lines if l.split()[0] == "actuator"]
    stateful = {l.split()[1] for l in lines if l.startswith("set ") and l.split()[2] == "dyntype"}
    info.update({"delayed": 0, "history_without_delay": 0, "actearly": 0, "interp": {}, "delay_steps": []})
    # activation limits on every kind of stateful actuator (the generator limits few of them) and exact filters
    info.update({"actlimited_added": 0, "filter_made_exact": 0})
    limited = {l.split()[1] for l in lines if l.startswith("set ") and l.split()[2] == "actlimited"}
    for k_, l in enumerate(lines):
        t = l.split()
        if t[0] == "set" and t[2] == "dyntype" and int(t[3]) == E("mjDYN_FILTER") and rng.random() < 0.5:
            lines[k_] = "set %s dyntype %d" % (t[1], E("mjDYN_FILTEREXACT"))
            info["filter_made_exact"] += 1
    for h in handles:
        if h in stateful and h not in limited and rng.random() < 0.6:
            lo = rng.choice((0.0, -rng.uniform(0.1, 1.0)))
            lines += ["set %s actlimited %d" % (h, E("mjLIMITED_TRUE")), "set %s actrange %r %r" % (h, lo, lo + rng.uniform(0.2, 1.5))]
            info["actlimited_added"] += 1
    for h in handles:
        r = rng.random()
        if r < 0.4:
            k = rng.choice((1, 2, 3, 0.5, 1.5, 2.5, rng.uniform(0.2, 6.5)))
            ns, ip = rng.randint(1, 7), rng.choice((0, 0, 1, 2))
            lines += ["set %s delay %r" % (h, k * dt), "set %s nsample %d" % (h, ns), "set %s interp %d" % (h, ip)]
            info["delayed"] += 1
            info["interp"][str(ip)] = info["interp"].get(str(ip), 0) + 1
            info["delay_steps"].append(round(k, 3))
        elif r < 0.5:
            lines += ["set %s nsample %d" % (h, rng.randint(1, 4)), "set %s interp %d" % (h, rng.choice((0, 1, 2)))]
            info["history_without_delay"] += 1
        if h in stateful and rng.random() < 0.35:
            lines.append("set %s actearly 1" % h)
            info["actearly"] += 1
    rng_of = {}
    for l in lines:
        t = l.split()
        if t[0] == "set" and t[2] == "actrange":
            rng_of[t[1]] = (float(t[3]), float(t[4]))
    lim_now = {l.split()[1] for l in lines if l.startswith("set ") and l.split()[2] == "actlimited"}
    info["act_ranges"] = [rng_of.get(h) if h in lim_now else None for h in handles if h in stateful]
    if rng.random() < 0.6:
        lines.append("option disableactuator %d" % rng.randint(1, 31))
    mdl.clampdisabled = rng.random() < 0.15
    if mdl.clampdisabled:
        lines = [("option disableflags %d" % (int(l.split()[2]) | E("mjDSBL_CLAMPCTRL"))) if l.startswith("option disableflags ") else l
                 for l in lines]
    mdl.lines = lines
    mdl.info = info
    return mdl


# ------------------------------------------------------------------------------------------ REPL plumbing
class Repl:
    def __init__(self, exe):
        self.exe, self.cmds, self.tags = exe, [], []

    def cmd(self, c, tag=None):
        self.cmds.append(c)
        self.tags.append(tag)

    def run(self):
        r = subprocess.run([self.exe], input="\n".join(self.cmds) + "\n", capture_output=True, text=True, timeout=1800)
        out = r.stdout.split("\n")
        if out and out[-1] == "":
            out.pop()
        res = {}
        for tg, o in zip(self.tags, out):
            if tg is not None:
                res[tg] = o
        return r.returncode, out, res, r.stderr


def toks(line):
    return line.split(":", 1)[1].split() if ":" in line else None


def F(line):
    return [frombits(x) for x in toks(line)]


def I(line):
    return [int(x) for x in toks(line)]


def fmtv(v):
    return " ".join(repr(float(x)) for x in v)


MODEL_FIELDS = ("actuator_gaintype", "actuator_biastype", "actuator_dyntype", "actuator_gainprm", "actuator_biasprm", "actuator_dynprm",
                "actuator_ctrlrange", "actuator_ctrllimited", "actuator_forcerange", "actuator_forcelimited", "actuator_actrange",
                "actuator_actlimited", "actuator_group", "actuator_actadr", "actuator_actnum", "actuator_ctrladr", "actuator_ctrlnum",
                "actuator_outadr", "actuator_outnum", "actuator_trntype", "actuator_trnid", "actuator_lengthrange", "actuator_acc0",
                "actuator_actearly", "actuator_delay", "actuator_history", "actuator_historyadr", "actuator_plugin", "tendon_actfrclimited", "tendon_actfrcrange",
                "jnt_actfrclimited", "jnt_actfrcrange", "jnt_actgravcomp", "jnt_dofadr", "jnt_qposadr", "jnt_type", "dof_jntid",
                "body_gravcomp", "actuator_gear", "site_bodyid", "body_rootid", "body_weldid", "body_dofadr", "body_dofnum", "dof_parentid",
                "opt.disableactuator", "opt.disableflags", "opt.integrator", "opt.enableflags", "opt.gravity", "opt.timestep")
DATA_FIELDS = ("ctrl", "act", "act_dot", "actuator_force", "actuator_length", "actuator_velocity", "actuator_moment", "moment_rownnz",
               "moment_rowadr", "moment_colind", "qfrc_actuator", "qfrc_gravcomp", "qpos", "history", "time",
               "qvel", "cdof", "subtree_com", "site_xpos", "site_xmat")
WARN_BAD = [E(w) for w in ("mjWARN_BADQPOS", "mjWARN_BADQVEL", "mjWARN_BADQACC", "mjWARN_BADCTRL")]
INT_RK4 = E("mjINT_RK4")


class Snap:
    def __init__(self, res, key):
        self.raw = {f: res[("m", f)] for f in MODEL_FIELDS}
        self.raw.update({f: res[(key, f)] for f in DATA_FIELDS})
        g = lambda f: F(self.raw[f])
        gi = lambda f: I(self.raw[f])
        self.gaintype, self.biastype, self.dyntype = gi("actuator_gaintype"), gi("actuator_biastype"), gi("actuator_dyntype")
        self.gainprm, self.biasprm, self.dynprm = g("actuator_gainprm"), g("actuator_biasprm"), g("actuator_dynprm")
        self.ctrlrange, self.ctrllimited = g("actuator_ctrlrange"), gi("actuator_ctrllimited")
        self.forcerange, self.forcelimited = g("actuator_forcerange"), gi("actuator_forcelimited")
        self.actrange, self.actlimited = g("actuator_actrange"), gi("actuator_actlimited")
        self.group, self.actadr, self.actnum = gi("actuator_group"), gi("actuator_actadr"), gi("actuator_actnum")
        self.ctrladr, self.ctrlnum, self.outadr, self.outnum = gi("actuator_ctrladr"), gi("actuator_ctrlnum"), gi("actuator_outadr"), gi("actuator_outnum")
        self.trntype, self.trnid = gi("actuator_trntype"), gi("actuator_trnid")
        self.lengthrange, self.acc0 = g("actuator_lengthrange"), g("actuator_acc0")
        self.actearly, self.delay, self.plugin = gi("actuator_actearly"), g("actuator_delay"), gi("actuator_plugin")
        self.tlim, self.trange = gi("tendon_actfrclimited"), g("tendon_actfrcrange")
        self.jlim, self.jrange, self.jgc = gi("jnt_actfrclimited"), g("jnt_actfrcrange"), gi("jnt_actgravcomp")
        self.jdof, self.jqadr, self.jtype, self.dofjnt = gi("jnt_dofadr"), gi("jnt_qposadr"), gi("jnt_type"), gi("dof_jntid")
        self.bgc = g("body_gravcomp")
        self.disact, self.dflags, self.grav = gi("opt.disableactuator")[0], gi("opt.disableflags")[0], g("opt.gravity")
        self.ctrl, self.act, self.act_dot = g("ctrl"), g("act"), g("act_dot")
        self.force, self.length, self.velocity = g("actuator_force"), g("actuator_length"), g("actuator_velocity")
        self.moment, self.rownnz, self.rowadr, self.colind = g("actuator_moment"), gi("moment_rownnz"), gi("moment_rowadr"), gi("moment_colind")
        self.qfrc, self.qgc, self.qpos = g("qfrc_actuator"), g("qfrc_gravcomp"), g("qpos")
        self.ahist, self.ahistadr, self.history, self.time = gi("actuator_history"), gi("actuator_historyadr"), g("history"), g("time")[0]
        self.timestep, self.integrator = g("opt.timestep")[0], gi("opt.integrator")[0]
        self.gear, self.site_bodyid, self.body_rootid, self.body_weldid = g("actuator_gear"), gi("site_bodyid"), gi("body_rootid"), gi("body_weldid")
        self.body_dofadr, self.body_dofnum, self.dof_parentid = gi("body_dofadr"), gi("body_dofnum"), gi("dof_parentid")
        self.qvel, self.cdof, self.subtree_com, self.site_xpos, self.site_xmat = g("qvel"), g("cdof"), g("subtree_com"), g("site_xpos"), g("site_xmat")
        self.nact, self.nv, self.nu, self.njnt = len(self.gaintype), len(self.qfrc), len(self.ctrl), len(self.jtype)

    def bits(self, f):
        return toks(self.raw[f])

    def hist(self, i):
        """history buffer of actuator i as (nsample, cursor, adr of times, adr of values) or None (layout of mjData.history:
        [user, cursor, times(n), values(n)] at actuator_historyadr[i]); None also when the cursor is not a valid index"""
        n = self.ahist[2 * i]
        if n <= 0:
            return None
        a = self.ahistadr[i]
        c = self.history[a + 1]
        if not (c == int(c) and 0 <= c < n):
            return None
        return n, int(c), a + 2, a + 2 + n

    def delayed(self, i):
        return self.delay[i] != 0

    def disabled(self, i):
        g = self.group[i]
        return 0 <= g <= 30 and bool(self.disact & (1 << g))

    def clamp_disabled(self):
        return bool(self.dflags & E("mjDSBL_CLAMPCTRL"))

    def gravcomp_active(self):
        gn = math.sqrt(sum(x * x for x in self.grav))
        return any(x != 0 for x in self.bgc) and not (self.dflags & E("mjDSBL_GRAVITY")) and gn != 0

    def modelled(self, i):
        """is actuator i inside the fragment Model/Actuation.lean models?"""
        if self.gaintype[i] not in GAIN or self.biastype[i] not in BIAS or self.dyntype[i] not in DYN:
            return False
        if self.plugin[i] >= 0 or self.ctrlnum[i] != 1 or self.outnum[i] != 1:
            return False
        if self.ahist[2 * i] > 0 and self.hist(i) is None:
            return False
        if self.delayed(i) and self.ahist[2 * i] <= 0:
            return False      # the compiler rejects delay without a buffer
        if self.actnum[i] not in (0, 1):
            return False
        # servo-shaped actuators on ball joints / sites with refsite wrap their setpoint (wrapPeriod > 0): not modelled
        if self.trntype[i] in (TRN_JOINT, TRN_JIP) and self.jtype[self.trnid[2 * i]] == JBALL:
            return False
        if self.trntype[i] == TRN_SITE and self.trnid[2 * i + 1] >= 0:
            return False
        return True

    def scaling_active(self):
        """tendon_frclimited as mj_fwdActuation computes it"""
        for i in range(self.nact):
            if self.disabled(i) or self.plugin[i] >= 0:
                continue
            if self.trntype[i] == TRN_TENDON and self.tlim[self.trnid[2 * i]]:
                return True
        return False


# ------------------------------------------------------------------------------------------ Lean differential
class LeanDrv:
    """one drv_c27 process for the whole run (the driver answers and flushes line by line)"""

    def __init__(self, exe):
        self.p = subprocess.Popen([exe], stdin=subprocess.PIPE, stdout=subprocess.PIPE, stderr=subprocess.DEVNULL, text=True, bufsize=1)
        self.lines = 0

    def call(self, lines):
        out = []
        for l in lines:
            try:
                self.p.stdin.write(l + "\n")
                self.p.stdin.flush()
                o = self.p.stdout.readline()
            except (BrokenPipeError, OSError) as e:
                raise common.Infra("drv_c27 died: %r" % (e,))
            if not o.endswith("\n"):
                raise common.Infra("drv_c27 stopped answering (rc=%r) at %r" % (self.p.poll(), l[:200]))
            o = o[:-1]
            if o == "bad-op":
                raise common.Infra("drv_c27 rejected %r" % l[:300])
            out.append(o)
        self.lines += len(lines)
        return out

    def close(self):
        try:
            self.p.stdin.close()
            self.p.wait(timeout=30)
        except Exception:
            self.p.kill()


def lean_differential(ctx, drv, s, stats, mism, ident, rp=None):
    call = drv.call

    def compare(what, got, want, line):
        stats["bitwise_cases"] += 1
        ctx.count((ident, what))
        if got != want:
            stats["bitwise_bad"] += 1
            if len(mism) < 20:
                mism.append(dict(ident=ident, what=what, line=line[:500], model=got, impl=want, replay=rp if len(mism) < 3 else None))

    if not all(s.modelled(i) for i in range(s.nact)):
        stats["models_outside_fragment"] += 1
        return
    cb, crb, hb = s.bits("ctrl"), s.bits("actuator_ctrlrange"), s.bits("history")
    dlb, tsb = s.bits("actuator_delay"), s.bits("opt.timestep")[0]
    # A: control stage — the source of every control (d->ctrl, or the history-buffer read of a delayed actuator), the
    #    clamp and the bad-control test, all inside the Lean model (ctrlStageDelayed)
    owner = {s.ctrladr[i]: i for i in range(s.nact)}
    if sorted(owner) != list(range(s.nu)):
        stats["models_outside_fragment"] += 1
        return
    ents = []
    for k in range(s.nu):
        i = owner[k]
        e = "%s %d %s %s %s %d" % (cb[k], 1 if s.ctrllimited[k] else 0, crb[2 * k], crb[2 * k + 1], dlb[i], s.ahist[2 * i + 1])
        h = s.hist(i)
        if h is None:
            e += " 0"
        else:
            n, cur, ta, va = h
            e += " %d %d %s %s" % (n, cur, " ".join(hb[ta:ta + n]), " ".join(hb[va:va + n]))
            if s.delayed(i):
                stats["delayed_reads"] += 1
        ents.append(e)
    lineA = "dctrl %d %s %d %s" % (1 if s.clamp_disabled() else 0, s.bits("time")[0], s.nu, " ".join(ents))
    u = call([lineA])[0].split()
    # B: act_dot, the force input (actearly: next activation) and the unclamped forces
    ab, lb, vb = s.bits("act"), s.bits("actuator_length"), s.bits("actuator_velocity")
    gp, bp, dp = s.bits("actuator_gainprm"), s.bits("actuator_biasprm"), s.bits("actuator_dynprm")
    lr, a0, arb = s.bits("actuator_lengthrange"), s.bits("actuator_acc0"), s.bits("actuator_actrange")
    adb = s.bits("act_dot")
    stateful = [i for i in range(s.nact) if s.actnum[i] == 1]
    linesB1 = ["actdot %s %s %s %s %s %s" % (DYN[s.dyntype[i]], dp[10 * i], dp[10 * i + 1], dp[10 * i + 2], u[s.ctrladr[i]], ab[s.actadr[i]])
               for i in stateful]
    outB1 = call(linesB1) if linesB1 else []
    actdot = {}
    for i, o, l in zip(stateful, outB1, linesB1):
        compare("act_dot[%d] (%s%s)" % (s.actadr[i], DYN[s.dyntype[i]], ", delayed ctrl" if s.delayed(i) else ""), o, adb[s.actadr[i]], l)
        actdot[i] = o
    early = [i for i in stateful if s.actearly[i]]
    linesB2 = ["nextact %d %d %s %s %s %s %s %s" % (s.dyntype[i], 1 if s.actlimited[i] else 0, arb[2 * i], arb[2 * i + 1], dp[10 * i], tsb,
                                                    ab[s.actadr[i]], actdot[i]) for i in stateful]
    nxt_all = dict(zip(stateful, call(linesB2))) if linesB2 else {}
    nxt = {i: nxt_all[i] for i in early}
    stats["actearly_inputs"] += len(early)
    # mj_nextActivation of EVERY activation against the real mj_step from this state (Euler / implicit integrators: mj_advance
    # applies it to (act, act_dot) of this very state; act_dot := 0 for an actuator of a disabled group; RK4 combines stages)
    if getattr(s, "act1_bits", None) is not None and s.integrator != INT_RK4:
        zb = fbits(0.0)
        dis = [i for i in stateful if s.disabled(i)]
        linesB3 = ["nextact %d %d %s %s %s %s %s %s" % (s.dyntype[i], 1 if s.actlimited[i] else 0, arb[2 * i], arb[2 * i + 1], dp[10 * i], tsb,
                                                        ab[s.actadr[i]], zb) for i in dis]
        nd = dict(zip(dis, call(linesB3))) if linesB3 else {}
        for i in stateful:
            compare("act[%d] after mj_step (%s%s%s)" % (s.actadr[i], DYN[s.dyntype[i]], ", actlimited" if s.actlimited[i] else "", ", disabled group" if i in nd else ""),
                    nd.get(i, nxt_all[i]), s.act1_bits[s.actadr[i]], (linesB3[dis.index(i)] if i in nd else linesB2[stateful.index(i)]))
            stats["nextact_compared"] += 1
    linesB = []
    for i in range(s.nact):
        inp = (nxt[i] if i in nxt else ab[s.actadr[i]]) if s.actnum[i] == 1 else u[s.ctrladr[i]]
        o = s.outadr[i]
        linesB.append("force %s %s %d %d %s %s %s %s %s %s %s %s" % (
            GAIN[s.gaintype[i]], BIAS[s.biastype[i]], s.group[i], s.disact, inp, lb[o], vb[o], lr[2 * o], lr[2 * o + 1], a0[o],
            " ".join(gp[10 * i:10 * i + 10]), " ".join(bp[10 * i:10 * i + 10])))
    f0 = dict(zip(range(s.nact), call(linesB)))
    # C/D: tendon total-force limit
    f1 = dict(f0)
    if s.scaling_active():
        trb = s.bits("tendon_actfrcrange")
        tends = sorted({s.trnid[2 * i] for i in range(s.nact) if s.trntype[i] == TRN_TENDON and s.tlim[s.trnid[2 * i]]})
        members = {t: [i for i in range(s.nact) if s.trntype[i] == TRN_TENDON and s.trnid[2 * i] == t] for t in tends}
        totals = call(["tsum %d %s" % (len(members[t]), " ".join(f0[i] for i in members[t])) for t in tends])
        linesD, tagD = [], []
        for t, tot in zip(tends, totals):
            for i in members[t]:
                linesD.append("tscale %s %s %s %s" % (tot, trb[2 * t], trb[2 * t + 1], f0[i]))
                tagD.append(i)
        for i, o in zip(tagD, call(linesD) if linesD else []):
            f1[i] = o
        stats["tendon_scaling_models"] += 1
    # E: forcerange clamp
    frb = s.bits("actuator_forcerange")
    linesE = ["fclamp %d %d %d %s %s %s" % (1 if s.forcelimited[i] else 0, s.group[i], s.disact, f1[i], frb[2 * i], frb[2 * i + 1]) for i in range(s.nact)]
    outE = call(linesE)
    efb = s.bits("actuator_force")
    for i in range(s.nact):
        compare("actuator_force[%d] (gain %s, bias %s, trn %d%s%s%s)" % (s.outadr[i], GAIN[s.gaintype[i]], BIAS[s.biastype[i]], s.trntype[i],
                                                                         ", disabled" if s.disabled(i) else "", ", delayed ctrl" if s.delayed(i) else "",
                                                                         ", actearly" if (s.actearly[i] and s.actnum[i] == 1) else ""),
                outE[i], efb[s.outadr[i]], linesE[i] + " | " + lineA[:300])
    # F: qfrc_actuator = moment' * force (engine's own force vector), then the joint post-processing
    mb = s.bits("actuator_moment")
    nout = len(s.rownnz)
    rows = []
    for r in range(nout):
        ent = "".join(" %d %s" % (s.colind[a], mb[a]) for a in range(s.rowadr[r], s.rowadr[r] + s.rownnz[r]))
        rows.append("%d%s %s" % (s.rownnz[r], ent, efb[r]))
    lineF = "qfrc %d %d %s" % (s.nv, nout, " ".join(rows))
    q0 = call([lineF])[0].split() if s.nv else []
    gcb, jrb = s.bits("qfrc_gravcomp"), s.bits("jnt_actfrcrange")
    ga = s.gravcomp_active()
    linesG = []
    for k in range(s.nv):
        j = s.dofjnt[k]
        hg = 1 if (ga and s.jgc[j]) else 0
        lim = 1 if (s.jlim[j] and s.jdof[j] == k) else 0
        linesG.append("jpost %s %d %s %d %s %s" % (q0[k], hg, gcb[k], lim, jrb[2 * j], jrb[2 * j + 1]))
    outG = call(linesG) if linesG else []
    qb = s.bits("qfrc_actuator")
    for k in range(s.nv):
        compare("qfrc_actuator[%d]" % k, outG[k], qb[k], linesG[k])
    stats["models_compared"] += 1
    if stats["models_compared"] <= 3 and s.nact:
        ctx.sample({"ident": ident, "lean_line": linesE[0][:200], "lean_bits": outE[0], "engine_actuator_force_bits": efb[s.outadr[0]]})


# ------------------------------------------------------------------------------------------ oracle
def clip(x, lo, hi):
    return lo if x < lo else (hi if x > hi else x)


MINVAL = 1e-15


def py_history_read(cursor, times, values, t, interp):
    """documented semantics of a delayed read (programming docs / mjmodel.h: interp 0 = zero-order hold, 1 = linear, 2 = cubic
    spline; constant extrapolation outside the buffer), written independently of the C code over the samples in logical
    (oldest -> newest) order"""
    n = len(times)
    order = [(cursor + 1 + k) % n for k in range(n)]
    T, V = [times[p] for p in order], [values[p] for p in order]
    if t <= T[0] + MINVAL:
        return V[0]
    if t >= T[-1] - MINVAL:
        return V[-1]
    i = next(k for k in range(n) if T[k] >= t)
    if abs(t - T[i]) < MINVAL:
        return V[i]
    lo, hi = i - 1, i
    if interp == 0:
        return V[lo]
    dt = T[hi] - T[lo]
    a = (t - T[lo]) / dt
    if interp == 1:
        return V[lo] + a * (V[hi] - V[lo])
    mlo = (V[hi] - V[lo - 1]) / (T[hi] - T[lo - 1]) if lo >= 1 else 0.0
    mhi = (V[hi + 1] - V[lo]) / (T[hi + 1] - T[lo]) if hi + 1 < n else 0.0
    a2, a3 = a * a, a * a * a
    return (2 * a3 - 3 * a2 + 1) * V[lo] + (a3 - 2 * a2 + a) * dt * mlo + (-2 * a3 + 3 * a2) * V[hi] + (a3 - a2) * dt * mhi


def py_ctrl_sources(s):
    """the control each actuator sees before clamping: d->ctrl, or the delayed sample of its history buffer"""
    src = list(s.ctrl)
    for i in range(s.nact):
        if s.delayed(i) and s.hist(i) is not None and s.ctrlnum[i] == 1:
            n, cur, ta, va = s.hist(i)
            src[s.ctrladr[i]] = py_history_read(cur, s.history[ta:ta + n], s.history[va:va + n], s.time - s.delay[i], s.ahist[2 * i + 1])
    return src


def py_next_act(s, i):
    """documented next activation of a SISO actuator (Euler, exact for filterexact), clamped to actrange when limited"""
    a, ad, h = s.act[s.actadr[i]], s.act_dot[s.actadr[i]], s.timestep
    if DYN.get(s.dyntype[i]) == "filterexact":
        tau = max(MINVAL, s.dynprm[10 * i])
        a = a + ad * tau * (1 - math.exp(-h / tau))
    else:
        a = a + ad * h
    return clip(a, s.actrange[2 * i], s.actrange[2 * i + 1]) if s.actlimited[i] else a


def py_force(s, i, u):
    """documented SISO law + limits, recomputed in Python for fixed/affine gain and none/affine bias (None otherwise)"""
    g, b = GAIN.get(s.gaintype[i]), BIAS.get(s.biastype[i])
    if g not in ("fixed", "affine") or b not in ("none", "affine"):
        return None
    o = s.outadr[i]
    L, V = s.length[o], s.velocity[o]
    gp, bp = s.gainprm[10 * i:10 * i + 10], s.biasprm[10 * i:10 * i + 10]
    a = gp[0] if g == "fixed" else gp[0] + gp[1] * L + gp[2] * V
    if s.actnum[i] == 1:
        inp = py_next_act(s, i) if s.actearly[i] else s.act[s.actadr[i]]
    else:
        inp = u[s.ctrladr[i]]
    p = a * inp + ((bp[0] + bp[1] * L + bp[2] * V) if b == "affine" else 0.0)
    return p


def effective_ctrl(s, i):
    """the control actuator i demonstrably USED, recovered from the engine's outputs alone (None when not recoverable):
    integrator: act_dot; filter: act + tau * act_dot; stateless fixed/affine gain with none/affine bias whose force was not
    touched by a later limit: (force - bias) / gain.  Returns (value, absolute tolerance)."""
    if s.actnum[i] == 1:
        a, ad = s.act[s.actadr[i]], s.act_dot[s.actadr[i]]
        d = DYN.get(s.dyntype[i])
        if d == "integrator":
            return ad, 0.0
        if d in ("filter", "filterexact"):
            tau = max(MINVAL, s.dynprm[10 * i])
            return a + tau * ad, 1e-9 * (1 + abs(a) + abs(tau * ad))
        return None
    if s.actnum[i] != 0 or s.disabled(i):
        return None
    g, b = GAIN.get(s.gaintype[i]), BIAS.get(s.biastype[i])
    if g not in ("fixed", "affine") or b not in ("none", "affine"):
        return None
    if s.trntype[i] == TRN_TENDON and s.tlim[s.trnid[2 * i]]:
        return None
    o = s.outadr[i]
    f, L, V = s.force[o], s.length[o], s.velocity[o]
    if s.forcelimited[i] and not (s.forcerange[2 * i] < f < s.forcerange[2 * i + 1]):
        return None
    gp, bp = s.gainprm[10 * i:10 * i + 10], s.biasprm[10 * i:10 * i + 10]
    a = gp[0] if g == "fixed" else gp[0] + gp[1] * L + gp[2] * V
    bias = (bp[0] + bp[1] * L + bp[2] * V) if b == "affine" else 0.0
    if abs(a) < 1e-3:
        return None
    return (f - bias) / a, 1e-9 * (1 + (abs(f) + abs(bias)) / abs(a))


def oracle(s, fail, rp, stats, extra):
    # local controls per the documentation: clamped unless disabled, all zero if one is bad
    # (a delayed actuator's control is the delayed sample of its history buffer; the buffer stores the raw user controls)
    src = py_ctrl_sources(s)
    u = [clip(src[k], s.ctrlrange[2 * k], s.ctrlrange[2 * k + 1]) if (s.ctrllimited[k] and not s.clamp_disabled()) else src[k]
         for k in range(s.nu)]
    zeroed = any((x != x or abs(x) > 1e10) for x in u)
    if zeroed:
        u = [0.0] * s.nu
    # O11 controls are clamped to ctrlrange, whatever their source: the control each actuator demonstrably used
    if not s.clamp_disabled() and not zeroed:
        for i in range(s.nact):
            k = s.ctrladr[i]
            if not (s.modelled(i) and s.ctrllimited[k]):
                continue
            ev = effective_ctrl(s, i)
            if ev is None:
                continue
            ue, tol = ev
            lo, hi = s.ctrlrange[2 * k], s.ctrlrange[2 * k + 1]
            stats["effective_ctrl_checked"] += 1
            stats["effective_ctrl_checked_delayed"] += 1 if s.delayed(i) else 0
            if not (lo - tol <= ue <= hi + tol):
                fail("c27:ctrl-outside-ctrlrange",
                     "actuator %d (%s): the control it used, recovered from act_dot / actuator_force, is %r, outside ctrlrange [%r, %r] with clamping enabled "
                     "(d->ctrl = %r, control before clamping per the documentation = %r)"
                     % (i, "delayed by %r s, nsample %d, interp %d" % (s.delay[i], s.ahist[2 * i], s.ahist[2 * i + 1]) if s.delayed(i) else "no delay",
                        ue, lo, hi, s.ctrl[k], src[k]), dict(rp, actuator=i))
                return
    for i in range(s.nact):
        o = s.outadr[i]
        f = s.force[o]
        # O1 forcerange
        if s.forcelimited[i] and not s.disabled(i) and s.biastype[i] != E("mjBIAS_DCMOTOR") and s.gaintype[i] != E("mjGAIN_SO3"):
            lo, hi = s.forcerange[2 * i], s.forcerange[2 * i + 1]
            stats["forcerange_checked"] += 1
            if not (lo <= f <= hi):
                fail("c27:force-outside-forcerange", "actuator %d: actuator_force = %r outside forcerange [%r, %r]" % (i, f, lo, hi), dict(rp, actuator=i))
                return
        # O4 disabled groups
        if s.disabled(i):
            stats["disabled_checked"] += 1
            if f != 0:
                fail("c27:disabled-actuator-nonzero-force",
                     "actuator %d is in disabled group %d (opt.disableactuator = %d) but actuator_force = %r (forcelimited %d, forcerange [%r, %r])"
                     % (i, s.group[i], s.disact, f, s.forcelimited[i], s.forcerange[2 * i], s.forcerange[2 * i + 1]), dict(rp, actuator=i))
    # O12 documented activation derivatives (integrator: u; filter / filterexact: (u - act) / tau) with the documented control
    for i in range(s.nact):
        d = DYN.get(s.dyntype[i])
        if not (s.modelled(i) and s.actnum[i] == 1 and d in ("integrator", "filter", "filterexact")):
            continue
        a, ad, ui = s.act[s.actadr[i]], s.act_dot[s.actadr[i]], u[s.ctrladr[i]]
        tau = max(MINVAL, s.dynprm[10 * i])
        e = ui if d == "integrator" else (ui - a) / tau
        sc = abs(e) + abs(ad) + 1e-9 + (0.0 if d == "integrator" else (abs(ui) + abs(a)) / tau)
        if s.delayed(i) and s.hist(i) is not None:
            n_, c_, ta_, va_ = s.hist(i)
            sc += 10 * max(abs(x) for x in s.history[va_:va_ + n_]) / (1.0 if d == "integrator" else tau)
        stats["actdot_law_checked"] += 1
        stats["actdot_law_checked_delayed"] += 1 if s.delayed(i) else 0
        if abs(e - ad) > RTOL * sc:
            fail("c27:actdot-law", "actuator %d (%s%s): act_dot = %r, documented derivative with the documented (clamped%s) control %r and act %r is %r"
                 % (i, d, ", delayed control" if s.delayed(i) else "", ad, ", delayed" if s.delayed(i) else "", ui, a, e), dict(rp, actuator=i))
            return
    # O7 affine law + limits, recomputed per actuator (an actuator whose law is not recomputed here — muscle, user — only
    #    removes itself and the actuators sharing a force-limited tendon with it)
    raw = {i: ((0.0 if s.disabled(i) else py_force(s, i, u)) if s.modelled(i) else None) for i in range(s.nact)}
    if s.scaling_active():
        tot = {}
        for i in range(s.nact):
            if s.trntype[i] == TRN_TENDON and s.tlim[s.trnid[2 * i]]:
                t = s.trnid[2 * i]
                tot[t] = None if (raw[i] is None or tot.get(t, 0.0) is None) else tot.get(t, 0.0) + raw[i]
        for i in range(s.nact):
            if s.trntype[i] == TRN_TENDON and s.tlim[s.trnid[2 * i]]:
                t = s.trnid[2 * i]
                T, lo, hi = tot[t], s.trange[2 * t], s.trange[2 * t + 1]
                if T is None:
                    raw[i] = None
                elif T != 0 and T < lo:
                    raw[i] *= lo / T
                elif T != 0 and T > hi:
                    raw[i] *= hi / T
    for i in range(s.nact):
        if raw[i] is None:
            continue
        e = clip(raw[i], s.forcerange[2 * i], s.forcerange[2 * i + 1]) if (s.forcelimited[i] and not s.disabled(i)) else raw[i]
        f = s.force[s.outadr[i]]
        sc = abs(e) + abs(f) + 1e-9
        if s.delayed(i) and s.hist(i) is not None:      # interpolated samples: rounding relative to the stored controls
            n_, c_, ta_, va_ = s.hist(i)
            sc += 10 * abs(s.gainprm[10 * i]) * max(abs(x) for x in s.history[va_:va_ + n_])
        if s.actearly[i] and s.actnum[i] == 1:
            sc += 10 * (abs(s.act[s.actadr[i]]) + abs(s.act_dot[s.actadr[i]]))
            stats["affine_law_checked_actearly"] += 1
        stats["affine_law_checked_delayed"] += 1 if s.delayed(i) else 0
        stats["affine_law_checked"] += 1
        stats["max_dev_force"] = max(stats["max_dev_force"], abs(e - f) / sc)
        if abs(e - f) > RTOL * sc:
            fail("c27:affine-law", "actuator %d%s%s: actuator_force = %r, documented law p = a*input + b0 + b1*l + b2*ldot with limits gives %r"
                 % (i, " (delayed control)" if s.delayed(i) else "", " (actearly)" if (s.actearly[i] and s.actnum[i] == 1) else "", f, e),
                 dict(rp, actuator=i))
            return
    # O3 qfrc_actuator = moment' * force (+ actuator-routed gravcomp, joint clamp), dense recomputation
    q = [0.0] * s.nv
    for r in range(len(s.rownnz)):
        for a in range(s.rowadr[r], s.rowadr[r] + s.rownnz[r]):
            q[s.colind[a]] += s.moment[a] * s.force[r]
    ga = s.gravcomp_active()
    for j in range(s.njnt):
        if ga and s.jgc[j]:
            for k in range(s.jdof[j], s.jdof[j] + NDOF[s.jtype[j]]):
                q[k] += s.qgc[k]
    for j in range(s.njnt):
        if s.jlim[j]:
            k = s.jdof[j]
            q[k] = clip(q[k], s.jrange[2 * j], s.jrange[2 * j + 1])
            stats["jointrange_checked"] += 1
            if not (s.jrange[2 * j] <= s.qfrc[k] <= s.jrange[2 * j + 1]):
                fail("c27:jointforce-outside-actfrcrange", "joint %d: qfrc_actuator[%d] = %r outside actfrcrange [%r, %r]" % (j, k, s.qfrc[k], s.jrange[2 * j], s.jrange[2 * j + 1]),
                     dict(rp, joint=j))
                return
    sc = max([abs(x) for x in q + s.qfrc] + [1e-9])
    for k in range(s.nv):
        stats["max_dev_qfrc"] = max(stats["max_dev_qfrc"], abs(q[k] - s.qfrc[k]) / sc)
        if abs(q[k] - s.qfrc[k]) > RTOL * sc:
            fail("c27:qfrc-not-momentT-force", "qfrc_actuator[%d] = %r but moment' * force (+ gravcomp, joint clamp) = %r" % (k, s.qfrc[k], q[k]), dict(rp, dof=k))
            return
    stats["qfrc_checked"] += 1
    # O9 tendon total inside the range when no later clamp touches those actuators
    if s.scaling_active():
        for t in range(len(s.tlim)):
            mem = [i for i in range(s.nact) if s.trntype[i] == TRN_TENDON and s.trnid[2 * i] == t]
            if s.tlim[t] and mem and not any(s.forcelimited[i] for i in mem):
                T = sum(s.force[s.outadr[i]] for i in mem)
                lo, hi = s.trange[2 * t], s.trange[2 * t + 1]
                stats["tendon_total_checked"] += 1
                if not (lo - 1e-9 * (1 + abs(lo)) <= T <= hi + 1e-9 * (1 + abs(hi))):
                    fail("c27:tendon-total-outside-actfrcrange", "tendon %d: total actuator force %r outside actfrcrange [%r, %r]" % (t, T, lo, hi), dict(rp, tendon=t))
                    return
    # O5 clamp equivalence: controls beyond the limit act exactly like controls at the limit
    if extra.get("clamped_force") is not None and not s.clamp_disabled():
        stats["clamp_equivalence_checked"] += 1
        if extra["clamped_force"] != s.raw["actuator_force"] or extra["clamped_actdot"] != s.raw["act_dot"]:
            # the control SEQUENCE was stepped through an implicit integrator: is the difference still there with Euler?  If not,
            # mj_fwdActuation clamps correctly and the unclamped control entered through the integrator's derivative
            # (mjd_actuator_vel reads the raw d->ctrl) — a distinct, recorded finding with its own key
            if extra.get("euler_equivalent") is not None and extra["euler_equivalent"]():
                stats["implicit_derivative_unclamped"] = stats.get("implicit_derivative_unclamped", 0) + 1
                fail("c27:ctrl-not-clamped:implicit-derivative",
                     "with an implicit integrator a control sequence and the same sequence clamped to ctrlrange (clamping enabled) lead to different "
                     "actuator_force / act_dot after the steps, while with the Euler integrator they are bitwise identical: the velocity derivative of the "
                     "actuator forces (mjd_actuator_vel) uses the raw, unclamped d->ctrl", dict(rp, clamped_ctrl=extra["clamped_ctrl"]))
            else:
                fail("c27:ctrl-not-clamped", "actuator_force / act_dot change when the controls (the whole control sequence, for delayed actuators) are "
                     "replaced by their clamped values (clamping enabled)", dict(rp, clamped_ctrl=extra["clamped_ctrl"]))
                return
    # O6 activations stay inside actrange after a step
    if extra.get("act_after") is not None:
        for i in range(s.nact):
            if s.actnum[i] == 1 and s.actlimited[i] and s.dyntype[i] != E("mjDYN_DCMOTOR") and s.modelled(i):
                a = extra["act_after"][s.actadr[i]]
                stats["actrange_checked"] += 1
                if not (s.actrange[2 * i] <= a <= s.actrange[2 * i + 1]):
                    fail("c27:act-outside-actrange", "actuator %d: act = %r after mj_step, actrange [%r, %r]" % (i, a, s.actrange[2 * i], s.actrange[2 * i + 1]),
                         dict(rp, actuator=i))
                    return
    # O6b from exactly this state: act after one mj_step and after 21 (control held) inside actrange; O13 act after one
    #     step = documented next activation (Euler; exact for filterexact), clamped to actrange (Euler / implicit integrators)
    for tag, arr in (("1 mj_step", s.act1), ("21 mj_step calls", s.act21)):
        if arr is None:
            continue
        for i in range(s.nact):
            if s.actnum[i] == 1 and s.actlimited[i] and s.dyntype[i] != E("mjDYN_DCMOTOR") and s.modelled(i):
                a = arr[s.actadr[i]]
                stats["actrange_checked"] += 1
                stats["actrange_checked_after_21_steps"] += 1 if arr is s.act21 else 0
                if not (s.actrange[2 * i] <= a <= s.actrange[2 * i + 1]):
                    fail("c27:act-outside-actrange", "actuator %d (%s%s): act = %r after %s from the replay state (act before = %r), actrange [%r, %r]"
                         % (i, DYN.get(s.dyntype[i]), ", actearly" if s.actearly[i] else "", a, tag, s.act[s.actadr[i]], s.actrange[2 * i], s.actrange[2 * i + 1]),
                         dict(rp, actuator=i, then="`step 0` (then `step 0 20`), `num 0 act`"))
                    return
    if s.act1 is not None and s.integrator != INT_RK4:
        for i in range(s.nact):
            if not (s.actnum[i] == 1 and s.modelled(i) and DYN.get(s.dyntype[i]) in ("integrator", "filter", "filterexact")) or s.disabled(i):
                continue
            e, a = py_next_act(s, i), s.act1[s.actadr[i]]
            sc = abs(e) + abs(a) + abs(s.act[s.actadr[i]]) + 1e-9
            stats["nextact_law_checked"] += 1
            if abs(e - a) > 1e-10 * sc:
                fail("c27:nextact-law", "actuator %d (%s%s): act after one mj_step = %r, documented next activation (clamped to actrange when limited) = %r "
                     "(act %r, act_dot %r, timestep %r)" % (i, DYN.get(s.dyntype[i]), ", actlimited" if s.actlimited[i] else "", a, e, s.act[s.actadr[i]],
                                                            s.act_dot[s.actadr[i]], s.timestep), dict(rp, actuator=i, then="`step 0`, `num 0 act`"))
                return
    # O10 moment = d length / d qpos (scalar joints; joint / tendon transmissions)
    for (i, k, dl) in extra.get("fd", []):
        m = 0.0
        r = s.outadr[i]
        for a in range(s.rowadr[r], s.rowadr[r] + s.rownnz[r]):
            if s.colind[a] == k:
                m += s.moment[a]
        stats["moment_fd_checked"] += 1
        stats["max_dev_moment_fd"] = max(stats["max_dev_moment_fd"], abs(m - dl) / (1 + abs(m)))
        if abs(m - dl) > 1e-5 * (1 + abs(m)):
            fail("c27:moment-not-length-gradient", "actuator %d, dof %d: actuator_moment = %r but d length / d qpos = %r (central difference)" % (i, k, m, dl),
                 dict(rp, actuator=i, dof=k))
            return


def py_site_jac(s, site):
    """translational / rotational Jacobian (3 x nv each) of a site from cdof and the dof ancestor chain (documented mj_jac construction)"""
    nv, body = s.nv, s.site_bodyid[site]
    jp, jr = [[0.0] * nv for _ in range(3)], [[0.0] * nv for _ in range(3)]
    root = s.body_rootid[body]
    off = [s.site_xpos[3 * site + k] - s.subtree_com[3 * root + k] for k in range(3)]
    b = s.body_weldid[body]
    chain = []
    if s.body_dofnum[b] > 0:
        i = s.body_dofadr[b] + s.body_dofnum[b] - 1
        while i >= 0:
            w, v = s.cdof[6 * i:6 * i + 3], s.cdof[6 * i + 3:6 * i + 6]
            cr = (w[1] * off[2] - w[2] * off[1], w[2] * off[0] - w[0] * off[2], w[0] * off[1] - w[1] * off[0])
            for k in range(3):
                jr[k][i], jp[k][i] = w[k], v[k] + cr[k]
            chain.append(i)
            i = s.dof_parentid[i]
    return jp, jr, chain


def py_site_moment(s, i):
    """analytic moment row (dense, nv) of site transmission i, computed for this actuator alone: Jacobian' * (frame * gear); with a
    reference site the Jacobian is the difference of the two sites' Jacobians without their common ancestral dofs, the frame is the refsite's"""
    site, ref = s.trnid[2 * i], s.trnid[2 * i + 1]
    g = s.gear[6 * i:6 * i + 6]
    jp, jr, chain = py_site_jac(s, site)
    fr = site
    if ref >= 0:
        jp1, jr1, chain1 = py_site_jac(s, ref)
        common = set(chain) & set(chain1)
        for k in range(3):
            for j in range(s.nv):
                jp[k][j], jr[k][j] = (0.0, 0.0) if j in common else (jp[k][j] - jp1[k][j], jr[k][j] - jr1[k][j])
        fr = ref
    R = s.site_xmat[9 * fr:9 * fr + 9]
    wt = [sum(R[3 * k + c] * g[c] for c in range(3)) for k in range(3)]
    wr = [sum(R[3 * k + c] * g[3 + c] for c in range(3)) for k in range(3)]
    return [sum(jp[k][j] * wt[k] + jr[k][j] * wr[k] for k in range(3)) for j in range(s.nv)]


def oracle_site_moment(s, fail, rp, stats):
    """O12 every site transmission row, independently per actuator: actuator_moment = site Jacobian' * gear wrench, actuator_velocity =
    that row * qvel (whatever the other actuators of the model are and in whatever order they are evaluated)"""
    if not all(math.isfinite(x) for x in s.cdof + s.qvel + s.site_xpos + s.site_xmat + s.subtree_com + s.moment):
        return
    for i in range(s.nact):
        if s.trntype[i] != TRN_SITE or s.outnum[i] != 1 or s.plugin[i] >= 0:
            continue
        want = py_site_moment(s, i)
        got = [0.0] * s.nv
        r = s.outadr[i]
        for a in range(s.rowadr[r], s.rowadr[r] + s.rownnz[r]):
            got[s.colind[a]] += s.moment[a]
        g = s.gear[6 * i:6 * i + 6]
        cls = ("refsite:" if s.trnid[2 * i + 1] >= 0 else "") + ("zero" if not any(g) else "rot-only" if not any(g[:3]) else "trans-only" if not any(g[3:]) else "mixed")
        stats["site_moment_checked"][cls] = stats["site_moment_checked"].get(cls, 0) + 1
        stats["site_moment_checked_after"][str(s.trntype[i - 1]) if i else "first"] = stats["site_moment_checked_after"].get(str(s.trntype[i - 1]) if i else "first", 0) + 1
        sc = 1 + max(abs(x) for x in want + got)
        dev = max(abs(a - b) for a, b in zip(want, got)) / sc
        stats["max_dev_site_moment"] = max(stats["max_dev_site_moment"], dev)
        if dev > 1e-9:
            k = max(range(s.nv), key=lambda j: abs(want[j] - got[j]))
            fail("c27:site-moment-not-jacobianT-gear", "actuator %d (site transmission%s, gear %r, evaluated after transmission type %s): actuator_moment[dof %d] = %r "
                 "but site Jacobian' * gear wrench = %r" % (i, " with refsite" if s.trnid[2 * i + 1] >= 0 else "", g, s.trntype[i - 1] if i else "none", k, got[k], want[k]),
                 dict(rp, actuator=i, dof=k, then="`num 0 actuator_moment`, `num 0 moment_colind`, `num 0 moment_rowadr`"))
            return
        terms = [want[j] * s.qvel[j] for j in range(s.nv)]
        vsc = 1 + sum(abs(x) for x in terms)
        if abs(s.velocity[r] - sum(terms)) > 1e-9 * vsc:
            fail("c27:site-velocity-not-moment-qvel", "actuator %d (site transmission): actuator_velocity = %r but (site Jacobian' * gear wrench) . qvel = %r"
                 % (i, s.velocity[r], sum(terms)), dict(rp, actuator=i, then="`num 0 actuator_velocity`"))
            return


def run_models(ctx, exe, drv, nmodels):
    stats = {"models": 0, "models_compared": 0, "models_outside_fragment": 0, "bitwise_cases": 0, "bitwise_bad": 0, "forcerange_checked": 0,
             "disabled_checked": 0, "affine_law_checked": 0, "jointrange_checked": 0, "qfrc_checked": 0, "tendon_total_checked": 0,
             "clamp_equivalence_checked": 0, "actrange_checked": 0, "moment_fd_checked": 0, "tendon_scaling_models": 0,
             "site_moment_checked": {}, "site_moment_checked_after": {}, "max_dev_site_moment": 0.0, "refsite_targets": 0, "gear_structure": {},
             "max_dev_force": 0.0, "max_dev_qfrc": 0.0, "max_dev_moment_fd": 0.0, "gain_types": {}, "bias_types": {}, "dyn_types": {},
             "trn_types": {}, "clamp_disabled_models": 0, "range_excludes_zero": 0,
             "delayed_reads": 0, "actearly_inputs": 0, "effective_ctrl_checked": 0, "effective_ctrl_checked_delayed": 0,
             "affine_law_checked_delayed": 0, "affine_law_checked_actearly": 0, "actdot_law_checked": 0, "actdot_law_checked_delayed": 0, "models_with_history": 0, "preroll_steps": {},
             "delayed_actuators": 0, "history_without_delay": 0, "actearly_actuators": 0, "interp": {}, "delay_in_timesteps": {},
             "clamp_equivalence_skipped_interpolating": 0, "act_at_or_beyond_bound": 0, "nextact_compared": 0, "nextact_law_checked": 0,
             "actrange_checked_after_21_steps": 0, "steps_with_bad_warnings_skipped": 0, "limited_activations": 0, "dyn_limited": {}}
    failures, mism = {}, []
    drv = LeanDrv(drv)

    def fail(key, what, replay):
        failures[key] = failures.get(key, 0) + 1
        if failures[key] <= 3:
            ctx.oracle_failure(key, what, replay)

    EPS = 1e-6
    for mi in range(nmodels):
        mdl = make_model(ctx)
        if mdl.nu == 0 or mdl.nv == 0:
            continue
        rng = ctx.rng
        st = mdl.random_state(rng)
        # controls: beyond, at and inside the limits
        def rctrl():
            return [rng.choice((rng.uniform(-1.5, 1.5), rng.uniform(-3, 3), 0.0, 1.0, -1.0, 2.0)) for _ in range(mdl.nu)]
        st["ctrl"] = rctrl()
        # activations: half of the limited ones start at, just inside or beyond a bound of actrange
        ar = mdl.info["act_ranges"]
        if len(ar) == len(st["act"]):
            for k_, r_ in enumerate(ar):
                if r_ is not None and rng.random() < 0.5:
                    lo_, hi_ = r_
                    w_ = hi_ - lo_
                    st["act"][k_] = rng.choice((lo_, hi_, lo_ + 1e-3 * w_, hi_ - 1e-3 * w_, lo_ - rng.uniform(0, 0.3), hi_ + rng.uniform(0, 0.3)))
                    stats["act_at_or_beyond_bound"] += 1
        # models with history buffers: a control sequence is stepped through first (mj_step fills the buffers with the raw controls)
        has_hist = mdl.info["delayed"] + mdl.info["history_without_delay"] > 0
        pre = [rctrl() for _ in range(rng.choice((0, 1, 2, 3, 5, 8, 12)))] if has_hist else []
        text = mdl.text()
        R = Repl(exe)
        R.cmd("model\n" + text.rstrip("\n"), "model")
        for f in MODEL_FIELDS:
            R.cmd("getm " + f, ("m", f))
        R.cmd("data 0")
        for f in ("qpos", "qvel", "act"):
            if st[f]:
                R.cmd("set 0 %s %s" % (f, fmtv(st[f])))
        for j, c in enumerate(pre):
            R.cmd("set 0 ctrl " + fmtv(c))
            R.cmd("step 0", ("pre", j))
        R.cmd("set 0 ctrl " + fmtv(st["ctrl"]))
        R.cmd("forward 0", "fwd")
        for f in DATA_FIELDS:
            R.cmd("get 0 " + f, ("s0", f))
        # one mj_step from exactly this state (act must become mj_nextActivation(act, act_dot)), then 20 more with the control held
        R.cmd("step 0", "step1")
        R.cmd("get 0 act", "act1")
        for w in WARN_BAD:
            R.cmd("scalar 0 warn.%d" % w, ("w1", w))
        R.cmd("step 0 20", "step21")
        R.cmd("get 0 act", "act21")
        for w in WARN_BAD:
            R.cmd("scalar 0 warn.%d" % w, ("w21", w))
        rc, out, res, err = R.run()
        rp = {"model": text, "state": {k: st[k] for k in ("qpos", "qvel", "act", "ctrl")}, "preroll_ctrl": pre,
              "how": "feed `model` + description, then `data 0`, `set 0 qpos|qvel|act ...`, for every vector of preroll_ctrl `set 0 ctrl ...` + `step 0`, "
                     "then `set 0 ctrl <state.ctrl>`, `forward 0`, `num 0 actuator_force`, `num 0 act_dot`, `num 0 qfrc_actuator` to harness/c/engine_repl.c"}
        if rc != 0 or len(out) != len(R.cmds):
            fail("c27:engine-crash", "engine REPL crashed (rc=%s): %s" % (rc, err[-300:]), rp)
            continue
        if not res["model"].startswith("ok") or res["fwd"].startswith("error") or any(res[("pre", j)].startswith("error") for j in range(len(pre))):
            stats["models_rejected"] = stats.get("models_rejected", 0) + 1
            continue
        s = Snap(res, "s0")
        stats["models"] += 1
        stats["clamp_disabled_models"] += 1 if s.clamp_disabled() else 0
        stats["range_excludes_zero"] += mdl.info["range_excludes_zero"]
        stats["refsite_targets"] += mdl.info["refsite_targets"]
        for k_, v_ in mdl.info["gear_structure"].items():
            stats["gear_structure"][k_] = stats["gear_structure"].get(k_, 0) + v_
        stats["models_with_history"] += 1 if has_hist else 0
        if has_hist:
            stats["preroll_steps"][str(len(pre))] = stats["preroll_steps"].get(str(len(pre)), 0) + 1
        stats["delayed_actuators"] += mdl.info["delayed"]
        stats["history_without_delay"] += mdl.info["history_without_delay"]
        stats["actearly_actuators"] += mdl.info["actearly"]
        for k_, v_ in mdl.info["interp"].items():
            stats["interp"][k_] = stats["interp"].get(k_, 0) + v_
        for k_ in mdl.info["delay_steps"]:
            b_ = "integer" if k_ == int(k_) else ("half" if 2 * k_ == int(2 * k_) else "other")
            stats["delay_in_timesteps"][b_] = stats["delay_in_timesteps"].get(b_, 0) + 1
        for i in range(s.nact):
            for nm, tab, val in (("gain_types", GAIN, s.gaintype[i]), ("bias_types", BIAS, s.biastype[i]), ("dyn_types", DYN, s.dyntype[i])):
                stats[nm][tab.get(val, str(val))] = stats[nm].get(tab.get(val, str(val)), 0) + 1
            stats["trn_types"][str(s.trntype[i])] = stats["trn_types"].get(str(s.trntype[i]), 0) + 1
        # ---- T: stage-by-stage bitwise differential
        clean1 = not res["step1"].startswith("error") and all(res[("w1", w)].strip() == "0" for w in WARN_BAD)
        clean21 = clean1 and not res["step21"].startswith("error") and all(res[("w21", w)].strip() == "0" for w in WARN_BAD)
        if not clean21:
            stats["steps_with_bad_warnings_skipped"] += 1
        s.act1_bits = toks(res["act1"]) if clean1 else None
        s.act1 = F(res["act1"]) if clean1 else None
        s.act21 = F(res["act21"]) if clean21 else None
        for i in range(s.nact):
            if s.actnum[i] == 1 and s.actlimited[i]:
                stats["limited_activations"] += 1
                d_ = DYN.get(s.dyntype[i], str(s.dyntype[i]))
                stats["dyn_limited"][d_] = stats["dyn_limited"].get(d_, 0) + 1
        # structure of the sparse moment matrix: every row inside the allocated arrays, column indices are dofs (a transmission row
        # with more non-zeros than the compile-time sparsity overruns its neighbours)
        nJ = min(len(s.moment), len(s.colind))
        badrow = [r for r in range(len(s.rownnz)) if not (0 <= s.rowadr[r] and 0 <= s.rownnz[r] and s.rowadr[r] + s.rownnz[r] <= nJ
                                                          and all(0 <= s.colind[a] < s.nv for a in range(s.rowadr[r], s.rowadr[r] + s.rownnz[r])))]
        if len(s.rownnz) != len(s.rowadr) or badrow:
            fail("c27:moment-row-outside-sparse-structure", "actuator_moment row(s) %r: moment_rowadr %r + moment_rownnz %r leave the %d allocated entries or "
                 "moment_colind is not a dof index (nv = %d)" % (badrow[:4], s.rowadr, s.rownnz, nJ, s.nv), dict(rp, then="`num 0 moment_rownnz`, `num 0 moment_rowadr`, `num 0 moment_colind`"))
            continue
        lean_differential(ctx, drv, s, stats, mism, mi, rp)
        # ---- follow-up engine runs for the oracle
        extra = {}
        R2 = Repl(exe)
        R2.cmd("model\n" + text.rstrip("\n"), "model")
        R2.cmd("data 0")
        for f in ("qpos", "qvel", "act"):
            if st[f]:
                R2.cmd("set 0 %s %s" % (f, fmtv(st[f])))
        clampv = lambda v: [clip(v[k], s.ctrlrange[2 * k], s.ctrlrange[2 * k + 1]) if s.ctrllimited[k] else v[k] for k in range(s.nu)]
        # clamp equivalence over the whole control sequence holds when no delayed read interpolates (clip does not commute with
        # interpolation between raw samples): zero-order hold only
        equiv = not any(s.delayed(i) and s.ahist[2 * i + 1] != 0 for i in range(s.nact))
        if not equiv:
            stats["clamp_equivalence_skipped_interpolating"] += 1
        for j, c in enumerate(pre):
            R2.cmd("set 0 ctrl " + fmtv(clampv(c) if equiv else c))
            R2.cmd("step 0")
        cc = clampv(s.ctrl)
        R2.cmd("set 0 ctrl " + fmtv(cc))
        R2.cmd("forward 0")
        R2.cmd("get 0 actuator_force", "cf")
        R2.cmd("get 0 act_dot", "cd")
        R2.cmd("set 0 ctrl " + fmtv(st["ctrl"]))
        R2.cmd("step 0", "step")
        R2.cmd("get 0 act", "aa")
        fds = []
        for i in range(s.nact):
            if s.trntype[i] not in (TRN_JOINT, TRN_TENDON, TRN_CRANK):
                continue
            for j in range(s.njnt):
                if s.jtype[j] in (JSLIDE, JHINGE) and len(fds) < 6 and rng.random() < 0.5:
                    fds.append((i, j))
        for (i, j) in fds:
            for sg in (1, -1):
                q = list(s.qpos)
                q[s.jqadr[j]] += sg * EPS
                R2.cmd("set 0 qpos " + fmtv(q))
                R2.cmd("kinematics 0")
                R2.cmd("forward 0")
                R2.cmd("get 0 actuator_length", ("fd", i, j, sg))
        rc, out, res2, err = R2.run()
        if rc != 0 or len(out) != len(R2.cmds):
            fail("c27:engine-crash", "engine REPL crashed in the follow-up runs (rc=%s): %s" % (rc, err[-300:]), rp)
            continue
        if equiv:
            extra["clamped_force"], extra["clamped_actdot"], extra["clamped_ctrl"] = res2["cf"], res2["cd"], cc
            if pre and s.integrator in (E("mjINT_IMPLICIT"), E("mjINT_IMPLICITFAST")):
                def euler_equivalent(text=text, st=st, pre=pre, cc=cc, clampv=clampv):
                    outs = []
                    for cl in (False, True):
                        R3 = Repl(exe)
                        R3.cmd("model\n" + text.rstrip("\n"))
                        R3.cmd("setm opt.integrator %d" % E("mjINT_EULER"), "setm")
                        R3.cmd("data 0")
                        for f in ("qpos", "qvel", "act"):
                            if st[f]:
                                R3.cmd("set 0 %s %s" % (f, fmtv(st[f])))
                        for c in pre:
                            R3.cmd("set 0 ctrl " + fmtv(clampv(c) if cl else c))
                            R3.cmd("step 0")
                        R3.cmd("set 0 ctrl " + fmtv(cc if cl else st["ctrl"]))
                        R3.cmd("forward 0")
                        R3.cmd("get 0 actuator_force", "f")
                        R3.cmd("get 0 act_dot", "d")
                        rc3, out3, res3, _ = R3.run()
                        if rc3 != 0 or len(out3) != len(R3.cmds) or res3["setm"] != "ok":
                            return False
                        outs.append((res3["f"], res3["d"]))
                    return outs[0] == outs[1]
                extra["euler_equivalent"] = euler_equivalent
        if not res2["step"].startswith("error"):
            extra["act_after"] = F(res2["aa"])
        extra["fd"] = []
        for (i, j) in fds:
            lp, lm = F(res2[("fd", i, j, 1)])[s.outadr[i]], F(res2[("fd", i, j, -1)])[s.outadr[i]]
            extra["fd"].append((i, s.jdof[j], (lp - lm) / (2 * EPS)))
        if not all(math.isfinite(x) for x in s.force + s.qfrc + s.act_dot + s.act + s.length + s.velocity + s.history):
            stats["nonfinite_models_skipped_by_oracle"] = stats.get("nonfinite_models_skipped_by_oracle", 0) + 1
            continue
        oracle(s, fail, rp, stats, extra)
        oracle_site_moment(s, fail, rp, stats)
    stats["failure_keys"] = failures
    stats["lean_driver_lines"] = drv.lines
    drv.close()
    return stats, mism


def disabled_regression(ctx, exe):
    """directed regression input of the fixed defect c27:disabled-actuator-nonzero-force: group 0 disabled, forcerange [1, 2]"""
    desc = ["option disableactuator 1", "body 1 0", "name 1 b", "set 1 pos 0 0 1", "joint 2 1", "name 2 j", "set 2 type %d" % JHINGE,
            "geom 3 1", "set 3 type %d" % E("mjGEOM_SPHERE"), "set 3 size 0.1", "actuator 4", "name 4 a", "set 4 trntype %d" % TRN_JOINT,
            "set 4 target j", "set 4 forcelimited %d" % E("mjLIMITED_TRUE"), "set 4 forcerange 1 2", "set 4 group 0", "end"]
    cmds = ["data 0", "set 0 ctrl 0.3", "forward 0", "num 0 actuator_force", "num 0 qfrc_actuator"]
    inp = "model\n" + "\n".join(desc) + "\n" + "\n".join(cmds) + "\n"
    r = subprocess.run([exe], input=inp, capture_output=True, text=True, timeout=120)
    out = r.stdout.split("\n")
    ok = len(out) >= 6 and out[0].startswith("ok") and out[4].strip() == "1: 0" and out[5].strip() == "1: 0"
    if not ok:
        ctx.oracle_failure("c27:disabled-actuator-nonzero-force",
                           "regression input: actuator in disabled group 0 with forcerange [1, 2]: actuator_force / qfrc_actuator = %r (expected 0)" % (out[4:6],),
                           {"model": "\n".join(desc), "commands": cmds, "how": "feed `model` + description + commands to harness/c/engine_repl.c"})
    return {"actuator_force": out[4] if len(out) > 4 else None, "qfrc_actuator": out[5] if len(out) > 5 else None, "ok": ok}


# ------------------------------------------------------------------------------------------ muscle anchors on the real kernels
def muscle_anchor_oracle(ctx, khar, nsets):
    """documented anchor points of the muscle curves, evaluated on the REAL kernels (generic kernel harness)"""
    rng = ctx.rng
    lines, expect = [], []

    def bump(L, A, mid, B):
        left, right = 0.5 * (A + mid), 0.5 * (mid + B)
        if L <= A or L >= B:
            return 0.0
        if L < left:
            x = (L - A) / (left - A)
            return 0.5 * x * x
        if L < mid:
            x = (mid - L) / (mid - left)
            return 1 - 0.5 * x * x
        if L < right:
            x = (L - mid) / (right - mid)
            return 1 - 0.5 * x * x
        x = (B - L) / (B - right)
        return 0.5 * x * x

    for _ in range(nsets):
        lmin, lmax = rng.uniform(0.3, 0.8), rng.uniform(1.2, 2.0)
        vmax, fpmax, fvmax = rng.uniform(0.5, 3), rng.uniform(0.5, 2), rng.uniform(1.1, 1.8)
        force = rng.uniform(1, 500)
        # lengthrange [0,1], range [0,1]: L = len, L0 = 1, V = vel / vmax
        prm = [0.0, 1.0, force, 200.0, lmin, lmax, vmax, fpmax, fvmax]

        def gain(L, vel):
            return "mju_muscleGain " + " ".join(fbits(x) for x in [L, vel, 0.0, 1.0, 1.0] + prm[:7] + [prm[8]])

        def bias(L):
            return "mju_muscleBias " + " ".join(fbits(x) for x in [L, 0.0, 1.0, 1.0, prm[0], prm[1], prm[2], prm[3], prm[5], prm[7]])

        # (line, documented value, key, description)
        lines.append(gain(1.0, 0.0)); expect.append((-force, "c27:muscle-peak-active-force", "F0 = peak active force at optimal length and zero velocity"))
        lines.append(gain(1.0, -vmax)); expect.append((0.0, "c27:muscle-vmax", "vmax = shortening velocity at which the force drops to zero"))
        lines.append(gain(1.0, vmax * (fvmax - 1) * 1.5)); expect.append((-force * fvmax, "c27:muscle-fvmax", "fvmax = active force at saturating lengthening velocity"))
        lines.append(gain(lmin, 0.0)); expect.append((0.0, "c27:muscle-lmin", "lmin = lower end of the active range"))
        lines.append(gain(lmax, 0.0)); expect.append((0.0, "c27:muscle-lmax", "lmax = upper end of the active range"))
        lines.append(bias(1.0)); expect.append((0.0, "c27:muscle-passive-at-rest-length", "no passive force up to the optimal length"))
        lines.append(bias(lmax)); expect.append((-force * fpmax, "c27:muscle-passive-force-at-lmax-differs-from-doc",
                                                "fpmax = passive force generated at lmax, relative to the peak rest force (XMLreference; FLV.m: F_P(lmax) = fpmax)"))
        for _ in range(4):
            L = rng.uniform(lmin - 0.1, lmax + 0.1)
            lines.append("mju_muscleGainLength " + " ".join(fbits(x) for x in (L, lmin, lmax)))
            expect.append((bump(L, lmin, 1.0, lmax), "c27:muscle-length-curve", "F_L main bump of FLV.m: bump(L, lmin, 1, lmax)"))
    rc, out, err = ctx.run_lines([khar], lines)
    res = {"evaluated": len(lines), "failures": {}}
    if rc != 0 or len(out) != len(lines):
        ctx.oracle_failure("c27:kernel-harness-crash", "kernel harness crashed (rc=%s)" % rc, {"stderr": err[-300:]})
        return res
    for l, o, (want, key, desc) in zip(lines, out, expect):
        got = frombits(o.split()[0])
        if abs(got - want) > 1e-9 * (1 + abs(want)):
            res["failures"][key] = res["failures"].get(key, 0) + 1
            if res["failures"][key] <= 2:
                ctx.oracle_failure(key, "real kernel returns %r where the documentation gives %r (%s)" % (got, want, desc),
                                   {"kernel_line": l, "output_bits": o, "how": "echo '<kernel_line>' | kernels harness (.cache/gen/kernels_harness.c; arguments are IEEE bit patterns)",
                                    "arguments": [frombits(x) for x in l.split()[1:]]})
    return res


def run(ctx):
    import os
    quick = ctx.tier != "thorough"
    ctx.rule = ("generated models (motor / position / velocity / intvelocity / damper / cylinder / muscle / general actuators on joint, tendon, "
                "site and slider-crank transmissions; ctrl / force / act / tendon actfrc / joint actfrc limits; groups and opt.disableactuator; "
                "actuator-routed gravcomp; mjDSBL_CLAMPCTRL; control delays with history buffers of 1..7 samples, interp 0/1/2, delays that are and "
                "are not multiples of the timestep, history without delay; actearly) at random states with controls beyond, at and inside the limits, "
                "after a random control sequence of 0..12 mj_step calls when the model has history buffers; a case is one (model, quantity) bit "
                "comparison; oracle per model: ranges, dense moment' * force, clamp equivalence (sequence-wide), used control inside ctrlrange, "
                "act_dot and affine law per actuator, disabled groups, moment finite differences, site transmission rows = site Jacobian' * gear "
                "wrench per actuator (structured gears, refsite, mixed transmission types in sequence)")
    import time
    T, t0 = {}, [time.time()]

    def lap(nm):
        T[nm] = round(time.time() - t0[0], 1)
        t0[0] = time.time()
        ctx.extra["stage_seconds"] = T
    manifest = kernelval.regen(ctx)
    lap("regen")
    ctx.lean_props(THEOREMS)
    lap("lean_props")
    kernelval.validate(ctx, manifest, KERNELS, 150 if quick else 2000, label="c2lean kernels used by the actuation model")
    lap("kernel_validation")
    drv = ctx.driver("drv_c27")
    exe = ctx.harness("harness/c/engine_repl.c", "engine_repl", deps=["harness/mjbuild.h"])
    if drv and exe:
        stats, mism = run_models(ctx, exe, drv, 50 if quick else 600)
        ok = stats["bitwise_bad"] == 0 and stats["bitwise_cases"] > 0
        ctx.oblige("correspondence Lean actuation model (Float) vs act_dot / actuator_force / qfrc_actuator of the real engine, bitwise, stage by stage (%d cases, %d models)"
                   % (stats["bitwise_cases"], stats["models_compared"]), "correspondence", ok, json.dumps(mism[:4])[:3000])
        ctx.disagreements += [dict(m, stream="actuation") for m in mism[:20]]
        ctx.extra["actuation_oracle"] = stats
        ctx.extra["disabled_regression_input"] = disabled_regression(ctx, exe)
        lap("engine_differential_and_oracle")
        ctx.extra["max_float_deviation"] = {"force_rel": stats["max_dev_force"], "qfrc_rel": stats["max_dev_qfrc"],
                                            "moment_fd_rel": stats["max_dev_moment_fd"], "site_moment_rel": stats["max_dev_site_moment"],
                                            "tolerances": {"law": RTOL, "moment_fd": 1e-5, "site_moment": 1e-9}}
    hsrc = os.path.join(common.CACHE, "gen", "kernels_harness.c")
    khar = ctx.harness(os.path.relpath(hsrc, common.VERIF), "kernels_harness") if os.path.exists(hsrc) else None
    if khar:
        ctx.extra["muscle_anchor_oracle"] = muscle_anchor_oracle(ctx, khar, 10 if quick else 200)


if __name__ == "__main__":
    common.main(run, "C27")
