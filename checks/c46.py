"""C46  Bounded least squares respects bounds and never gets worse (DESIGN.md §5.C46)."""
import json
import os
import struct

from checks import common

# this check never reads lean/MjProof/Gen: no generated-code lock needed
USES_GEN = False

META = {
    "technique": "Lean 4 proof over the reals (loop invariants by induction over the iterations of an executable model of "
                 "least_squares/jacobian_fd with abstract residual, Norm and box-QP oracles) + bit-exact replay correspondence "
                 "of the model on Float against logged runs of the real python/mujoco/minimize.py + property oracle on the real runs",
    "text": "Model: the whole of least_squares (jacobian=None, fixed x_scale) and jacobian_fd, statement by statement, over MjNum: "
            "clip of x0, forward/backward FD probes, dlower/dupper, H = hess + mu I, candidate clip(x + D*dx), Armijo accept rule, "
            "Fletcher mu updates, the five termination statuses, the trace. Proved over R for every residual function, Norm object, "
            "start point and scaling D: every residual evaluation point and the returned x lie in the box (each box side >= 2 FD "
            "steps; nothing assumed of the box-QP answers but their length, because the candidate is clipped), and on ANY carrier with a reflexive total order (doubles without NaN) the clipped candidate is in the box with no arithmetic hypothesis; every accepted step has objective <= the previous one, the trace is "
            "non-increasing and the final objective <= the objective at the clipped start (box-QP answers are descent directions, "
            "c1 >= 0); a G_TOL stop at tolerance 0 is a KKT point, hence a global minimiser over the box of any objective lying "
            "above the code's own linearisation (linear residuals) [partial]. Tie: the residual, a Norm proxy around the tree's "
            "Quadratic and mujoco.mju_boxQP are wrapped; everything crossing these interfaces in a real run is logged; the Lean "
            "model is executed on Float with the three oracles answering from the log and must reproduce bit for bit every "
            "evaluation point in order, the trace (x, objective, reduction, mu), the status, the iteration and evaluation counts.",
    "note": "mju_boxQP comes from the pre-built wheel (not the tree's engine): it is an abstract oracle in the model with the contract "
            "`dlower <= dx <= dupper` (no longer needed by the bounds theorems since the candidate is clipped) and `grad.dx <= 0` "
            "(used for monotonicity; minimize.py never checks either: it only tests the return value n_free >= 0); both are monitored "
            "on every logged call (evidence: boxqp_contract). 'Bounds wider than the FD step' is formalised as 'each side >= 2 steps' "
            "(theorem fd_probe_escapes_narrow_box shows 1 step is not enough); generated boxes satisfy it with margin. History: before "
            "the fix 'least_squares clips the candidate point to the bounds' the unclipped candidate x + D*dx left the box by rounding "
            "(x0=-7, bounds [-1e6, 2.3], residual x-10 returned 2.3000000000000007); the oracle key "
            "c46:candidate-outside-bounds-by-rounding and the reproduction inputs are kept as permanent regressions and must stay "
            "silent; the driver's `witness` op still shows how often the UNCLIPPED arithmetic overshoots on Float and that the clip "
            "repairs it (clipped_candidate_in_box_any_carrier is the theorem behind that). Dot products / norms of the "
            "model are sequential, numpy's are BLAS: they differ by ulps, which matters only if a threshold test is within an ulp "
            "(not observed). x_scale='jac', user Jacobians and check_derivatives are not modelled ('jac' runs are oracle-only). "
            "Termination of the two inner while loops is not proved (model fuel). linear_reaches_bounded_min_partial assumes the "
            "run reaches a G_TOL stop; reaching the bounded minimum is sampled against scipy.optimize.lsq_linear (bvls, cost within "
            "1e-6 relative) for default solver options, max_iter >= 20, x_scale within 1e-3..1e3 and |clipped start| <= 1e7; outside "
            "that scope (x_scale = 1e-6 / 1e6, start at the emulated one-sided bound 1e9) non-convergence within max_iter or "
            "FACTORIZATION_FAILED does occur and is only counted (evidence: linear_vs_lsq_linear.out_of_scope_not_at_minimum). "
            "The dx buffer passed to mju_boxQP is loop state in the model (the solver warm-starts from it). Bounds must be finite in "
            "minimize.py: 'one-sided' boxes have the other side at +-1e9. Boxes between 1 and 2 FD steps wide (outside the "
            "precondition) are run for information only: the forward probe leaves them (evidence key boxes_between_1_and_2...).",
}

P = "MjProof.C46."
THEOREMS = [P + n for n in [
    "fd_probe_coordinate_in_bounds",
    "fd_probes_in_bounds",
    "fd_width_of_corners",
    "fd_probe_escapes_narrow_box",
    "candidate_in_bounds",
    "candidate_in_box",
    "clipped_candidate_in_box_any_carrier",
    "clip_order_real",
    "candidate_clip_identity",
    "accept_monotone",
    "accept_needs_descent",
    "residual_calls_in_bounds",
    "result_in_bounds",
    "trace_nonincreasing",
    "result_objective_le_start",
    "clip_identity_inside",
    "exQ_box",
    "exQ_descent",
    "linear_reaches_bounded_min_partial",
]]

IMPL = os.path.join(common.VERIF, "harness", "py", "c46_minimize.py")
PY = "/venv/bin/python"
EPS0 = 2.0 ** -26  # np.finfo(float64).eps ** 0.5
ROUNDING_KEY = "c46:candidate-outside-bounds-by-rounding"


def f2h(x):
    return "%016x" % struct.unpack(">Q", struct.pack(">d", float(x)))[0]


def h2f(s):
    if s == "nan":
        return float("nan")
    return struct.unpack(">d", struct.pack(">Q", int(s, 16)))[0]


def enc(spec):
    return json.dumps(spec, separators=(",", ":")).encode().hex()


def dec(tok):
    return json.loads(bytes.fromhex(tok).decode())


# ======================================================================================================
# generator
# ======================================================================================================
def gen_spec(rng, profile="family"):
    """One problem. profile: family (the generated family of the property) | adversarial (rounding hunt)."""
    n = rng.randint(1, 6)
    fam = rng.choice(["lin", "lin", "quad", "rosen"])
    if profile == "adversarial":
        n = rng.randint(1, 3)
        fam = rng.choice(["lin", "lin", "quad"])
    m = n + rng.choice([0, 0, 1, 2, 3]) if rng.random() < 0.9 else max(1, n - 1)
    if fam == "rosen":
        m = 2 * max(1, n - 1) if n > 1 else 2
    spec = {"fam": fam, "n": n, "m": m}
    if fam == "rosen":
        spec["A"], spec["b"] = [], []
        spec["q"] = f2h(rng.choice([1.0, 10.0]))
    else:
        A = [[rng.gauss(0, 1) for _ in range(n)] for _ in range(m)]
        if rng.random() < 0.3:  # diagonal-dominant: well conditioned
            for i in range(min(n, m)):
                A[i][i] += 3.0 * (1 if rng.random() < 0.5 else -1)
        spec["A"] = [[f2h(v) for v in row] for row in A]
        spec["b"] = [f2h(rng.gauss(0, 2)) for _ in range(m)]
        spec["q"] = f2h(rng.choice([0.05, 0.2, -0.1]))
    eps = EPS0
    if rng.random() < 0.15:
        eps = rng.choice([1e-6, 1e-5, 1e-10])
        spec["eps"] = f2h(eps)
    # ---- bounds
    kind = rng.choice(["none", "box", "box", "onesided", "tight", "mixed"])
    if profile == "adversarial":
        kind = rng.choice(["box", "onesided", "tight", "farbox"])
    spec["bounds_kind"] = kind
    lo = hi = None
    if kind != "none":
        lo, hi = [], []
        for i in range(n):
            k = kind if kind != "mixed" else rng.choice(["box", "onesided", "tight"])
            c = rng.uniform(-2, 2) if rng.random() < 0.8 else rng.uniform(-1, 1) * 10 ** rng.uniform(0, 4)
            if k == "box":
                w = 10 ** rng.uniform(-1, 1)
                a, b = c - w * rng.random(), c + w * rng.random() + 1e-3
            elif k == "farbox":
                a, b = -10 ** rng.uniform(2, 7), c
                if rng.random() < 0.5:
                    a, b = -b, -a
            elif k == "onesided":
                if rng.random() < 0.5:
                    a, b = c, 1e9
                else:
                    a, b = -1e9, c
            else:  # tight: a few FD steps wide (the theorems need >= 2 steps; generated with margin >= 3)
                w = rng.choice([3.0, 4.0, 10.0, 1000.0]) * eps * max(1.0, abs(c) + 1.0)
                a, b = c, c + w
            lo.append(a)
            hi.append(b)
        spec["lo"] = [f2h(v) for v in lo]
        spec["hi"] = [f2h(v) for v in hi]
    else:
        spec["lo"] = spec["hi"] = None
    # ---- start point
    sk = rng.choice(["inside", "inside", "outside", "atbound", "far"])
    if profile == "adversarial":
        sk = rng.choice(["inside", "far", "atbound", "farinside"])
    x0 = []
    for i in range(n):
        if lo is None:
            x0.append(rng.uniform(-3, 3) if sk != "far" else rng.uniform(-1, 1) * 10 ** rng.uniform(1, 4))
            continue
        a, b = lo[i], hi[i]
        wa, wb = max(a, -1e4), min(b, 1e4)
        if wa >= wb:
            wa, wb = a, b
        if sk == "inside":
            x0.append(wa + (wb - wa) * rng.random())
        elif sk == "farinside":
            x0.append(a + (b - a) * rng.random())
        elif sk == "outside":
            x0.append(rng.choice([a - rng.random() - 1e-9, b + rng.random() + 1e-9, wa + (wb - wa) * rng.random()]))
        elif sk == "atbound":
            x0.append(rng.choice([a, b, wa + (wb - wa) * rng.random()]))
        else:
            x0.append(rng.uniform(-1, 1) * 10 ** rng.uniform(1, 6))
    spec["x0"] = [f2h(v) for v in x0]
    spec["start_kind"] = sk
    # ---- scaling
    dk = rng.choice(["none", "none", "scalar", "array", "extreme"])
    if profile == "adversarial":
        dk = rng.choice(["none", "scalar", "array", "extreme"])
    if dk == "none":
        spec["D"] = None
    elif dk == "scalar":
        spec["D"] = f2h(rng.choice([0.1, 2.5, 3.0, 7.0, 1e3]))
    elif dk == "array":
        spec["D"] = [f2h(10 ** rng.uniform(-3, 3)) for _ in range(n)]
    else:
        spec["D"] = [f2h(rng.choice([1e6, 1e-6, 3e5, 49.0])) for _ in range(n)]
    spec["scale_kind"] = dk
    spec["max_iter"] = rng.choice([3, 20, 100, 100])
    if rng.random() < 0.12:
        spec["mu_max"] = f2h(rng.choice([1e-7, 1e-3, 1.0]))
    if rng.random() < 0.1:
        spec["mu_factor"] = f2h(rng.choice([2.0, 10.0, 1.1]))
    if rng.random() < 0.1:
        spec["mu_min"] = f2h(rng.choice([1e-9, 1e-3]))
    if rng.random() < 0.1:
        spec["xtol"] = f2h(rng.choice([1e-4, 1e-12]))
    if rng.random() < 0.1:
        spec["gtol"] = f2h(rng.choice([1e-4, 1e-12, 0.0]))
    return spec


def fd_precondition(spec):
    """The hypothesis of the bounds theorems: each side of the box is at least two FD steps wide (corner form)."""
    if spec["lo"] is None:
        return True
    eps = h2f(spec["eps"]) if spec.get("eps") else EPS0
    for a, b in zip(spec["lo"], spec["hi"]):
        a, b = h2f(a), h2f(b)
        if not (2 * eps * max(1.0, abs(a), abs(b)) <= b - a):
            return False
    return True


def gen_specs(ctx, count, profile):
    out = []
    while len(out) < count:
        s = gen_spec(ctx.rng, profile)
        if fd_precondition(s):
            out.append(s)
    return out


# ======================================================================================================
# parsing of the canonical output
# ======================================================================================================
def parse_out(out):
    """canonical line -> dict (status, i, nres, x, trace, calls, tags, qc, lsq)"""
    w = out.split(" ")
    d = {"status": w[0], "raw": out}
    for t in w[1:]:
        if "=" not in t:
            continue
        k, v = t.split("=", 1)
        d[k] = v
    if "x" not in d:
        return d
    d["xv"] = [h2f(h) for h in d["x"].split(",")] if d["x"] else []
    d["trace"] = []
    for e in d.get("T", "").split(";"):
        if e:
            xs, y, red, mu = e.split(":")
            d["trace"].append(([h2f(h) for h in xs.split(",")], h2f(y), h2f(red), h2f(mu)))
    d["calls"] = [[h2f(h) for h in c.split(",")] for c in d.get("C", "").split(";") if c]
    return d


def strip_impl_only(b):
    i = b.find(" K=")
    return b if i < 0 else b[:i]


def describe(spec):
    """human-readable copy of a spec (decimal reprs round-trip)"""
    d = {k: v for k, v in spec.items() if k not in ("A", "b", "x0", "lo", "hi", "D", "q")}
    for k in ("b", "x0", "lo", "hi"):
        d[k] = None if spec.get(k) is None else [repr(h2f(h)) for h in spec[k]]
    d["A"] = [[repr(h2f(h)) for h in row] for row in spec.get("A", [])]
    d["q"] = repr(h2f(spec["q"]))
    D = spec.get("D")
    d["x_scale"] = None if D is None else D if D == "jac" else repr(h2f(D)) if isinstance(D, str) else [repr(h2f(h)) for h in D]
    for k in ("mu_min", "mu_max", "mu_factor", "xtol", "gtol", "eps"):
        if spec.get(k):
            d[k] = repr(h2f(spec[k]))
    return d


def python_snippet(spec):
    """Stand-alone reproduction with the public API only (linear family; PYTHONPATH=$REPO/python /venv/bin/python)."""
    if spec["fam"] != "lin":
        return None
    d = describe(spec)
    A = "[" + ", ".join("[" + ", ".join(r) + "]" for r in d["A"]) + "]"
    bnd = "None" if d["lo"] is None else "[np.array([%s]), np.array([%s])]" % (", ".join(d["lo"]), ", ".join(d["hi"]))
    xs = d["x_scale"]
    xs = "None" if xs is None else "'jac'" if xs == "jac" else xs if isinstance(xs, str) else "np.array([%s])" % ", ".join(xs)
    kw = "".join(", %s=%s" % (k, d[k]) for k in ("mu_min", "mu_max", "mu_factor", "xtol", "gtol", "eps") if k in d)
    return ("import numpy as np; from mujoco import minimize; A = np.array(%s); b = np.array([%s]).reshape(-1, 1); seen = []\n"
            "def residual(x):\n    seen.append(x.copy()); return A @ x - b\n"
            "x, trace = minimize.least_squares(np.array([%s]), residual, %s, x_scale=%s, max_iter=%d, verbose=0%s)\n"
            "print(x, [v.ravel() for v in seen])  # compare with the bounds"
            % (A, ", ".join(d["b"]), ", ".join(d["x0"]), bnd, xs, spec["max_iter"], kw))


DIRECTED = [
    # permanent regressions of the (fixed) rounding escape: before the fix least_squares returned 2.3000000000000007 for
    # the upper bound 2.3 / evaluated the residual at 0.10000000000000009 for the upper bound 0.1
    {"fam": "lin", "n": 1, "m": 1, "A": [[1.0]], "b": [10.0], "q": 0.0, "x0": [-7.0], "lo": [-1e6], "hi": [2.3], "D": None,
     "max_iter": 100, "bounds_kind": "directed", "start_kind": "inside", "scale_kind": "none"},
    {"fam": "lin", "n": 1, "m": 1, "A": [[1.0]], "b": [10.0], "q": 0.0, "x0": [-3.0], "lo": [-10.0], "hi": [0.1], "D": None,
     "max_iter": 100, "bounds_kind": "directed", "start_kind": "inside", "scale_kind": "none"},
    {"fam": "lin", "n": 1, "m": 1, "A": [[1.0]], "b": [-10.0], "q": 0.0, "x0": [7.0], "lo": [-2.3], "hi": [1e6], "D": None,
     "max_iter": 100, "bounds_kind": "directed", "start_kind": "inside", "scale_kind": "none"},
    {"fam": "lin", "n": 2, "m": 2, "A": [[1.0, 0.0], [0.0, 1.0]], "b": [10.0, -10.0], "q": 0.0, "x0": [0.0, 0.0],
     "lo": [-5.0, -0.7], "hi": [0.7, 5.0], "D": [3.0, 49.0], "max_iter": 100, "bounds_kind": "directed", "start_kind": "inside",
     "scale_kind": "array"},
]


def directed_specs():
    out = []
    for d in DIRECTED:
        s = dict(d)
        s["A"] = [[f2h(v) for v in row] for row in d["A"]]
        for k in ("b", "x0", "lo", "hi"):
            s[k] = [f2h(v) for v in d[k]]
        s["q"] = f2h(d["q"])
        if isinstance(d["D"], list):
            s["D"] = [f2h(v) for v in d["D"]]
        out.append(s)
    return out


def replay_obj(spec, extra):
    r = {"problem": describe(spec),
         "replay": "echo 'run %s |' | %s %s %s   # prints status, returned x, trace T=, every residual argument C= (hex IEEE bits)"
                   % (enc(spec), PY, IMPL, common.REPO),
         "residual_family": "lin: r = A x - b; quad: l = A x - b, r = l + q*l*l; rosen: r = [q*(x[i+1]-x[i]^2), 1-x[i]]..."}
    py = python_snippet(spec)
    if py:
        r["python"] = py
    r.update(extra)
    return r


# ======================================================================================================
# property oracle on the implementation's output alone
# ======================================================================================================
def oracle(spec, d):
    """Returns a list of (key, what, extra)."""
    fails = []
    if d["status"].startswith("raised") or "xv" not in d:
        return [("c46:raised-on-valid-input", "least_squares raised / printed no final message on a valid problem: " + d["raw"][:80], {})]
    lo = None if spec["lo"] is None else [h2f(h) for h in spec["lo"]]
    hi = None if spec["hi"] is None else [h2f(h) for h in spec["hi"]]
    tags = d.get("K", "")
    qc = [int(t) for t in d.get("QC", "0,0,0,0").split(",")]
    outside_candidates = []
    if lo is not None:
        for k, (p, tag) in enumerate(zip(d["calls"], tags)):
            bad = [(i, v, lo[i], hi[i]) for i, v in enumerate(p) if not (lo[i] <= v <= hi[i])]
            if not bad:
                continue
            i, v, a, b = bad[0]
            ex = {"call_index": k, "call_kind": {"s": "start", "p": "fd-probe", "c": "candidate"}[tag], "coordinate": i,
                  "argument": repr(v), "lower": repr(a), "upper": repr(b), "excess": repr(v - b if v > b else a - v),
                  "argument_hex": f2h(v), "bound_hex": f2h(b if v > b else a)}
            if tag == "s":
                fails.append(("c46:start-point-not-clipped", "the first residual evaluation is outside the bounds", ex))
            elif tag == "p":
                fails.append(("c46:fd-probe-outside-bounds", "a finite-difference probe point is outside the bounds", ex))
            else:
                outside_candidates.append(p)
                if qc[1] == 0:
                    fails.append((ROUNDING_KEY, "the residual is evaluated at a candidate outside the bounds although mju_boxQP "
                                  "returned dlower <= dx <= dupper (rounding of (b - x)/D, D*dx and x + D*dx: the candidate must "
                                  "be clipped to the bounds)", ex))
                else:
                    fails.append(("c46:candidate-outside-bounds", "a candidate is outside the bounds and mju_boxQP broke dlower <= dx <= dupper", ex))
            break
        bad = [(i, v) for i, v in enumerate(d["xv"]) if not (lo[i] <= v <= hi[i])]
        if bad and not fails:
            i, v = bad[0]
            fails.append(("c46:returned-x-outside-bounds", "the returned x is outside the bounds",
                          {"coordinate": i, "x": repr(v), "lower": repr(lo[i]), "upper": repr(hi[i])}))
        elif bad and fails and fails[0][0] == ROUNDING_KEY:
            fails[0][2]["returned_x_outside"] = True
            fails[0][2]["returned_x"] = [repr(v) for v in d["xv"]]
    # monotone trace, final objective <= objective at the clipped start
    ys = [t[1] for t in d["trace"]]
    for k in range(len(ys) - 1):
        if not (ys[k + 1] <= ys[k]):
            fails.append(("c46:trace-objective-increases", "the objective in the trace increases",
                          {"trace_index": k, "objective": repr(ys[k]), "next": repr(ys[k + 1]), "qp_ascent_calls": qc[2] + qc[3]}))
            break
    if ys and not (ys[-1] <= ys[0]):
        fails.append(("c46:final-objective-above-start", "final objective larger than at the clipped start",
                      {"start": repr(ys[0]), "final": repr(ys[-1])}))
    return fails


LIN_TOL = 1e-6


def linear_scope(spec):
    """The linear -> bounded-global-minimum claim is sampled for default solver settings, enough iterations,
    moderate scalings (x_scale within 1e-3..1e3: mu_min/mu_max act on the scaled problem) and a clipped start of
    moderate magnitude (|x| <= 1e7; the emulated one-sided bounds are at +-1e9)."""
    if spec["max_iter"] < 20 or any(spec.get(k) for k in ("mu_max", "mu_factor", "mu_min", "xtol", "gtol", "eps")):
        return None
    x0 = [h2f(h) for h in spec["x0"]]
    if spec["lo"] is not None:
        x0 = [min(max(v, h2f(a)), h2f(b)) for v, a, b in zip(x0, spec["lo"], spec["hi"])]
    if spec["scale_kind"] in ("extreme", "jac") or max(abs(v) for v in x0) > 1e7:
        return "out"
    return "in"


def linear_oracle(spec, d):
    """linear residual => bounded global minimum (cost of scipy.optimize.lsq_linear).
    Returns (scope, relative excess, failure or None)."""
    if spec["fam"] != "lin" or d.get("L", "-") == "-" or "xv" not in d or not d["trace"]:
        return None, None, None
    scope = linear_scope(spec)
    if scope is None:
        return None, None, None
    ref = h2f(d["L"])
    got = d["trace"][-1][1]
    dev = (got - ref) / (1.0 + abs(ref))
    if dev > LIN_TOL and scope == "in":
        return scope, dev, ("c46:linear-not-at-bounded-minimum", "linear residual: final objective above the bounded global "
                            "minimum (scipy lsq_linear) by more than 1e-6 relative",
                            {"final": repr(got), "lsq_linear_cost": repr(ref), "status": d["status"], "iterations": d.get("i")})
    return scope, dev, None


# ======================================================================================================
def impl_cmd():
    return [PY, IMPL, common.REPO]


def stage_log(ctx, specs):
    """Run the real code once per problem in logging mode: canonical line + replay line for the Lean driver."""
    lines = ["log " + enc(s) for s in specs]
    rc, outs, err = ctx.run_lines(impl_cmd(), lines, timeout=3000)
    if rc != 0 or len(outs) != len(lines):
        return None, "python harness stopped (rc=%s) after %d of %d problems: %s" % (rc, len(outs), len(lines), err[-600:])
    cans, replays = [], []
    for o in outs:
        if " ### " not in o:
            return None, "malformed harness output: " + o[:200]
        c, r = o.split(" ### ", 1)
        cans.append(c)
        replays.append(r)
    return (cans, replays), None


def run_oracles(ctx, specs, outs, stats, limit=4):
    seen = {}
    lin = stats.setdefault("lin", {"in_scope": 0, "max_relative_excess_in_scope": 0.0, "out_of_scope": 0,
                                   "out_of_scope_not_at_minimum": 0, "out_of_scope_example": None})
    for spec, o in zip(specs, outs):
        d = parse_out(o)
        fails = oracle(spec, d)
        scope, dev, lf = linear_oracle(spec, d)
        if scope == "in":
            lin["in_scope"] += 1
            lin["max_relative_excess_in_scope"] = max(lin["max_relative_excess_in_scope"], dev)
        elif scope == "out":
            lin["out_of_scope"] += 1
            if dev > LIN_TOL:
                lin["out_of_scope_not_at_minimum"] += 1
                if lin["out_of_scope_example"] is None:
                    lin["out_of_scope_example"] = {"status": d["status"], "relative_excess": dev, "scale_kind": spec["scale_kind"],
                                                   "start_kind": spec["start_kind"], "bounds_kind": spec["bounds_kind"],
                                                   "replay": "echo 'run %s |' | %s %s %s" % (enc(spec), PY, IMPL, common.REPO)}
        if lf:
            fails.append(lf)
        st = d["status"]
        stats["status"][st] = stats["status"].get(st, 0) + 1
        if "QC" in d:
            for j, v in enumerate(d["QC"].split(",")):
                stats["qp"][j] += int(v)
        stats["residual_evals"] += len(d.get("calls", []))
        for key, what, ex in fails:
            stats["fail"][key] = stats["fail"].get(key, 0) + 1
            if seen.get(key, 0) < limit:
                seen[key] = seen.get(key, 0) + 1
                ctx.oracle_failure(key, what, replay_obj(spec, ex))


def witness_lines(ctx, count):
    """Scalar instances of the candidate arithmetic with the step clamped at the upper bound."""
    rng = ctx.rng
    lines = []
    for _ in range(count):
        r = rng.random()
        if r < 0.4:      # D = 1, x far from the bound
            hi = rng.uniform(0, 1)
            x = -rng.uniform(1, 1e6)
            D = 1.0
        elif r < 0.8:    # x at 0, bound a, scale D
            hi = rng.uniform(0.1, 10)
            x = 0.0
            D = rng.choice([3.0, 7.0, 49.0, 0.1, 1e-3, 10 ** rng.uniform(-3, 3)])
        else:
            hi = rng.uniform(-5, 5)
            x = hi - rng.uniform(0, 3)
            D = 10 ** rng.uniform(-6, 6)
        lines.append("witness %s %s %s %s" % (f2h(hi - 10.0), f2h(hi), f2h(x), f2h(D)))
    return lines


def run(ctx):
    thorough = ctx.tier == "thorough"
    ctx.rule = ("problems = (residual family lin/quad/rosen with random coefficients, n in 1..6, bounds none/box/one-sided/tight "
                "(>= 3 FD steps)/mixed, start inside/outside/at a bound/far, x_scale none/scalar/array/extreme, solver options); "
                "each is run through the real least_squares with logging wrappers; a case is distinct by its spec; non-trivial = "
                "at least one iteration with a box-QP call")
    ctx.assumptions.append("mujoco.mju_boxQP (pre-built wheel) is an oracle with the contract dlower<=dx<=dupper, grad.dx<=0 (monitored, not proved)")
    ctx.lean_props(THEOREMS)
    drv = ctx.driver("drv_c46")
    anchor = os.path.join(common.REPO, "python", "mujoco", "minimize.py")
    if not os.path.exists(anchor):
        ctx.oblige("anchor python/mujoco/minimize.py exists", "impl-build", False, "file missing in " + common.REPO)
        return
    nfam = 6500 if thorough else 260
    nadv = 3500 if thorough else 120
    njac = 600 if thorough else 30
    specs = directed_specs() + gen_specs(ctx, nfam, "family") + gen_specs(ctx, nadv, "adversarial")
    hist = {}
    for s in specs:
        for k in ("fam", "bounds_kind", "start_kind", "scale_kind"):
            hist[k + ":" + str(s[k])] = hist.get(k + ":" + str(s[k]), 0) + 1
        hist["n:%d" % s["n"]] = hist.get("n:%d" % s["n"], 0) + 1
    ctx.extra["input_distribution"] = hist
    stats = {"status": {}, "qp": [0, 0, 0, 0], "fail": {}, "residual_evals": 0}

    # ---- stage 1: logged real runs -> replay lines
    logged, err = stage_log(ctx, specs)
    if logged is None:
        ctx.oracle_failure("c46:harness-crash", err, {"stderr": err})
        return
    cans, replays = logged
    if drv:
        # ---- T: the model on Float, fed with the logged oracle answers, against a second real run
        bad = ctx.differential("least_squares (real run) vs Lean model replay", [drv], impl_cmd(),
                               replays + ["frob 1 2", "run 00 |"],
                               keyf=lambda l: l.split(" ", 2)[1] if l.startswith("run ") and len(l) > 40 else None,
                               cmp=lambda a, b: a == strip_impl_only(b))
        ctx.extra["replay_bytes"] = sum(len(r) for r in replays)
    # ---- S: property oracle on the implementation's outputs (those of the logging run)
    rc, outs, e2 = 0, cans, ""
    if rc == 0 and len(outs) == len(specs):
        run_oracles(ctx, specs, outs, stats)
        ctx.extra["linear_vs_lsq_linear"] = dict(stats["lin"], tolerance=LIN_TOL)
        k = next((i for i, o in enumerate(outs) if o.startswith("dxTol") and specs[i]["lo"] is not None), 0)
        ctx.sample({"problem": describe(specs[k]), "model_and_impl_output": strip_impl_only(outs[k])[:600]})
        k = next((i for i, o in enumerate(outs) if o.startswith("noImprovement")), 1)
        ctx.sample({"problem": describe(specs[k]), "model_and_impl_output": strip_impl_only(outs[k])[:400]})
    else:
        ctx.oracle_failure("c46:harness-crash", "python harness stopped (rc=%s) after %d of %d problems" % (rc, len(outs), len(specs)),
                           {"stderr": e2[-800:]})
    # ---- x_scale='jac' (not modelled): oracle only
    jspecs = gen_specs(ctx, njac, "family")
    for s in jspecs:
        s["D"] = "jac"
        s["scale_kind"] = "jac"
    rcj, outj, ej = ctx.run_lines(impl_cmd(), ["run %s |" % enc(s) for s in jspecs], timeout=3000)
    if rcj == 0 and len(outj) == len(jspecs):
        jstats = {"status": {}, "qp": [0, 0, 0, 0], "fail": {}, "residual_evals": 0}
        run_oracles(ctx, jspecs, outj, jstats)
        ctx.extra["x_scale_jac_oracle_only"] = {"problems": len(jspecs), "status": jstats["status"], "failures": jstats["fail"]}
        for s in jspecs:
            ctx.count(enc(s))
    else:
        ctx.oracle_failure("c46:harness-crash", "python harness stopped on x_scale='jac' problems (rc=%s)" % rcj, {"stderr": ej[-800:]})
    # ---- precondition boundary (informational, never a failure): a box wider than ONE finite-difference step but
    # narrower than TWO lets a probe escape (theorem fd_probe_escapes_narrow_box); count it on the real code
    nspecs = []
    for _ in range(20):
        c = ctx.rng.uniform(-2, 2)
        w = 1.5 * EPS0 * max(1.0, abs(c))
        nspecs.append({"fam": "lin", "n": 1, "m": 1, "A": [[f2h(1.0)]], "b": [f2h(c + 5.0)], "q": f2h(0.0),
                       "x0": [f2h(c + 0.45 * w)], "lo": [f2h(c)], "hi": [f2h(c + w)], "D": None, "max_iter": 3,
                       "bounds_kind": "narrow", "start_kind": "inside", "scale_kind": "none"})
    rcn, outn, _ = ctx.run_lines(impl_cmd(), ["run %s |" % enc(s) for s in nspecs], timeout=600)
    if rcn == 0 and len(outn) == len(nspecs):
        esc = sum(1 for s, o in zip(nspecs, outn) if any(f[0] == "c46:fd-probe-outside-bounds" for f in oracle(s, parse_out(o))))
        ctx.extra["boxes_between_1_and_2_fd_steps_wide(outside the precondition)"] = {"problems": len(nspecs), "fd_probe_outside_bounds": esc}
    # ---- Float witnesses of the rounding escape: Lean model arithmetic == numpy arithmetic, and how often it escapes
    if drv:
        wl = witness_lines(ctx, 4000 if thorough else 600)
        ctx.differential("candidate arithmetic at a clamped bound (Float witness) vs numpy", [drv], impl_cmd(), wl,
                         keyf=lambda l: l)
        rcw, ow, _ = ctx.run_lines([drv], wl)
        esc = [(l, o) for l, o in zip(wl, ow) if o.split()[2:3] == ["outside"]]
        still = [(l, o) for l, o in zip(wl, ow) if not o.endswith(" inside")]
        ctx.extra["float_witnesses"] = {"tried": len(wl), "unclipped_x_plus_D_times_dupper_above_upper": len(esc),
                                        "clipped_candidate_outside": len(still)}
        ctx.oblige("Float witnesses: the clipped candidate is inside the box in every sampled case", "correspondence",
                   rcw == 0 and len(ow) == len(wl) and not still, json.dumps(still[:3]))
        if esc:
            l, o = esc[0]
            _, lo_, hi_, x_, D_ = l.split()
            ctx.sample({"float_witness": {"upper": repr(h2f(hi_)), "x": repr(h2f(x_)), "D": repr(h2f(D_)),
                                          "dupper=(upper-x)/D": repr(h2f(o.split()[0])), "unclipped x+D*dupper": repr(h2f(o.split()[1])),
                                          "clipped": repr(h2f(o.split()[3])), "lean_driver_op": l, "lean_driver_output": o}})
    ctx.extra["status_histogram"] = stats["status"]
    ctx.extra["boxqp_contract"] = {"ok_calls": stats["qp"][0], "infeasible": stats["qp"][1],
                                   "ascent(grad.dx>0) with x inside the box": stats["qp"][2],
                                   "ascent(grad.dx>0) with x outside the box (after a rounding escape)": stats["qp"][3]}
    ctx.extra["residual_evaluations_checked"] = stats["residual_evals"]
    ctx.extra["oracle_failures"] = stats["fail"]
    ctx.extra["oracle_checked"] = len(specs)

    def directed(c):
        # a proof/tie obligation broke and the oracle saw nothing: look harder on the implementation alone
        import random
        sub = random.Random(c.seed + 4646)

        class R:
            rng = sub
        more = gen_specs(R, 400, "family") + gen_specs(R, 400, "adversarial")
        rcx, ox, _ = c.run_lines(impl_cmd(), ["run %s |" % enc(s) for s in more], timeout=3000)
        if rcx != 0 or len(ox) != len(more):
            return {"key": "c46:harness-crash", "what": "harness stopped in the directed search", "replay": {}}
        for s, o in zip(more, ox):
            d = parse_out(o)
            f = oracle(s, d)
            _, _, lf = linear_oracle(s, d)
            if lf:
                f.append(lf)
            if f:
                return {"key": f[0][0], "what": f[0][1], "replay": replay_obj(s, f[0][2])}
        return None
    ctx.directed_search = directed
    if thorough:
        ctx.leanchecker(["MjProof.Props.C46"])
