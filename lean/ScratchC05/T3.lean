import MjProof.Model.Integrate
open MjProof MjProof.Integrate MjProof.Gen
#eval match fls? L with
  | some [q0, q1, q2, q3, v0, v1, v2, h] =>
     let r := integrateQuat (q0, q1, q2, q3) (v0, v1, v2) h
     s!"{r.1} {r.2.1} {r.2.2.1} {r.2.2.2} | {q0} {q1} {q2} {q3} {v0} {v1} {v2} {h}"
  | _ => ""
def f (s : String) : Float := (floatOfBits? s).getD 0
#eval  let q := (f "4042fc5784711759", f "c047e43975f5013c", f "4047a35eb4a7f358", f "401f1aa454775ae1")
  let w := (f "407dff0bcf027a39", f "408510b16b162561", f "c0795d95383f992c")
  let h := f "3ff0000000000000"
  let r := integrateQuat q w h
  s!"{r.1} {r.2.1} {r.2.2.1} {r.2.2.2} | {q} {w} {h}"
