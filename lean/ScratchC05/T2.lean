import MjProof.Model.Integrate
open MjProof MjProof.Integrate MjProof.Gen
def f (s : String) : Float := (floatOfBits? s).getD 0
def main : IO Unit := do
  let q := (f "4042fc5784711759", f "c047e43975f5013c", f "4047a35eb4a7f358", f "401f1aa454775ae1")
  let w := (f "407dff0bcf027a39", f "408510b16b162561", f "c0795d95383f992c")
  let h := f "3ff0000000000000"
  let r := integrateQuat q w h
  IO.println s!"{r.1} {r.2.1} {r.2.2.1} {r.2.2.2}"
  let r2 := mju_quatIntegrate (α := Float) q.1 q.2.1 q.2.2.1 q.2.2.2 w.1 w.2.1 w.2.2 h
  IO.println s!"{r2.1} {r2.2.1} {r2.2.2.1} {r2.2.2.2}"
  let n3 := mju_normalize3 (α := Float) w.1 w.2.1 w.2.2
  IO.println s!"{n3.1} {n3.2.1} {n3.2.2.1} {n3.2.2.2}"
