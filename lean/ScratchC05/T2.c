// Lean compiler output
// Module: ScratchC05.T2
// Imports: public import Init public meta import Init public import MjProof.Model.Integrate
#include <lean/lean.h>
#if defined(__clang__)
#pragma clang diagnostic ignored "-Wunused-parameter"
#pragma clang diagnostic ignored "-Wunused-label"
#elif defined(__GNUC__) && !defined(__CLANG__)
#pragma GCC diagnostic ignored "-Wunused-parameter"
#pragma GCC diagnostic ignored "-Wunused-label"
#pragma GCC diagnostic ignored "-Wunused-but-set-variable"
#endif
#ifdef __cplusplus
extern "C" {
#endif
lean_object* lp_MjProof_MjProof_floatOfBits_x3f(lean_object*);
double lean_float_of_nat(lean_object*);
double lean_float_mul(double, double);
double lean_float_add(double, double);
double sqrt(double);
double l_Float_ofScientific(lean_object*, uint8_t, lean_object*);
uint8_t lean_float_decLt(double, double);
lean_object* lean_nat_to_int(lean_object*);
double l_Float_ofInt(lean_object*);
double lean_float_sub(double, double);
double fabs(double);
double lean_float_div(double, double);
uint8_t lean_float_beq(double, double);
double sin(double);
double cos(double);
lean_object* lean_float_to_string(double);
lean_object* lean_string_append(lean_object*, lean_object*);
lean_object* lean_string_push(lean_object*, uint32_t);
lean_object* lean_get_stdout();
static lean_once_cell_t l_f___closed__0_once = LEAN_ONCE_CELL_INITIALIZER;
static double l_f___closed__0;
LEAN_EXPORT double l_f(lean_object*);
LEAN_EXPORT lean_object* l_f___boxed(lean_object*);
static lean_once_cell_t l_MjProof_Gen_mju__normalize3___at___00main_spec__3___closed__0_once = LEAN_ONCE_CELL_INITIALIZER;
static double l_MjProof_Gen_mju__normalize3___at___00main_spec__3___closed__0;
static lean_once_cell_t l_MjProof_Gen_mju__normalize3___at___00main_spec__3___closed__1_once = LEAN_ONCE_CELL_INITIALIZER;
static lean_object* l_MjProof_Gen_mju__normalize3___at___00main_spec__3___closed__1;
static lean_once_cell_t l_MjProof_Gen_mju__normalize3___at___00main_spec__3___closed__2_once = LEAN_ONCE_CELL_INITIALIZER;
static double l_MjProof_Gen_mju__normalize3___at___00main_spec__3___closed__2;
static lean_once_cell_t l_MjProof_Gen_mju__normalize3___at___00main_spec__3___closed__3_once = LEAN_ONCE_CELL_INITIALIZER;
static lean_object* l_MjProof_Gen_mju__normalize3___at___00main_spec__3___closed__3;
static lean_once_cell_t l_MjProof_Gen_mju__normalize3___at___00main_spec__3___closed__4_once = LEAN_ONCE_CELL_INITIALIZER;
static double l_MjProof_Gen_mju__normalize3___at___00main_spec__3___closed__4;
LEAN_EXPORT lean_object* l_MjProof_Gen_mju__normalize3___at___00main_spec__3(double, double, double);
LEAN_EXPORT lean_object* l_MjProof_Gen_mju__normalize3___at___00main_spec__3___boxed(lean_object*, lean_object*, lean_object*);
LEAN_EXPORT lean_object* l_MjProof_Gen_mju__normalize4___at___00MjProof_Gen_mju__quatIntegrate___at___00main_spec__2_spec__3(double, double, double, double);
LEAN_EXPORT lean_object* l_MjProof_Gen_mju__normalize4___at___00MjProof_Gen_mju__quatIntegrate___at___00main_spec__2_spec__3___boxed(lean_object*, lean_object*, lean_object*, lean_object*);
static lean_once_cell_t l_MjProof_Gen_mju__quatIntegrate___at___00main_spec__2___closed__0_once = LEAN_ONCE_CELL_INITIALIZER;
static double l_MjProof_Gen_mju__quatIntegrate___at___00main_spec__2___closed__0;
LEAN_EXPORT lean_object* l_MjProof_Gen_mju__quatIntegrate___at___00main_spec__2(double, double, double, double, double, double, double, double);
LEAN_EXPORT lean_object* l_MjProof_Gen_mju__quatIntegrate___at___00main_spec__2___boxed(lean_object*, lean_object*, lean_object*, lean_object*, lean_object*, lean_object*, lean_object*, lean_object*);
LEAN_EXPORT lean_object* l_MjProof_Integrate_integrateQuat___at___00main_spec__0(lean_object*, lean_object*, double);
LEAN_EXPORT lean_object* l_MjProof_Integrate_integrateQuat___at___00main_spec__0___boxed(lean_object*, lean_object*, lean_object*);
LEAN_EXPORT lean_object* l_IO_print___at___00IO_println___at___00main_spec__1_spec__1(lean_object*);
LEAN_EXPORT lean_object* l_IO_print___at___00IO_println___at___00main_spec__1_spec__1___boxed(lean_object*, lean_object*);
LEAN_EXPORT lean_object* l_IO_println___at___00main_spec__1(lean_object*);
LEAN_EXPORT lean_object* l_IO_println___at___00main_spec__1___boxed(lean_object*, lean_object*);
static const lean_string_object l_main___closed__0_value = {.m_header = {.m_rc = 0, .m_cs_sz = 0, .m_other = 0, .m_tag = 249}, .m_size = 17, .m_capacity = 17, .m_length = 16, .m_data = "4042fc5784711759"};
static const lean_object* l_main___closed__0 = (const lean_object*)&l_main___closed__0_value;
static lean_once_cell_t l_main___closed__1_once = LEAN_ONCE_CELL_INITIALIZER;
static double l_main___closed__1;
static const lean_string_object l_main___closed__2_value = {.m_header = {.m_rc = 0, .m_cs_sz = 0, .m_other = 0, .m_tag = 249}, .m_size = 17, .m_capacity = 17, .m_length = 16, .m_data = "c047e43975f5013c"};
static const lean_object* l_main___closed__2 = (const lean_object*)&l_main___closed__2_value;
static lean_once_cell_t l_main___closed__3_once = LEAN_ONCE_CELL_INITIALIZER;
static double l_main___closed__3;
static const lean_string_object l_main___closed__4_value = {.m_header = {.m_rc = 0, .m_cs_sz = 0, .m_other = 0, .m_tag = 249}, .m_size = 17, .m_capacity = 17, .m_length = 16, .m_data = "4047a35eb4a7f358"};
static const lean_object* l_main___closed__4 = (const lean_object*)&l_main___closed__4_value;
static lean_once_cell_t l_main___closed__5_once = LEAN_ONCE_CELL_INITIALIZER;
static double l_main___closed__5;
static const lean_string_object l_main___closed__6_value = {.m_header = {.m_rc = 0, .m_cs_sz = 0, .m_other = 0, .m_tag = 249}, .m_size = 17, .m_capacity = 17, .m_length = 16, .m_data = "401f1aa454775ae1"};
static const lean_object* l_main___closed__6 = (const lean_object*)&l_main___closed__6_value;
static lean_once_cell_t l_main___closed__7_once = LEAN_ONCE_CELL_INITIALIZER;
static double l_main___closed__7;
LEAN_EXPORT lean_object* l_main___closed__8___boxed__const__1;
LEAN_EXPORT lean_object* l_main___closed__8___boxed__const__2;
static lean_once_cell_t l_main___closed__8_once = LEAN_ONCE_CELL_INITIALIZER;
static lean_object* l_main___closed__8;
LEAN_EXPORT lean_object* l_main___closed__9___boxed__const__1;
static lean_once_cell_t l_main___closed__9_once = LEAN_ONCE_CELL_INITIALIZER;
static lean_object* l_main___closed__9;
LEAN_EXPORT lean_object* l_main___closed__10___boxed__const__1;
static lean_once_cell_t l_main___closed__10_once = LEAN_ONCE_CELL_INITIALIZER;
static lean_object* l_main___closed__10;
static const lean_string_object l_main___closed__11_value = {.m_header = {.m_rc = 0, .m_cs_sz = 0, .m_other = 0, .m_tag = 249}, .m_size = 17, .m_capacity = 17, .m_length = 16, .m_data = "407dff0bcf027a39"};
static const lean_object* l_main___closed__11 = (const lean_object*)&l_main___closed__11_value;
static lean_once_cell_t l_main___closed__12_once = LEAN_ONCE_CELL_INITIALIZER;
static double l_main___closed__12;
static const lean_string_object l_main___closed__13_value = {.m_header = {.m_rc = 0, .m_cs_sz = 0, .m_other = 0, .m_tag = 249}, .m_size = 17, .m_capacity = 17, .m_length = 16, .m_data = "408510b16b162561"};
static const lean_object* l_main___closed__13 = (const lean_object*)&l_main___closed__13_value;
static lean_once_cell_t l_main___closed__14_once = LEAN_ONCE_CELL_INITIALIZER;
static double l_main___closed__14;
static const lean_string_object l_main___closed__15_value = {.m_header = {.m_rc = 0, .m_cs_sz = 0, .m_other = 0, .m_tag = 249}, .m_size = 17, .m_capacity = 17, .m_length = 16, .m_data = "c0795d95383f992c"};
static const lean_object* l_main___closed__15 = (const lean_object*)&l_main___closed__15_value;
static lean_once_cell_t l_main___closed__16_once = LEAN_ONCE_CELL_INITIALIZER;
static double l_main___closed__16;
LEAN_EXPORT lean_object* l_main___closed__17___boxed__const__1;
LEAN_EXPORT lean_object* l_main___closed__17___boxed__const__2;
static lean_once_cell_t l_main___closed__17_once = LEAN_ONCE_CELL_INITIALIZER;
static lean_object* l_main___closed__17;
LEAN_EXPORT lean_object* l_main___closed__18___boxed__const__1;
static lean_once_cell_t l_main___closed__18_once = LEAN_ONCE_CELL_INITIALIZER;
static lean_object* l_main___closed__18;
static const lean_string_object l_main___closed__19_value = {.m_header = {.m_rc = 0, .m_cs_sz = 0, .m_other = 0, .m_tag = 249}, .m_size = 17, .m_capacity = 17, .m_length = 16, .m_data = "3ff0000000000000"};
static const lean_object* l_main___closed__19 = (const lean_object*)&l_main___closed__19_value;
static lean_once_cell_t l_main___closed__20_once = LEAN_ONCE_CELL_INITIALIZER;
static double l_main___closed__20;
static lean_once_cell_t l_main___closed__21_once = LEAN_ONCE_CELL_INITIALIZER;
static lean_object* l_main___closed__21;
static const lean_string_object l_main___closed__22_value = {.m_header = {.m_rc = 0, .m_cs_sz = 0, .m_other = 0, .m_tag = 249}, .m_size = 2, .m_capacity = 2, .m_length = 1, .m_data = " "};
static const lean_object* l_main___closed__22 = (const lean_object*)&l_main___closed__22_value;
static lean_once_cell_t l_main___closed__23_once = LEAN_ONCE_CELL_INITIALIZER;
static lean_object* l_main___closed__23;
static lean_once_cell_t l_main___closed__24_once = LEAN_ONCE_CELL_INITIALIZER;
static lean_object* l_main___closed__24;
LEAN_EXPORT lean_object* _lean_main();
LEAN_EXPORT lean_object* l_main___boxed(lean_object*);
static double _init_l_f___closed__0(void){
_start:
{
lean_object* v___x_1_; double v___x_2_; 
v___x_1_ = lean_unsigned_to_nat(0u);
v___x_2_ = lean_float_of_nat(v___x_1_);
return v___x_2_;
}
}
LEAN_EXPORT double l_f(lean_object* v_s_3_){
_start:
{
lean_object* v___x_4_; 
v___x_4_ = lp_MjProof_MjProof_floatOfBits_x3f(v_s_3_);
if (lean_obj_tag(v___x_4_) == 0)
{
double v___x_5_; 
v___x_5_ = lean_float_once(&l_f___closed__0, &l_f___closed__0_once, _init_l_f___closed__0);
return v___x_5_;
}
else
{
lean_object* v_val_6_; double v___x_7_; 
v_val_6_ = lean_ctor_get(v___x_4_, 0);
lean_inc(v_val_6_);
lean_dec_ref_known(v___x_4_, 1);
v___x_7_ = lean_unbox_float(v_val_6_);
lean_dec(v_val_6_);
return v___x_7_;
}
}
}
LEAN_EXPORT lean_object* l_f___boxed(lean_object* v_s_8_){
_start:
{
double v_res_9_; lean_object* v_r_10_; 
v_res_9_ = l_f(v_s_8_);
v_r_10_ = lean_box_float(v_res_9_);
return v_r_10_;
}
}
static double _init_l_MjProof_Gen_mju__normalize3___at___00main_spec__3___closed__0(void){
_start:
{
lean_object* v___x_11_; uint8_t v___x_12_; lean_object* v___x_13_; double v___x_14_; 
v___x_11_ = lean_unsigned_to_nat(31u);
v___x_12_ = 1;
v___x_13_ = lean_cstr_to_nat("10000000000000001");
v___x_14_ = l_Float_ofScientific(v___x_13_, v___x_12_, v___x_11_);
return v___x_14_;
}
}
static lean_object* _init_l_MjProof_Gen_mju__normalize3___at___00main_spec__3___closed__1(void){
_start:
{
lean_object* v___x_15_; lean_object* v___x_16_; 
v___x_15_ = lean_unsigned_to_nat(1u);
v___x_16_ = lean_nat_to_int(v___x_15_);
return v___x_16_;
}
}
static double _init_l_MjProof_Gen_mju__normalize3___at___00main_spec__3___closed__2(void){
_start:
{
lean_object* v___x_17_; double v_vec__0__0_18_; 
v___x_17_ = lean_obj_once(&l_MjProof_Gen_mju__normalize3___at___00main_spec__3___closed__1, &l_MjProof_Gen_mju__normalize3___at___00main_spec__3___closed__1_once, _init_l_MjProof_Gen_mju__normalize3___at___00main_spec__3___closed__1);
v_vec__0__0_18_ = l_Float_ofInt(v___x_17_);
return v_vec__0__0_18_;
}
}
static lean_object* _init_l_MjProof_Gen_mju__normalize3___at___00main_spec__3___closed__3(void){
_start:
{
lean_object* v___x_19_; lean_object* v___x_20_; 
v___x_19_ = lean_unsigned_to_nat(0u);
v___x_20_ = lean_nat_to_int(v___x_19_);
return v___x_20_;
}
}
static double _init_l_MjProof_Gen_mju__normalize3___at___00main_spec__3___closed__4(void){
_start:
{
lean_object* v___x_21_; double v_vec__1__0_22_; 
v___x_21_ = lean_obj_once(&l_MjProof_Gen_mju__normalize3___at___00main_spec__3___closed__3, &l_MjProof_Gen_mju__normalize3___at___00main_spec__3___closed__3_once, _init_l_MjProof_Gen_mju__normalize3___at___00main_spec__3___closed__3);
v_vec__1__0_22_ = l_Float_ofInt(v___x_21_);
return v_vec__1__0_22_;
}
}
LEAN_EXPORT lean_object* l_MjProof_Gen_mju__normalize3___at___00main_spec__3(double v_vec__0_23_, double v_vec__1_24_, double v_vec__2_25_){
_start:
{
double v___x_26_; double v___x_27_; double v___x_28_; double v___x_29_; double v___x_30_; double v_norm__0_31_; double v___y_33_; double v___y_34_; double v___y_35_; double v___x_43_; uint8_t v_c__0_44_; double v_vec__0__0_45_; double v_vec__1__0_46_; double v_normInv__0_47_; double v_vec__0__1_48_; double v_vec__1__1_49_; double v_vec__2__1_50_; double v___y_52_; double v___y_53_; double v___y_55_; 
v___x_26_ = lean_float_mul(v_vec__0_23_, v_vec__0_23_);
v___x_27_ = lean_float_mul(v_vec__1_24_, v_vec__1_24_);
v___x_28_ = lean_float_add(v___x_26_, v___x_27_);
v___x_29_ = lean_float_mul(v_vec__2_25_, v_vec__2_25_);
v___x_30_ = lean_float_add(v___x_28_, v___x_29_);
v_norm__0_31_ = sqrt(v___x_30_);
v___x_43_ = lean_float_once(&l_MjProof_Gen_mju__normalize3___at___00main_spec__3___closed__0, &l_MjProof_Gen_mju__normalize3___at___00main_spec__3___closed__0_once, _init_l_MjProof_Gen_mju__normalize3___at___00main_spec__3___closed__0);
v_c__0_44_ = lean_float_decLt(v_norm__0_31_, v___x_43_);
v_vec__0__0_45_ = lean_float_once(&l_MjProof_Gen_mju__normalize3___at___00main_spec__3___closed__2, &l_MjProof_Gen_mju__normalize3___at___00main_spec__3___closed__2_once, _init_l_MjProof_Gen_mju__normalize3___at___00main_spec__3___closed__2);
v_vec__1__0_46_ = lean_float_once(&l_MjProof_Gen_mju__normalize3___at___00main_spec__3___closed__4, &l_MjProof_Gen_mju__normalize3___at___00main_spec__3___closed__4_once, _init_l_MjProof_Gen_mju__normalize3___at___00main_spec__3___closed__4);
v_normInv__0_47_ = lean_float_div(v_vec__0__0_45_, v_norm__0_31_);
v_vec__0__1_48_ = lean_float_mul(v_vec__0_23_, v_normInv__0_47_);
v_vec__1__1_49_ = lean_float_mul(v_vec__1_24_, v_normInv__0_47_);
v_vec__2__1_50_ = lean_float_mul(v_vec__2_25_, v_normInv__0_47_);
if (v_c__0_44_ == 0)
{
v___y_55_ = v_vec__0__1_48_;
goto v___jp_54_;
}
else
{
v___y_55_ = v_vec__0__0_45_;
goto v___jp_54_;
}
v___jp_32_:
{
lean_object* v___x_36_; lean_object* v___x_37_; lean_object* v___x_38_; lean_object* v___x_39_; lean_object* v___x_40_; lean_object* v___x_41_; lean_object* v___x_42_; 
v___x_36_ = lean_box_float(v___y_33_);
v___x_37_ = lean_box_float(v___y_35_);
v___x_38_ = lean_alloc_ctor(0, 2, 0);
lean_ctor_set(v___x_38_, 0, v___x_36_);
lean_ctor_set(v___x_38_, 1, v___x_37_);
v___x_39_ = lean_box_float(v___y_34_);
v___x_40_ = lean_alloc_ctor(0, 2, 0);
lean_ctor_set(v___x_40_, 0, v___x_39_);
lean_ctor_set(v___x_40_, 1, v___x_38_);
v___x_41_ = lean_box_float(v_norm__0_31_);
v___x_42_ = lean_alloc_ctor(0, 2, 0);
lean_ctor_set(v___x_42_, 0, v___x_41_);
lean_ctor_set(v___x_42_, 1, v___x_40_);
return v___x_42_;
}
v___jp_51_:
{
if (v_c__0_44_ == 0)
{
v___y_33_ = v___y_53_;
v___y_34_ = v___y_52_;
v___y_35_ = v_vec__2__1_50_;
goto v___jp_32_;
}
else
{
v___y_33_ = v___y_53_;
v___y_34_ = v___y_52_;
v___y_35_ = v_vec__1__0_46_;
goto v___jp_32_;
}
}
v___jp_54_:
{
if (v_c__0_44_ == 0)
{
v___y_52_ = v___y_55_;
v___y_53_ = v_vec__1__1_49_;
goto v___jp_51_;
}
else
{
v___y_52_ = v___y_55_;
v___y_53_ = v_vec__1__0_46_;
goto v___jp_51_;
}
}
}
}
LEAN_EXPORT lean_object* l_MjProof_Gen_mju__normalize3___at___00main_spec__3___boxed(lean_object* v_vec__0_56_, lean_object* v_vec__1_57_, lean_object* v_vec__2_58_){
_start:
{
double v_vec__0_boxed_59_; double v_vec__1_boxed_60_; double v_vec__2_boxed_61_; lean_object* v_res_62_; 
v_vec__0_boxed_59_ = lean_unbox_float(v_vec__0_56_);
lean_dec_ref(v_vec__0_56_);
v_vec__1_boxed_60_ = lean_unbox_float(v_vec__1_57_);
lean_dec_ref(v_vec__1_57_);
v_vec__2_boxed_61_ = lean_unbox_float(v_vec__2_58_);
lean_dec_ref(v_vec__2_58_);
v_res_62_ = l_MjProof_Gen_mju__normalize3___at___00main_spec__3(v_vec__0_boxed_59_, v_vec__1_boxed_60_, v_vec__2_boxed_61_);
return v_res_62_;
}
}
LEAN_EXPORT lean_object* l_MjProof_Gen_mju__normalize4___at___00MjProof_Gen_mju__quatIntegrate___at___00main_spec__2_spec__3(double v_vec__0_63_, double v_vec__1_64_, double v_vec__2_65_, double v_vec__3_66_){
_start:
{
double v___x_67_; double v___x_68_; double v___x_69_; double v___x_70_; double v___x_71_; double v___x_72_; double v___x_73_; double v_norm__0_74_; double v___y_76_; double v___y_77_; double v___y_78_; double v___y_79_; double v___x_89_; uint8_t v_c__0_90_; double v_vec__0__0_91_; double v_vec__1__0_92_; double v___y_94_; double v___y_95_; double v___y_96_; double v___y_97_; double v___y_99_; double v___y_100_; double v___y_101_; double v___y_102_; double v___y_104_; double v___y_105_; double v___y_106_; double v___y_107_; double v___y_109_; double v___y_110_; double v___y_111_; double v___y_112_; double v___x_113_; double v___x_114_; uint8_t v_c__1_115_; double v_normInv__0_116_; double v_vec__0__1_117_; double v_vec__1__1_118_; double v_vec__2__1_119_; double v_vec__3__1_120_; double v___y_122_; double v___y_123_; double v___y_124_; double v___y_126_; double v___y_127_; double v___y_129_; 
v___x_67_ = lean_float_mul(v_vec__0_63_, v_vec__0_63_);
v___x_68_ = lean_float_mul(v_vec__1_64_, v_vec__1_64_);
v___x_69_ = lean_float_add(v___x_67_, v___x_68_);
v___x_70_ = lean_float_mul(v_vec__2_65_, v_vec__2_65_);
v___x_71_ = lean_float_add(v___x_69_, v___x_70_);
v___x_72_ = lean_float_mul(v_vec__3_66_, v_vec__3_66_);
v___x_73_ = lean_float_add(v___x_71_, v___x_72_);
v_norm__0_74_ = sqrt(v___x_73_);
v___x_89_ = lean_float_once(&l_MjProof_Gen_mju__normalize3___at___00main_spec__3___closed__0, &l_MjProof_Gen_mju__normalize3___at___00main_spec__3___closed__0_once, _init_l_MjProof_Gen_mju__normalize3___at___00main_spec__3___closed__0);
v_c__0_90_ = lean_float_decLt(v_norm__0_74_, v___x_89_);
v_vec__0__0_91_ = lean_float_once(&l_MjProof_Gen_mju__normalize3___at___00main_spec__3___closed__2, &l_MjProof_Gen_mju__normalize3___at___00main_spec__3___closed__2_once, _init_l_MjProof_Gen_mju__normalize3___at___00main_spec__3___closed__2);
v_vec__1__0_92_ = lean_float_once(&l_MjProof_Gen_mju__normalize3___at___00main_spec__3___closed__4, &l_MjProof_Gen_mju__normalize3___at___00main_spec__3___closed__4_once, _init_l_MjProof_Gen_mju__normalize3___at___00main_spec__3___closed__4);
v___x_113_ = lean_float_sub(v_norm__0_74_, v_vec__0__0_91_);
v___x_114_ = fabs(v___x_113_);
v_c__1_115_ = lean_float_decLt(v___x_89_, v___x_114_);
v_normInv__0_116_ = lean_float_div(v_vec__0__0_91_, v_norm__0_74_);
v_vec__0__1_117_ = lean_float_mul(v_vec__0_63_, v_normInv__0_116_);
v_vec__1__1_118_ = lean_float_mul(v_vec__1_64_, v_normInv__0_116_);
v_vec__2__1_119_ = lean_float_mul(v_vec__2_65_, v_normInv__0_116_);
v_vec__3__1_120_ = lean_float_mul(v_vec__3_66_, v_normInv__0_116_);
if (v_c__1_115_ == 0)
{
v___y_129_ = v_vec__0_63_;
goto v___jp_128_;
}
else
{
v___y_129_ = v_vec__0__1_117_;
goto v___jp_128_;
}
v___jp_75_:
{
lean_object* v___x_80_; lean_object* v___x_81_; lean_object* v___x_82_; lean_object* v___x_83_; lean_object* v___x_84_; lean_object* v___x_85_; lean_object* v___x_86_; lean_object* v___x_87_; lean_object* v___x_88_; 
v___x_80_ = lean_box_float(v___y_78_);
v___x_81_ = lean_box_float(v___y_79_);
v___x_82_ = lean_alloc_ctor(0, 2, 0);
lean_ctor_set(v___x_82_, 0, v___x_80_);
lean_ctor_set(v___x_82_, 1, v___x_81_);
v___x_83_ = lean_box_float(v___y_77_);
v___x_84_ = lean_alloc_ctor(0, 2, 0);
lean_ctor_set(v___x_84_, 0, v___x_83_);
lean_ctor_set(v___x_84_, 1, v___x_82_);
v___x_85_ = lean_box_float(v___y_76_);
v___x_86_ = lean_alloc_ctor(0, 2, 0);
lean_ctor_set(v___x_86_, 0, v___x_85_);
lean_ctor_set(v___x_86_, 1, v___x_84_);
v___x_87_ = lean_box_float(v_norm__0_74_);
v___x_88_ = lean_alloc_ctor(0, 2, 0);
lean_ctor_set(v___x_88_, 0, v___x_87_);
lean_ctor_set(v___x_88_, 1, v___x_86_);
return v___x_88_;
}
v___jp_93_:
{
if (v_c__0_90_ == 0)
{
v___y_76_ = v___y_95_;
v___y_77_ = v___y_96_;
v___y_78_ = v___y_97_;
v___y_79_ = v___y_94_;
goto v___jp_75_;
}
else
{
v___y_76_ = v___y_95_;
v___y_77_ = v___y_96_;
v___y_78_ = v___y_97_;
v___y_79_ = v_vec__1__0_92_;
goto v___jp_75_;
}
}
v___jp_98_:
{
if (v_c__0_90_ == 0)
{
v___y_94_ = v___y_100_;
v___y_95_ = v___y_99_;
v___y_96_ = v___y_102_;
v___y_97_ = v___y_101_;
goto v___jp_93_;
}
else
{
v___y_94_ = v___y_100_;
v___y_95_ = v___y_99_;
v___y_96_ = v___y_102_;
v___y_97_ = v_vec__1__0_92_;
goto v___jp_93_;
}
}
v___jp_103_:
{
if (v_c__0_90_ == 0)
{
v___y_99_ = v___y_107_;
v___y_100_ = v___y_104_;
v___y_101_ = v___y_105_;
v___y_102_ = v___y_106_;
goto v___jp_98_;
}
else
{
v___y_99_ = v___y_107_;
v___y_100_ = v___y_104_;
v___y_101_ = v___y_105_;
v___y_102_ = v_vec__1__0_92_;
goto v___jp_98_;
}
}
v___jp_108_:
{
if (v_c__0_90_ == 0)
{
v___y_104_ = v___y_112_;
v___y_105_ = v___y_110_;
v___y_106_ = v___y_111_;
v___y_107_ = v___y_109_;
goto v___jp_103_;
}
else
{
v___y_104_ = v___y_112_;
v___y_105_ = v___y_110_;
v___y_106_ = v___y_111_;
v___y_107_ = v_vec__0__0_91_;
goto v___jp_103_;
}
}
v___jp_121_:
{
if (v_c__1_115_ == 0)
{
v___y_109_ = v___y_122_;
v___y_110_ = v___y_124_;
v___y_111_ = v___y_123_;
v___y_112_ = v_vec__3_66_;
goto v___jp_108_;
}
else
{
v___y_109_ = v___y_122_;
v___y_110_ = v___y_124_;
v___y_111_ = v___y_123_;
v___y_112_ = v_vec__3__1_120_;
goto v___jp_108_;
}
}
v___jp_125_:
{
if (v_c__1_115_ == 0)
{
v___y_122_ = v___y_126_;
v___y_123_ = v___y_127_;
v___y_124_ = v_vec__2_65_;
goto v___jp_121_;
}
else
{
v___y_122_ = v___y_126_;
v___y_123_ = v___y_127_;
v___y_124_ = v_vec__2__1_119_;
goto v___jp_121_;
}
}
v___jp_128_:
{
if (v_c__1_115_ == 0)
{
v___y_126_ = v___y_129_;
v___y_127_ = v_vec__1_64_;
goto v___jp_125_;
}
else
{
v___y_126_ = v___y_129_;
v___y_127_ = v_vec__1__1_118_;
goto v___jp_125_;
}
}
}
}
LEAN_EXPORT lean_object* l_MjProof_Gen_mju__normalize4___at___00MjProof_Gen_mju__quatIntegrate___at___00main_spec__2_spec__3___boxed(lean_object* v_vec__0_130_, lean_object* v_vec__1_131_, lean_object* v_vec__2_132_, lean_object* v_vec__3_133_){
_start:
{
double v_vec__0_boxed_134_; double v_vec__1_boxed_135_; double v_vec__2_boxed_136_; double v_vec__3_boxed_137_; lean_object* v_res_138_; 
v_vec__0_boxed_134_ = lean_unbox_float(v_vec__0_130_);
lean_dec_ref(v_vec__0_130_);
v_vec__1_boxed_135_ = lean_unbox_float(v_vec__1_131_);
lean_dec_ref(v_vec__1_131_);
v_vec__2_boxed_136_ = lean_unbox_float(v_vec__2_132_);
lean_dec_ref(v_vec__2_132_);
v_vec__3_boxed_137_ = lean_unbox_float(v_vec__3_133_);
lean_dec_ref(v_vec__3_133_);
v_res_138_ = l_MjProof_Gen_mju__normalize4___at___00MjProof_Gen_mju__quatIntegrate___at___00main_spec__2_spec__3(v_vec__0_boxed_134_, v_vec__1_boxed_135_, v_vec__2_boxed_136_, v_vec__3_boxed_137_);
return v_res_138_;
}
}
static double _init_l_MjProof_Gen_mju__quatIntegrate___at___00main_spec__2___closed__0(void){
_start:
{
lean_object* v___x_139_; uint8_t v___x_140_; lean_object* v___x_141_; double v___x_142_; 
v___x_139_ = lean_unsigned_to_nat(1u);
v___x_140_ = 1;
v___x_141_ = lean_unsigned_to_nat(5u);
v___x_142_ = l_Float_ofScientific(v___x_141_, v___x_140_, v___x_139_);
return v___x_142_;
}
}
LEAN_EXPORT lean_object* l_MjProof_Gen_mju__quatIntegrate___at___00main_spec__2(double v_quat__0_143_, double v_quat__1_144_, double v_quat__2_145_, double v_quat__3_146_, double v_vel__0_147_, double v_vel__1_148_, double v_vel__2_149_, double v_scale_150_){
_start:
{
double v___y_152_; double v___y_153_; double v___y_154_; double v___y_155_; lean_object* v_r__mju__normalize3__0_235_; lean_object* v_snd_236_; lean_object* v_snd_237_; lean_object* v_fst_238_; lean_object* v_fst_239_; lean_object* v_fst_240_; lean_object* v_snd_241_; double v___x_242_; double v_angle__0_243_; double v_qrot__1__0_244_; uint8_t v___x_245_; double v___x_246_; double v___x_247_; double v_s__0_248_; double v___x_249_; double v_qrot__1__1_250_; double v___x_251_; double v_qrot__2__1_252_; double v___x_253_; double v_qrot__3__1_254_; double v___y_256_; double v___y_257_; double v___y_258_; double v___y_260_; double v___y_261_; double v___y_263_; 
v_r__mju__normalize3__0_235_ = l_MjProof_Gen_mju__normalize3___at___00main_spec__3(v_vel__0_147_, v_vel__1_148_, v_vel__2_149_);
v_snd_236_ = lean_ctor_get(v_r__mju__normalize3__0_235_, 1);
lean_inc(v_snd_236_);
v_snd_237_ = lean_ctor_get(v_snd_236_, 1);
lean_inc(v_snd_237_);
v_fst_238_ = lean_ctor_get(v_r__mju__normalize3__0_235_, 0);
lean_inc(v_fst_238_);
lean_dec_ref(v_r__mju__normalize3__0_235_);
v_fst_239_ = lean_ctor_get(v_snd_236_, 0);
lean_inc(v_fst_239_);
lean_dec(v_snd_236_);
v_fst_240_ = lean_ctor_get(v_snd_237_, 0);
lean_inc(v_fst_240_);
v_snd_241_ = lean_ctor_get(v_snd_237_, 1);
lean_inc(v_snd_241_);
lean_dec(v_snd_237_);
v___x_242_ = lean_unbox_float(v_fst_238_);
lean_dec(v_fst_238_);
v_angle__0_243_ = lean_float_mul(v_scale_150_, v___x_242_);
v_qrot__1__0_244_ = lean_float_once(&l_MjProof_Gen_mju__normalize3___at___00main_spec__3___closed__4, &l_MjProof_Gen_mju__normalize3___at___00main_spec__3___closed__4_once, _init_l_MjProof_Gen_mju__normalize3___at___00main_spec__3___closed__4);
v___x_245_ = lean_float_beq(v_angle__0_243_, v_qrot__1__0_244_);
v___x_246_ = lean_float_once(&l_MjProof_Gen_mju__quatIntegrate___at___00main_spec__2___closed__0, &l_MjProof_Gen_mju__quatIntegrate___at___00main_spec__2___closed__0_once, _init_l_MjProof_Gen_mju__quatIntegrate___at___00main_spec__2___closed__0);
v___x_247_ = lean_float_mul(v_angle__0_243_, v___x_246_);
v_s__0_248_ = sin(v___x_247_);
v___x_249_ = lean_unbox_float(v_fst_239_);
lean_dec(v_fst_239_);
v_qrot__1__1_250_ = lean_float_mul(v___x_249_, v_s__0_248_);
v___x_251_ = lean_unbox_float(v_fst_240_);
lean_dec(v_fst_240_);
v_qrot__2__1_252_ = lean_float_mul(v___x_251_, v_s__0_248_);
v___x_253_ = lean_unbox_float(v_snd_241_);
lean_dec(v_snd_241_);
v_qrot__3__1_254_ = lean_float_mul(v___x_253_, v_s__0_248_);
if (v___x_245_ == 0)
{
double v_qrot__0__1_264_; 
v_qrot__0__1_264_ = cos(v___x_247_);
v___y_263_ = v_qrot__0__1_264_;
goto v___jp_262_;
}
else
{
double v_qrot__0__0_265_; 
v_qrot__0__0_265_ = lean_float_once(&l_MjProof_Gen_mju__normalize3___at___00main_spec__3___closed__2, &l_MjProof_Gen_mju__normalize3___at___00main_spec__3___closed__2_once, _init_l_MjProof_Gen_mju__normalize3___at___00main_spec__3___closed__2);
v___y_263_ = v_qrot__0__0_265_;
goto v___jp_262_;
}
v___jp_151_:
{
lean_object* v_r__mju__normalize4__0_156_; lean_object* v_snd_157_; lean_object* v_snd_158_; lean_object* v_snd_159_; lean_object* v_fst_160_; lean_object* v___x_162_; uint8_t v_isShared_163_; uint8_t v_isSharedCheck_233_; 
v_r__mju__normalize4__0_156_ = l_MjProof_Gen_mju__normalize4___at___00MjProof_Gen_mju__quatIntegrate___at___00main_spec__2_spec__3(v_quat__0_143_, v_quat__1_144_, v_quat__2_145_, v_quat__3_146_);
v_snd_157_ = lean_ctor_get(v_r__mju__normalize4__0_156_, 1);
lean_inc(v_snd_157_);
lean_dec_ref(v_r__mju__normalize4__0_156_);
v_snd_158_ = lean_ctor_get(v_snd_157_, 1);
lean_inc(v_snd_158_);
v_snd_159_ = lean_ctor_get(v_snd_158_, 1);
lean_inc(v_snd_159_);
v_fst_160_ = lean_ctor_get(v_snd_157_, 0);
v_isSharedCheck_233_ = !lean_is_exclusive(v_snd_157_);
if (v_isSharedCheck_233_ == 0)
{
lean_object* v_unused_234_; 
v_unused_234_ = lean_ctor_get(v_snd_157_, 1);
lean_dec(v_unused_234_);
v___x_162_ = v_snd_157_;
v_isShared_163_ = v_isSharedCheck_233_;
goto v_resetjp_161_;
}
else
{
lean_inc(v_fst_160_);
lean_dec(v_snd_157_);
v___x_162_ = lean_box(0);
v_isShared_163_ = v_isSharedCheck_233_;
goto v_resetjp_161_;
}
v_resetjp_161_:
{
lean_object* v_fst_164_; lean_object* v___x_166_; uint8_t v_isShared_167_; uint8_t v_isSharedCheck_231_; 
v_fst_164_ = lean_ctor_get(v_snd_158_, 0);
v_isSharedCheck_231_ = !lean_is_exclusive(v_snd_158_);
if (v_isSharedCheck_231_ == 0)
{
lean_object* v_unused_232_; 
v_unused_232_ = lean_ctor_get(v_snd_158_, 1);
lean_dec(v_unused_232_);
v___x_166_ = v_snd_158_;
v_isShared_167_ = v_isSharedCheck_231_;
goto v_resetjp_165_;
}
else
{
lean_inc(v_fst_164_);
lean_dec(v_snd_158_);
v___x_166_ = lean_box(0);
v_isShared_167_ = v_isSharedCheck_231_;
goto v_resetjp_165_;
}
v_resetjp_165_:
{
lean_object* v_fst_168_; lean_object* v_snd_169_; lean_object* v___x_171_; uint8_t v_isShared_172_; uint8_t v_isSharedCheck_230_; 
v_fst_168_ = lean_ctor_get(v_snd_159_, 0);
v_snd_169_ = lean_ctor_get(v_snd_159_, 1);
v_isSharedCheck_230_ = !lean_is_exclusive(v_snd_159_);
if (v_isSharedCheck_230_ == 0)
{
v___x_171_ = v_snd_159_;
v_isShared_172_ = v_isSharedCheck_230_;
goto v_resetjp_170_;
}
else
{
lean_inc(v_snd_169_);
lean_inc(v_fst_168_);
lean_dec(v_snd_159_);
v___x_171_ = lean_box(0);
v_isShared_172_ = v_isSharedCheck_230_;
goto v_resetjp_170_;
}
v_resetjp_170_:
{
double v___x_173_; double v___x_174_; double v___x_175_; double v___x_176_; double v___x_177_; double v___x_178_; double v___x_179_; double v___x_180_; double v___x_181_; double v___x_182_; double v_tmp__0__1_183_; double v___x_184_; double v___x_185_; double v___x_186_; double v___x_187_; double v___x_188_; double v___x_189_; double v___x_190_; double v___x_191_; double v___x_192_; double v___x_193_; double v_tmp__1__1_194_; double v___x_195_; double v___x_196_; double v___x_197_; double v___x_198_; double v___x_199_; double v___x_200_; double v___x_201_; double v___x_202_; double v___x_203_; double v___x_204_; double v_tmp__2__1_205_; double v___x_206_; double v___x_207_; double v___x_208_; double v___x_209_; double v___x_210_; double v___x_211_; double v___x_212_; double v___x_213_; double v___x_214_; double v___x_215_; double v_tmp__3__0_216_; lean_object* v___x_217_; lean_object* v___x_218_; lean_object* v___x_220_; 
v___x_173_ = lean_unbox_float(v_fst_160_);
v___x_174_ = lean_float_mul(v___x_173_, v___y_152_);
v___x_175_ = lean_unbox_float(v_fst_164_);
v___x_176_ = lean_float_mul(v___x_175_, v___y_154_);
v___x_177_ = lean_float_sub(v___x_174_, v___x_176_);
v___x_178_ = lean_unbox_float(v_fst_168_);
v___x_179_ = lean_float_mul(v___x_178_, v___y_153_);
v___x_180_ = lean_float_sub(v___x_177_, v___x_179_);
v___x_181_ = lean_unbox_float(v_snd_169_);
v___x_182_ = lean_float_mul(v___x_181_, v___y_155_);
v_tmp__0__1_183_ = lean_float_sub(v___x_180_, v___x_182_);
v___x_184_ = lean_unbox_float(v_fst_164_);
v___x_185_ = lean_float_mul(v___x_184_, v___y_152_);
v___x_186_ = lean_unbox_float(v_fst_160_);
v___x_187_ = lean_float_mul(v___x_186_, v___y_154_);
v___x_188_ = lean_float_add(v___x_185_, v___x_187_);
v___x_189_ = lean_unbox_float(v_fst_168_);
v___x_190_ = lean_float_mul(v___x_189_, v___y_155_);
v___x_191_ = lean_float_add(v___x_188_, v___x_190_);
v___x_192_ = lean_unbox_float(v_snd_169_);
v___x_193_ = lean_float_mul(v___x_192_, v___y_153_);
v_tmp__1__1_194_ = lean_float_sub(v___x_191_, v___x_193_);
v___x_195_ = lean_unbox_float(v_fst_160_);
v___x_196_ = lean_float_mul(v___x_195_, v___y_153_);
v___x_197_ = lean_unbox_float(v_fst_164_);
v___x_198_ = lean_float_mul(v___x_197_, v___y_155_);
v___x_199_ = lean_float_sub(v___x_196_, v___x_198_);
v___x_200_ = lean_unbox_float(v_fst_168_);
v___x_201_ = lean_float_mul(v___x_200_, v___y_152_);
v___x_202_ = lean_float_add(v___x_199_, v___x_201_);
v___x_203_ = lean_unbox_float(v_snd_169_);
v___x_204_ = lean_float_mul(v___x_203_, v___y_154_);
v_tmp__2__1_205_ = lean_float_add(v___x_202_, v___x_204_);
v___x_206_ = lean_unbox_float(v_fst_160_);
lean_dec(v_fst_160_);
v___x_207_ = lean_float_mul(v___x_206_, v___y_155_);
v___x_208_ = lean_unbox_float(v_fst_164_);
lean_dec(v_fst_164_);
v___x_209_ = lean_float_mul(v___x_208_, v___y_153_);
v___x_210_ = lean_float_add(v___x_207_, v___x_209_);
v___x_211_ = lean_unbox_float(v_fst_168_);
lean_dec(v_fst_168_);
v___x_212_ = lean_float_mul(v___x_211_, v___y_154_);
v___x_213_ = lean_float_sub(v___x_210_, v___x_212_);
v___x_214_ = lean_unbox_float(v_snd_169_);
lean_dec(v_snd_169_);
v___x_215_ = lean_float_mul(v___x_214_, v___y_152_);
v_tmp__3__0_216_ = lean_float_add(v___x_213_, v___x_215_);
v___x_217_ = lean_box_float(v_tmp__2__1_205_);
v___x_218_ = lean_box_float(v_tmp__3__0_216_);
if (v_isShared_172_ == 0)
{
lean_ctor_set(v___x_171_, 1, v___x_218_);
lean_ctor_set(v___x_171_, 0, v___x_217_);
v___x_220_ = v___x_171_;
goto v_reusejp_219_;
}
else
{
lean_object* v_reuseFailAlloc_229_; 
v_reuseFailAlloc_229_ = lean_alloc_ctor(0, 2, 0);
lean_ctor_set(v_reuseFailAlloc_229_, 0, v___x_217_);
lean_ctor_set(v_reuseFailAlloc_229_, 1, v___x_218_);
v___x_220_ = v_reuseFailAlloc_229_;
goto v_reusejp_219_;
}
v_reusejp_219_:
{
lean_object* v___x_221_; lean_object* v___x_223_; 
v___x_221_ = lean_box_float(v_tmp__1__1_194_);
if (v_isShared_167_ == 0)
{
lean_ctor_set(v___x_166_, 1, v___x_220_);
lean_ctor_set(v___x_166_, 0, v___x_221_);
v___x_223_ = v___x_166_;
goto v_reusejp_222_;
}
else
{
lean_object* v_reuseFailAlloc_228_; 
v_reuseFailAlloc_228_ = lean_alloc_ctor(0, 2, 0);
lean_ctor_set(v_reuseFailAlloc_228_, 0, v___x_221_);
lean_ctor_set(v_reuseFailAlloc_228_, 1, v___x_220_);
v___x_223_ = v_reuseFailAlloc_228_;
goto v_reusejp_222_;
}
v_reusejp_222_:
{
lean_object* v___x_224_; lean_object* v___x_226_; 
v___x_224_ = lean_box_float(v_tmp__0__1_183_);
if (v_isShared_163_ == 0)
{
lean_ctor_set(v___x_162_, 1, v___x_223_);
lean_ctor_set(v___x_162_, 0, v___x_224_);
v___x_226_ = v___x_162_;
goto v_reusejp_225_;
}
else
{
lean_object* v_reuseFailAlloc_227_; 
v_reuseFailAlloc_227_ = lean_alloc_ctor(0, 2, 0);
lean_ctor_set(v_reuseFailAlloc_227_, 0, v___x_224_);
lean_ctor_set(v_reuseFailAlloc_227_, 1, v___x_223_);
v___x_226_ = v_reuseFailAlloc_227_;
goto v_reusejp_225_;
}
v_reusejp_225_:
{
return v___x_226_;
}
}
}
}
}
}
}
v___jp_255_:
{
if (v___x_245_ == 0)
{
v___y_152_ = v___y_256_;
v___y_153_ = v___y_258_;
v___y_154_ = v___y_257_;
v___y_155_ = v_qrot__3__1_254_;
goto v___jp_151_;
}
else
{
v___y_152_ = v___y_256_;
v___y_153_ = v___y_258_;
v___y_154_ = v___y_257_;
v___y_155_ = v_qrot__1__0_244_;
goto v___jp_151_;
}
}
v___jp_259_:
{
if (v___x_245_ == 0)
{
v___y_256_ = v___y_260_;
v___y_257_ = v___y_261_;
v___y_258_ = v_qrot__2__1_252_;
goto v___jp_255_;
}
else
{
v___y_256_ = v___y_260_;
v___y_257_ = v___y_261_;
v___y_258_ = v_qrot__1__0_244_;
goto v___jp_255_;
}
}
v___jp_262_:
{
if (v___x_245_ == 0)
{
v___y_260_ = v___y_263_;
v___y_261_ = v_qrot__1__1_250_;
goto v___jp_259_;
}
else
{
v___y_260_ = v___y_263_;
v___y_261_ = v_qrot__1__0_244_;
goto v___jp_259_;
}
}
}
}
LEAN_EXPORT lean_object* l_MjProof_Gen_mju__quatIntegrate___at___00main_spec__2___boxed(lean_object* v_quat__0_266_, lean_object* v_quat__1_267_, lean_object* v_quat__2_268_, lean_object* v_quat__3_269_, lean_object* v_vel__0_270_, lean_object* v_vel__1_271_, lean_object* v_vel__2_272_, lean_object* v_scale_273_){
_start:
{
double v_quat__0_boxed_274_; double v_quat__1_boxed_275_; double v_quat__2_boxed_276_; double v_quat__3_boxed_277_; double v_vel__0_boxed_278_; double v_vel__1_boxed_279_; double v_vel__2_boxed_280_; double v_scale_boxed_281_; lean_object* v_res_282_; 
v_quat__0_boxed_274_ = lean_unbox_float(v_quat__0_266_);
lean_dec_ref(v_quat__0_266_);
v_quat__1_boxed_275_ = lean_unbox_float(v_quat__1_267_);
lean_dec_ref(v_quat__1_267_);
v_quat__2_boxed_276_ = lean_unbox_float(v_quat__2_268_);
lean_dec_ref(v_quat__2_268_);
v_quat__3_boxed_277_ = lean_unbox_float(v_quat__3_269_);
lean_dec_ref(v_quat__3_269_);
v_vel__0_boxed_278_ = lean_unbox_float(v_vel__0_270_);
lean_dec_ref(v_vel__0_270_);
v_vel__1_boxed_279_ = lean_unbox_float(v_vel__1_271_);
lean_dec_ref(v_vel__1_271_);
v_vel__2_boxed_280_ = lean_unbox_float(v_vel__2_272_);
lean_dec_ref(v_vel__2_272_);
v_scale_boxed_281_ = lean_unbox_float(v_scale_273_);
lean_dec_ref(v_scale_273_);
v_res_282_ = l_MjProof_Gen_mju__quatIntegrate___at___00main_spec__2(v_quat__0_boxed_274_, v_quat__1_boxed_275_, v_quat__2_boxed_276_, v_quat__3_boxed_277_, v_vel__0_boxed_278_, v_vel__1_boxed_279_, v_vel__2_boxed_280_, v_scale_boxed_281_);
return v_res_282_;
}
}
LEAN_EXPORT lean_object* l_MjProof_Integrate_integrateQuat___at___00main_spec__0(lean_object* v_q_283_, lean_object* v_w_284_, double v_dt_285_){
_start:
{
lean_object* v_snd_286_; lean_object* v_snd_287_; lean_object* v_snd_288_; lean_object* v_fst_289_; lean_object* v_fst_290_; lean_object* v_fst_291_; lean_object* v_snd_292_; lean_object* v_fst_293_; lean_object* v_fst_294_; lean_object* v_snd_295_; double v___x_296_; double v___x_297_; double v___x_298_; double v___x_299_; double v___x_300_; double v___x_301_; double v___x_302_; lean_object* v___x_303_; 
v_snd_286_ = lean_ctor_get(v_q_283_, 1);
v_snd_287_ = lean_ctor_get(v_snd_286_, 1);
v_snd_288_ = lean_ctor_get(v_w_284_, 1);
v_fst_289_ = lean_ctor_get(v_q_283_, 0);
v_fst_290_ = lean_ctor_get(v_snd_286_, 0);
v_fst_291_ = lean_ctor_get(v_snd_287_, 0);
v_snd_292_ = lean_ctor_get(v_snd_287_, 1);
v_fst_293_ = lean_ctor_get(v_w_284_, 0);
v_fst_294_ = lean_ctor_get(v_snd_288_, 0);
v_snd_295_ = lean_ctor_get(v_snd_288_, 1);
v___x_296_ = lean_unbox_float(v_fst_289_);
v___x_297_ = lean_unbox_float(v_fst_290_);
v___x_298_ = lean_unbox_float(v_fst_291_);
v___x_299_ = lean_unbox_float(v_snd_292_);
v___x_300_ = lean_unbox_float(v_fst_293_);
v___x_301_ = lean_unbox_float(v_fst_294_);
v___x_302_ = lean_unbox_float(v_snd_295_);
v___x_303_ = l_MjProof_Gen_mju__quatIntegrate___at___00main_spec__2(v___x_296_, v___x_297_, v___x_298_, v___x_299_, v___x_300_, v___x_301_, v___x_302_, v_dt_285_);
return v___x_303_;
}
}
LEAN_EXPORT lean_object* l_MjProof_Integrate_integrateQuat___at___00main_spec__0___boxed(lean_object* v_q_304_, lean_object* v_w_305_, lean_object* v_dt_306_){
_start:
{
double v_dt_boxed_307_; lean_object* v_res_308_; 
v_dt_boxed_307_ = lean_unbox_float(v_dt_306_);
lean_dec_ref(v_dt_306_);
v_res_308_ = l_MjProof_Integrate_integrateQuat___at___00main_spec__0(v_q_304_, v_w_305_, v_dt_boxed_307_);
lean_dec_ref(v_w_305_);
lean_dec_ref(v_q_304_);
return v_res_308_;
}
}
LEAN_EXPORT lean_object* l_IO_print___at___00IO_println___at___00main_spec__1_spec__1(lean_object* v_s_309_){
_start:
{
lean_object* v___x_311_; lean_object* v_putStr_312_; lean_object* v___x_313_; 
v___x_311_ = lean_get_stdout();
v_putStr_312_ = lean_ctor_get(v___x_311_, 4);
lean_inc_ref(v_putStr_312_);
lean_dec_ref(v___x_311_);
v___x_313_ = lean_apply_2(v_putStr_312_, v_s_309_, lean_box(0));
return v___x_313_;
}
}
LEAN_EXPORT lean_object* l_IO_print___at___00IO_println___at___00main_spec__1_spec__1___boxed(lean_object* v_s_314_, lean_object* v_a_315_){
_start:
{
lean_object* v_res_316_; 
v_res_316_ = l_IO_print___at___00IO_println___at___00main_spec__1_spec__1(v_s_314_);
return v_res_316_;
}
}
LEAN_EXPORT lean_object* l_IO_println___at___00main_spec__1(lean_object* v_s_317_){
_start:
{
uint32_t v___x_319_; lean_object* v___x_320_; lean_object* v___x_321_; 
v___x_319_ = 10;
v___x_320_ = lean_string_push(v_s_317_, v___x_319_);
v___x_321_ = l_IO_print___at___00IO_println___at___00main_spec__1_spec__1(v___x_320_);
return v___x_321_;
}
}
LEAN_EXPORT lean_object* l_IO_println___at___00main_spec__1___boxed(lean_object* v_s_322_, lean_object* v_a_323_){
_start:
{
lean_object* v_res_324_; 
v_res_324_ = l_IO_println___at___00main_spec__1(v_s_322_);
return v_res_324_;
}
}
static double _init_l_main___closed__1(void){
_start:
{
lean_object* v___x_326_; double v___x_327_; 
v___x_326_ = ((lean_object*)(l_main___closed__0));
v___x_327_ = l_f(v___x_326_);
return v___x_327_;
}
}
static double _init_l_main___closed__3(void){
_start:
{
lean_object* v___x_329_; double v___x_330_; 
v___x_329_ = ((lean_object*)(l_main___closed__2));
v___x_330_ = l_f(v___x_329_);
return v___x_330_;
}
}
static double _init_l_main___closed__5(void){
_start:
{
lean_object* v___x_332_; double v___x_333_; 
v___x_332_ = ((lean_object*)(l_main___closed__4));
v___x_333_ = l_f(v___x_332_);
return v___x_333_;
}
}
static double _init_l_main___closed__7(void){
_start:
{
lean_object* v___x_335_; double v___x_336_; 
v___x_335_ = ((lean_object*)(l_main___closed__6));
v___x_336_ = l_f(v___x_335_);
return v___x_336_;
}
}
static lean_object* _init_l_main___closed__8___boxed__const__1(void){
_start:
{
double v___x_337_; lean_object* v___x_338_; 
v___x_337_ = lean_float_once(&l_main___closed__5, &l_main___closed__5_once, _init_l_main___closed__5);
v___x_338_ = lean_box_float(v___x_337_);
return v___x_338_;
}
}
static lean_object* _init_l_main___closed__8___boxed__const__2(void){
_start:
{
double v___x_339_; lean_object* v___x_340_; 
v___x_339_ = lean_float_once(&l_main___closed__7, &l_main___closed__7_once, _init_l_main___closed__7);
v___x_340_ = lean_box_float(v___x_339_);
return v___x_340_;
}
}
static lean_object* _init_l_main___closed__8(void){
_start:
{
lean_object* v___x_341_; lean_object* v___x_342_; lean_object* v___x_343_; 
v___x_341_ = l_main___closed__8___boxed__const__1;
v___x_342_ = l_main___closed__8___boxed__const__2;
v___x_343_ = lean_alloc_ctor(0, 2, 0);
lean_ctor_set(v___x_343_, 0, v___x_341_);
lean_ctor_set(v___x_343_, 1, v___x_342_);
return v___x_343_;
}
}
static lean_object* _init_l_main___closed__9___boxed__const__1(void){
_start:
{
double v___x_344_; lean_object* v___x_345_; 
v___x_344_ = lean_float_once(&l_main___closed__3, &l_main___closed__3_once, _init_l_main___closed__3);
v___x_345_ = lean_box_float(v___x_344_);
return v___x_345_;
}
}
static lean_object* _init_l_main___closed__9(void){
_start:
{
lean_object* v___x_346_; lean_object* v___x_347_; lean_object* v___x_348_; 
v___x_346_ = lean_obj_once(&l_main___closed__8, &l_main___closed__8_once, _init_l_main___closed__8);
v___x_347_ = l_main___closed__9___boxed__const__1;
v___x_348_ = lean_alloc_ctor(0, 2, 0);
lean_ctor_set(v___x_348_, 0, v___x_347_);
lean_ctor_set(v___x_348_, 1, v___x_346_);
return v___x_348_;
}
}
static lean_object* _init_l_main___closed__10___boxed__const__1(void){
_start:
{
double v___x_349_; lean_object* v___x_350_; 
v___x_349_ = lean_float_once(&l_main___closed__1, &l_main___closed__1_once, _init_l_main___closed__1);
v___x_350_ = lean_box_float(v___x_349_);
return v___x_350_;
}
}
static lean_object* _init_l_main___closed__10(void){
_start:
{
lean_object* v___x_351_; lean_object* v___x_352_; lean_object* v_q_353_; 
v___x_351_ = lean_obj_once(&l_main___closed__9, &l_main___closed__9_once, _init_l_main___closed__9);
v___x_352_ = l_main___closed__10___boxed__const__1;
v_q_353_ = lean_alloc_ctor(0, 2, 0);
lean_ctor_set(v_q_353_, 0, v___x_352_);
lean_ctor_set(v_q_353_, 1, v___x_351_);
return v_q_353_;
}
}
static double _init_l_main___closed__12(void){
_start:
{
lean_object* v___x_355_; double v___x_356_; 
v___x_355_ = ((lean_object*)(l_main___closed__11));
v___x_356_ = l_f(v___x_355_);
return v___x_356_;
}
}
static double _init_l_main___closed__14(void){
_start:
{
lean_object* v___x_358_; double v___x_359_; 
v___x_358_ = ((lean_object*)(l_main___closed__13));
v___x_359_ = l_f(v___x_358_);
return v___x_359_;
}
}
static double _init_l_main___closed__16(void){
_start:
{
lean_object* v___x_361_; double v___x_362_; 
v___x_361_ = ((lean_object*)(l_main___closed__15));
v___x_362_ = l_f(v___x_361_);
return v___x_362_;
}
}
static lean_object* _init_l_main___closed__17___boxed__const__1(void){
_start:
{
double v___x_363_; lean_object* v___x_364_; 
v___x_363_ = lean_float_once(&l_main___closed__14, &l_main___closed__14_once, _init_l_main___closed__14);
v___x_364_ = lean_box_float(v___x_363_);
return v___x_364_;
}
}
static lean_object* _init_l_main___closed__17___boxed__const__2(void){
_start:
{
double v___x_365_; lean_object* v___x_366_; 
v___x_365_ = lean_float_once(&l_main___closed__16, &l_main___closed__16_once, _init_l_main___closed__16);
v___x_366_ = lean_box_float(v___x_365_);
return v___x_366_;
}
}
static lean_object* _init_l_main___closed__17(void){
_start:
{
lean_object* v___x_367_; lean_object* v___x_368_; lean_object* v___x_369_; 
v___x_367_ = l_main___closed__17___boxed__const__1;
v___x_368_ = l_main___closed__17___boxed__const__2;
v___x_369_ = lean_alloc_ctor(0, 2, 0);
lean_ctor_set(v___x_369_, 0, v___x_367_);
lean_ctor_set(v___x_369_, 1, v___x_368_);
return v___x_369_;
}
}
static lean_object* _init_l_main___closed__18___boxed__const__1(void){
_start:
{
double v___x_370_; lean_object* v___x_371_; 
v___x_370_ = lean_float_once(&l_main___closed__12, &l_main___closed__12_once, _init_l_main___closed__12);
v___x_371_ = lean_box_float(v___x_370_);
return v___x_371_;
}
}
static lean_object* _init_l_main___closed__18(void){
_start:
{
lean_object* v___x_372_; lean_object* v___x_373_; lean_object* v_w_374_; 
v___x_372_ = lean_obj_once(&l_main___closed__17, &l_main___closed__17_once, _init_l_main___closed__17);
v___x_373_ = l_main___closed__18___boxed__const__1;
v_w_374_ = lean_alloc_ctor(0, 2, 0);
lean_ctor_set(v_w_374_, 0, v___x_373_);
lean_ctor_set(v_w_374_, 1, v___x_372_);
return v_w_374_;
}
}
static double _init_l_main___closed__20(void){
_start:
{
lean_object* v___x_376_; double v_h_377_; 
v___x_376_ = ((lean_object*)(l_main___closed__19));
v_h_377_ = l_f(v___x_376_);
return v_h_377_;
}
}
static lean_object* _init_l_main___closed__21(void){
_start:
{
double v_h_378_; lean_object* v_w_379_; lean_object* v_q_380_; lean_object* v_r_381_; 
v_h_378_ = lean_float_once(&l_main___closed__20, &l_main___closed__20_once, _init_l_main___closed__20);
v_w_379_ = lean_obj_once(&l_main___closed__18, &l_main___closed__18_once, _init_l_main___closed__18);
v_q_380_ = lean_obj_once(&l_main___closed__10, &l_main___closed__10_once, _init_l_main___closed__10);
v_r_381_ = l_MjProof_Integrate_integrateQuat___at___00main_spec__0(v_q_380_, v_w_379_, v_h_378_);
return v_r_381_;
}
}
static lean_object* _init_l_main___closed__23(void){
_start:
{
double v_h_383_; double v___x_384_; double v___x_385_; double v___x_386_; double v___x_387_; double v___x_388_; double v___x_389_; double v___x_390_; lean_object* v___x_391_; 
v_h_383_ = lean_float_once(&l_main___closed__20, &l_main___closed__20_once, _init_l_main___closed__20);
v___x_384_ = lean_float_once(&l_main___closed__16, &l_main___closed__16_once, _init_l_main___closed__16);
v___x_385_ = lean_float_once(&l_main___closed__14, &l_main___closed__14_once, _init_l_main___closed__14);
v___x_386_ = lean_float_once(&l_main___closed__12, &l_main___closed__12_once, _init_l_main___closed__12);
v___x_387_ = lean_float_once(&l_main___closed__7, &l_main___closed__7_once, _init_l_main___closed__7);
v___x_388_ = lean_float_once(&l_main___closed__5, &l_main___closed__5_once, _init_l_main___closed__5);
v___x_389_ = lean_float_once(&l_main___closed__3, &l_main___closed__3_once, _init_l_main___closed__3);
v___x_390_ = lean_float_once(&l_main___closed__1, &l_main___closed__1_once, _init_l_main___closed__1);
v___x_391_ = l_MjProof_Gen_mju__quatIntegrate___at___00main_spec__2(v___x_390_, v___x_389_, v___x_388_, v___x_387_, v___x_386_, v___x_385_, v___x_384_, v_h_383_);
return v___x_391_;
}
}
static lean_object* _init_l_main___closed__24(void){
_start:
{
double v___x_392_; double v___x_393_; double v___x_394_; lean_object* v___x_395_; 
v___x_392_ = lean_float_once(&l_main___closed__16, &l_main___closed__16_once, _init_l_main___closed__16);
v___x_393_ = lean_float_once(&l_main___closed__14, &l_main___closed__14_once, _init_l_main___closed__14);
v___x_394_ = lean_float_once(&l_main___closed__12, &l_main___closed__12_once, _init_l_main___closed__12);
v___x_395_ = l_MjProof_Gen_mju__normalize3___at___00main_spec__3(v___x_394_, v___x_393_, v___x_392_);
return v___x_395_;
}
}
LEAN_EXPORT lean_object* _lean_main(){
_start:
{
lean_object* v_r_397_; lean_object* v_snd_398_; lean_object* v_snd_399_; lean_object* v_fst_400_; lean_object* v_fst_401_; lean_object* v_fst_402_; lean_object* v_snd_403_; double v___x_404_; lean_object* v___x_405_; lean_object* v___x_406_; lean_object* v___x_407_; double v___x_408_; lean_object* v___x_409_; lean_object* v___x_410_; lean_object* v___x_411_; double v___x_412_; lean_object* v___x_413_; lean_object* v___x_414_; lean_object* v___x_415_; double v___x_416_; lean_object* v___x_417_; lean_object* v___x_418_; lean_object* v___x_419_; 
v_r_397_ = lean_obj_once(&l_main___closed__21, &l_main___closed__21_once, _init_l_main___closed__21);
v_snd_398_ = lean_ctor_get(v_r_397_, 1);
v_snd_399_ = lean_ctor_get(v_snd_398_, 1);
v_fst_400_ = lean_ctor_get(v_r_397_, 0);
v_fst_401_ = lean_ctor_get(v_snd_398_, 0);
v_fst_402_ = lean_ctor_get(v_snd_399_, 0);
v_snd_403_ = lean_ctor_get(v_snd_399_, 1);
v___x_404_ = lean_unbox_float(v_fst_400_);
v___x_405_ = lean_float_to_string(v___x_404_);
v___x_406_ = ((lean_object*)(l_main___closed__22));
v___x_407_ = lean_string_append(v___x_405_, v___x_406_);
v___x_408_ = lean_unbox_float(v_fst_401_);
v___x_409_ = lean_float_to_string(v___x_408_);
v___x_410_ = lean_string_append(v___x_407_, v___x_409_);
lean_dec_ref(v___x_409_);
v___x_411_ = lean_string_append(v___x_410_, v___x_406_);
v___x_412_ = lean_unbox_float(v_fst_402_);
v___x_413_ = lean_float_to_string(v___x_412_);
v___x_414_ = lean_string_append(v___x_411_, v___x_413_);
lean_dec_ref(v___x_413_);
v___x_415_ = lean_string_append(v___x_414_, v___x_406_);
v___x_416_ = lean_unbox_float(v_snd_403_);
v___x_417_ = lean_float_to_string(v___x_416_);
v___x_418_ = lean_string_append(v___x_415_, v___x_417_);
lean_dec_ref(v___x_417_);
v___x_419_ = l_IO_println___at___00main_spec__1(v___x_418_);
if (lean_obj_tag(v___x_419_) == 0)
{
lean_object* v___x_420_; lean_object* v_snd_421_; lean_object* v_snd_422_; lean_object* v_fst_423_; lean_object* v_fst_424_; lean_object* v_fst_425_; lean_object* v_snd_426_; double v___x_427_; lean_object* v___x_428_; lean_object* v___x_429_; double v___x_430_; lean_object* v___x_431_; lean_object* v___x_432_; lean_object* v___x_433_; double v___x_434_; lean_object* v___x_435_; lean_object* v___x_436_; lean_object* v___x_437_; double v___x_438_; lean_object* v___x_439_; lean_object* v___x_440_; lean_object* v___x_441_; 
lean_dec_ref_known(v___x_419_, 1);
v___x_420_ = lean_obj_once(&l_main___closed__23, &l_main___closed__23_once, _init_l_main___closed__23);
v_snd_421_ = lean_ctor_get(v___x_420_, 1);
v_snd_422_ = lean_ctor_get(v_snd_421_, 1);
v_fst_423_ = lean_ctor_get(v___x_420_, 0);
v_fst_424_ = lean_ctor_get(v_snd_421_, 0);
v_fst_425_ = lean_ctor_get(v_snd_422_, 0);
v_snd_426_ = lean_ctor_get(v_snd_422_, 1);
v___x_427_ = lean_unbox_float(v_fst_423_);
v___x_428_ = lean_float_to_string(v___x_427_);
v___x_429_ = lean_string_append(v___x_428_, v___x_406_);
v___x_430_ = lean_unbox_float(v_fst_424_);
v___x_431_ = lean_float_to_string(v___x_430_);
v___x_432_ = lean_string_append(v___x_429_, v___x_431_);
lean_dec_ref(v___x_431_);
v___x_433_ = lean_string_append(v___x_432_, v___x_406_);
v___x_434_ = lean_unbox_float(v_fst_425_);
v___x_435_ = lean_float_to_string(v___x_434_);
v___x_436_ = lean_string_append(v___x_433_, v___x_435_);
lean_dec_ref(v___x_435_);
v___x_437_ = lean_string_append(v___x_436_, v___x_406_);
v___x_438_ = lean_unbox_float(v_snd_426_);
v___x_439_ = lean_float_to_string(v___x_438_);
v___x_440_ = lean_string_append(v___x_437_, v___x_439_);
lean_dec_ref(v___x_439_);
v___x_441_ = l_IO_println___at___00main_spec__1(v___x_440_);
if (lean_obj_tag(v___x_441_) == 0)
{
lean_object* v___x_442_; lean_object* v_snd_443_; lean_object* v_snd_444_; lean_object* v_fst_445_; lean_object* v_fst_446_; lean_object* v_fst_447_; lean_object* v_snd_448_; double v___x_449_; lean_object* v___x_450_; lean_object* v___x_451_; double v___x_452_; lean_object* v___x_453_; lean_object* v___x_454_; lean_object* v___x_455_; double v___x_456_; lean_object* v___x_457_; lean_object* v___x_458_; lean_object* v___x_459_; double v___x_460_; lean_object* v___x_461_; lean_object* v___x_462_; lean_object* v___x_463_; 
lean_dec_ref_known(v___x_441_, 1);
v___x_442_ = lean_obj_once(&l_main___closed__24, &l_main___closed__24_once, _init_l_main___closed__24);
v_snd_443_ = lean_ctor_get(v___x_442_, 1);
v_snd_444_ = lean_ctor_get(v_snd_443_, 1);
v_fst_445_ = lean_ctor_get(v___x_442_, 0);
v_fst_446_ = lean_ctor_get(v_snd_443_, 0);
v_fst_447_ = lean_ctor_get(v_snd_444_, 0);
v_snd_448_ = lean_ctor_get(v_snd_444_, 1);
v___x_449_ = lean_unbox_float(v_fst_445_);
v___x_450_ = lean_float_to_string(v___x_449_);
v___x_451_ = lean_string_append(v___x_450_, v___x_406_);
v___x_452_ = lean_unbox_float(v_fst_446_);
v___x_453_ = lean_float_to_string(v___x_452_);
v___x_454_ = lean_string_append(v___x_451_, v___x_453_);
lean_dec_ref(v___x_453_);
v___x_455_ = lean_string_append(v___x_454_, v___x_406_);
v___x_456_ = lean_unbox_float(v_fst_447_);
v___x_457_ = lean_float_to_string(v___x_456_);
v___x_458_ = lean_string_append(v___x_455_, v___x_457_);
lean_dec_ref(v___x_457_);
v___x_459_ = lean_string_append(v___x_458_, v___x_406_);
v___x_460_ = lean_unbox_float(v_snd_448_);
v___x_461_ = lean_float_to_string(v___x_460_);
v___x_462_ = lean_string_append(v___x_459_, v___x_461_);
lean_dec_ref(v___x_461_);
v___x_463_ = l_IO_println___at___00main_spec__1(v___x_462_);
return v___x_463_;
}
else
{
return v___x_441_;
}
}
else
{
return v___x_419_;
}
}
}
LEAN_EXPORT lean_object* l_main___boxed(lean_object* v_a_464_){
_start:
{
lean_object* v_res_465_; 
v_res_465_ = _lean_main();
return v_res_465_;
}
}
lean_object* initialize_Init(uint8_t builtin);
lean_object* initialize_Init(uint8_t builtin);
lean_object* initialize_MjProof_MjProof_Model_Integrate(uint8_t builtin);
static bool _G_initialized = false;
LEAN_EXPORT lean_object* initialize_ScratchC05_T2(uint8_t builtin) {
lean_object * res;
if (_G_initialized) return lean_io_result_mk_ok(lean_box(0));
_G_initialized = true;
res = initialize_Init(builtin);
if (lean_io_result_is_error(res)) return res;
lean_dec_ref(res);
res = initialize_Init(builtin);
if (lean_io_result_is_error(res)) return res;
lean_dec_ref(res);
res = initialize_MjProof_MjProof_Model_Integrate(builtin);
if (lean_io_result_is_error(res)) return res;
lean_dec_ref(res);
l_main___closed__8___boxed__const__1 = _init_l_main___closed__8___boxed__const__1();
lean_mark_persistent(l_main___closed__8___boxed__const__1);
l_main___closed__8___boxed__const__2 = _init_l_main___closed__8___boxed__const__2();
lean_mark_persistent(l_main___closed__8___boxed__const__2);
l_main___closed__9___boxed__const__1 = _init_l_main___closed__9___boxed__const__1();
lean_mark_persistent(l_main___closed__9___boxed__const__1);
l_main___closed__10___boxed__const__1 = _init_l_main___closed__10___boxed__const__1();
lean_mark_persistent(l_main___closed__10___boxed__const__1);
l_main___closed__17___boxed__const__1 = _init_l_main___closed__17___boxed__const__1();
lean_mark_persistent(l_main___closed__17___boxed__const__1);
l_main___closed__17___boxed__const__2 = _init_l_main___closed__17___boxed__const__2();
lean_mark_persistent(l_main___closed__17___boxed__const__2);
l_main___closed__18___boxed__const__1 = _init_l_main___closed__18___boxed__const__1();
lean_mark_persistent(l_main___closed__18___boxed__const__1);
return lean_io_result_mk_ok(lean_box(0));
}
char ** lean_setup_args(int argc, char ** argv);
void lean_initialize_runtime_module();
#if defined(WIN32) || defined(_WIN32)
#include <windows.h>
#endif
lean_object* run_main(int argc, char ** argv) {
    return _lean_main();
}
int main(int argc, char ** argv) {
#if defined(WIN32) || defined(_WIN32)
  SetErrorMode(SEM_FAILCRITICALERRORS);
  SetConsoleOutputCP(CP_UTF8);
#endif
  lean_object* res;
  argv = lean_setup_args(argc, argv);
  lean_initialize_runtime_module();
  res = initialize_ScratchC05_T2(1 /* builtin */);
  lean_io_mark_end_initialization();
  if (lean_io_result_is_ok(res)) {
    lean_dec_ref(res);
    lean_init_task_manager();
    res = lean_run_main(&run_main, argc, argv);
  }
  lean_finalize_task_manager();
  if (lean_io_result_is_ok(res)) {
    int ret = 0;
    lean_dec_ref(res);
    return ret;
  } else {
    lean_io_result_show_error(res);
    lean_dec_ref(res);
    return 1;
  }
}
#ifdef __cplusplus
}
#endif
