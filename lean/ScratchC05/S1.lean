import MjProof.Lemmas.Integrate
namespace MjProof.Integrate
open MjProof MjProof.Gen MjProof.Spatial

/-- the quaternion slots of a qpos vector with the given joint layout -/
def quatsOf {α : Type} : List JType → List α → Option (List (α × α × α × α))
  | [], [] => some []
  | [], _ => none
  | .free :: ts, qp => do
      let (_, r1) ← take3 qp
      let (q, r2) ← take4 r1
      let rest ← quatsOf ts r2
      pure (q :: rest)
  | .ball :: ts, qp => do
      let (q, r) ← take4 qp
      let rest ← quatsOf ts r
      pure (q :: rest)
  | .slide :: ts, qp => do
      let (_, r) ← take1 qp
      quatsOf ts r
  | .hinge :: ts, qp => do
      let (_, r) ← take1 qp
      quatsOf ts r

theorem integratePos_quatsOf (ts : List JType) (h : ℝ) : ∀ (qp qv qp' : List ℝ),
    integratePos ts qp qv h = some qp' →
    ∃ qs ws, quatsOf ts qp = some qs ∧ qs.length = ws.length ∧
      quatsOf ts qp' = some (List.zipWith (fun q w => integrateQuat q w h) qs ws) := by
  induction ts with
  | nil =>
    intro qp qv qp' H
    rcases qp with _ | ⟨a, qp⟩ <;> rcases qv with _ | ⟨b, qv⟩ <;> simp [integratePos] at H
    subst H
    exact ⟨[], [], by simp [quatsOf], rfl, by simp [quatsOf]⟩
  | cons t ts ih =>
    intro qp qv qp' H
    cases t with
    | free =>
      rcases qp with _ | ⟨p0, _ | ⟨p1, _ | ⟨p2, _ | ⟨q0, _ | ⟨q1, _ | ⟨q2, _ | ⟨q3, qp2⟩⟩⟩⟩⟩⟩⟩ <;>
        try (simp [integratePos, take3, take4] at H; done)
      rcases qv with _ | ⟨v0, _ | ⟨v1, _ | ⟨v2, _ | ⟨w0, _ | ⟨w1, _ | ⟨w2, qv2⟩⟩⟩⟩⟩⟩ <;>
        try (simp [integratePos, take3, take4] at H; done)
      cases hr : integratePos ts qp2 qv2 h with
      | none => simp [integratePos, take3, take4, hr] at H
      | some rest =>
      simp [integratePos, take3, take4, hr] at H
      subst H
      obtain ⟨qs, ws, h1, h2, h3⟩ := ih _ _ _ hr
      refine ⟨(q0, q1, q2, q3) :: qs, (w0, w1, w2) :: ws, ?_, by simp [h2], ?_⟩
      · simp [quatsOf, take3, take4, h1]
      · simp [quatsOf, take3, take4, h3]
    | ball =>
      rcases qp with _ | ⟨q0, _ | ⟨q1, _ | ⟨q2, _ | ⟨q3, qp2⟩⟩⟩⟩ <;>
        try (simp [integratePos, take3, take4] at H; done)
      rcases qv with _ | ⟨w0, _ | ⟨w1, _ | ⟨w2, qv2⟩⟩⟩ <;>
        try (simp [integratePos, take3, take4] at H; done)
      cases hr : integratePos ts qp2 qv2 h with
      | none => simp [integratePos, take3, take4, hr] at H
      | some rest =>
      simp [integratePos, take3, take4, hr] at H
      subst H
      obtain ⟨qs, ws, h1, h2, h3⟩ := ih _ _ _ hr
      refine ⟨(q0, q1, q2, q3) :: qs, (w0, w1, w2) :: ws, ?_, by simp [h2], ?_⟩
      · simp [quatsOf, take4, h1]
      · simp [quatsOf, take4, h3]
    | slide =>
      rcases qp with _ | ⟨x, qp2⟩ <;> try (simp [integratePos, take1] at H; done)
      rcases qv with _ | ⟨v, qv2⟩ <;> try (simp [integratePos, take1] at H; done)
      cases hr : integratePos ts qp2 qv2 h with
      | none => simp [integratePos, take1, hr] at H
      | some rest =>
      simp [integratePos, take1, hr] at H
      subst H
      obtain ⟨qs, ws, h1, h2, h3⟩ := ih _ _ _ hr
      exact ⟨qs, ws, by simp [quatsOf, take1, h1], h2, by simp [quatsOf, take1, h3]⟩
    | hinge =>
      rcases qp with _ | ⟨x, qp2⟩ <;> try (simp [integratePos, take1] at H; done)
      rcases qv with _ | ⟨v, qv2⟩ <;> try (simp [integratePos, take1] at H; done)
      cases hr : integratePos ts qp2 qv2 h with
      | none => simp [integratePos, take1, hr] at H
      | some rest =>
      simp [integratePos, take1, hr] at H
      subst H
      obtain ⟨qs, ws, h1, h2, h3⟩ := ih _ _ _ hr
      exact ⟨qs, ws, by simp [quatsOf, take1, h1], h2, by simp [quatsOf, take1, h3]⟩

end MjProof.Integrate
