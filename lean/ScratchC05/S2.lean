import MjProof.Lemmas.Integrate
namespace MjProof.Integrate
open MjProof MjProof.Gen MjProof.Spatial

/-- the result of `mj_integratePosInd` has the length of `qpos` -/
theorem integratePos_length' (ts : List JType) (h : ℝ) : ∀ (qp qv qp' : List ℝ),
    integratePos ts qp qv h = some qp' → qp'.length = qp.length := by
  induction ts with
  | nil =>
    intro qp qv qp' H
    rcases qp with _ | ⟨a, qp⟩ <;> rcases qv with _ | ⟨b, qv⟩ <;> simp [integratePos] at H
    subst H; rfl
  | cons t ts ih =>
    intro qp qv qp' H
    cases t with
    | free =>
      rcases qp with _ | ⟨p0, _ | ⟨p1, _ | ⟨p2, _ | ⟨q0, _ | ⟨q1, _ | ⟨q2, _ | ⟨q3, qp2⟩⟩⟩⟩⟩⟩⟩ <;>
        try (simp [integratePos, take3, take4] at H; done)
      rcases qv with _ | ⟨v0, _ | ⟨v1, _ | ⟨v2, _ | ⟨w0, _ | ⟨w1, _ | ⟨w2, qv2⟩⟩⟩⟩⟩⟩ <;>
        try (simp [integratePos, take3, take4] at H; done)
      cases hr : integratePos ts qp2 qv2 h with
      | none => simp [integratePos, take3, take4, hr] at H
      | some rest =>
      simp [integratePos, take3, take4, hr] at H
      subst H
      simp [ih _ _ _ hr]
    | ball =>
      rcases qp with _ | ⟨q0, _ | ⟨q1, _ | ⟨q2, _ | ⟨q3, qp2⟩⟩⟩⟩ <;>
        try (simp [integratePos, take3, take4] at H; done)
      rcases qv with _ | ⟨w0, _ | ⟨w1, _ | ⟨w2, qv2⟩⟩⟩ <;>
        try (simp [integratePos, take3, take4] at H; done)
      cases hr : integratePos ts qp2 qv2 h with
      | none => simp [integratePos, take3, take4, hr] at H
      | some rest =>
      simp [integratePos, take3, take4, hr] at H
      subst H
      simp [ih _ _ _ hr]
    | slide =>
      rcases qp with _ | ⟨x, qp2⟩ <;> try (simp [integratePos, take1] at H; done)
      rcases qv with _ | ⟨v, qv2⟩ <;> try (simp [integratePos, take1] at H; done)
      cases hr : integratePos ts qp2 qv2 h with
      | none => simp [integratePos, take1, hr] at H
      | some rest =>
      simp [integratePos, take1, hr] at H
      subst H
      simp [ih _ _ _ hr]
    | hinge =>
      rcases qp with _ | ⟨x, qp2⟩ <;> try (simp [integratePos, take1] at H; done)
      rcases qv with _ | ⟨v, qv2⟩ <;> try (simp [integratePos, take1] at H; done)
      cases hr : integratePos ts qp2 qv2 h with
      | none => simp [integratePos, take1, hr] at H
      | some rest =>
      simp [integratePos, take1, hr] at H
      subst H
      simp [ih _ _ _ hr]

theorem forall_zipWith {β γ δ : Type} (f : β → γ → δ) (P : δ → Prop) (hP : ∀ a b, P (f a b)) :
    ∀ (l1 : List β) (l2 : List γ), ∀ x ∈ List.zipWith f l1 l2, P x := by
  intro l1 l2 x hx
  rw [List.mem_iff_getElem] at hx
  obtain ⟨i, hi, rfl⟩ := hx
  rw [List.getElem_zipWith]
  exact hP _ _

/-! ### `mju_addToScl` combinations -/

theorem axpy_nil (s : ℝ) : axpy ([] : List ℝ) [] s = [] := rfl
theorem axpy_cons (r v : ℝ) (rs vs : List ℝ) (s : ℝ) : axpy (r :: rs) (v :: vs) s = (r + v * s) :: axpy rs vs s := rfl

def map3 (f : ℝ → ℝ → ℝ → ℝ) : List ℝ → List ℝ → List ℝ → List ℝ
  | a :: as, b :: bs, c :: cs => f a b c :: map3 f as bs cs
  | _, _, _ => []
def map4 (f : ℝ → ℝ → ℝ → ℝ → ℝ) : List ℝ → List ℝ → List ℝ → List ℝ → List ℝ
  | a :: as, b :: bs, c :: cs, d :: ds => f a b c d :: map4 f as bs cs ds
  | _, _, _, _ => []

theorem comb1_eq (n : ℕ) (a : ℝ) : ∀ (x : List ℝ), x.length = n → comb n [(x, a)] = x.map (fun u => a * u) := by
  induction n with
  | zero => intro x hx; rw [List.length_eq_zero_iff.mp hx]; rfl
  | succ n ih =>
    intro x hx
    rcases x with _ | ⟨u, x⟩
    · simp at hx
    · have := ih x (by simpa using hx)
      simp only [comb, List.foldl_cons, List.foldl_nil, List.replicate_succ, axpy_cons, List.map_cons] at this ⊢
      rw [this]
      simp only [real_ofInt, Int.cast_zero, zero_add, mul_comm]

theorem comb2_eq (n : ℕ) (a b : ℝ) : ∀ (x y : List ℝ), x.length = n → y.length = n →
    comb n [(x, a), (y, b)] = List.zipWith (fun u v => a * u + b * v) x y := by
  induction n with
  | zero => intro x y hx hy; rw [List.length_eq_zero_iff.mp hx, List.length_eq_zero_iff.mp hy]; rfl
  | succ n ih =>
    intro x y hx hy
    rcases x with _ | ⟨u, x⟩
    · simp at hx
    rcases y with _ | ⟨v, y⟩
    · simp at hy
    have := ih x y (by simpa using hx) (by simpa using hy)
    simp only [comb, List.foldl_cons, List.foldl_nil, List.replicate_succ, axpy_cons, List.zipWith_cons_cons] at this ⊢
    rw [this]
    congr 1
    simp only [real_ofInt, Int.cast_zero]; ring

theorem comb3_eq (n : ℕ) (a b c : ℝ) : ∀ (x y z : List ℝ), x.length = n → y.length = n → z.length = n →
    comb n [(x, a), (y, b), (z, c)] = map3 (fun u v w => a * u + b * v + c * w) x y z := by
  induction n with
  | zero =>
    intro x y z hx hy hz
    rw [List.length_eq_zero_iff.mp hx, List.length_eq_zero_iff.mp hy, List.length_eq_zero_iff.mp hz]; rfl
  | succ n ih =>
    intro x y z hx hy hz
    rcases x with _ | ⟨u, x⟩
    · simp at hx
    rcases y with _ | ⟨v, y⟩
    · simp at hy
    rcases z with _ | ⟨w, z⟩
    · simp at hz
    have := ih x y z (by simpa using hx) (by simpa using hy) (by simpa using hz)
    simp only [comb, List.foldl_cons, List.foldl_nil, List.replicate_succ, axpy_cons, map3] at this ⊢
    rw [this]
    congr 1
    simp only [real_ofInt, Int.cast_zero]; ring

theorem comb4_eq (n : ℕ) (a b c e : ℝ) : ∀ (x y z t : List ℝ), x.length = n → y.length = n → z.length = n →
    t.length = n →
    comb n [(x, a), (y, b), (z, c), (t, e)] = map4 (fun u v w s => a * u + b * v + c * w + e * s) x y z t := by
  induction n with
  | zero =>
    intro x y z t hx hy hz ht
    rw [List.length_eq_zero_iff.mp hx, List.length_eq_zero_iff.mp hy, List.length_eq_zero_iff.mp hz,
      List.length_eq_zero_iff.mp ht]; rfl
  | succ n ih =>
    intro x y z t hx hy hz ht
    rcases x with _ | ⟨u, x⟩
    · simp at hx
    rcases y with _ | ⟨v, y⟩
    · simp at hy
    rcases z with _ | ⟨w, z⟩
    · simp at hz
    rcases t with _ | ⟨s, t⟩
    · simp at ht
    have := ih x y z t (by simpa using hx) (by simpa using hy) (by simpa using hz) (by simpa using ht)
    simp only [comb, List.foldl_cons, List.foldl_nil, List.replicate_succ, axpy_cons, map4] at this ⊢
    rw [this]
    congr 1
    simp only [real_ofInt, Int.cast_zero]; ring

theorem axpy_eq (r v : List ℝ) (s : ℝ) : axpy r v s = List.zipWith (fun a b => a + s * b) r v := by
  simp only [axpy]
  congr 1
  funext a b
  ring

end MjProof.Integrate
