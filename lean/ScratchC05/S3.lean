import MjProof.Lemmas.Integrate
namespace MjProof.Integrate
open MjProof MjProof.Gen MjProof.Spatial

/-! ### `mju_clip`, `mju_max` over ℝ -/

theorem mju_clip_eq (x lo hi : ℝ) : mju_clip x lo hi = if x < lo then lo else if hi < x then hi else x := by
  simp only [mju_clip, real_lt_iff]

theorem mju_clip_mem (x lo hi : ℝ) (h : lo ≤ hi) : lo ≤ mju_clip x lo hi ∧ mju_clip x lo hi ≤ hi := by
  rw [mju_clip_eq]
  split_ifs with h1 h2
  · exact ⟨le_refl _, h⟩
  · exact ⟨h, le_refl _⟩
  · exact ⟨not_lt.mp h1, not_lt.mp h2⟩

theorem mju_clip_of_mem (x lo hi : ℝ) (h1 : lo ≤ x) (h2 : x ≤ hi) : mju_clip x lo hi = x := by
  rw [mju_clip_eq, if_neg (not_lt.mpr h1), if_neg (not_lt.mpr h2)]

theorem mju_max_eq (a b : ℝ) : mju_max a b = max a b := by
  simp only [mju_max, real_le_iff]
  split_ifs with h
  · exact (max_eq_left h).symm
  · exact (max_eq_right (le_of_lt (not_le.mp h))).symm

theorem mjMINVAL_real : (RK4.mjMINVAL : ℝ) = minval := by
  simp only [RK4.mjMINVAL]; exact ofSci_minval
theorem mjPI_real : (RK4.mjPI : ℝ) = piLit := by
  simp only [RK4.mjPI]; exact ofSci_pi

/-! ### `mj_nextActivation` -/

theorem nextActivation_mem (p : ActSlot ℝ) (h act adot : ℝ) (hl : p.actlimited = true)
    (hd : p.dyntype ≠ RK4.mjDYN_DCMOTOR) (hr : p.lo ≤ p.hi) :
    p.lo ≤ nextActivation p h act adot ∧ nextActivation p h act adot ≤ p.hi := by
  simp only [nextActivation]
  rw [if_pos ⟨hd, hl⟩]
  exact mju_clip_mem _ _ _ hr

theorem nextActivation_euler (p : ActSlot ℝ) (h act adot : ℝ) (h1 : p.dyntype ≠ RK4.mjDYN_FILTEREXACT)
    (h2 : p.dyntype ≠ RK4.mjDYN_DCMOTOR) :
    nextActRaw p h act adot = act + h * adot := by
  simp only [nextActRaw, if_neg h1, if_neg h2]; ring

theorem filterExact_eq (t h act u : ℝ) (ht : minval ≤ t) :
    filterExact t h act ((u - act) / t) = act + (u - act) * (1 - Real.exp (-h / t)) := by
  have ht0 : 0 < t := lt_of_lt_of_le minval_pos ht
  simp only [filterExact, mju_max_eq, mjMINVAL_real, max_eq_right ht, real_ofInt, real_exp]
  have : (u - act) / t * t = u - act := by field_simp
  rw [this]; norm_num

end MjProof.Integrate
