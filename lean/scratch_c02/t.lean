example (c i p n : Nat) (h : c * i ≤ p) (h2 : p < c * i + min c (n - c * i)) : p < n := by omega
example (a b : Nat) : max 16 (a / 16 * 16) % 16 = 0 := by omega
#check @Nat.div_le_iff_le_mul_add_pred
#check @Nat.div_lt_of_lt_mul
#check @Nat.lt_mul_div_succ
#check @List.foldl_flatMap
#check @List.range'_append
#check @List.range_succ
#check @List.flatMap_append
#check @List.range_eq_range'
