import MjProof.Spec.Conform
namespace MjProof.XmlSchema

theorem cardMsg_none_iff (sub : Node) (n : Nat) : cardMsg sub n = none ↔ CardOk sub.type n := by
  unfold cardMsg CardOk
  by_cases h1 : sub.type = '!'
  · simp only [h1, beq_self_eq_true, if_true]
    by_cases h2 : n > 1
    · simp [h2] <;> omega
    · by_cases h3 : n < 1
      · simp [h2, h3] <;> omega
      · simp [h2, h3] <;> omega
  · have h1' : (sub.type == '!') = false := by simpa using h1
    simp only [h1', Bool.false_eq_true, if_false, h1]
    by_cases h4 : sub.type = '?'
    · simp only [h4, beq_self_eq_true, if_true]
      by_cases h2 : n > 1
      · simp [h2] <;> omega
      · simp [h2] <;> omega
    · have h4' : (sub.type == '?') = false := by simpa using h4
      simp [h4', h4]

theorem cardError_none_iff (subs : List Node) (l : Nat) (kids : List Xml) :
    cardError subs l kids = none ↔ ∀ i (h : i < subs.length), CardOk subs[i].type (refcnt subs l kids i) := by
  unfold cardError
  rw [List.getLast?_eq_none_iff, List.filterMap_eq_nil_iff]
  constructor
  · intro h i hi
    have := h (subs[i], i) (by
      rw [List.mem_zipIdx_iff_getElem?]; simp [hi])
    exact (cardMsg_none_iff _ _).1 this
  · intro h p hp
    obtain ⟨sub, i⟩ := p
    rw [List.mem_zipIdx_iff_getElem?] at hp
    simp only at hp
    obtain ⟨hi, rfl⟩ := List.getElem?_eq_some_iff.1 hp
    exact (cardMsg_none_iff _ _).2 (h i hi)
end MjProof.XmlSchema
