import MjProof.Model.XmlSchema
open MjProof.XmlSchema
#check @check.eq_1
#check @checkRec.eq_2
#check @checkKids.eq_2
#print axioms check
example (a s l) : checkRec a s l [] = .ok () := by simp [checkRec]
