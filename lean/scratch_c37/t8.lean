import MjProof.Gen.MjcfTable
open MjProof.XmlSchema MjProof.Gen.MjcfTable
set_option maxRecDepth 100000 in
theorem generated_table_builds : (buildTable rows cons).isSome = true := by decide +kernel
