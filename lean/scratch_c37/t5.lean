import MjProof.Spec.Conform
namespace MjProof.XmlSchema

theorem filter_len_le_one_iff {α} (p : α → Bool) (l : List α) :
    (l.filter p).length ≤ 1 ↔ l.Pairwise (fun a b => ¬ (p a = true ∧ p b = true)) := by sorry

theorem any_present_iff (attrs : List (String × String)) (b : List String) :
    b.any (present attrs) = true ↔ touched attrs b := by
  simp [touched, List.any_eq_true]

theorem all_present_iff (attrs : List (String × String)) (b : List String) :
    b.all (present attrs) = true ↔ complete attrs b := by
  simp [complete, List.all_eq_true]

theorem nPresent_eq (attrs : List (String × String)) (bs : List (List String)) :
    nPresent attrs bs = (bs.flatten.filter (present attrs)).length := by
  unfold nPresent
  induction bs with
  | nil => simp
  | cons b bs ih => simp [List.filter_append, ih]

theorem nAttr_eq (bs : List (List String)) : nAttr bs = bs.flatten.length := by
  unfold nAttr; simp [List.length_flatten]

theorem conError_none_iff (attrs : List (String × String)) (c : Con) :
    conError attrs c = none ↔ ConHolds attrs c := by
  unfold conError ConHolds
  by_cases he : c.kind = 'e'
  · simp only [he, beq_self_eq_true, if_true]
    have := filter_len_le_one_iff (fun b => b.any (present attrs)) c.bundles
    simp only [any_present_iff] at this
    rw [← this]
    unfold nAny
    by_cases h : (c.bundles.filter fun b => b.any (present attrs)).length > 1
    · simp [h] <;> omega
    · simp [h] <;> omega
  have he' : (c.kind == 'e') = false := by simpa using he
  simp only [he', Bool.false_eq_true, if_false, he]
  by_cases ht : c.kind = 't'
  · simp only [ht, beq_self_eq_true, if_true]
    rw [nPresent_eq, nAttr_eq]
    have hall : (∀ b ∈ c.bundles, ∀ a ∈ b, present attrs a = true) ↔
        (c.bundles.flatten.filter (present attrs)).length = c.bundles.flatten.length := by
      rw [List.length_filter_eq_length_iff]; simp [List.mem_flatten]; 
      constructor
      · intro h a b hb ha; exact h b hb a ha
      · intro h b hb a ha; exact h a b hb ha
    have hnone : (∀ b ∈ c.bundles, ∀ a ∈ b, present attrs a = false) ↔
        (c.bundles.flatten.filter (present attrs)).length = 0 := by
      rw [List.length_eq_zero_iff, List.filter_eq_nil_iff]; simp [List.mem_flatten]
      constructor
      · intro h a b hb ha; exact h b hb a ha
      · intro h b hb a ha; exact h a b hb ha
    rw [hall, hnone]
    generalize (c.bundles.flatten.filter (present attrs)).length = n
    generalize c.bundles.flatten.length = m
    by_cases h1 : n = 0 <;> by_cases h2 : n = m <;> simp [h1, h2] <;> omega
  have ht' : (c.kind == 't') = false := by simpa using ht
  simp only [ht', Bool.false_eq_true, if_false, ht]
  by_cases hr : c.kind = 'r'
  · simp only [hr, beq_self_eq_true, if_true]
    match hb : c.bundles with
    | [] => simp
    | [] :: _ => simp
    | [(_ :: _)] => simp
    | (_ :: _) :: [] :: _ => simp
    | (a :: ra) :: (b :: rb) :: rest =>
      constructor
      · intro hn
        refine ⟨a, ra, b, rb, rest, rfl, fun ha => ?_⟩
        cases hb' : present attrs b with
        | true => rfl
        | false => simp [ha, hb'] at hn
      · rintro ⟨a', ra', b', rb', rest', heq, himp⟩
        simp only [List.cons.injEq] at heq
        obtain ⟨⟨rfl, rfl⟩, ⟨rfl, rfl⟩, rfl⟩ := heq
        by_cases h : (present attrs a && !present attrs b) = true
        · simp only [Bool.and_eq_true, Bool.not_eq_true'] at h
          have := himp h.1; simp [h.2] at this
        · simp [h]
  have hr' : (c.kind == 'r') = false := by simpa using hr
  simp only [hr', Bool.false_eq_true, if_false, hr]
  by_cases ho : c.kind = 'o'
  · simp only [ho, beq_self_eq_true, if_true]
    unfold nAll
    by_cases h : (c.bundles.filter fun b => b.all (present attrs)).length = 0
    · simp only [h, beq_self_eq_true, if_true, reduceCtorEq, false_iff]
      rw [List.length_eq_zero_iff, List.filter_eq_nil_iff] at h
      rintro ⟨b, hb, hc⟩
      exact h b hb ((all_present_iff attrs b).2 hc)
    · have h' : ((c.bundles.filter fun b => b.all (present attrs)).length == 0) = false := by simpa using h
      simp only [h', Bool.false_eq_true, if_false, true_iff]
      have : (c.bundles.filter fun b => b.all (present attrs)) ≠ [] := by
        intro hn; simp [hn] at h
      obtain ⟨b, hb⟩ := List.exists_mem_of_ne_nil _ this
      rw [List.mem_filter] at hb
      exact ⟨b, hb.1, (all_present_iff attrs b).1 hb.2⟩
  have ho' : (c.kind == 'o') = false := by simpa using ho
  simp [ho', ho]
end MjProof.XmlSchema
