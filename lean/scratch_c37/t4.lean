import MjProof.Spec.Conform
namespace MjProof.XmlSchema

theorem filter_len_le_one_iff {α} (p : α → Bool) (l : List α) :
    (l.filter p).length ≤ 1 ↔ l.Pairwise (fun a b => ¬ (p a = true ∧ p b = true)) := by
  induction l with
  | nil => simp
  | cons x xs ih =>
    rw [List.pairwise_cons]
    by_cases hx : p x = true
    · simp only [List.filter_cons, hx, if_true, List.length_cons, true_and]
      constructor
      · intro h
        have h0 : xs.filter p = [] := List.eq_nil_of_length_eq_zero (by omega)
        rw [List.filter_eq_nil_iff] at h0
        refine ⟨fun y hy hpy => h0 y hy hpy, ?_⟩
        rw [List.pairwise_iff_forall_sublist]
        intro a b hab hc
        have : a ∈ xs := hab.subset (by simp)
        exact h0 a this hc.1
      · intro ⟨h1, _⟩
        have : xs.filter p = [] := by
          rw [List.filter_eq_nil_iff]; exact fun y hy hpy => h1 y hy hpy
        simp [this]
    · simp only [List.filter_cons, hx, Bool.false_eq_true, if_false, false_and, not_false_eq_true, implies_true, true_and]
      exact ih
end MjProof.XmlSchema
