import MjProof.Spec.Conform
namespace MjProof.XmlSchema

def sGeom : Node := .mk "geom" '*' ["size"] [] []
def sBody : Node := .mk "body" 'R' ["name"] [] [sGeom]
def xBad : Xml := .mk "body" 1 [] [.mk "frame" 2 [("bogus", "1")] [.mk "geom" 3 [("bogus", "2")] []]]

def accepts (r : Res) : Bool := match r with | .ok _ => true | .error _ => false
example : accepts (check false sBody 2 xBad) = true := by decide
example : accepts (check true sBody 2 xBad) = false := by decide

theorem licenses_iff (subs : List Node) (l : Nat) (k : Xml) (i : Nat) :
    assignIdx subs k.name l = some i ↔ Licenses subs l k i := by
  unfold assignIdx Licenses
  rw [List.findIdx?_eq_some_iff_getElem]
  constructor
  · rintro ⟨h, h1, h2⟩
    exact ⟨h, h1, fun j hj hji => by simpa using h2 j hji⟩
  · rintro ⟨h, h1, h2⟩
    exact ⟨h, h1, fun j hji => by simpa using h2 j (by omega) hji⟩
end MjProof.XmlSchema
