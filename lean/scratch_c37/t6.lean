import MjProof.Spec.Conform
namespace MjProof.XmlSchema

theorem consError_none_iff (attrs : List (String × String)) (cs : List Con) :
    consError attrs cs = none ↔ ∀ c ∈ cs, conError attrs c = none := by sorry
theorem checkRec_ok_iff (a : Bool) (s : Node) (l : Nat) (kids : List Xml) :
    checkRec a s l kids = .ok () ↔ ∀ k ∈ kids, recSel a s.name l k = true → check a s (l + 1) k = .ok () := by sorry
theorem checkKids_ok_iff (a : Bool) (s : Node) (l : Nat) (kids : List Xml) :
    checkKids a s l kids = .ok () ↔
      ∀ k ∈ kids, (∀ sub, assign s.subs k.name l = some sub → check a sub (l + 1) k = .ok ()) ∧
        (assign s.subs k.name l = none → s.type = 'R' ∧ nameMatch s.name k.name (l + 1) = true) := by sorry
theorem cardError_none_iff (subs : List Node) (l : Nat) (kids : List Xml) :
    cardError subs l kids = none ↔ ∀ i (h : i < subs.length), CardOk subs[i].type (refcnt subs l kids i) := by sorry
theorem conError_none_iff (attrs : List (String × String)) (c : Con) :
    conError attrs c = none ↔ ConHolds attrs c := by sorry

theorem Xml.ind {P : Xml → Prop}
    (h : ∀ name line attrs kids, (∀ k ∈ kids, P k) → P (.mk name line attrs kids)) (x : Xml) : P x := by
  refine Xml.rec (motive_1 := P) (motive_2 := fun l => ∀ k ∈ l, P k) ?_ ?_ ?_ x
  · intro name line attrs kids ih; exact h name line attrs kids ih
  · intro k hk; cases hk
  · intro hd tl h1 h2 k hk
    rcases List.mem_cons.1 hk with rfl | hk
    · exact h1
    · exact h2 k hk

theorem check_ok_iff (a : Bool) (s : Node) (l : Nat) (name : String) (line : Nat)
    (attrs : List (String × String)) (kids : List Xml) :
    check a s l (.mk name line attrs kids) = .ok () ↔
      nameMatch s.name name l = true ∧ (∀ q ∈ attrs, q.1 ∈ s.attrs) ∧ (∀ c ∈ s.cons, conError attrs c = none) ∧
      (s.type = 'R' → checkRec a s l kids = .ok ()) ∧ checkKids a s l kids = .ok () ∧
      cardError s.subs l kids = none := by
  rw [check]
  by_cases hn : nameMatch s.name name l = true
  case neg => simp [hn]
  simp only [hn, Bool.not_true, Bool.false_eq_true, if_false, true_and]
  cases hf : attrs.find? (fun q => !s.attrs.contains q.1) with
  | some q =>
    have := List.find?_some hf
    have hm := List.mem_of_find?_eq_some hf
    simp only [reduceCtorEq, false_iff, not_and]
    intro h; exfalso
    have := h q hm
    simp_all
  | none =>
    rw [List.find?_eq_none] at hf
    have hattrs : ∀ q ∈ attrs, q.1 ∈ s.attrs := by
      intro q hat; have := hf q hat; simpa using this
    cases hc : consError attrs s.cons with
    | some m =>
      have : ¬ ∀ c ∈ s.cons, conError attrs c = none := by
        rw [← consError_none_iff, hc]; simp
      simp [this]
    | none =>
      rw [consError_none_iff] at hc
      by_cases hR : s.type = 'R'
      · simp only [hR, beq_self_eq_true, if_true, forall_const]
        cases hrec : checkRec a s l kids with
        | error e => simp
        | ok u =>
          cases u
          simp only [true_and]
          cases hk : checkKids a s l kids with
          | error e => simp
          | ok u =>
            cases u
            cases hcard : cardError s.subs l kids with
            | some m => simp
            | none => simp; exact ⟨fun a b h => hattrs (a, b) h, hc⟩
      · have hR' : (s.type == 'R') = false := by simpa using hR
        simp only [hR', Bool.false_eq_true, if_false, hR, false_implies, true_and]
        cases hk : checkKids a s l kids with
        | error e => simp
        | ok u =>
          cases u
          cases hcard : cardError s.subs l kids with
          | some m => simp
          | none => simp; exact ⟨fun a b h => hattrs (a, b) h, hc⟩

theorem check_ok_iff_conforms (a : Bool) (x : Xml) : ∀ (s : Node) (l : Nat),
    check a s l x = .ok () ↔ Conforms a s l x := by
  induction x using Xml.ind with
  | h name line attrs kids ih =>
    intro s l
    rw [check_ok_iff, checkRec_ok_iff, checkKids_ok_iff, cardError_none_iff]
    constructor
    · rintro ⟨hn, hat, hc, hrec, hk, hcard⟩
      refine Conforms.mk s l name line attrs kids hn hat (fun c hcm => (conError_none_iff _ _).1 (hc c hcm)) ?_ ?_ ?_ hcard
      · intro hR k hkm hsel
        exact (ih k hkm s (l + 1)).1 (hrec hR k hkm hsel)
      · intro k hkm sub hsub
        exact (ih k hkm sub (l + 1)).1 ((hk k hkm).1 sub hsub)
      · intro k hkm hnone
        exact (hk k hkm).2 hnone
    · intro h
      cases h with
      | mk _ _ _ _ _ _ hn hat hc hrec hsub hnone hcard =>
        refine ⟨hn, hat, fun c hcm => (conError_none_iff _ _).2 (hc c hcm), ?_, ?_, hcard⟩
        · intro hR k hkm hsel
          exact (ih k hkm s (l + 1)).2 (hrec hR k hkm hsel)
        · intro k hkm
          exact ⟨fun sub hs => (ih k hkm sub (l + 1)).2 (hsub k hkm sub hs), hnone k hkm⟩
end MjProof.XmlSchema
