import MjProof.Spec.Conform
namespace MjProof.XmlSchema

theorem consError_none_iff (attrs : List (String × String)) (cs : List Con) :
    consError attrs cs = none ↔ ∀ c ∈ cs, conError attrs c = none := by
  induction cs with
  | nil => simp [consError]
  | cons c cs ih =>
    simp only [consError, List.mem_cons, forall_eq_or_imp]
    cases h : conError attrs c <;> simp [ih]

theorem checkRec_ok_iff (a : Bool) (s : Node) (l : Nat) (kids : List Xml) :
    checkRec a s l kids = .ok () ↔ ∀ k ∈ kids, recSel a s.name l k = true → check a s (l + 1) k = .ok () := by
  induction kids with
  | nil => simp [checkRec]
  | cons k ks ih =>
    rw [checkRec]
    simp only [List.mem_cons, forall_eq_or_imp]
    by_cases hs : recSel a s.name l k = true
    · simp only [hs, if_true, forall_const]
      cases hc : check a s (l + 1) k with
      | error e => simp
      | ok u => cases u; simp [ih]
    · simp [hs, ih]

theorem checkKids_ok_iff (a : Bool) (s : Node) (l : Nat) (kids : List Xml) :
    checkKids a s l kids = .ok () ↔
      ∀ k ∈ kids, (∀ sub, assign s.subs k.name l = some sub → check a sub (l + 1) k = .ok ()) ∧
        (assign s.subs k.name l = none → s.type = 'R' ∧ nameMatch s.name k.name (l + 1) = true) := by
  induction kids with
  | nil => simp [checkKids]
  | cons k ks ih =>
    rw [checkKids]
    simp only [List.mem_cons, forall_eq_or_imp]
    cases hA : assign s.subs k.name l with
    | some sub =>
      simp only [Option.some.injEq, forall_eq', reduceCtorEq, false_implies, and_true]
      cases hc : check a sub (l + 1) k with
      | error e => simp
      | ok u => cases u; simp [ih]
    | none =>
      simp only [reduceCtorEq, false_implies, implies_true, true_and, forall_const]
      by_cases hR : (s.type == 'R' && nameMatch s.name k.name (l + 1)) = true
      · simp only [hR, if_true, ih]
        simp only [Bool.and_eq_true, beq_iff_eq] at hR
        simp [hR]
      · simp only [hR, Bool.false_eq_true, if_false, reduceCtorEq, false_iff]
        simp only [Bool.and_eq_true, beq_iff_eq] at hR
        intro h; exact hR h.1
end MjProof.XmlSchema
