-- Root of the `MjProof` library: models (core Lean only), lemmas and property theorems.
import MjProof.Props.C22
