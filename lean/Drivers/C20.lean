import MjProof.Model.ArenaConsumers
import Drivers.Common
/-
Line protocol of the arena-consumer model (implementation side: harness/c/c20_exhaust.c):
  facts                                              sizes / counts the model assumes
  sites asis|fixed                                   guard table of every consumer (compared with translate/c20_guards.py)
  efc NARENA PSTACK NCON NEFC NJ | b:a b:a ...       arenaAllocEfc
  island NARENA PSTACK PARENA NEFC NISLAND NIDOF | b:a ...   arenaAllocIsland
  addcon NARENA PSTACK NCON                          mj_addContact
  pushpair asis|fixed NARENA PSTACK PARENA           pushPairArena
  alloc NARENA PARENA PSTACK BYTES AL                mj_arenaAllocByte
-/
open MjProof MjProof.Driver MjProof.Arena MjProof.ArenaConsumers

def BASE : Nat := 1048576

def parseU64 (t : String) : Option Nat :=
  if t.length > 20 then none else
  match t.toNat? with
  | some n => if n < W then some n else none
  | none => none

def parseReq (t : String) : Option (Nat × Nat) :=
  match t.splitOn ":" with
  | [b, a] => do
    let b' ← parseU64 b
    let a' ← parseU64 a
    some (b', a')
  | _ => none

def markEnv : List (Var × Val) :=
  ((List.range NSOLVER).map (fun i => (Var.fld .solver i, some BASE))) ++
  ((List.range NDUAL).map (fun i => (Var.fld .dual i, some BASE))) ++
  ((List.range NISLAND).map (fun i => (Var.fld .island i, some BASE)))

def showPtr (env : List (Var × Val)) (v : Var) : String :=
  match lookup env v with
  | some (some p) => toString (sub64 p BASE)
  | some none => "-"
  | none => "?"

def showGroups (d : D) : String :=
  " solver=" ++ String.join ((List.range NSOLVER).map (fun i => showPtr d.env (.fld .solver i) ++ ",")) ++
  " dual=" ++ String.join ((List.range NDUAL).map (fun i =>
      match lookup d.env (.fld .dual i) with | some (some _) => "1" | some none => "0" | none => "?")) ++
  " island=" ++ String.join ((List.range NISLAND).map (fun i => showPtr d.env (.fld .island i) ++ ","))

def showOutcome : Outcome → String
  | .ret (some code) => s!"ret={code}"
  | .ret none => "ret=void"
  | .error => "error"
  | .fault _ => "FAULT"

def mkD (parena pstack ncon nefc nisland nidof nJ nY nA : Nat) (env : List (Var × Val)) : D :=
  { a := { State.init with parena := parena, pstack := pstack }, ncon := ncon, nefc := nefc, nisland := nisland,
    nidof := nidof, nJ := nJ, nY := nY, nA := nA, wCon := 0, wCnstr := 0, parenaOld := 0, depth := 0, env := env }

/-! guard table printing -/

def dualNames : List String :=
  ["d->efc_Y_rownnz", "d->efc_Y_rowadr", "d->efc_Y_colind", "d->efc_Y",
   "d->efc_AR_rownnz", "d->efc_AR_rowadr", "d->efc_AR_colind", "d->efc_AR"]

def showVar : Var → String
  | .loc .pair => "pair"
  | .loc .newPair => "new_pair"
  | .loc .dst => "dst"
  | .loc .con => "con"
  | .loc .p => "p"
  | .fld .dual i => match dualNames[i]? with | some n => n | none => s!"dual#{i}"
  | .fld _ _ => "d->name"

def showAct : Act → String
  | .warn .contactFull => "warn:CONTACTFULL"
  | .warn .cnstrFull => "warn:CNSTRFULL"
  | .clearEfc => "clearEfc"
  | .parenaToCon => "parenaToCon"
  | .saveParena => "saveParena"
  | .clearIsland => "clearIsland"
  | .markStack => "markStack"
  | .freeStack => "freeStack"
  | .addNcon _ => "addNcon"

def showExit : Exit → String
  | .ret code => s!"return{code}"
  | .retVoid => "return"
  | .error => "error"

def showSites (func : String) (p : List Stmt) : List String :=
  (guards [] p).map (fun s =>
    let al := ",".intercalate (s.1.map showVar)
    match s.2 with
    | none => s!"{func}|alloc={al}|UNTESTED"
    | some (t, b, e) =>
      s!"{func}|alloc={al}|test={",".intercalate (t.map showVar)}|fail={";".intercalate (b.map showAct)}|exit={showExit e}")

def allSites (v : Variant) : List String :=
  showSites "pushPairArena" (pushPair v) ++
  showSites "mj_narrowphase" (narrowphaseCon 1) ++
  showSites "mj_collideGeomElem" (flexCon 1) ++
  showSites "mj_collideElems" (flexConElems 1) ++
  showSites "mj_collideElemVert" (flexCon 1) ++
  showSites "arenaAllocEfc" (allocEfc [(1, 1)]) ++
  showSites "mj_addContact" addContact ++
  showSites "mj_makeY" (makeYSparse 1 1 ++ makeYDense 1 1) ++
  showSites "mj_makeAR" (makeARSparse 1 1 ++ makeARDense 1) ++
  showSites "arenaAllocIsland" (allocIsland [(1, 1)]) ++
  showSites "effAlloc" (effAlloc 1 1)

def parseVariant : String → Option Variant
  | "asis" => some .asIs
  | "fixed" => some .fixed
  | _ => none

def c0 (narena : Nat) : Cfg := ⟨BASE, narena, 0⟩

def handle (line : String) : String :=
  let (head, reqPart) := match line.splitOn "|" with
    | [h] => (h, none)
    | [h, r] => (h, some r)
    | _ => ("", none)
  let ws := words head
  let reqs : Option (List (Nat × Nat)) := match reqPart with
    | none => none
    | some r => (words r).mapM parseReq
  match ws with
  | ["facts"] =>
    s!"sites szcon={SZCON} alcon={ALCON} szpair={SZPAIR} alpair={ALPAIR}"
  | ["groups"] => s!"groups nsolver={NSOLVER} ndual={NDUAL} nisland={NISLAND}"
  | ["sites", v] =>
    match parseVariant v with
    | some v' => " ;; ".intercalate (allSites v')
    | none => "bad-op"
  | "efc" :: args =>
    match args.mapM parseU64, reqs, reqPart with
    | some [narena, pstack, ncon, nefc, nJ], some rq, some _ =>
      if narena = 0 then "error makeData" else
      let d := mkD 0 pstack ncon nefc 1 0 nJ 7 9 markEnv
      let r := run (c0 narena) (allocEfc rq) d
      s!"{showOutcome r.1} parena={r.2.a.parena} ncon={r.2.ncon} nefc={r.2.nefc} nisland={r.2.nisland} " ++
      s!"nJYA={r.2.nJ},{r.2.nY},{r.2.nA} wC={r.2.wCon} wF={r.2.wCnstr} reqs=ok" ++ showGroups r.2
    | _, _, _ => "bad-op"
  | "island" :: args =>
    match args.mapM parseU64, reqs, reqPart with
    | some [narena, pstack, parena, nefc, nisland, nidof], some rq, some _ =>
      if narena = 0 then "error makeData" else
      let d := mkD parena pstack 0 nefc nisland nidof 3 7 9 markEnv
      let r := run (c0 narena) (allocIsland rq) d
      s!"{showOutcome r.1} parena={r.2.a.parena} ncon={r.2.ncon} nefc={r.2.nefc} nisland={r.2.nisland} " ++
      s!"nidof={r.2.nidof} nJYA={r.2.nJ},{r.2.nY},{r.2.nA} wC={r.2.wCon} wF={r.2.wCnstr} reqs=ok" ++ showGroups r.2
    | _, _, _ => "bad-op"
  | "addcon" :: args =>
    match args.mapM parseU64, reqPart with
    | some [narena, pstack, ncon], none =>
      if narena = 0 then "error makeData" else
      let d := mkD (ncon * SZCON + 24) pstack ncon 5 1 0 3 7 9 ((vCon, some 8) :: markEnv)
      let r := run (c0 narena) addContact d
      let copied := if r.1 = .ret (some 0) then 1 else 0
      s!"{showOutcome r.1} parena={r.2.a.parena} ncon={r.2.ncon} nefc={r.2.nefc} nisland={r.2.nisland} " ++
      s!"nJYA={r.2.nJ},{r.2.nY},{r.2.nA} wC={r.2.wCon} wF={r.2.wCnstr} copied={copied}" ++ showGroups r.2
    | _, _ => "bad-op"
  | "pushpair" :: v :: args =>
    match parseVariant v, args.mapM parseU64, reqPart with
    | some v', some [narena, pstack, parena], none =>
      if narena = 0 then "error makeData" else
      let d := mkD parena pstack 0 0 0 0 0 0 0 [(vPair, some 8)]
      let r := run (c0 narena) (pushPair v') d
      match r.1 with
      | .ret _ => s!"ok parena={r.2.a.parena}"
      | .error => s!"error parena={r.2.a.parena}"
      | .fault _ => "FAULT"
    | _, _, _ => "bad-op"
  | "alloc" :: args =>
    match args.mapM parseU64, reqPart with
    | some [narena, parena, pstack, bytes, al], none =>
      if narena = 0 then "error makeData" else
      if al = 0 then "bad-op" else
      match arenaAlloc (c0 narena) { State.init with parena := parena, pstack := pstack } bytes al with
      | (.ptr p, s) => s!"ptr {sub64 p BASE} {s.parena}"
      | (.null, s) => s!"null {s.parena}"
      | _ => "undef"
    | _, _ => "bad-op"
  | _ => "bad-op"

def main : IO Unit := runStateless handle
