import MjProof.Model.Pipeline
import Drivers.Common
/-
Prints what the Lean side knows, for checks/c01.py and checks/c04.py to cross-check against the real engine:
  groups                                  -> JSON list of group names
  classify                                -> JSON object  field -> [groups]   for every member of struct mjData_ (Gen/DataFields)
  stages <sleep 0|1>                      -> JSON object  stage key -> {"R":[..],"W":[..],"K":[..]} | null   (Gen/Pipeline.stageKeys)
  analyze <entry> <sleep 0|1> <integ|-> [skipstage skipsensor]
                                          -> JSON {"rbw":[..],"may":[..],"killN":[..]|null,"killR":[..]|null,"bad":[..],"calls":n}
     entry: mj_step mj_step1 mj_step2 mj_forward mj_inverse mj_forwardSkip mj_inverseSkip
     integ: mjINT_EULER mjINT_RK4 mjINT_IMPLICIT mjINT_IMPLICITFAST or - (unknown)
  leaves <solver|->                       -> JSON object  leaf key -> footprint | null   (Gen/Pipeline.subStageKeys, context ctxS)
  subanalyze <fn> <solver|-> <nefc 0|1|-> -> like analyze, for the translated body of a stage function
     fn: mj_fwdConstraint mj_invConstraint;  solver: mjSOL_PGS mjSOL_CG mjSOL_NEWTON or - (unknown);
     nefc: the data guard `nefc` (are there constraint rows) assumed false / true, or - (unknown)
-/
open MjProof MjProof.Driver MjProof.Prog MjProof.Footprint MjProof.Pipeline

def jstr (s : String) : String :=
  "\"" ++ (s.replace "\\" "\\\\").replace "\"" "\\\"" ++ "\""
def jlist (l : List String) : String := "[" ++ ", ".intercalate (l.map jstr) ++ "]"
def jgrps (l : List Grp) : String := jlist (l.eraseDups.map Grp.name)
def jopt (o : Option (List Grp)) : String := match o with | none => "null" | some l => jgrps l

def parseBool (s : String) : Option Bool := if s = "0" then some false else if s = "1" then some true else none
def parseInteg (s : String) : Option (Option String) :=
  if s = "-" then some none
  else if s ∈ ["mjINT_EULER", "mjINT_RK4", "mjINT_IMPLICIT", "mjINT_IMPLICITFAST"] then some (some s) else none

def parseSolver (s : String) : Option (Option String) :=
  if s = "-" then some none else if s ∈ solverNames then some (some s) else none
def parseNefc (s : String) : Option (List (String × Bool)) :=
  if s = "-" then some [] else (parseBool s).map (fun b => [("nefc", b)])
def subEntry (name : String) : Option Prog :=
  match name with
  | "mj_fwdConstraint" => some mjFwdConstraint
  | "mj_invConstraint" => some mjInvConstraint
  | _ => none
def jfp (fp : Footprint Grp) : String :=
  "{\"R\": " ++ jgrps fp.R ++ ", \"W\": " ++ jgrps fp.W ++ ", \"K\": " ++ jgrps fp.K ++ "}"
def jflow (r : AFlow Grp) (p : Prog) (left : Bool) : String :=
  "{\"rbw\": " ++ jgrps r.rbw ++ ", \"may\": " ++ jgrps r.may ++ ", \"killN\": " ++ jopt r.killN ++
    ", \"killR\": " ++ jopt r.killR ++ ", \"bad\": " ++ jlist r.bad ++ ", \"calls\": " ++
    toString (stageKeys p).length ++ ", \"inlinable_left\": " ++ toString left ++ "}"

def entryProg (name : String) (a : List Int) : Option Prog :=
  match name, a with
  | "mj_step", [] => some mjStep
  | "mj_step1", [] => some mjStep1
  | "mj_step2", [] => some mjStep2
  | "mj_forward", [] => some mjForward
  | "mj_inverse", [] => some mjInverse
  | "mj_forwardSkip", [x, y] => some (mjForwardSkip x y)
  | "mj_inverseSkip", [x, y] => some (mjInverseSkip x y)
  | _, _ => none

def step (line : String) : String :=
  match words line with
  | ["groups"] => jlist (Grp.all.map Grp.name)
  | ["cond"] => "{" ++ ", ".intercalate (condFields.map (fun c => jstr c.1 ++ ": " ++ jlist (c.2.map (·.1)))) ++ "}"
  | ["classify"] =>
    "{" ++ ", ".intercalate (Gen.DataFields.fieldNames.map (fun f => jstr f ++ ": " ++ jgrps (grp f))) ++ "}"
  | ["stages", s] =>
    match parseBool s with
    | none => "bad-op"
    | some sl =>
      "{" ++ ", ".intercalate (Gen.Pipeline.stageKeys.map (fun k =>
        jstr k ++ ": " ++ (match (ctx sl).stage k with
          | none => "null"
          | some fp => "{\"R\": " ++ jgrps fp.R ++ ", \"W\": " ++ jgrps fp.W ++ ", \"K\": " ++ jgrps fp.K ++ "}"))) ++ "}"
  | ["leaves", s] =>
    match parseSolver s with
    | none => "bad-op"
    | some sol =>
      "{" ++ ", ".intercalate (Gen.Pipeline.subStageKeys.map (fun k =>
        jstr k ++ ": " ++ (match (ctxS sol).stage k with
          | none => "null"
          | some fp => jfp fp))) ++ "}"
  | ["subanalyze", name, s, n] =>
    match subEntry name, parseSolver s, parseNefc n with
    | some p, some sol, some ex =>
      jflow (analyzeS { solver := sol, extra := ex } p) p (hasInlinable Gen.Pipeline.subTable p)
    | _, _, _ => "bad-op"
  | "analyze" :: name :: s :: i :: rest =>
    match parseBool s, parseInteg i, rest.mapM String.toInt? with
    | some sl, some integ, some a =>
      match entryProg name a with
      | none => "bad-op"
      | some p =>
        let r := analyze { sleeping := sl, integrator := integ } p
        "{\"rbw\": " ++ jgrps r.rbw ++ ", \"may\": " ++ jgrps r.may ++ ", \"killN\": " ++ jopt r.killN ++
          ", \"killR\": " ++ jopt r.killR ++ ", \"bad\": " ++ jlist r.bad ++ ", \"calls\": " ++
          toString (stageKeys p).length ++ ", \"inlinable_left\": " ++ toString (hasInlinable Gen.Pipeline.table p) ++ "}"
    | _, _, _ => "bad-op"
  | _ => "bad-op"

def main : IO Unit := runStateless step
