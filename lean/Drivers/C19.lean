import MjProof.Model.Arena
import Drivers.Common
/-
Line protocol of the arena/stack allocator model (see harness/c/c19_arena.c for the implementation side):
  new BASE NARENA | mark | free | lock | unlock | alloc S A | alloci S A | arena B A | num N | int N
  par K S A | parh S1 A1 S2 A2 .. | dispatch NT K S A
output: RES | pstack parena pbase-off lock maxuse_stack maxuse_arena
The red-zone size (0, or 32 for an mjUSEASAN build) is the optional first command-line argument.
-/
open MjProof MjProof.Driver MjProof.Arena

def REGION : Nat := 0x200000000000
def REGION_SIZE : Nat := 8 * 1024 * 1024
def MAXNARENA : Nat := 4 * 1024 * 1024
def MAXK : Nat := 64

abbrev DState := Option (Cfg × State)

def parseU64 (t : String) : Option Nat :=
  if t.length > 20 then none else
  match t.toNat? with
  | some n => if n < W then some n else none
  | none => none

def showState (c : Cfg) (s : State) : String :=
  let pb := if s.pbase = 0 then "-" else toString (sub64 s.pbase c.base)
  s!" | {s.pstack} {s.parena} {pb} {if s.threadlock then 1 else 0} {s.maxStack} {s.maxArena}"

def showRes (c : Cfg) : Res → String
  | .ptr a => if a = 0 then "null" else s!"ptr {sub64 a c.base}"   -- (void*)0 is NULL
  | .null => "null"
  | .error => "error"
  | .unit => "ok"
  | .undef => "undef"

def showJob (c : Cfg) : Res → String
  | .ptr a => if a = 0 then "null" else toString (sub64 a c.base)
  | .null => "null"
  | .error => "error"
  | _ => "undef"

def insertSorted (x : Nat) : List Nat → List Nat
  | [] => [x]
  | y :: ys => if x ≤ y then x :: y :: ys else y :: insertSorted x ys

def showJobsSorted (c : Cfg) (rs : List Res) : String :=
  let ptrs := (rs.filterMap (fun r => match r with
    | .ptr a => if a = 0 then none else some (sub64 a c.base) | _ => none)).foldr insertSorted []
  let nn := (rs.filter (fun r => r == .null || r == .ptr 0)).length
  let ne := (rs.filter (· == .error)).length
  String.join (ptrs.map (fun p => " " ++ toString p)) ++ String.join (List.replicate nn " null")
    ++ String.join (List.replicate ne " error")

/-- sequential (unlocked) run of the task reservations, as `mju_dispatch` does for `ntask < 2`. -/
def seqRun (c : Cfg) : State → List (Nat × Nat) → List Res × State
  | s, [] => ([], s)
  | s, (size, al) :: rest =>
    let (r, s1) := stackAlloc c s size al
    let (rs, s2) := seqRun c s1 rest
    (r :: rs, s2)

def pairs : List Nat → Option (List (Nat × Nat))
  | [] => some []
  | a :: b :: rest => (pairs rest).map ((a, b) :: ·)
  | _ => none

def stepLine (rz : Nat) (st : DState) (line : String) : DState × String :=
  let ws := words line
  match ws with
  | [] => (st, "bad-op")
  | op :: args =>
    match args.mapM parseU64 with
    | none => (st, "bad-op")
    | some a =>
      if op == "new" then
        match a with
        | [base, narena] =>
          if narena < 1 || narena > MAXNARENA || base < REGION || base > REGION + REGION_SIZE - MAXNARENA then (st, "bad-op")
          else
            let s := State.init
            (some (⟨base, narena, rz⟩, s),
             s!"new {narena} {s.parena} {s.pstack} {s.pbase} {if s.threadlock then 1 else 0} {s.maxStack} {s.maxArena} 0")
        | _ => (st, "bad-op")
      else
      match st with
      | none => (st, "bad-op")
      | some (c, s) =>
        let fin (r : Res × State) : DState × String := (some (c, r.2), showRes c r.1 ++ showState c r.2)
        -- over-reserved and unlocked (only reachable after a caught overflow under the lock): the harness does
        -- not call the code there (it would write frame records at wild addresses); same rule here
        let over := !s.threadlock && (s.pstack > c.narena || s.parena > c.narena - s.pstack)
        if over && ["mark", "alloc", "alloci", "arena", "num", "int", "dispatch"].contains op then
          (st, "over-reserved" ++ showState c s)
        else
        match op, a with
        | "mark", [] => fin (step c s .mark)
        | "free", [] => fin (step c s .free)
        | "lock", [] => fin (step c s .lock)
        | "unlock", [] => fin (step c s .unlock)
        | "alloc", [size, al] => fin (step c s (.alloc size al))
        | "alloci", [size, al] => fin (step c s (.alloc size al))
        | "arena", [bytes, al] => fin (step c s (.arena bytes al))
        | "num", [n] => fin (step c s (.num n))
        | "int", [n] => fin (step c s (.int n))
        | "par", [k, size, al] =>
          if k < 1 || k > MAXK || !s.threadlock then (st, "bad-op")
          else
            let (rs, s') := lockedRun c s (List.replicate k (size, al))
            (some (c, s'), "par" ++ showJobsSorted c rs ++ showState c s')
        | "parh", _ =>
          match pairs a with
          | some reqs =>
            if reqs.length < 1 || reqs.length > MAXK || !s.threadlock then (st, "bad-op")
            else
              let (rs, s') := lockedRun c s reqs
              (some (c, s'), "parh" ++ String.join (rs.map (fun r => " " ++ showJob c r)) ++ showState c s')
          | none => (st, "bad-op")
        | "dispatch", [nt, k, size, al] =>
          if nt < 1 || nt > 8 || k > MAXK || s.threadlock then (st, "bad-op")
          else if k < 2 then
            let (rs, s') := seqRun c s (List.replicate k (size, al))
            (some (c, s'), "dispatch ok" ++ showJobsSorted c rs ++ showState c s')
          else
            match dispatch c s (List.replicate k (size, al)) with
            | (.error, _, s') => (some (c, s'), "dispatch error" ++ showState c s')
            | (_, rs, s') => (some (c, s'), "dispatch ok" ++ showJobsSorted c rs ++ showState c s')
        | _, _ => (st, "bad-op")

def main (args : List String) : IO Unit := do
  let rz ← match args with
    | [] => pure 0
    | [r] => match r.toNat? with
      | some n => pure n
      | none => throw (IO.userError "usage: drv_c19 [redzone-bytes]")
    | _ => throw (IO.userError "usage: drv_c19 [redzone-bytes]")
  runStateful (none : DState) (stepLine rz)
