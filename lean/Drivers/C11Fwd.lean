import MjProof.Model.FwdConstraint
import Drivers.Common
/-
Line protocol of the mj_fwdConstraint skeleton model (C11):
  skel <function>     -> the guarded statements of the modelled function, joined by " ;; "
                         (functions: mj_fwdConstraint, warmstart, dualFinish, mj_dualFinish, mj_constraintUpdate)
  others <function>   -> the statements of the function that the model treats as writing no tracked array, joined by " ;; "
  exec <noRows 0|1> <islands 0|1> <solver pgs|cg|newton> <noslip 0|1> <warm 0|1> <zeroBetter 0|1> <nv> <map entries...>
                      -> symbolic run of mj_fwdConstraint from a state whose tracked arrays hold the
                         marker `stale`: final qfrc_constraint entries and final efc_force as terms over
                         the abstract leaves (updW, updS, zeroF, mono, isl, noslip; JTf(f)[k], 0 outside the islands)
-/
open MjProof MjProof.Driver MjProof.FwdConstraint

def progOf : String → Option Prog
  | "mj_fwdConstraint" => some mjFwdConstraint
  | "warmstart" => some warmstartBody
  | "dualFinish" => some dualFinishBody
  | "mj_dualFinish" => some mjDualFinishBody
  | "mj_constraintUpdate" => some mjConstraintUpdate
  | _ => none

def solverOf : String → Option Solver
  | "pgs" => some .pgs | "cg" => some .cg | "newton" => some .newton | _ => none

def boolOf : String → Option Bool
  | "0" => some false | "1" => some true | _ => none

def symLeaves (nv : Nat) (map : List Nat) (islands : Bool) : Leaves String String where
  z := "0"
  nv := nv
  map := map
  jtf := fun f => (List.range nv).map fun k =>
    if islands && !map.contains k then "0" else "JTf(" ++ f ++ ")[" ++ toString k ++ "]"
  updW := "updW"
  updS := "updS"
  zeroF := "zeroF"
  mono := fun s f => "mono_" ++ (match s with | .pgs => "pgs" | .cg => "cg" | .newton => "newton") ++ "(" ++ f ++ ")"
  isl := fun s f => "isl_" ++ (match s with | .pgs => "pgs" | .cg => "cg" | .newton => "newton") ++ "(" ++ f ++ ")"
  noslip := fun f => "noslip(" ++ f ++ ")"
  upd := "upd"

def step (line : String) : String :=
  match words line with
  | ["skel", f] =>
    match progOf f with
    | some p => " ;; ".intercalate (skeleton p)
    | none => "bad-op"
  | ["others", f] =>
    match progOf f with
    | some p => " ;; ".intercalate (others p)
    | none => "bad-op"
  | "exec" :: nr :: isl :: sol :: ns :: wm :: zb :: nv :: map =>
    match boolOf nr, boolOf isl, solverOf sol, boolOf ns, boolOf wm, boolOf zb, nv.toNat?, map.mapM String.toNat? with
    | some nr, some isl, some sol, some ns, some wm, some zb, some nv, some map =>
      if nv > 4096 || map.any (· ≥ nv) then "bad-op" else
      let L := symLeaves nv map isl
      let s0 : St String String := { qfrc := List.replicate nv "stale", ifrc := List.replicate map.length "stale",
                                     force := "stale", iforce := "stale" }
      match exec L { noRows := nr, islands := isl, solver := sol, noslip := ns, warm := wm, zeroBetter := zb,
                     oracle := fun _ => false } mjFwdConstraint s0 with
      | some s => "q " ++ " ".intercalate s.qfrc ++ " | f " ++ s.force
      | none => "stuck"
    | _, _, _, _, _, _, _, _ => "bad-op"
  | _ => "bad-op"

def main : IO Unit := runStateless step
