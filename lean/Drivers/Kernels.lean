import MjProof.Gen.KernelsDispatch
import Drivers.Common
/-
Translation-validation driver: `name tok tok ...` where a float token is the 16 hex digits of its IEEE
bits and an int token is `i<decimal>`.  Output: result tokens in the same syntax (the generated
kernel evaluated on `Float`), `bad-op` for an unknown kernel or a malformed line.
-/
open MjProof MjProof.Driver MjProof.Gen

def step (line : String) : String :=
  match words line with
  | name :: toks =>
    match toks.mapM parseTok with
    | some xs =>
      match dispatch name xs with
      | some ys => " ".intercalate (ys.map Tok.show)
      | none => "bad-op"
    | none => "bad-op"
  | [] => "bad-op"

def main : IO Unit := runStateless step
