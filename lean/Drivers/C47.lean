import MjProof.Model.LogCholesky
import Drivers.Common
/-
Line protocol of the log-Cholesky model on `Float` (mirrors harness/py/c47_logchol.py).  A number is
the 16 lowercase hex digits of its IEEE-754 bit pattern (`nan` for NaN).
  fwd   <10 θ>   -> pi <13> J <16> th ok <10>    pi = pi_from_theta θ, J = pseudoinertia_from_pi pi,
                  | pi <13> J <16> th err           th = theta_from_pseudoinertia J (err = LinAlgError)
  pseudo <13 pi> -> J <16>                          pseudoinertia_from_pi on an arbitrary 13-vector
  chol  <16 J>   -> ok <10 U> <10 θ> | err          cholesky_decompose_upper / theta_from_pseudoinertia on an
                                                    arbitrary (possibly unsymmetric / indefinite) 4×4 array
  apply <10 θ>   -> body <10>                       mass, ipos(3), fullinertia(6) written by apply_body_theta_inertia
  prog infer|apply -> the statement tokens of `inferProg` / `applyProg` (compared with the statements extracted
                      from the Python source by translate/c47_protocol.py)
  aspec <ifg0> <expl0> <hasgeo> <cfg> <10 θ>
                 -> spec <ifg> <explicitinertial> body <10> inertia <3> iquat <nan | 4> | err <kind>
                    the interpretation `applyTheta` of `applyProg` on a caller's spec with
                    compiler.inertiafromgeom = ifg0, a body with (expl0 = 1) or without explicit inertial and with
                    (hasgeo = 1) or without mass-carrying geoms; <cfg> is an opaque word (the implementation side
                    decodes the full scene from it).  The query-compile numbers are placeholders: every field
                    they reach is overwritten by the program (theorem applyTheta_eq).
  resolve <ifg> <expl> <iposdef> <fulldef> <ialtquat> <hasgeo> <balance> <19 numbers> <29 observations>
                 -> ok <11> | err <kind>            `compileBody` (mass-property part of mjCBody::Compile) on
                    numbers = mass ipos(3) iquat(4) inertia(3) fullinertia(6) boundmass boundinertia and the
                    observed values of the abstract functions geo(11) eig(7) altq(4) bpos(3) bquat(4)
anything else    -> bad-op
-/
open MjProof MjProof.Driver MjProof.LogChol

def hexs (l : List Float) : String := " ".intercalate (l.map floatBits)

def thetaOfList : List Float → Option (Theta Float)
  | [a, d1, d2, d3, s12, s23, s13, t1, t2, t3] =>
    some { alpha := a, d1 := d1, d2 := d2, d3 := d3, s12 := s12, s23 := s23, s13 := s13,
           t1 := t1, t2 := t2, t3 := t3 }
  | _ => none

def thetaList (t : Theta Float) : List Float :=
  [t.alpha, t.d1, t.d2, t.d3, t.s12, t.s23, t.s13, t.t1, t.t2, t.t3]

def mat3List (m : Mat3 Float) : List Float :=
  [m.m00, m.m01, m.m02, m.m10, m.m11, m.m12, m.m20, m.m21, m.m22]

def piList (p : Pi Float) : List Float := [p.m, p.h0, p.h1, p.h2] ++ mat3List p.I

def piOfList : List Float → Option (Pi Float)
  | [m, h0, h1, h2, a, b, c, d, e, f, g, h, i] =>
    some { m := m, h0 := h0, h1 := h1, h2 := h2,
           I := { m00 := a, m01 := b, m02 := c, m10 := d, m11 := e, m12 := f, m20 := g, m21 := h, m22 := i } }
  | _ => none

def mat4List (j : Mat4 Float) : List Float :=
  [j.j00, j.j01, j.j02, j.j03, j.j10, j.j11, j.j12, j.j13,
   j.j20, j.j21, j.j22, j.j23, j.j30, j.j31, j.j32, j.j33]

def mat4OfList : List Float → Option (Mat4 Float)
  | [a0, a1, a2, a3, b0, b1, b2, b3, c0, c1, c2, c3, d0, d1, d2, d3] =>
    some { j00 := a0, j01 := a1, j02 := a2, j03 := a3, j10 := b0, j11 := b1, j12 := b2, j13 := b3,
           j20 := c0, j21 := c1, j22 := c2, j23 := c3, j30 := d0, j31 := d1, j32 := d2, j33 := d3 }
  | _ => none

def upperList (u : Upper Float) : List Float :=
  [u.u00, u.u01, u.u02, u.u03, u.u11, u.u12, u.u13, u.u22, u.u23, u.u33]

def bodyList (b : BodyInertial Float) : List Float :=
  [b.mass, b.ipos0, b.ipos1, b.ipos2, b.fxx, b.fyy, b.fzz, b.fxy, b.fxz, b.fyz]

def v3List (v : V3 Float) : List Float := [v.x, v.y, v.z]
def q4List (q : Q4 Float) : List Float := [q.w, q.x, q.y, q.z]

def optQuatStr : Option (Q4 Float) → String
  | some q => hexs (q4List q)
  | none => "nan"

def bit? : String → Option Bool
  | "0" => some false
  | "1" => some true
  | _ => none

def ifg? : String → Option IFG
  | "0" => some .off
  | "1" => some .on
  | "2" => some .auto
  | _ => none

def qid : Q4 Float := { w := 1.0, x := 0.0, y := 0.0, z := 0.0 }

/-- placeholder environment of the `aspec` op (the numbers never reach the output) -/
def aspecEnv (hasgeo : Bool) : CompileEnv Float :=
  { geo := if hasgeo then
      some { mass := 7.0, ipos := { x := 7.0, y := 7.0, z := 7.0 }, iquat := some qid,
             inertia := { x := 7.0, y := 7.0, z := 7.0 } }
    else none,
    eig := fun f => some (qid, { x := f.xx, y := f.yy, z := f.zz }),
    normq := id, bpos := { x := 9.0, y := 9.0, z := 9.0 }, bquat := qid, ialtQuat := true, altq := qid,
    boundmass := 0.0, boundinertia := 0.0, balance := false }

def aspecBody (expl : Bool) : SpecBody Float :=
  if expl then
    { explicitinertial := true, mass := 5.0, ipos := some { x := 5.0, y := 5.0, z := 5.0 }, iquat := some qid,
      inertia := { x := 5.0, y := 5.0, z := 5.0 }, full := none }
  else
    { explicitinertial := false, mass := 0.0, ipos := none, iquat := some qid,
      inertia := { x := 0.0, y := 0.0, z := 0.0 }, full := none }

def specLine (s : SpecState Float) : String :=
  let b := s.body
  match b.ipos, b.full with
  | some p, some f =>
    s!"spec {s.ifg.code} {if b.explicitinertial then 1 else 0} body " ++
      hexs ([b.mass] ++ v3List p ++ [f.xx, f.yy, f.zz, f.xy, f.xz, f.yz]) ++
      " inertia " ++ hexs (v3List b.inertia) ++ " iquat " ++ optQuatStr b.iquat
  | _, _ => "spec-undefined"

def stepAspec (toks : List String) : String :=
  match toks with
  | a :: e :: g :: cfg :: rest =>
    match ifg? a, bit? e, bit? g, rest.mapM floatOfBits? with
    | some ifg0, some expl, some hasgeo, some xs =>
      if cfg.isEmpty then "bad-op" else
      match thetaOfList xs with
      | none => "bad-op"
      | some θ =>
        match applyTheta (aspecEnv hasgeo) { ifg := ifg0, body := aspecBody expl, model := none } θ with
        | .ok s => specLine s
        | .error k => "err " ++ k.token
    | _, _, _, _ => "bad-op"
  | _ => "bad-op"

def compiledLine (c : Compiled Float) : String :=
  "ok " ++ hexs ([c.mass] ++ v3List c.ipos) ++ " " ++ optQuatStr c.iquat ++ " " ++ hexs (v3List c.inertia)

def stepResolve (toks : List String) : String :=
  match toks with
  | a :: e :: ip :: fu :: ia :: g :: ba :: rest =>
    match ifg? a, bit? e, bit? ip, bit? fu, bit? ia, bit? g, bit? ba, rest.mapM floatOfBits? with
    | some ifg, some expl, some iposdef, some fulldef, some ialtq, some hasgeo, some bal, some xs =>
      match xs with
      | x_mass :: x_p0 :: x_p1 :: x_p2 :: x_q0 :: x_q1 :: x_q2 :: x_q3 ::
        x_i0 :: x_i1 :: x_i2 :: x_f0 :: x_f1 :: x_f2 :: x_f3 :: x_f4 ::
        x_f5 :: x_bm :: x_bi :: x_gm :: x_gp0 :: x_gp1 :: x_gp2 :: x_gq0 ::
        x_gq1 :: x_gq2 :: x_gq3 :: x_gi0 :: x_gi1 :: x_gi2 :: x_eq0 :: x_eq1 ::
        x_eq2 :: x_eq3 :: x_ed0 :: x_ed1 :: x_ed2 :: x_aq0 :: x_aq1 :: x_aq2 ::
        x_aq3 :: x_bp0 :: x_bp1 :: x_bp2 :: x_bq0 :: x_bq1 :: x_bq2 :: x_bq3 :: [] =>
        let env : CompileEnv Float :=
          { geo := if hasgeo then
              some { mass := x_gm, ipos := { x := x_gp0, y := x_gp1, z := x_gp2 },
                     iquat := some { w := x_gq0, x := x_gq1, y := x_gq2, z := x_gq3 },
                     inertia := { x := x_gi0, y := x_gi1, z := x_gi2 } }
            else none,
            -- the observed mjuu_fullInertia result of this line's fullinertia (NaN moments = it failed)
            eig := fun _ => if x_ed0.isNaN then none else
              some ({ w := x_eq0, x := x_eq1, y := x_eq2, z := x_eq3 }, { x := x_ed0, y := x_ed1, z := x_ed2 }),
            normq := id,
            bpos := { x := x_bp0, y := x_bp1, z := x_bp2 }, bquat := { w := x_bq0, x := x_bq1, y := x_bq2, z := x_bq3 },
            ialtQuat := ialtq, altq := { w := x_aq0, x := x_aq1, y := x_aq2, z := x_aq3 },
            boundmass := x_bm, boundinertia := x_bi, balance := bal }
        let b : SpecBody Float :=
          { explicitinertial := expl, mass := x_mass,
            ipos := if iposdef then some { x := x_p0, y := x_p1, z := x_p2 } else none,
            iquat := some { w := x_q0, x := x_q1, y := x_q2, z := x_q3 },
            inertia := { x := x_i0, y := x_i1, z := x_i2 },
            full := if fulldef then some { xx := x_f0, yy := x_f1, zz := x_f2, xy := x_f3, xz := x_f4, yz := x_f5 } else none }
        match compileBody env ifg b with
        | .ok c => compiledLine c
        | .error k => "err " ++ k.token
      | _ => "bad-op"
    | _, _, _, _, _, _, _, _ => "bad-op"
  | _ => "bad-op"

def stepProg (toks : List String) : String :=
  match toks with
  | ["infer"] => " ".intercalate (inferProg.map Instr.token)
  | ["apply"] => " ".intercalate (applyProg.map Instr.token)
  | _ => "bad-op"

def step (line : String) : String :=
  match words line with
  | "prog" :: toks => stepProg toks
  | "aspec" :: toks => stepAspec toks
  | "resolve" :: toks => stepResolve toks
  | op :: toks =>
    match toks.mapM floatOfBits? with
    | none => "bad-op"
    | some xs =>
      if op == "fwd" then
        match thetaOfList xs with
        | none => "bad-op"
        | some θ =>
          let p := piFromTheta θ
          let J := pseudoFromPi p
          let tail := match thetaFromPseudo J with
            | some t => "th ok " ++ hexs (thetaList t)
            | none => "th err"
          "pi " ++ hexs (piList p) ++ " J " ++ hexs (mat4List J) ++ " " ++ tail
      else if op == "pseudo" then
        match piOfList xs with
        | none => "bad-op"
        | some p => "J " ++ hexs (mat4List (pseudoFromPi p))
      else if op == "chol" then
        match mat4OfList xs with
        | none => "bad-op"
        | some J =>
          match cholUpper J with
          | some U => "ok " ++ hexs (upperList U) ++ " " ++ hexs (thetaList (thetaOfUpper U))
          | none => "err"
      else if op == "apply" then
        match thetaOfList xs with
        | none => "bad-op"
        | some θ => "body " ++ hexs (bodyList (bodyOfTheta θ))
      else "bad-op"
  | [] => "bad-op"

def main : IO Unit := runStateless step
