import MjProof.Model.LogCholesky
import Drivers.Common
/-
Line protocol of the log-Cholesky model on `Float` (mirrors harness/py/c47_logchol.py).  A number is
the 16 lowercase hex digits of its IEEE-754 bit pattern (`nan` for NaN).
  fwd   <10 θ>   -> pi <13> J <16> th ok <10>    pi = pi_from_theta θ, J = pseudoinertia_from_pi pi,
                  | pi <13> J <16> th err           th = theta_from_pseudoinertia J (err = LinAlgError)
  pseudo <13 pi> -> J <16>                          pseudoinertia_from_pi on an arbitrary 13-vector
  chol  <16 J>   -> ok <10 U> <10 θ> | err          cholesky_decompose_upper / theta_from_pseudoinertia on an
                                                    arbitrary (possibly unsymmetric / indefinite) 4×4 array
  apply <10 θ>   -> body <10>                       mass, ipos(3), fullinertia(6) written by apply_body_theta_inertia
anything else    -> bad-op
-/
open MjProof MjProof.Driver MjProof.LogChol

def hexs (l : List Float) : String := " ".intercalate (l.map floatBits)

def thetaOfList : List Float → Option (Theta Float)
  | [a, d1, d2, d3, s12, s23, s13, t1, t2, t3] =>
    some { alpha := a, d1 := d1, d2 := d2, d3 := d3, s12 := s12, s23 := s23, s13 := s13,
           t1 := t1, t2 := t2, t3 := t3 }
  | _ => none

def thetaList (t : Theta Float) : List Float :=
  [t.alpha, t.d1, t.d2, t.d3, t.s12, t.s23, t.s13, t.t1, t.t2, t.t3]

def mat3List (m : Mat3 Float) : List Float :=
  [m.m00, m.m01, m.m02, m.m10, m.m11, m.m12, m.m20, m.m21, m.m22]

def piList (p : Pi Float) : List Float := [p.m, p.h0, p.h1, p.h2] ++ mat3List p.I

def piOfList : List Float → Option (Pi Float)
  | [m, h0, h1, h2, a, b, c, d, e, f, g, h, i] =>
    some { m := m, h0 := h0, h1 := h1, h2 := h2,
           I := { m00 := a, m01 := b, m02 := c, m10 := d, m11 := e, m12 := f, m20 := g, m21 := h, m22 := i } }
  | _ => none

def mat4List (j : Mat4 Float) : List Float :=
  [j.j00, j.j01, j.j02, j.j03, j.j10, j.j11, j.j12, j.j13,
   j.j20, j.j21, j.j22, j.j23, j.j30, j.j31, j.j32, j.j33]

def mat4OfList : List Float → Option (Mat4 Float)
  | [a0, a1, a2, a3, b0, b1, b2, b3, c0, c1, c2, c3, d0, d1, d2, d3] =>
    some { j00 := a0, j01 := a1, j02 := a2, j03 := a3, j10 := b0, j11 := b1, j12 := b2, j13 := b3,
           j20 := c0, j21 := c1, j22 := c2, j23 := c3, j30 := d0, j31 := d1, j32 := d2, j33 := d3 }
  | _ => none

def upperList (u : Upper Float) : List Float :=
  [u.u00, u.u01, u.u02, u.u03, u.u11, u.u12, u.u13, u.u22, u.u23, u.u33]

def bodyList (b : BodyInertial Float) : List Float :=
  [b.mass, b.ipos0, b.ipos1, b.ipos2, b.fxx, b.fyy, b.fzz, b.fxy, b.fxz, b.fyz]

def step (line : String) : String :=
  match words line with
  | op :: toks =>
    match toks.mapM floatOfBits? with
    | none => "bad-op"
    | some xs =>
      if op == "fwd" then
        match thetaOfList xs with
        | none => "bad-op"
        | some θ =>
          let p := piFromTheta θ
          let J := pseudoFromPi p
          let tail := match thetaFromPseudo J with
            | some t => "th ok " ++ hexs (thetaList t)
            | none => "th err"
          "pi " ++ hexs (piList p) ++ " J " ++ hexs (mat4List J) ++ " " ++ tail
      else if op == "pseudo" then
        match piOfList xs with
        | none => "bad-op"
        | some p => "J " ++ hexs (mat4List (pseudoFromPi p))
      else if op == "chol" then
        match mat4OfList xs with
        | none => "bad-op"
        | some J =>
          match cholUpper J with
          | some U => "ok " ++ hexs (upperList U) ++ " " ++ hexs (thetaList (thetaOfUpper U))
          | none => "err"
      else if op == "apply" then
        match thetaOfList xs with
        | none => "bad-op"
        | some θ => "body " ++ hexs (bodyList (bodyOfTheta θ))
      else "bad-op"
  | [] => "bad-op"

def main : IO Unit := runStateless step
