import MjProof.Model.GlobalTable
import Drivers.Common
/-
C40 line protocol (same as harness/cc/c40_table.cc; every line is a complete scenario on a fresh table):

  seq <kind> <op> ...      sequential history, run through the transition system `step` with one thread
        r:<name>:<payload> -> s<ret> | E | W      n:<name> -> f<slot>:<key>:<payload> | -
        s:<int> -> o:<key>:<payload> | -           c -> <count>
        L / U (kinds t, c): LockExclusively() scope opened / closed by the thread -> u
     kinds: t  test type, exact ObjectEqual          c  test type, case-insensitive ObjectEqual
            p  plugin API (empty name rejected before the table)
            v  resource-provider API (URI-scheme check on the prefix, slots 1-based)
     (kinds t,c: payload 99 = CopyObject fails after its first field)
  chk <kind> <nreaders> <names> <writer-prog> ... ## <observation of the real threads>
        decides whether the observation is in the model's allowed set: finds a linearisation of the
        writers' registrations (Spec.register) that reproduces every returned value and the final table,
        replays it through `step` (fine-grained schedule) and compares results + memory, and checks every
        reader observation against `Spec.atSlot` / `Spec.lookup` on a published prefix of the final table.
        -> allowed | forbidden:<why>
  conc ...                 -> nondet   (the model has a set of outcomes; use chk)
-/
open MjProof MjProof.Driver MjProof.GlobalTable

structure Kind where
  tag : String
  eqv : ObjEq
  base : Nat
  copyFailPayload : Bool

def eqvExact : ObjEq := fun a b => a.key == b.key && a.payload == b.payload
def eqvCI : ObjEq := fun a b => keyEq a.key b.key && a.payload == b.payload

def kindOf : String → Option Kind
  | "t" => some ⟨"t", eqvExact, 0, true⟩
  | "c" => some ⟨"c", eqvCI, 0, true⟩
  | "p" => some ⟨"p", eqvExact, 0, false⟩
  | "v" => some ⟨"v", eqvCI, 1, false⟩
  | _ => none

/-- `IsValidURISchemeFormat` of engine_plugin.cc (API wrapper of kind v) -/
def validScheme (s : String) : Bool :=
  match s.toList with
  | [] => false
  | c :: cs => c.isAlpha && cs.all (fun d => d.isAlphanum || d == '+' || d == '.' || d == '-')

def regOp (k : Kind) (name : String) (payload : Nat) : RegOp :=
  { obj := ⟨name, payload⟩, copyFail := if k.copyFailPayload && payload == 99 then some 1 else none }

def cellStr (c : Cell) : String :=
  c.keyStr ++ ":" ++ (match c.payload with | some p => toString p | none => "?") ++
    (if c.complete then "" else ":TORN")

def resTok (k : Kind) : Res → String
  | .slot i => s!"s{i + k.base}"
  | .conflict _ => "E"
  | .allocFailed => "E"
  | .copyFailed => "E"
  | .count n => toString n
  | .atSlot _ (some c) => "o:" ++ cellStr c
  | .atSlot _ none => "-"
  | .byKey _ (some (j, c)) => s!"f{j + k.base}:" ++ cellStr c
  | .byKey _ none => "-"
  | .unit => "u"

/-- run thread `t` until it has completed one more operation (or fuel runs out) -/
def runOne (eqv : ObjEq) (s : Sys) (t : Nat) : Nat → Option Sys
  | 0 => none
  | fuel + 1 =>
    let n := (s.thr t).done.length
    let s' := step eqv s t
    if (s'.thr t).done.length > n then some s' else runOne eqv s' t fuel

def parseReg (tok : String) : Option (String × Nat) :=
  match tok.splitOn ":" with
  | ["r", name, p] => if name.length ≤ 15 then p.toNat?.map (fun v => (name, v)) else none
  | _ => none

/-- one operation of a sequential history: wrapper-level answer or a table operation -/
def seqOp (k : Kind) (tok : String) : Option (Sum String Op) :=
  if tok == "c" then some (.inr .count)
  else if tok == "L" then (if k.copyFailPayload then some (.inr .lockExt) else none)
  else if tok == "U" then (if k.copyFailPayload then some (.inr .unlockExt) else none)
  else match tok.splitOn ":" with
    | ["r", _, _] =>
      match parseReg tok with
      | none => none
      | some (name, v) =>
        if k.tag == "p" && name == "" then some (.inl "E")
        else if k.tag == "v" && !validScheme name then some (.inl "W")
        else some (.inr (.reg (regOp k name v)))
    | ["n", name] =>
      if k.tag == "v" && !validScheme name then some (.inl "-")
      else some (.inr (.getKey name))
    | ["s", i] =>
      match i.toInt? with
      | some v => some (.inr (.getSlot (v - (k.base : Int))))
      | none => none
    | _ => none

def runSeq (k : Kind) (toks : List String) : String :=
  match toks.mapM (seqOp k) with
  | none => "bad-op"
  | some ops =>
    let rec go (s : Sys) (ops : List (Sum String Op)) (acc : List String) : Option (List String) :=
      match ops with
      | [] => some acc.reverse
      | .inl w :: rest => go s rest (w :: acc)
      | .inr op :: rest =>
        let s0 : Sys := { s with thr := setThr s.thr 0 { s.thr 0 with todo := [op] } }
        match runOne k.eqv s0 0 100000 with
        | none => none
        | some s1 =>
          match (s1.thr 0).done with
          | (_, r) :: _ => go s1 rest (resTok k r :: acc)
          | [] => none
    match go (init (fun _ => [])) ops [] with
    | some out => " ".intercalate out
    | none => "model-stuck"

/-! ### checking an observation of a concurrent run -/

structure RObs where
  ns : List Nat := []
  obs : List (Nat × String × Nat) := []
  keys : List (String × Option (Nat × String × Nat)) := []
  bad : Nat := 0
  moved : Nat := 0
  nonmono : Nat := 0

def splitList (s : String) : List String := if s == "" then [] else s.splitOn ","

def parseObj3 (s : String) : Option (Nat × String × Nat) :=
  match s.splitOn ":" with
  | [i, k, p] => do let i ← i.toNat?; let p ← p.toNat?; pure (i, k, p)
  | _ => none

def parseKeyObs (s : String) : Option (String × Option (Nat × String × Nat)) :=
  match s.splitOn ">" with
  | [name, "-"] => some (name, none)
  | [name, r] => (parseObj3 r).map (fun x => (name, some x))
  | _ => none

def parseReader (s : String) : Option RObs := do
  let mut r : RObs := {}
  for part in s.splitOn "|" do
    match part.splitOn ":" with
    | "ns" :: rest => r := { r with ns := ← (splitList (":".intercalate rest)).mapM String.toNat? }
    | "obs" :: rest => r := { r with obs := ← (splitList (":".intercalate rest)).mapM parseObj3 }
    | "keys" :: rest => r := { r with keys := ← (splitList (":".intercalate rest)).mapM parseKeyObs }
    | ["bad", v] => r := { r with bad := ← v.toNat? }
    | ["moved", v] => r := { r with moved := ← v.toNat? }
    | ["nonmono", v] => r := { r with nonmono := ← v.toNat? }
    | ["polls", _] => pure ()
    | _ => none
  pure r

def parseFinal (s : String) : Option (List Obj) :=
  match s.splitOn "|" with
  | [n, objs] => do
    let n ← n.toNat?
    let os ← (splitList objs).mapM (fun o => match o.splitOn ":" with
      | [k, p] => p.toNat?.map (fun v => (⟨k, v⟩ : Obj))
      | _ => none)
    if os.length == n then pure os else none
  | _ => none

def regTok (k : Kind) (r : Res) : String := resTok k r

/-- search a linearisation (list of writer ids) reproducing the observed return tokens and the final table -/
partial def linSearch (k : Kind) (F : Array Obj) (T : List Obj) (ws : List (Nat × List (RegOp × String)))
    (acc : List Nat) : Option (List Nat) :=
  let inj (r : RegOp) : Option Res := if r.copyFail.isSome then some .copyFailed else none
  -- greedy: operations that leave the table unchanged and return what was observed
  let rec greedy (pre : List (Nat × List (RegOp × String))) (rest : List (Nat × List (RegOp × String))) :
      Option (Nat × List (Nat × List (RegOp × String))) :=
    match rest with
    | [] => none
    | (t, []) :: more => greedy (pre ++ [(t, [])]) more
    | (t, (r, tok) :: ops) :: more =>
      let (T', res) := Spec.register k.eqv T r.obj (inj r)
      if T'.length == T.length && regTok k res == tok then some (t, pre ++ [(t, ops)] ++ more)
      else greedy (pre ++ [(t, (r, tok) :: ops)]) more
  match greedy [] ws with
  | some (t, ws') => linSearch k F T ws' (t :: acc)
  | none =>
    if ws.all (fun w => w.2.isEmpty) then
      if T == F.toList then some acc.reverse else none
    else
      -- branch over the registrations that append the object found at the next slot of the final table
      let rec branch (pre : List (Nat × List (RegOp × String))) (rest : List (Nat × List (RegOp × String))) :
          Option (List Nat) :=
        match rest with
        | [] => none
        | (t, []) :: more => branch (pre ++ [(t, [])]) more
        | (t, (r, tok) :: ops) :: more =>
          let (T', res) := Spec.register k.eqv T r.obj (inj r)
          let ok := T'.length == T.length + 1 && regTok k res == tok && F[T.length]? == some r.obj
          let here := if ok then linSearch k F T' (pre ++ [(t, ops)] ++ more) (t :: acc) else none
          match here with
          | some l => some l
          | none => branch (pre ++ [(t, (r, tok) :: ops)]) more
      branch [] ws

def checkReader (F : List Obj) (base : Nat) (r : RObs) : Option String :=
  if r.bad != 0 then some "torn-or-missing-object-below-count"
  else if r.moved != 0 then some "slot-content-changed"
  else if r.nonmono != 0 then some "count-decreased"
  else if !(r.ns.all (· ≤ F.length)) then some "count-exceeds-final"
  else if !(r.ns.zip r.ns.tail).all (fun p => p.1 ≤ p.2) then some "count-sequence-not-monotone"
  else
    let nmax := r.ns.foldl max 0
    let badObs := r.obs.find? (fun (i, k, p) =>
      !(base ≤ i && i - base < nmax &&
        (Spec.atSlot (F.take nmax) ((i - base : Nat) : Int)) == some (⟨k, p⟩ : Obj)))
    match badObs with
    | some (i, _, _) => some s!"slot-observation-not-in-published-prefix:{i}"
    | none =>
      let badKey := r.keys.find? (fun (name, res) =>
        let want : Option (Nat × Obj) := res.map (fun (j, k, p) => (j - base, (⟨k, p⟩ : Obj)))
        !((List.range (F.length + 1)).any (fun n => Spec.lookup (F.take n) name == want)) ||
        (match res with | some (j, _, _) => j < base | none => false))
      match badKey with
      | some (name, _) => some s!"key-lookup-not-explained-by-any-prefix:{name}"
      | none => none

def runChk (k : Kind) (spec : List String) (obs : List String) : String :=
  match spec with
  | _nreaders :: _names :: progToks =>
    let progs? : Option (List (List RegOp)) := progToks.mapM (fun p =>
      (p.splitOn ";").mapM (fun tok => (parseReg tok).map (fun (n, v) => regOp k n v)))
    match progs? with
    | none => "bad-op"
    | some progs =>
      let field (pfx : String) : Option String :=
        (obs.find? (fun o => o.startsWith pfx)).map (fun o => (o.drop pfx.length).toString)
      let wres? : Option (List (List String)) := (List.range progs.length).mapM (fun i =>
        (field s!"W{i}=").map splitList)
      let readers? : Option (List RObs) :=
        (obs.filter (fun o => o.startsWith "R")).mapM (fun o =>
          match o.splitOn "=" with
          | [_, body] => parseReader body
          | _ => none)
      match wres?, readers?, (field "FINAL=").bind parseFinal with
      | some wres, some readers, some F =>
        if !(progs.zip wres).all (fun (p, w) => p.length == w.length) then "bad-op" else
        let ws := (List.range progs.length).zip ((progs.zip wres).map (fun (p, w) => p.zip w))
        match linSearch k F.toArray [] ws [] with
        | none => "forbidden:no-linearisation-of-the-registrations-explains-returns-and-final-table"
        | some order =>
          -- replay through the fine-grained transition system
          let progFn : Nat → List Op := fun t => match progs[t]? with
            | some p => p.map Op.reg
            | none => []
          let sEnd := order.foldl (fun (s? : Option Sys) t => s?.bind (fun s => runOne k.eqv s t 100000))
            (some (init progFn))
          match sEnd with
          | none => "forbidden:model-stuck"
          | some s =>
            let okW := (List.range progs.length).all (fun t =>
              ((s.thr t).done.reverse.map (fun e => regTok k e.2)) == (wres[t]?).getD [])
            let okM := s.count == F.length &&
              (List.range F.length).all (fun i => cellAt s.mem i == (F[i]?).map Cell.full)
            if !okW then "forbidden:model-replay-returns-differ"
            else if !okM then "forbidden:model-replay-memory-differs"
            else
              match readers.findSome? (checkReader F k.base) with
              | some why => "forbidden:" ++ why
              | none => "allowed"
      | _, _, _ => "bad-op"
  | _ => "bad-op"

def stepLine (line : String) : String :=
  match words line with
  | "seq" :: kind :: toks =>
    match kindOf kind with
    | some k => runSeq k toks
    | none => "bad-op"
  | "conc" :: kind :: _ =>
    match kindOf kind with
    | some _ => "nondet"
    | none => "bad-op"
  | "chk" :: kind :: rest =>
    match kindOf kind with
    | some k =>
      let spec := rest.takeWhile (· != "##")
      let obs := (rest.dropWhile (· != "##")).drop 1
      runChk k spec obs
    | none => "bad-op"
  | _ => "bad-op"

def main : IO Unit := runStateless stepLine
