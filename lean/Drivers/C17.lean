import MjProof.Model.Island
import Drivers.Common
/-
Line protocol (one op per line; `;` separates segments, `:` separates fields, lists are space separated):

  dsu N d0 … d(N-1) ; op ; op ; …      union-find session on N trees, parent = -1,…,-1, tree_dofnum = d
      m A B   mj_dsuMerge(parent, A, B)            -> "ok p0 … p(N-1)" | "error" | "undef"
      q A B   the same without the dump of parent  -> "ok" | "error" | "undef"
      r T     mj_dsuRoot(parent, T)                -> "R : p0 … p(N-1)" | "undef"
      A       mj_dsuAssign(island, parent, d, N)   -> "NISLAND NIDOF : island… : parent…" | "undef"
    output: the op results joined by " | "; tree arguments outside [-1,N) (m) / [0,N) (r) -> bad-op

  ff NR : rownnz… : rowadr… : colind…  mj_floodFill -> "NISLAND : island…" | "undef"
    (sizes must be NR, rows inside colind, column indices < NR; otherwise bad-op)

  island NTREE : dofnum… : dof_treeid… : row ; row ; … [: flex ; flex ; …]
      row  = "=" (further scalar row of the same constraint) or the trees of the constraint (-1 static)
      flex = list of TREE/AWAKE pairs
    -> "NISLAND NIDOF : tree_island : island_ntree : island_itreeadr : map_itree2tree : dof_island :
        island_nv : island_idofadr : map_dof2idof : map_idof2dof : island_dofadr : efc_island :
        island_nefc : island_iefcadr : map_efc2iefc : map_iefc2efc"  | "none"
-/
open MjProof MjProof.Driver MjProof.Island

def splitOnChar (c : String) (s : String) : List String := s.splitOn c

def ints? (s : String) : Option (List Int) := (words s).mapM String.toInt?
def nats? (s : String) : Option (List Nat) := (words s).mapM String.toNat?

def showInts (a : Array Int) : String := joinInts a.toList
def showNats (a : Array Nat) : String := joinNats a.toList

inductive DsuOp where
  | merge (a b : Int)
  | mergeQuiet (a b : Int)
  | root (t : Nat)
  | assign

def parseDsuOp (n : Nat) (s : String) : Option DsuOp :=
  match words s with
  | ["m", a, b] =>
    match a.toInt?, b.toInt? with
    | some a, some b => if -1 ≤ a ∧ a < n ∧ -1 ≤ b ∧ b < n then some (.merge a b) else none
    | _, _ => none
  | ["q", a, b] =>
    match a.toInt?, b.toInt? with
    | some a, some b => if -1 ≤ a ∧ a < n ∧ -1 ≤ b ∧ b < n then some (.mergeQuiet a b) else none
    | _, _ => none
  | ["r", t] =>
    match t.toNat? with
    | some t => if t < n then some (.root t) else none
    | none => none
  | ["A"] => some .assign
  | _ => none

def runDsuOp (dofnum : Array Int) (n : Nat) (p : Array Int) (op : DsuOp) : Array Int × String :=
  match op with
  | .merge a b =>
    match dsuMerge p a b with
    | .ok p' => (p', "ok " ++ showInts p')
    | .staticError => (p, "error")
    | .undef => (p, "undef")
  | .mergeQuiet a b =>
    match dsuMerge p a b with
    | .ok p' => (p', "ok")
    | .staticError => (p, "error")
    | .undef => (p, "undef")
  | .root t =>
    match dsuRoot p t with
    | some (r, p') => (p', toString r ++ " : " ++ showInts p')
    | none => (p, "undef")
  | .assign =>
    match dsuAssign p dofnum n with
    | some a => (a.parent, toString a.nisland ++ " " ++ toString a.nidof ++ " : " ++ showInts a.island
                  ++ " : " ++ showInts a.parent)
    | none => (p, "undef")

def stepDsu (segs : List String) : String :=
  match segs with
  | [] => "bad-op"
  | hd :: ops =>
    match words hd with
    | "dsu" :: n :: ds =>
      match n.toNat?, ds.mapM String.toInt? with
      | some n, some ds =>
        if ds.length ≠ n then "bad-op" else
        match ops.mapM (parseDsuOp n) with
        | none => "bad-op"
        | some ops =>
          let (_, outs) := ops.foldl (fun (st : Array Int × List String) op =>
              let (p', o) := runDsuOp ds.toArray n st.1 op
              (p', o :: st.2)) (initParent n, [])
          " | ".intercalate outs.reverse
      | _, _ => "bad-op"
    | _ => "bad-op"

def stepFf (line : String) : String :=
  match splitOnChar ":" line with
  | [hd, nnz, adr, col] =>
    match words hd, nats? nnz, nats? adr, nats? col with
    | ["ff", nr], some nnz, some adr, some col =>
      match nr.toNat? with
      | none => "bad-op"
      | some nr =>
        if nnz.length ≠ nr ∨ adr.length ≠ nr then "bad-op"
        else if (List.zip nnz adr).any (fun (n, a) => decide (a + n > col.length)) then "bad-op"
        else if col.any (fun c => decide (c ≥ nr)) then "bad-op"
        else
          match floodFill nr nnz.toArray adr.toArray col.toArray with
          | some (isl, n) => toString n ++ " : " ++ showInts isl
          | none => "undef"
    | _, _, _, _ => "bad-op"
  | _ => "bad-op"

def parseRow (s : String) : Option (Option (List Int)) :=
  match words s with
  | ["="] => some none
  | ws => (ws.mapM String.toInt?).map some

def parseFlex (s : String) : Option (List (Int × Bool)) :=
  (words s).mapM (fun w =>
    match w.splitOn "/" with
    | [t, a] =>
      match t.toInt?, a with
      | some t, "1" => some (t, true)
      | some t, "0" => some (t, false)
      | _, _ => none
    | _ => none)

def showMaps (m : Maps) (withFwd : Bool) : String :=
  showNats m.cnt ++ " : " ++ showNats m.adr ++ (if withFwd then " : " ++ showNats m.fwd else "") ++ " : " ++ showNats m.inv

def stepIsland (line : String) : String :=
  let fields := splitOnChar ":" line
  match fields with
  | hd :: dn :: dt :: rows :: rest =>
    let flexes? : Option (List (List (Int × Bool))) :=
      match rest with
      | [] => some []
      | [f] => (splitOnChar ";" f).mapM parseFlex
      | _ => none
    let rows? : Option (List (Option (List Int))) :=
      if (words rows).isEmpty then some [] else (splitOnChar ";" rows).mapM parseRow
    match words hd, ints? dn, nats? dt, rows?, flexes? with
    | ["island", nt], some dn, some dt, some rows, some flexes =>
      match nt.toNat? with
      | none => "bad-op"
      | some nt =>
        match island nt dn.toArray dt rows flexes with
        | none => "none"
        | some o =>
          " : ".intercalate [toString o.nisland ++ " " ++ toString o.nidof, showInts o.tree_island,
            showMaps o.trees false, showInts o.dof_island, showMaps o.dofs true, showNats o.island_dofadr,
            showInts o.efc_island, showMaps o.efcs true]
    | _, _, _, _, _ => "bad-op"
  | _ => "bad-op"

def step (line : String) : String :=
  match words line with
  | "dsu" :: _ => stepDsu (splitOnChar ";" line)
  | "ff" :: _ => stepFf line
  | "island" :: _ => stepIsland line
  | _ => "bad-op"

def main : IO Unit := runStateless step
