import MjProof.Model.FDBook
import Drivers.Common
/-
Line protocol of the C25 hand model (doubles are the 16 hex digits of their IEEE bits):
  trace_step <centered> <A> <B> <C> <D> <warmstart-disabled> <eps> <nv> <na> <nu> {<limited> <lo> <hi> <ctrl>}*nu
  trace_inv  <DfDq> <DfDv> <DfDa> <Ds> <DmDq> <eps> <nv>
The modelled `mjd_stepFD` / `mjd_inverseFD` run with an *observing* `mj_stepSkip` / `inverseSkip`: at every call it
records which input differs from the base point, in which direction, and the skip stage, then changes every state
field the real step changes (so that a missing restore shows up).  Output:
  `<events> | <restored flags>`,  event = `<N|P|V>:<base | (u|a|v|q|c)<index>(+|-)>`
Malformed lines are answered with `bad-op`.
-/
open MjProof MjProof.Driver MjProof.FDBook

abbrev P := StateT (List String) Option

def tok : P String := do
  match (← get) with
  | t :: r => set r; pure t
  | [] => failure

def nat : P Nat := do
  let t ← tok
  match t.toList with
  | '+' :: _ => failure
  | _ => match t.toNat? with
    | some n => pure n
    | none => failure

def bit : P Bool := do
  match (← tok) with
  | "0" => pure false
  | "1" => pure true
  | _ => failure

def flt : P Float := do
  match floatOfBits? (← tok) with
  | some x => pure x
  | none => failure

def eoi : P Unit := do
  match (← get) with
  | [] => pure ()
  | _ => failure

def rep {β : Type} (p : P β) : Nat → P (List β)
  | 0 => pure []
  | n + 1 => do
    let x ← p
    let xs ← rep p n
    pure (x :: xs)

def sameBits (a b : List Float) : Bool := a.map (·.toBits) == b.map (·.toBits)

/-- first entry whose bit pattern differs: index and whether the current value is larger -/
def firstDiff (cur base : List Float) : Option (Nat × Bool) :=
  let rec go (i : Nat) : List Float → List Float → Option (Nat × Bool)
    | c :: cs, b :: bs => if c.toBits != b.toBits then some (i, c > b) else go (i + 1) cs bs
    | _, _ => none
  go 0 cur base

/-- the observation both sides make inside the opaque evaluation -/
def observe (base d : Data Float) (withQacc : Bool) : String :=
  let flds : List (String × Fld) := [("u", .ctrl), ("a", .act), ("v", .qvel), ("q", .qpos)] ++
    (if withQacc then [("c", Fld.qacc)] else [])
  let rec go : List (String × Fld) → String
    | [] => "base"
    | (nm, f) :: r =>
      match firstDiff (d f) (base f) with
      | some (i, up) => nm ++ toString i ++ (if up then "+" else "-")
      | none => go r
  go flds

def stageName (s : Nat) : String := if s = 0 then "N" else if s = 1 then "P" else "V"

/- events are appended to the `derived` field as character codes separated by 0 (that field is never restored) -/
def logEvent (d : Data Float) (s : String) : Data Float :=
  d.set .derived (d .derived ++ (s.toList.map fun c => Float.ofNat c.toNat) ++ [0.0])

def decodeLog (l : List Float) : List String :=
  let rec go (cur : List Char) (acc : List String) : List Float → List String
    | [] => acc.reverse
    | x :: xs =>
      if x == 0.0 then go [] (String.ofList cur.reverse :: acc) xs
      else go (Char.ofNat x.toUInt64.toNat :: cur) acc xs
  go [] [] l

def bump (l : List Float) : List Float := l.map (· + 1.0)

/-- observing stand-in for `mj_stepSkip`: logs, then changes everything a real step changes -/
def obsStep (base : Data Float) (stage : Nat) (_skipsensor : Bool) (d : Data Float) : Data Float :=
  let d := logEvent d (stageName stage ++ ":" ++ observe base d false)
  let d := d.set .time (bump (d .time))
  let d := d.set .qpos (bump (d .qpos))
  let d := d.set .qvel (bump (d .qvel))
  let d := d.set .act (bump (d .act))
  d.set .warmstart (bump (d .warmstart))

/-- observing stand-in for `inverseSkip`: logs; inverse dynamics leaves qpos, qvel, qacc alone -/
def obsInv (base : Data Float) (stage : Nat) (_skipsensor : Bool) (d : Data Float) : Data Float :=
  logEvent d (stageName stage ++ ":" ++ observe base d true)

/-- hinge / slide chain: `mj_integratePos` adds `h` to coordinate `i` -/
def intPos (l : List Float) (i : Nat) (h : Float) : List Float := nudge l i h

def baseData (nv na : Nat) (ctrl : List Float) (qacc : Bool) : Data Float := Data.mk fun f =>
  match f with
  | .time => [0.5]
  | .qpos => (List.range nv).map fun i => 0.1 * Float.ofNat (i + 1)
  | .qvel => (List.range nv).map fun i => 0.3 - 0.05 * Float.ofNat i
  | .act => (List.range na).map fun i => 0.2 + 0.1 * Float.ofNat i
  | .ctrl => ctrl
  | .warmstart => (List.range nv).map fun i => 0.25 * Float.ofNat (i + 1)
  | .qacc => if qacc then (List.range nv).map fun i => 0.7 - 0.2 * Float.ofNat i else []
  | _ => []

def flag (b : Bool) : String := if b then "1" else "0"

def traceStep : P String := do
  let cen ← bit; let fA ← bit; let fB ← bit; let fC ← bit; let fD ← bit; let wd ← bit
  let eps ← flt
  let nv ← nat; let na ← nat; let nu ← nat
  if nv > 12 || nu > 12 || na > nu || (nu > 0 && nv == 0) || eps.isNaN then failure
  let acts ← rep (do let l ← bit; let lo ← flt; let hi ← flt; let c ← flt; pure (l, lo, hi, c)) nu
  eoi
  if acts.any (fun a => !(a.2.1 < a.2.2.1) || a.2.2.2.isNaN) then failure
  let d0 := baseData nv na (acts.map (·.2.2.2)) false
  let info : List (Bool × Float × Float) := acts.map fun a => (a.1, a.2.1, a.2.2.1)
  let cfg : Cfg Float := {
    eps := eps
    centered := cen
    dyDq := fA
    dyDv := fA
    dyDa := fA
    dyDu := fB
    dsDq := fC
    dsDv := fC
    dsDa := fC
    dsDu := fD
    warmstartDisabled := wd
    ctrlInfo := info }
  let env : Env Float := { step := obsStep d0, integratePos := intPos }
  match stepFD env cfg d0 with
  | none => failure
  | some d =>
    let ok (f : Fld) := flag (sameBits (d f) (d0 f))
    pure (" ".intercalate (decodeLog (d .derived)) ++ " | time=" ++ ok .time ++ " qpos=" ++ ok .qpos ++ " qvel=" ++ ok .qvel ++
      " act=" ++ ok .act ++ " ctrl=" ++ ok .ctrl ++ " warmstart=" ++ (if wd then "-" else ok .warmstart))

def traceInv : P String := do
  let fq ← bit; let fv ← bit; let fa ← bit; let fs ← bit; let fm ← bit
  let eps ← flt
  let nv ← nat
  eoi
  if nv < 1 || nv > 12 || eps.isNaN then failure
  let d0 := baseData nv 0 [0.4] true
  let cfg : InvCfg Float := {
    eps := eps
    dfDq := fq
    dfDv := fv
    dfDa := fa
    dsDq := fs
    dsDv := fs
    dsDa := fs
    dmDq := fm }
  let env : InvEnv Float := { inv := obsInv d0, integratePos := intPos }
  match inverseFD env cfg d0 with
  | none => failure
  | some d =>
    let ok (f : Fld) := flag (sameBits (d f) (d0 f))
    pure (" ".intercalate (decodeLog (d .derived)) ++ " | qpos=" ++ ok .qpos ++ " qvel=" ++ ok .qvel ++ " qacc=" ++ ok .qacc)

def step (line : String) : String :=
  let run (p : P String) (ws : List String) : String :=
    match p.run ws with
    | some (o, _) => o
    | none => "bad-op"
  match words line with
  | "trace_step" :: ws => run traceStep ws
  | "trace_inv" :: ws => run traceInv ws
  | _ => "bad-op"

def main : IO Unit := runStateless step
