import MjProof.Model.Energy
import Drivers.Common
/-
Line protocol of the kinetic-energy model (mirrors the `ke` op of harness/c/c08_energy.c).
Floats are the 16 hex digits of their IEEE bits, ints decimal.

  ke <nv> rownnz*nv rowadr*nv <nM> colind*nM M*nM v*nv
      -> e <hex> | mv <hex>*nv | dense <hex>*(nv*nv)
      -> bad-op   for malformed input, including storage that is not lower-triangular with the diagonal last

Potential energy and spring forces (mirrors the `ep` line printed by the `epline` op of the harness):

  ep <nv> <gravityOn> g0 g1 g2 <nb> {mass x0 x1 x2}*nb <springOn> <nj> {joint}*nj <nt> {tendon}*nt
      joint  = s <dadr> k p0 p1 q qspring | b <dadr> k p0 p1 re r d0 d1 d2 | f <dadr> k p0 p1 re r d0 d1 d2 re' r' d0' d1' d2'
               (re = displacement norm as mj_energyPos computes it, r / d = as mj_springdamper computes them)
      tendon = k p0 p1 length lower upper <nJ> {dof J}*nJ
      -> e0 <hex> | qs <hex>*nv
      -> bad-op   for malformed input, a dof range outside [0, nv), or trailing tokens
-/
open MjProof MjProof.Driver MjProof.Energy

def fl? (s : String) : Option Float := floatOfBits? s
def showFs (l : List Float) : String := " ".intercalate (l.map floatBits)

/-- row `i` from the CSR arrays; `none` if out of range or not (strict-lower columns `< i`, then the diagonal) -/
def mkRow (nv : Nat) (rownnz rowadr colind : Array Nat) (M : Array Float) (i : Fin nv) : Option (SymRow Float nv) := do
  let nnz ← rownnz[i.val]?
  let adr ← rowadr[i.val]?
  if nnz = 0 then none
  let offs ← (List.range (nnz - 1)).mapM (fun k => do
    let c ← colind[adr + k]?
    let x ← M[adr + k]?
    if h : c < nv then
      if c < i.val then some ((⟨c, h⟩ : Fin nv), x) else none
    else none)
  let cd ← colind[adr + nnz - 1]?
  let xd ← M[adr + nnz - 1]?
  if cd ≠ i.val then none
  some ⟨offs, xd⟩

/-! token parser for the `ep` op -/
abbrev P := StateT (List String) Option

def tok : P String := fun
  | [] => none
  | t :: ts => some (t, ts)
def pNat : P Nat := do let t ← tok; if t.length > 9 then failure else liftM (m := Option) t.toNat?
def pFlt : P Float := do let t ← tok; liftM (m := Option) (fl? t)
def pBool : P Bool := do let t ← tok; if t == "1" then pure true else if t == "0" then pure false else failure
def rep {β : Type} (p : P β) : Nat → P (List β)
  | 0 => pure []
  | n + 1 => do let a ← p; let r ← rep p n; pure (a :: r)

def pRadial : P (Disp Float) := do
  let re ← pFlt; let r ← pFlt; let d0 ← pFlt; let d1 ← pFlt; let d2 ← pFlt
  pure (.radial re r d0 d1 d2)

def pJoint (nv : Nat) : P (JointSpring Float) := do
  let kind ← tok
  let dadr ← pNat
  let k ← pFlt; let p0 ← pFlt; let p1 ← pFlt
  if kind == "s" then
    let q ← pFlt; let qs ← pFlt
    if dadr + 1 ≤ nv then pure ⟨k, p0, p1, dadr, [.scalar q qs]⟩ else failure
  else if kind == "b" then
    let d ← pRadial
    if dadr + 3 ≤ nv then pure ⟨k, p0, p1, dadr, [d]⟩ else failure
  else if kind == "f" then
    let d ← pRadial; let d' ← pRadial
    if dadr + 6 ≤ nv then pure ⟨k, p0, p1, dadr, [d, d']⟩ else failure
  else failure

def pTendon (nv : Nat) : P (TendonSpring Float) := do
  let k ← pFlt; let p0 ← pFlt; let p1 ← pFlt
  let len ← pFlt; let lo ← pFlt; let hi ← pFlt
  let nJ ← pNat
  let J ← rep (do let c ← pNat; let x ← pFlt; if c < nv then pure (c, x) else failure) nJ
  pure ⟨k, p0, p1, len, lo, hi, J⟩

def pEp : P (Nat × PotIn Float) := do
  let nv ← pNat
  let gOn ← pBool
  let g0 ← pFlt; let g1 ← pFlt; let g2 ← pFlt
  let nb ← pNat
  let bodies ← rep (do let m ← pFlt; let x0 ← pFlt; let x1 ← pFlt; let x2 ← pFlt; pure (⟨m, x0, x1, x2⟩ : Body Float)) nb
  let sOn ← pBool
  let nj ← pNat
  let joints ← rep (pJoint nv) nj
  let nt ← pNat
  let tendons ← rep (pTendon nv) nt
  let rest ← get
  if rest.isEmpty then pure (nv, ⟨gOn, g0, g1, g2, bodies, sOn, joints, tendons⟩) else failure

def stepEp (ts : List String) : String :=
  match pEp.run ts with
  | none => "bad-op"
  | some ((nv, s), _) =>
    "e0 " ++ floatBits (energyPos s) ++ " | qs" ++ (if nv = 0 then "" else " " ++ showFs (springForce s nv))

def step (line : String) : String :=
  match words line with
  | "ep" :: rest => stepEp rest
  | "ke" :: nvs :: rest =>
    match nvs.toNat? with
    | none => "bad-op"
    | some nv =>
      if rest.length < 2 * nv + 1 then "bad-op" else
      match (rest.take nv).mapM String.toNat?, ((rest.drop nv).take nv).mapM String.toNat?, (rest.drop (2 * nv)).head? with
      | some rownnz, some rowadr, some nMs =>
        match nMs.toNat? with
        | none => "bad-op"
        | some nM =>
          let r2 := rest.drop (2 * nv + 1)
          if r2.length ≠ 2 * nM + nv then "bad-op" else
          match (r2.take nM).mapM String.toNat?, ((r2.drop nM).take nM).mapM fl?, (r2.drop (2 * nM)).mapM fl? with
          | some colind, some M, some v =>
            let va := v.toArray
            if hv : va.size = nv then
              match (List.finRange nv).mapM (mkRow nv rownnz.toArray rowadr.toArray colind.toArray M.toArray) with
              | none => "bad-op"
              | some rl =>
                let ra := rl.toArray
                if hr : ra.size = nv then
                  let rows : Fin nv → SymRow Float nv := fun i => ra[i.val]'(by rw [hr]; exact i.isLt)
                  let vf : Fin nv → Float := fun i => va[i.val]'(by rw [hv]; exact i.isLt)
                  if !(wf rows) then "bad-op" else
                  let e := energyVel rows vf
                  let mv := (List.finRange nv).map (mulSymVec rows vf)
                  let dense := (List.finRange nv).flatMap (fun i => (List.finRange nv).map (fun j => denseEntry rows i j))
                  "e " ++ floatBits e ++ " | mv" ++ (if nv = 0 then "" else " " ++ showFs mv) ++
                    " | dense" ++ (if nv = 0 then "" else " " ++ showFs dense)
                else "bad-op"
            else "bad-op"
          | _, _, _ => "bad-op"
      | _, _, _ => "bad-op"
  | _ => "bad-op"

def main : IO Unit := runStateless step
