import MjProof.Model.Energy
import Drivers.Common
/-
Line protocol of the kinetic-energy model (mirrors the `ke` op of harness/c/c08_energy.c).
Floats are the 16 hex digits of their IEEE bits, ints decimal.

  ke <nv> rownnz*nv rowadr*nv <nM> colind*nM M*nM v*nv
      -> e <hex> | mv <hex>*nv | dense <hex>*(nv*nv)
      -> bad-op   for malformed input, including storage that is not lower-triangular with the diagonal last
-/
open MjProof MjProof.Driver MjProof.Energy

def fl? (s : String) : Option Float := floatOfBits? s
def showFs (l : List Float) : String := " ".intercalate (l.map floatBits)

/-- row `i` from the CSR arrays; `none` if out of range or not (strict-lower columns `< i`, then the diagonal) -/
def mkRow (nv : Nat) (rownnz rowadr colind : Array Nat) (M : Array Float) (i : Fin nv) : Option (SymRow Float nv) := do
  let nnz ← rownnz[i.val]?
  let adr ← rowadr[i.val]?
  if nnz = 0 then none
  let offs ← (List.range (nnz - 1)).mapM (fun k => do
    let c ← colind[adr + k]?
    let x ← M[adr + k]?
    if h : c < nv then
      if c < i.val then some ((⟨c, h⟩ : Fin nv), x) else none
    else none)
  let cd ← colind[adr + nnz - 1]?
  let xd ← M[adr + nnz - 1]?
  if cd ≠ i.val then none
  some ⟨offs, xd⟩

def step (line : String) : String :=
  match words line with
  | "ke" :: nvs :: rest =>
    match nvs.toNat? with
    | none => "bad-op"
    | some nv =>
      if rest.length < 2 * nv + 1 then "bad-op" else
      match (rest.take nv).mapM String.toNat?, ((rest.drop nv).take nv).mapM String.toNat?, (rest.drop (2 * nv)).head? with
      | some rownnz, some rowadr, some nMs =>
        match nMs.toNat? with
        | none => "bad-op"
        | some nM =>
          let r2 := rest.drop (2 * nv + 1)
          if r2.length ≠ 2 * nM + nv then "bad-op" else
          match (r2.take nM).mapM String.toNat?, ((r2.drop nM).take nM).mapM fl?, (r2.drop (2 * nM)).mapM fl? with
          | some colind, some M, some v =>
            let va := v.toArray
            if hv : va.size = nv then
              match (List.finRange nv).mapM (mkRow nv rownnz.toArray rowadr.toArray colind.toArray M.toArray) with
              | none => "bad-op"
              | some rl =>
                let ra := rl.toArray
                if hr : ra.size = nv then
                  let rows : Fin nv → SymRow Float nv := fun i => ra[i.val]'(by rw [hr]; exact i.isLt)
                  let vf : Fin nv → Float := fun i => va[i.val]'(by rw [hv]; exact i.isLt)
                  if !(wf rows) then "bad-op" else
                  let e := energyVel rows vf
                  let mv := (List.finRange nv).map (mulSymVec rows vf)
                  let dense := (List.finRange nv).flatMap (fun i => (List.finRange nv).map (fun j => denseEntry rows i j))
                  "e " ++ floatBits e ++ " | mv" ++ (if nv = 0 then "" else " " ++ showFs mv) ++
                    " | dense" ++ (if nv = 0 then "" else " " ++ showFs dense)
                else "bad-op"
            else "bad-op"
          | _, _, _ => "bad-op"
      | _, _, _ => "bad-op"
  | _ => "bad-op"

def main : IO Unit := runStateless step
