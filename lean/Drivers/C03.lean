import MjProof.Model.ThreadPool
import Drivers.Common
/-
Line protocol (mirrors harness/cc/c03_pool.cc):
  run <hist> | <sched>   <hist>: comma separated API calls pK (mju_threadpool(d,K)) / dN (mju_dispatch(..,N)),
                         leaving no pool alive at the end; <sched>: comma separated thread ids, one step each
                         (a disabled thread gives `t:blocked`); completion round-robin over 0..maxK.
                         -> the event trace of the model
  free <seed> <hist>     -> terminal observation of every API call (pK:<numThread>, dN:<all1|counts>:<ok|bad>:<late>)
  enum <pb> <cap> <hist> -> all complete schedules with at most <pb> preemptions (at most <cap> of them),
                            separated by `;`, preceded by `<count>:<exhaustive 0|1>;`
  orders                 -> the memory-order table the sequentially consistent abstraction relies on
-/
open MjProof MjProof.Driver MjProof.ThreadPool

def maxPool : Nat := 16
def maxTask : Nat := 1000
def maxHist : Nat := 64
def maxSched : Nat := 100000

def parseNat (s : String) (hi : Nat) : Option Nat :=
  let cs := s.toList
  if cs.isEmpty || cs.length > 7 || !(cs.all Char.isDigit) then none
  else
    let v := cs.foldl (fun a c => a * 10 + (c.toNat - '0'.toNat)) 0
    if v ≤ hi then some v else none

def trimS (s : String) : String := s.trimAscii.toString

def parseOp (w : String) : Option Api :=
  match w.toList with
  | 'p' :: r => (parseNat (String.ofList r) maxPool).map Api.threadpool
  | 'd' :: r => (parseNat (String.ofList r) maxTask).map Api.dispatch
  | _ => none

/-- history; accepted only if it leaves no pool alive -/
def parseHist (s : String) : Option (List Api) :=
  let t := trimS s
  if t.isEmpty then some [] else
  match ((t.splitOn ",").map trimS).mapM parseOp with
  | none => none
  | some ops =>
    let alive := ops.foldl (fun a c => match c with | .threadpool k => k | _ => a) 0
    if alive = 0 ∧ ops.length ≤ maxHist then some ops else none

def parseSched (s : String) : Option (List Nat) :=
  let t := trimS s
  if t.isEmpty then some [] else
  match ((t.splitOn ",").map trimS).mapM (parseNat · maxPool) with
  | none => none
  | some l => if l.length ≤ maxSched then some l else none

def maxK (h : List Api) : Nat := h.foldl (fun a c => match c with | .threadpool k => max a k | _ => a) 0

def objName : Obj → String
  | .next => "next" | .ndone => "ndone" | .signal => "signal"

def evTok : Ev → String
  | .call (.threadpool k) => s!"0:call:p:{k}"
  | .call (.dispatch n) => s!"0:call:d:{n}"
  | .ret (.threadpool _) nt => s!"0:ret:p:{nt}"
  | .ret (.dispatch n) _ => s!"0:ret:d:{n}"
  | .spawn i => s!"0:spawn:{i}"
  | .join i => s!"0:join:{i}"
  | .store t o v => s!"{t}:store:{objName o}:{v}"
  | .load t o v => s!"{t}:load:{objName o}:{v}"
  | .fadd t o v => s!"{t}:fadd:{objName o}:{v}"
  | .notify t o k => s!"{t}:notify:{objName o}:{k}"
  | .waitPass t old => s!"{t}:wait:signal:{old}:pass"
  | .waitBlock t old => s!"{t}:wait:signal:{old}:block"
  | .exec t a k => s!"{t}:exec:{a}:{k}"

structure Sim where
  s : State
  hist : List Api

def Sim.done (x : Sim) : Bool := x.s.mpc = .idle && x.hist.isEmpty

/-- one granted step of thread `t` -/
def Sim.stepT (x : Sim) (t : Nat) : Option (Sim × List Ev) :=
  if t = 0 then
    if x.s.mpc = .idle then
      match x.hist with
      | [] => none
      | c :: r => (step x.s (.call c)).map fun (s', e) => (⟨s', r⟩, e)
    else (step x.s .main).map fun (s', e) => (⟨s', x.hist⟩, e)
  else (step x.s (.worker t)).map fun (s', e) => (⟨s', x.hist⟩, e)

/-- explicit part of a schedule -/
def runSched : Sim → List Nat → Array String → Sim × Array String
  | x, [], out => (x, out)
  | x, t :: r, out =>
    if x.done then (x, out) else
    match x.stepT t with
    | none => runSched x r (out.push s!"{t}:blocked")
    | some (x', e) => runSched x' r (e.foldl (fun o ev => o.push (evTok ev)) out)

/-- one round-robin pass over 0..mk; returns whether some thread moved -/
def rrPass (mk : Nat) : Nat → Sim → Array String → Bool → Sim × Array String × Bool
  | 0, x, out, any => (x, out, any)
  | k + 1, x, out, any =>
    let t := mk - k
    if x.done then (x, out, any) else
    match x.stepT t with
    | none => rrPass mk k x out any
    | some (x', e) => rrPass mk k x' (e.foldl (fun o ev => o.push (evTok ev)) out) true

def complete (mk : Nat) : Nat → Sim → Array String → Array String
  | 0, _, out => out.push "LIVELOCK"
  | f + 1, x, out =>
    if x.done then out else
    let (x', out', any) := rrPass mk (mk + 1) x out false
    if !any && !x'.done then out'.push "DEADLOCK" else complete mk f x' out'

def doRun (rest : String) : String :=
  match rest.splitOn "|" with
  | [h, sc] =>
    match parseHist h, parseSched sc with
    | some hist, some sched =>
      let (x, out) := runSched ⟨init, hist⟩ sched #[]
      let out := complete (maxK hist) 200000 x out
      " ".intercalate out.toList
    | _, _ => "bad-op"
  | _ => "bad-op"

/-- observation of the free-running harness: derived from the model's ghost execution counts at every return -/
def freeTok (s : State) : Ev → Option String
  | .ret (.threadpool k) nt => some s!"p{k}:{nt}"
  | .ret (.dispatch n) _ =>
    let cnt := (List.range n).map s.execCnt
    let tids := (List.range n).all fun t => decide (s.execBy t < numThread s)
    let body := if cnt.all (· == 1) then "all1" else ",".intercalate (cnt.map toString) ++ "+stray0"
    some s!"d{n}:{body}:{if tids then "ok" else "bad"}:0"
  | _ => none

def freeLoop (mk : Nat) : Nat → Sim → Array String → Array String
  | 0, _, out => out.push "LIVELOCK"
  | f + 1, x, out =>
    if x.done then out else
    -- round robin, one thread at a time
    let rec pass : Nat → Sim → Array String → Bool → Sim × Array String × Bool
      | 0, x, out, any => (x, out, any)
      | k + 1, x, out, any =>
        if x.done then (x, out, any) else
        match x.stepT (mk - k) with
        | none => pass k x out any
        | some (x', e) => pass k x' (e.foldl (fun o ev => match freeTok x'.s ev with | some t => o.push t | none => o) out) true
    let (x', out', any) := pass (mk + 1) x out false
    if !any && !x'.done then out'.push "DEADLOCK" else freeLoop mk f x' out'

def doFree (rest : String) : String :=
  match words rest with
  | seed :: hs =>
    match parseNat seed 9999999, parseHist (" ".intercalate hs) with
    | some _, some hist => " ".intercalate (freeLoop (maxK hist) 200000 ⟨init, hist⟩ #[]).toList
    | _, _ => "bad-op"
  | _ => "bad-op"

/-- enabled and not a pure stutter (the dispatcher's failing poll leaves the state unchanged) -/
def Sim.useful (x : Sim) (t : Nat) : Bool :=
  (x.stepT t).isSome && !(t = 0 && x.s.mpc = .dSpin && decide (x.s.ndone < x.s.N))

/-- depth-first enumeration of all complete schedules with at most `pb` preemptions: the running thread
    continues while it is enabled; switching away from an enabled thread costs one preemption, switching
    away from a blocked / spinning / finished one is free (every other enabled thread is tried). -/
partial def enumGo (mk cap : Nat) (x : Sim) (cur : Option Nat) (pb : Nat) (pre : List Nat)
    (acc : Array String) : Array String :=
  if acc.size ≥ cap then acc else
  let en := (List.range (mk + 1)).filter x.useful
  if x.done || en.isEmpty then acc.push (",".intercalate (pre.reverse.map toString)) else
  let go (acc : Array String) (t : Nat) (pb : Nat) : Array String :=
    match x.stepT t with
    | some (x', _) => enumGo mk cap x' (some t) pb (t :: pre) acc
    | none => acc
  match cur with
  | some c =>
    if en.contains c then
      let acc := go acc c pb
      if pb = 0 then acc else (en.filter (· ≠ c)).foldl (fun a t => go a t (pb - 1)) acc
    else en.foldl (fun a t => go a t pb) acc
  | none => en.foldl (fun a t => go a t pb) acc

def doEnum (rest : String) : String :=
  match words rest with
  | pb :: cap :: hs =>
    match parseNat pb 100, parseNat cap 9999999, parseHist (" ".intercalate hs) with
    | some pb, some cap, some hist =>
      let r := enumGo (maxK hist) cap ⟨init, hist⟩ none pb [] #[]
      s!"{r.size}:{if r.size < cap then 1 else 0};" ++ ";".intercalate r.toList
    | _, _, _ => "bad-op"
  | _ => "bad-op"

def orderName : Order → String
  | .relaxed => "relaxed" | .consume => "consume" | .acquire => "acquire"
  | .release => "release" | .acq_rel => "acq_rel" | .seq_cst => "seq_cst"

def roleName : Role → String
  | .publish => "publish" | .consume => "consume" | .plain => "plain"

def doOrders : String :=
  ";".intercalate (sites.map fun x => s!"{x.fn},{x.obj},{x.op},{orderName x.order},{roleName x.role}")

def stepLine (line : String) : String :=
  let t := trimS line
  if t.startsWith "run " then doRun (t.drop 4).toString
  else if t.startsWith "free " then doFree (t.drop 5).toString
  else if t.startsWith "enum " then doEnum (t.drop 5).toString
  else if t = "orders" then doOrders
  else "bad-op"

def main : IO Unit := runStateless stepLine
