import MjProof.Model.Orient
import MjProof.Model.Attach
import Drivers.Common
/-
Line protocol of the C36 orientation / frame model (doubles are the 16 hex digits of their IEEE bits):
  orient <type> <degree> <c0> <c1> <c2> q[4] axisangle[4] xyaxes[6] zaxis[3] euler[3]
         type = mjtOrientation code (0 quat, 1 axisangle, 2 xyaxes, 3 zaxis, 4 euler), degree 0/1, c0 c1 c2 = ASCII codes of
         the Euler sequence                          -> quat[4] | `error <message>`            (ResolveOrientation)
  frame fp[3] fq[4] bp[3] bq[4]                      -> pos[3] quat[4]: a body (pos bp, quat bq) in a frame (fp, fq)
  frame2 f1p[3] f1q[4] f2p[3] f2q[4] bp[3] bq[4]     -> the same with the frame nested in an outer frame
  att <pk> <ck> <outer> <inner> <hdeg> <h0> <h1> <h2> <cdeg> <c0> <c1> <c2> <mdeg> <m0> <m1> <m2> O P G I B
         mjs_attach of an element of a child spec (compiler degree cdeg, eulerseq c0 c1 c2) to an element of a host spec
         (hdeg, h0 h1 h2), then compilation: pk = attachment point (0 frame, 1 body, 2 site, 3 a site that was written in a
         third spec (mdeg, m0 m1 m2) whose body has been attached to the host before), ck = attached element
         (0 body, 1 frame, 2 the whole child model); outer = 1: the attachment frame / site lives in the frame O;
         inner = 1: the observed body lives in a frame I nested in the attached frame / in the child's world.
         O P G I B are records `<type> pos[3] quat[4] axisangle[4] xyaxes[6] zaxis[3] euler[3]` of the outer frame, the
         attachment point, the attached frame, the inner frame and the observed body (all five always present)
                                                     -> pos[3] quat[4] of the observed body | `error attach` | `error compile`
Malformed lines are answered with `bad-op`.
-/
open MjProof MjProof.Driver MjProof.Orient MjProof.Attach

def pi : Float := Orient.mjPI

def showQ (q : Q Float) : String := floatBits q.w ++ " " ++ floatBits q.x ++ " " ++ floatBits q.y ++ " " ++ floatBits q.z
def showV (v : V3 Float) : String := floatBits v.x ++ " " ++ floatBits v.y ++ " " ++ floatBits v.z

/-- `mjCFrame::Compile` for a frame with an explicit quaternion: accumulate the parent frame, then `mjuu_normvec(quat, 4)` -/
def compileFrame (parent : Option (V3 Float × Q Float)) (p : V3 Float) (q : Q Float) : V3 Float × Q Float :=
  match parent with
  | none => (p, (normvec4 q).1)
  | some (pp, pq) =>
    let r := frameaccumChild pp pq p q
    (r.1, (normvec4 r.2).1)

/-- the frame step of `mjCBody::Compile`: `mjuu_normvec(quat, 4)` on the body's own quaternion, then the frame -/
def bodyInFrame (f : V3 Float × Q Float) (p : V3 Float) (q : Q Float) : V3 Float × Q Float :=
  frameaccumChild f.1 f.2 p (normvec4 q).1

/-- one record `<type> pos[3] quat[4] axisangle[4] xyaxes[6] zaxis[3] euler[3]` (24 tokens) -/
def parseRec (c : Comp) (t : List String) : Option (Placed Float) :=
  match t with
  | ty :: fl =>
    match ty.toNat?, fl.mapM floatOfBits? with
    | some ty, some [p0, p1, p2, q0, q1, q2, q3, a0, a1, a2, a3, x0, x1, x2, y0, y1, y2, z0, z1, z2, e0, e1, e2] =>
      if ty > 4 then none else
      let spec : OrientSpec Float :=
        if ty = 0 then .quat
        else if ty = 1 then .axisangle ⟨a0, a1, a2⟩ a3
        else if ty = 2 then .xyaxes ⟨x0, x1, x2⟩ ⟨y0, y1, y2⟩
        else if ty = 3 then .zaxis ⟨z0, z1, z2⟩
        else .euler e0 e1 e2
      some ⟨c, ⟨p0, p1, p2⟩, ⟨q0, q1, q2, q3⟩, spec⟩
    | _, _ => none
  | [] => none

/-- consecutive records, one per compiler in `cs`; every token must be consumed -/
def parseRecs : List Comp → List String → Option (List (Placed Float))
  | [], [] => some []
  | [], _ :: _ => none
  | c :: cs, t =>
    if t.length < 24 then none else
    match parseRec c (t.take 24), parseRecs cs (t.drop 24) with
    | some r, some rs => some (r :: rs)
    | _, _ => none

def step (line : String) : String :=
  match words line with
  | "orient" :: ty :: dg :: c0 :: c1 :: c2 :: rest =>
    match ty.toNat?, dg.toNat?, c0.toNat?, c1.toNat?, c2.toNat?, rest.mapM floatOfBits? with
    | some ty, some dg, some c0, some c1, some c2,
      some [q0, q1, q2, q3, a0, a1, a2, a3, x0, x1, x2, y0, y1, y2, z0, z1, z2, e0, e1, e2] =>
      if ty > 4 ∨ dg > 1 ∨ c0 < 1 ∨ c0 > 126 ∨ c1 < 1 ∨ c1 > 126 ∨ c2 < 1 ∨ c2 > 126 then "bad-op" else
      let spec : OrientSpec Float :=
        if ty = 0 then .quat
        else if ty = 1 then .axisangle ⟨a0, a1, a2⟩ a3
        else if ty = 2 then .xyaxes ⟨x0, x1, x2⟩ ⟨y0, y1, y2⟩
        else if ty = 3 then .zaxis ⟨z0, z1, z2⟩
        else .euler e0 e1 e2
      match resolveOrientation pi ⟨q0, q1, q2, q3⟩ (dg = 1) (c0, c1, c2) spec with
      | .ok q => showQ q
      | .error e => "error " ++ e
    | _, _, _, _, _, _ => "bad-op"
  | "frame" :: rest =>
    match rest.mapM floatOfBits? with
    | some [fp0, fp1, fp2, fq0, fq1, fq2, fq3, bp0, bp1, bp2, bq0, bq1, bq2, bq3] =>
      let f := compileFrame none ⟨fp0, fp1, fp2⟩ ⟨fq0, fq1, fq2, fq3⟩
      let r := bodyInFrame f ⟨bp0, bp1, bp2⟩ ⟨bq0, bq1, bq2, bq3⟩
      showV r.1 ++ " " ++ showQ r.2
    | _ => "bad-op"
  | "frame2" :: rest =>
    match rest.mapM floatOfBits? with
    | some [gp0, gp1, gp2, gq0, gq1, gq2, gq3, fp0, fp1, fp2, fq0, fq1, fq2, fq3, bp0, bp1, bp2, bq0, bq1, bq2, bq3] =>
      let g := compileFrame none ⟨gp0, gp1, gp2⟩ ⟨gq0, gq1, gq2, gq3⟩
      let f := compileFrame (some g) ⟨fp0, fp1, fp2⟩ ⟨fq0, fq1, fq2, fq3⟩
      let r := bodyInFrame f ⟨bp0, bp1, bp2⟩ ⟨bq0, bq1, bq2, bq3⟩
      showV r.1 ++ " " ++ showQ r.2
    | _ => "bad-op"
  | "att" :: pk :: ck :: outer :: inner :: hd :: h0 :: h1 :: h2 :: cd :: c0 :: c1 :: c2 :: md :: m0 :: m1 :: m2 :: rest =>
    match [pk, ck, outer, inner, hd, h0, h1, h2, cd, c0, c1, c2, md, m0, m1, m2].mapM String.toNat? with
    | some [pk, ck, outer, inner, hd, h0, h1, h2, cd, c0, c1, c2, md, m0, m1, m2] =>
      if pk > 3 ∨ ck > 2 ∨ outer > 1 ∨ inner > 1 ∨ hd > 1 ∨ cd > 1 ∨ md > 1 ∨
         [h0, h1, h2, c0, c1, c2, m0, m1, m2].any (fun c => c < 1 ∨ c > 126)
      then "bad-op" else
      let host : Comp := ⟨hd = 1, (h0, h1, h2)⟩
      let child : Comp := ⟨cd = 1, (c0, c1, c2)⟩
      let mid : Comp := ⟨md = 1, (m0, m1, m2)⟩
      -- the site of an attached spec keeps the compiler of the spec it was written in; `mjs_getSpec` returns the host
      let pc := if pk = 3 then mid else host
      match parseRecs [pc, pc, child, child, child] rest with
      | some [o, p, g, i, b] =>
        let outerL := if outer = 1 then [o] else []
        let innerL := if inner = 1 then [i] else []
        let point : Point Float := if pk = 0 then .frame outerL p else if pk = 1 then .body else .site outerL p host
        let ch : Child Float := if ck = 0 then .body b else if ck = 1 then .frame g innerL b else .model child innerL b
        match attachChain pi host point ch with
        | .error _ => "error attach"
        | .ok _ =>
          match attachPose pi host point ch with
          | .ok r => showV r.1 ++ " " ++ showQ r.2
          | .error _ => "error compile"
      | _ => "bad-op"
    | _ => "bad-op"
  | _ => "bad-op"

def main : IO Unit := runStateless step
