import MjProof.Model.XmlSchema
import MjProof.Gen.MjcfTable
import Drivers.Common
/-
Line protocol of the C37 model driver.  The grammar is `buildTable Gen.MjcfTable.rows Gen.MjcfTable.cons`
(the model of the mjXSchema constructor applied to the rows translated from mjcf_table.inc).

  table                          -> "table <nrow> <ncon> <fresh> built=<0|1>"
  print                          -> the text of mjXSchema::Print (mj_printSchema), newlines written as "\n"
  check <0|1> <doc> [# <hex>]    -> "ok" | "err <line> <elem> <msg>"       (0: the code as it stands, 1: aliasRec)
                                    (tokens from "#" on are ignored: the implementation side reads the XML text there)
  doc := "(" tag line nattr attr*  doc*  ")"      (attribute names only: values play no role in Check)
-/
open MjProof MjProof.Driver MjProof.XmlSchema

/-- parse one element starting after its "(": returns the element and the remaining tokens -/
def parseElem : (fuel : Nat) → List String → Option (Xml × List String)
  | 0, _ => none
  | fuel + 1, toks =>
    match toks with
    | tag :: line :: n :: rest =>
      match line.toNat?, n.toNat? with
      | some line, some n =>
        if rest.length < n then none else
        let attrs := (rest.take n).map fun a => (a, "")
        let rec kidsLoop : (f : Nat) → List String → List Xml → Option (List Xml × List String)
          | 0, _, _ => none
          | f + 1, ts, acc =>
            match ts with
            | ")" :: ts' => some (acc.reverse, ts')
            | "(" :: ts' =>
              match parseElem fuel ts' with
              | some (k, ts'') => kidsLoop f ts'' (k :: acc)
              | none => none
            | _ => none
        match kidsLoop (rest.length + 1) (rest.drop n) [] with
        | some (kids, rest') => some (.mk tag line attrs kids, rest')
        | none => none
      | _, _ => none
    | _ => none

def parseDoc (toks : List String) : Option Xml :=
  match toks with
  | "(" :: ts =>
    match parseElem (ts.length + 1) ts with
    | some (x, []) => some x
    | _ => none
  | _ => none

def schema? : Option Node := buildTable Gen.MjcfTable.rows Gen.MjcfTable.cons

def escape (s : String) : String := s.replace "\n" "\\n"

def step (line : String) : String :=
  match words line with
  | ["table"] =>
    s!"table {Gen.MjcfTable.nrow} {Gen.MjcfTable.ncon} {Gen.MjcfTable.fresh} built={if schema?.isSome then 1 else 0}"
  | ["print"] =>
    match schema? with
    | some s => escape (printNode 0 s)
    | none => "unbuildable"
  | "check" :: mode :: doc0 =>
    -- everything from a "#" token on is for the implementation side (hex of the XML text)
    let doc := doc0.takeWhile (· != "#")
    match schema?, parseDoc doc with
    | some s, some x =>
      if mode != "0" && mode != "1" then "bad-op" else
      match check (mode == "1") s 0 x with
      | .ok _ => "ok"
      | .error e => s!"err {e.line} {e.elem} {escape e.msg}"
    | none, _ => "unbuildable"
    | _, none => "bad-op"
  | _ => "bad-op"

def main : IO Unit := runStateless step
