/- Shared line-protocol helpers for the model drivers (core Lean only). -/
namespace MjProof.Driver

def words (s : String) : List String :=
  (s.splitOn " ").filter (fun w => w ≠ "") |>.map (fun w => w.trimAscii.toString) |>.filter (· ≠ "")

def joinInts (l : List Int) : String := " ".intercalate (l.map toString)
def joinNats (l : List Nat) : String := " ".intercalate (l.map toString)

partial def loop {σ : Type} (step : σ → String → σ × String) (h : IO.FS.Stream) (out : IO.FS.Stream) (s : σ) : IO Unit := do
  let line ← h.getLine
  if line.isEmpty then
    out.flush
    return ()
  let (s', o) := step s line
  out.putStrLn o
  loop step h out s'

def runStateless (f : String → String) : IO Unit := do
  let stdin ← IO.getStdin
  let stdout ← IO.getStdout
  loop (fun (_ : Unit) l => ((), f l)) stdin stdout ()

def runStateful {σ : Type} (init : σ) (step : σ → String → σ × String) : IO Unit := do
  let stdin ← IO.getStdin
  let stdout ← IO.getStdout
  loop step stdin stdout init

end MjProof.Driver
