import MjProof.Model.Constraint
import Drivers.Common
/-
Line protocol of the C11/C12 constraint-update model (mirrors harness/c/c11_constraint.c).
Floats are the 16 hex digits of their IEEE bits (`nan` for NaN), ints decimal.

  upd <ne> <nf> <flgH> <nefc> <ncon>  {D R floss jar type id}*nefc  {dim mu f0 f1 f2 f3 f4}*ncon
        -> c <cost> | f <force>*nefc | s <state>*nefc | h {<dim*dim hex>|-}*ncon (`;`-separated)
        -> oob    when the C code would index outside its arrays (both sides refuse to run it)
  jtv <nr> <nc> <mat>*(nr*nc) <vec>*nr           -> res*nc            (mju_mulMatTVec)
  dec <dim> <pyr>*(dim=1 ? 1 : 2(dim-1)) <mu>*5  -> force*dim         (mju_decodePyramid)
  enc <dim> <force>*dim <mu>*5   (dim>=2)        -> pyramid*2(dim-1)  (mju_encodePyramid)
  pc <elliptic 0|1> <dim> <force>*dim <mu>*5     -> force*dim         (static projectCone)
  imp <nefnf> <impratio> <nefc> <ncon> {diagA imp type id}*nefc {dim f0 f1 f2 f3 f4}*ncon
        -> R <efc_R>*nefc | D <efc_D>*nefc | m {<contact.mu>|-}*ncon       (mj_makeImpedance)
        -> oob    when the C code would index outside its arrays / not terminate
        (rows before nefnf must not be frictional-contact rows, types must be mjtConstraint values 0..7: bad-op)
-/
open MjProof MjProof.Driver MjProof.Constraint

def fl? (s : String) : Option Float := floatOfBits? s
def fls? (l : List String) : Option (List Float) := l.mapM fl?
def showFs (l : List Float) : String := " ".intercalate (l.map floatBits)

def chunks {β : Type} (k : Nat) : (fuel : Nat) → List β → List (List β)
  | 0, _ => []
  | fuel + 1, l => if l.isEmpty ∨ k = 0 then [] else l.take k :: chunks k fuel (l.drop k)

def parseRow : List String → Option (Row Float)
  | [d, r, fl, j, t, i] =>
    match fl? d, fl? r, fl? fl, fl? j, t.toNat?, i.toNat? with
    | some d, some r, some fl, some j, some t, some i => some ⟨d, r, fl, j, t, i⟩
    | _, _, _, _, _, _ => none
  | _ => none

def parseCon : List String → Option (Contact Float)
  | dim :: mu :: fr =>
    match dim.toNat?, fl? mu, fls? fr with
    | some dim, some mu, some fr => if fr.length = 5 then some ⟨dim, mu, fr⟩ else none
    | _, _, _ => none
  | _ => none

def parseIRow : List String → Option (IRow Float)
  | [a, i, t, k] =>
    match fl? a, fl? i, t.toNat?, k.toNat? with
    | some a, some i, some t, some k => some ⟨a, i, t, k⟩
    | _, _, _, _ => none
  | _ => none

/-- `dim f0..f4` (contact.mu is an output of mj_makeImpedance: the model's `Contact.mu` field is unused) -/
def parseICon : List String → Option (Contact Float)
  | dim :: fr =>
    match dim.toNat?, fls? fr with
    | some dim, some fr => if fr.length = 5 then some ⟨dim, 0.0, fr⟩ else none
    | _, _ => none
  | _ => none

def showImp (o : ImpOut Float) : String :=
  "R " ++ showFs o.R ++ " | D " ++ showFs o.D ++ " | m" ++
    String.join (o.mu.map (fun m => match m with | some m => " " ++ floatBits m | none => " -"))

def showOut (o : Out Float) : String :=
  "c " ++ floatBits o.cost ++ " | f " ++ showFs o.force ++ " | s " ++ joinNats o.state ++ " | h " ++
    " ; ".intercalate (o.hess.map (fun h => match h with | some h => showFs h | none => "-"))

def bool? (s : String) : Option Bool := if s == "0" then some false else if s == "1" then some true else none

def step (line : String) : String :=
  match words line with
  | "upd" :: ne :: nf :: flg :: nefc :: ncon :: rest =>
    match ne.toNat?, nf.toNat?, bool? flg, nefc.toNat?, ncon.toNat? with
    | some ne, some nf, some flg, some nefc, some ncon =>
      if rest.length ≠ 6 * nefc + 7 * ncon ∨ nefc < ne + nf then "bad-op" else
      match (chunks 6 nefc (rest.take (6 * nefc))).mapM parseRow,
            (chunks 7 ncon (rest.drop (6 * nefc))).mapM parseCon with
      | some rows, some cons =>
        if rows.length ≠ nefc ∨ cons.length ≠ ncon then "bad-op" else
        match update ne nf flg rows cons with
        | some o => showOut o
        | none => "oob"
      | _, _ => "bad-op"
    | _, _, _, _, _ => "bad-op"
  | "imp" :: nefnf :: ir :: nefc :: ncon :: rest =>
    match nefnf.toNat?, fl? ir, nefc.toNat?, ncon.toNat? with
    | some nefnf, some ir, some nefc, some ncon =>
      if rest.length ≠ 4 * nefc + 6 * ncon ∨ nefc < nefnf then "bad-op" else
      match (chunks 4 nefc (rest.take (4 * nefc))).mapM parseIRow,
            (chunks 6 ncon (rest.drop (4 * nefc))).mapM parseICon with
      | some rows, some cons =>
        if rows.length ≠ nefc ∨ cons.length ≠ ncon then "bad-op" else
        if (rows.take nefnf).any (fun r => r.type == cnstrPyramidal || r.type == cnstrElliptic) then "bad-op" else
        if rows.any (fun r => decide (7 < r.type)) then "bad-op" else
        match makeImpedance nefnf ir rows cons with
        | some o => showImp o
        | none => "oob"
      | _, _ => "bad-op"
    | _, _, _, _ => "bad-op"
  | "jtv" :: nr :: nc :: rest =>
    match nr.toNat?, nc.toNat?, fls? rest with
    | some nr, some nc, some xs =>
      if xs.length ≠ nr * nc + nr ∨ nc = 0 then "bad-op" else
      let mat := chunks nc nr (xs.take (nr * nc))
      if mat.length ≠ nr then "bad-op" else
      showFs (mulMatTVec nc mat (xs.drop (nr * nc)))
    | _, _, _ => "bad-op"
  | "dec" :: dim :: rest =>
    match dim.toNat?, fls? rest with
    | some dim, some xs =>
      let np := if dim = 1 then 1 else 2 * (dim - 1)
      if dim = 0 ∨ 6 < dim ∨ xs.length ≠ np + 5 then "bad-op" else
      match decodePyramid (xs.take np) (xs.drop np) dim with
      | some f => showFs f
      | none => "bad-op"
    | _, _ => "bad-op"
  | "enc" :: dim :: rest =>
    match dim.toNat?, fls? rest with
    | some dim, some xs =>
      if dim < 2 ∨ 6 < dim ∨ xs.length ≠ dim + 5 then "bad-op" else
      match encodePyramid (xs.take dim) (xs.drop dim) dim with
      | some f => showFs f
      | none => "bad-op"
    | _, _ => "bad-op"
  | "pc" :: ell :: dim :: rest =>
    match bool? ell, dim.toNat?, fls? rest with
    | some ell, some dim, some xs =>
      if dim = 0 ∨ 6 < dim ∨ xs.length ≠ dim + 5 then "bad-op" else
      showFs (projectCone (xs.take dim) (xs.drop dim) ell)
    | _, _, _ => "bad-op"
  | _ => "bad-op"

def main : IO Unit := runStateless step
