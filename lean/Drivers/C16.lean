import MjProof.Model.Ray
import Drivers.Common
/-
Line protocol of the C16 hand model (doubles are the 16 hex digits of their IEEE bits, `nan` for NaN):
  elim <bodyid> <matid> <galpha0> <malpha0> <weld0> <group> <flg_static> <bodyexclude> <mask>
        mask = `-` (geomgroup == NULL) or 6 characters 0/1      -> `0` | `1`          (ray_eliminate)
  sel <flg_static> <bodyexclude> <mask> ; <bodyid> <matid> <galpha0> <malpha0> <weld0> <group> <dist> ; ...
                                                                -> `<dist> <geomid>`  (mj_ray)
  multi ; <v0> <v1> <v2> , <elim> <culled> <dist> , ... ; ...   -> `<dist> <geomid|_>` per ray  (mj_multiRay)
Malformed lines are answered with `bad-op`.
-/
open MjProof MjProof.Driver MjProof.Ray

def bool01? (s : String) : Option Bool :=
  if s == "0" then some false else if s == "1" then some true else none

def mask? (s : String) : Option (Option (Vector Bool nGroup)) :=
  if s == "-" then some none else
  match s.toList.mapM (fun c => if c == '0' then some false else if c == '1' then some true else none) with
  | some l => if h : l.toArray.size = nGroup then some (some ⟨l.toArray, h⟩) else none
  | none => none

def int? (s : String) : Option Int :=
  -- plain decimal with optional leading '-' (what strtol accepts in full and Python emits)
  match s.toList with
  | '+' :: _ => none
  | _ => s.toInt?

def attr? (ws : List String) : Option (GeomAttr × List String) :=
  match ws with
  | b :: m :: ga :: ma :: w :: g :: rest =>
    match int? b, int? m, bool01? ga, bool01? ma, bool01? w, int? g with
    | some b, some m, some ga, some ma, some w, some g =>
      if 0 ≤ b ∧ b ≤ 64 ∧ -1 ≤ m ∧ m ≤ 3 then
        some ({ bodyid := b, matid := m, geomAlpha0 := ga, matAlpha0 := ma, weld0 := w, group := g }, rest)
      else none
    | _, _, _, _, _, _ => none
  | _ => none

def splitOnTok (sep : String) (ws : List String) : List (List String) :=
  let rec go (ws : List String) (cur : List String) (acc : List (List String)) : List (List String) :=
    match ws with
    | [] => (cur.reverse :: acc).reverse
    | w :: ws => if w == sep then go ws [] (cur.reverse :: acc) else go ws (w :: cur) acc
  go ws [] []

def showRes (r : Float × Int) : String := floatBits r.1 ++ " " ++ toString r.2

def selGeom? (ws : List String) : Option (GeomAttr × Float) :=
  match attr? ws with
  | some (a, [d]) => (floatOfBits? d).map (fun d => (a, d))
  | _ => none

def multiGeom? (ws : List String) : Option (MultiGeom Float) :=
  match ws with
  | [e, c, d] =>
    match bool01? e, bool01? c, floatOfBits? d with
    | some e, some c, some d => some { elim := e, culled := c, dist := d }
    | _, _, _ => none
  | _ => none

def multiRayIn? (ws : List String) : Option (MultiRayIn Float) :=
  match splitOnTok "," ws with
  | [v0, v1, v2] :: gs =>
    match floatOfBits? v0, floatOfBits? v1, floatOfBits? v2, gs.mapM multiGeom? with
    | some v0, some v1, some v2, some gs => some { short := shortVec v0 v1 v2, geoms := gs }
    | _, _, _, _ => none
  | _ => none

def step (line : String) : String :=
  match words line with
  | "elim" :: ws =>
    match attr? ws with
    | some (a, [flg, bx, mask]) =>
      match bool01? flg, int? bx, mask? mask with
      | some flg, some bx, some mask => if rayEliminate a mask flg bx then "1" else "0"
      | _, _, _ => "bad-op"
    | _ => "bad-op"
  | "sel" :: ws =>
    match splitOnTok ";" ws with
    | [flg, bx, mask] :: gs =>
      match bool01? flg, int? bx, mask? mask, gs.mapM selGeom? with
      | some flg, some bx, some mask, some gs => showRes (mjRayFiltered gs mask flg bx)
      | _, _, _, _ => "bad-op"
    | _ => "bad-op"
  | "multi" :: ws =>
    match splitOnTok ";" ws with
    | [] :: rays =>
      match rays.mapM multiRayIn? with
      | some rays =>
        " ".intercalate ((multiRay rays).map fun r =>
          floatBits r.1 ++ " " ++ (match r.2 with | some g => toString g | none => "_"))
      | none => "bad-op"
    | _ => "bad-op"
  | _ => "bad-op"

def main : IO Unit := runStateless step
