import MjProof.Model.State
import MjProof.Gen.StateTable
import Drivers.Common
/-
Line protocol (stateful; mirrors the primitive ops of harness/c/c26_state.c).  Values are integers
(the harness fills mjData with integer-valued doubles); the table is the generated `Gen.stateTable`.
  model <id> name=value ... ; <spec tokens (ignored here)>   -> ok       (sizes of the compiled model)
  fill <k> <base> <field> ...          -> ok
  dump <k> <field> ...                 -> name:v v v|name:...
  size <sig>                           -> <n> | error:<kind>
  get <k> <sig>                        -> vec v v ... | error:<kind>
  set <k> <sig> v v ...                -> ok | error:<kind>
  extract <srcsig> <dstsig> v v ...    -> vec ... | error:<kind>
  copy <ksrc> <kdst> <sig>             -> ok | error:<kind>
  tableid                              -> fingerprint of the generated table compiled into this driver
Keyframes (the generated `Gen.keyTable`; the model's key_* arrays are unknown — compiled by the real
model compiler — until written by `keyfill`, ops on an unknown array are rejected):
  keyfill <base> <array> ...           -> ok          (direct write of whole key_* arrays)
  keyput <idx> <array> v v ...         -> ok          (direct write of one keyframe's row)
  keydump <array> ...                  -> name:v v v|name:...
  setkey <k> <idx>                     -> ok | error:keyRange | error:keyNeg        (mj_setKeyframe)
  loadkey <k> <idx> <base> <field> ... ; <field> ...
        mj_resetDataKeyframe(m, D[k], idx); prints `reset` when the index is outside [0,nkey) (the
        implementation side: when D[k] is indistinguishable from a fresh mjData), else the listed
        fields (which must be exactly the loaded ones) + `;rest=1` (everything else as after a reset);
        then D[k] is re-filled like `fill <k> <base> <second list>` (must cover every field), because
        the values `_resetData` leaves are not part of this model.
-/
open MjProof MjProof.Driver MjProof.State MjProof.Gen

abbrev D := Data StateField Int

structure St where
  sz : Option (StateSize → Nat)
  ds : Array D
  ks : KeyArray → Option (List Int) := fun _ => none

def nslot : Nat := 4

/-- `mjtNum → mjtBool → mjtNum` -/
def castB (x : Int) : Int := if x = 0 then 0 else 1

def errStr : Err → String
  | .sigNeg => "error:sigNeg"
  | .sigRange => "error:sigRange"
  | .badElem i => s!"error:badElem:{i}"
  | .notSubset => "error:notSubset"
  | .oob => "error:oob"

def fieldOf (n : String) : Option StateField := StateField.all.find? (fun f => f.name == n)
def arrayOf (n : String) : Option KeyArray := KeyArray.all.find? (fun f => f.name == n)

def kerrStr : KErr → String
  | .keyRange => "error:keyRange"
  | .keyNeg => "error:keyNeg"
  | .oob => "error:oob"

/-- entries of one keyframe in a `key_*` array: the count of the copy statement that moves it -/
def rowSize (sz : StateSize → Nat) (a : KeyArray) : Option Nat :=
  ((keyTable.load ++ keyTable.store).find? (fun r => r.key == a)).map (fun r => r.size sz)

/-- all arrays that the keyframe copies touch are known -/
def knownKeys (ks : KeyArray → Option (List Int)) : Option (KeyData KeyArray Int) :=
  if (keyTable.load ++ keyTable.store).all (fun r => (ks r.key).isSome) then
    some fun a => match ks a with | some v => v | none => []   -- `none` only for arrays no copy touches
  else none

def sameSet (a b : List StateField) : Bool := a.all (b.contains ·) && b.all (a.contains ·)

def slot? (s : String) : Option Nat :=
  match s.toNat? with
  | some k => if k < nslot then some k else none
  | none => none

/-- a C `int` -/
def sig? (s : String) : Option Int :=
  match s.toInt? with
  | some v => if -2147483648 ≤ v ∧ v ≤ 2147483647 then some v else none
  | none => none

def vecStr (v : List Int) : String := if v.isEmpty then "vec" else "vec " ++ joinInts v

def fillVals (sz : StateSize → Nat) (base : Int) (p : Nat) (f : StateField) : List Int :=
  (List.range (stateTable.alloc f sz)).map fun (jn : Nat) =>
    let j : Int := jn
    if stateTable.isBool f then (base + p + j) % 2 else base + 1000 * ((p : Int) + 1) + j

def parseSizes (toks : List String) : Option (StateSize → Nat) :=
  -- every token is name=value with an integer value
  let kvs := toks.mapM fun t =>
    match t.splitOn "=" with
    | [k, v] => v.toInt?.map fun n => (k, n)
    | _ => none
  match kvs with
  | none => none
  | some kvs =>
    let look := fun (s : StateSize) => (kvs.find? (fun kv => kv.1 == s.name)).map (·.2)
    if StateSize.all.all (fun s => match look s with | some n => n ≥ 0 | none => false) then
      some fun s => match look s with | some n => n.toNat | none => 0
    else none

def step (st : St) (line : String) : St × String :=
  match words line with
  | ["tableid"] => (st, stateTableId)   -- not part of the differential: identifies the compiled table
  | "model" :: _id :: rest =>
    match rest.span (· ≠ ";") with
    | (szs, ";" :: _) =>
      match parseSizes szs with
      | some sz =>
        let zero : D := fun f => List.replicate (stateTable.alloc f sz) 0
        ({ sz := some sz, ds := Array.replicate nslot zero, ks := fun _ => none }, "ok")
      | none => (st, "bad-op")
    | _ => (st, "bad-op")
  | op :: args =>
    match st.sz with
    | none => (st, "bad-op")
    | some sz =>
      match op, args with
      | "fill", k :: base :: names =>
        match slot? k >>= (fun k => st.ds[k]?.map (k, ·)), base.toInt?, names.mapM fieldOf with
        | some (k, d), some base, some fs =>
          let d' := (fs.zipIdx).foldl (fun (d : D) (fp : StateField × Nat) => upd d fp.1 (fillVals sz base fp.2 fp.1)) d
          ({ st with ds := st.ds.setIfInBounds k d' }, "ok")
        | _, _, _ => (st, "bad-op")
      | "dump", k :: names =>
        match slot? k >>= (fun k => st.ds[k]?), names.mapM fieldOf with
        | some d, some fs =>
          (st, "|".intercalate (fs.map fun f => f.name ++ ":" ++ joinInts (d f)))
        | _, _ => (st, "bad-op")
      | "size", [sig] =>
        match sig? sig with
        | some sig =>
          match stateSize stateTable sz sig with
          | .ok n => (st, toString n)
          | .error e => (st, errStr e)
        | none => (st, "bad-op")
      | "get", [k, sig] =>
        match slot? k >>= (fun k => st.ds[k]?), sig? sig with
        | some d, some sig =>
          match getState stateTable sz d sig with
          | .ok v => (st, vecStr v)
          | .error e => (st, errStr e)
        | _, _ => (st, "bad-op")
      | "set", k :: sig :: vs =>
        match slot? k >>= (fun k => st.ds[k]?.map (k, ·)), sig? sig, vs.mapM String.toInt? with
        | some (k, d), some sig, some v =>
          match setState stateTable sz castB v sig d with
          | .ok d' => ({ st with ds := st.ds.setIfInBounds k d' }, "ok")
          | .error e => (st, errStr e)
        | _, _, _ => (st, "bad-op")
      | "extract", s1 :: s2 :: vs =>
        match sig? s1, sig? s2, vs.mapM String.toInt? with
        | some s1, some s2, some v =>
          match extractState stateTable sz v s1 s2 with
          | .ok r => (st, vecStr r)
          | .error e => (st, errStr e)
        | _, _, _ => (st, "bad-op")
      | "copy", [k1, k2, sig] =>
        match slot? k1 >>= (fun k => st.ds[k]?.map (k, ·)), slot? k2 >>= (fun k => st.ds[k]?.map (k, ·)), sig? sig with
        | some (k1, d1), some (k2, d2), some sig =>
          if k1 = k2 then (st, "bad-op") else
          match copyState stateTable sz d1 d2 sig with
          | .ok d' => ({ st with ds := st.ds.setIfInBounds k2 d' }, "ok")
          | .error e => (st, errStr e)
        | _, _, _ => (st, "bad-op")
      | "keyfill", base :: names =>
        match base.toInt?, names.mapM arrayOf with
        | some base, some as =>
          let ks' := (as.zipIdx).foldl (fun (ks : KeyArray → Option (List Int)) (ap : KeyArray × Nat) =>
            fun g => if g = ap.1 then
              some ((List.range (keyTable.kalloc ap.1 sz)).map fun (jn : Nat) => base + 1000 * ((ap.2 : Int) + 1) + (jn : Int))
            else ks g) st.ks
          ({ st with ks := ks' }, "ok")
        | _, _ => (st, "bad-op")
      | "keyput", idx :: name :: vs =>
        match idx.toNat?, arrayOf name, vs.mapM String.toInt? with
        | some idx, some a, some v =>
          match st.ks a, rowSize sz a with
          | some cur, some n =>
            if idx < keyTable.nkey sz ∧ v.length = n ∧ idx * n + n ≤ cur.length then
              let cur' := cur.take (idx * n) ++ v ++ cur.drop (idx * n + n)
              ({ st with ks := fun g => if g = a then some cur' else st.ks g }, "ok")
            else (st, "bad-op")
          | _, _ => (st, "bad-op")
        | _, _, _ => (st, "bad-op")
      | "keydump", names =>
        match names.mapM arrayOf with
        | some as =>
          match as.mapM (fun a => (st.ks a).map (fun v => a.name ++ ":" ++ joinInts v)) with
          | some parts => (st, "|".intercalate parts)
          | none => (st, "bad-op")
        | none => (st, "bad-op")
      | "setkey", [k, idx] =>
        match slot? k >>= (fun k => st.ds[k]?), sig? idx, knownKeys st.ks with
        | some d, some idx, some m =>
          match setKeyframe keyTable sz m d idx with
          | .ok m' => ({ st with ks := fun g => if (st.ks g).isSome then some (m' g) else none }, "ok")
          | .error e => (st, kerrStr e)
        | _, _, _ => (st, "bad-op")
      | "loadkey", k :: idx :: base :: rest =>
        match rest.span (· ≠ ";") with
        | (pnames, ";" :: fnames) =>
          match slot? k >>= (fun k => st.ds[k]?.map (k, ·)), sig? idx, base.toInt?, pnames.mapM fieldOf, fnames.mapM fieldOf,
                knownKeys st.ks with
          | some (k, d), some idx, some base, some pf, some ff, some m =>
            if ¬ sameSet pf (keyTable.load.map (·.field)) ∨ ¬ StateField.all.all (ff.contains ·) then (st, "bad-op") else
            -- the data `_resetData` leaves is outside the model: loaded fields do not depend on it
            match resetDataKeyframe keyTable sz m d idx with
            | .ok d' =>
              let out := if 0 ≤ idx ∧ idx < keyTable.nkey sz then
                  "|".intercalate (pf.map fun f => f.name ++ ":" ++ joinInts (d' f)) ++ ";rest=1"
                else "reset"
              let d'' := (ff.zipIdx).foldl (fun (d : D) (fp : StateField × Nat) => upd d fp.1 (fillVals sz base fp.2 fp.1)) d'
              ({ st with ds := st.ds.setIfInBounds k d'' }, out)
            | .error e => (st, kerrStr e)
          | _, _, _, _, _, _ => (st, "bad-op")
        | _ => (st, "bad-op")
      | _, _ => (st, "bad-op")
  | [] => (st, "bad-op")

def main : IO Unit := runStateful ({ sz := none, ds := #[] } : St) step
