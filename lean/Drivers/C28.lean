import MjProof.Model.Sensor
import Drivers.Common
/-
Line protocol of the C28 hand model (doubles are the 16 hex digits of their IEEE bits, `nan` for NaN).  Enumerators
appear twice: by name (read here) and by the numeric value of the tree's headers (read by the C harness); the check
module derives both from the headers.

  cutoff <exempt|regular> <typeint> <real|positive|axis|quaternion> <dtint> <cutoff> <n> x1 .. xn
        -> the n entries after `apply_cutoff`
  layout d1 .. dn
        -> `adr1 .. adrn | nsensordata`
  sensor <kind> <typeint> <datatype> <dtint> <cutoff> <objtype> <otint> <objid> <reftype|none> <rtint> <refid>
         <nbody> <ngeom> <nsite> <ncam> body* geom* site* cam*
     body = weldid rootid dofnum xpos[3] xmat[9] xipos[3] ximat[9] xquat[4] iquat[4] cvel[6] cacc[6] cfrc_int[6] subtree_com[3]
     geom/site/cam = bodyid xpos[3] xmat[9] quat[4]
        -> the sensor's entries after `mj_computeSensor`
Malformed lines (and out-of-range ids) are answered with `bad-op`.
-/
open MjProof MjProof.Driver MjProof.Sensor

abbrev P := StateT (List String) Option

def tok : P String := do
  match (← get) with
  | t :: r => set r; pure t
  | [] => failure

def nat : P Nat := do
  let t ← tok
  match t.toNat? with
  | some n => pure n
  | none => failure

def int : P Int := do
  let t ← tok
  match t.toList with
  | '+' :: _ => failure
  | _ => match t.toInt? with
    | some n => pure n
    | none => failure

def flt : P Float := do
  let t ← tok
  match floatOfBits? t with
  | some x => pure x
  | none => failure

def v3 : P (V3 Float) := do pure (← flt, ← flt, ← flt)
def q4 : P (Q4 Float) := do pure (← flt, ← flt, ← flt, ← flt)
def v6 : P (V6 Float) := do pure (← flt, ← flt, ← flt, ← flt, ← flt, ← flt)
def m9 : P (M9 Float) := do pure (← flt, ← flt, ← flt, ← flt, ← flt, ← flt, ← flt, ← flt, ← flt)

def rep {β : Type} (p : P β) : Nat → P (List β)
  | 0 => pure []
  | n + 1 => do
    let x ← p
    let xs ← rep p n
    pure (x :: xs)

def body : P (Body Float) := do
  let weldid ← nat; let rootid ← nat; let dofnum ← nat
  let xpos ← v3; let xmat ← m9; let xipos ← v3; let ximat ← m9; let xquat ← q4; let iquat ← q4
  let cvel ← v6; let cacc ← v6; let cfrcInt ← v6; let subtreeCom ← v3
  pure { weldid, rootid, dofnum, xpos, xmat, xipos, ximat, xquat, iquat, cvel, cacc, cfrcInt, subtreeCom }

def attached : P (Attached Float) := do
  let bodyid ← nat; let xpos ← v3; let xmat ← m9; let quat ← q4
  pure { bodyid, xpos, xmat, quat }

def dataType : P DataType := do
  match (← tok) with
  | "real" => pure .real
  | "positive" => pure .positive
  | "axis" => pure .axis
  | "quaternion" => pure .quaternion
  | _ => failure

def objType? (t : String) : Option ObjType :=
  match t with
  | "body" => some .body
  | "xbody" => some .xbody
  | "geom" => some .geom
  | "site" => some .site
  | "camera" => some .camera
  | _ => none

def kind : P Kind := do
  match (← tok) with
  | "framepos" => pure .framepos
  | "framexaxis" => pure (.frameaxis 0)
  | "frameyaxis" => pure (.frameaxis 1)
  | "framezaxis" => pure (.frameaxis 2)
  | "framequat" => pure .framequat
  | "velocimeter" => pure .velocimeter
  | "gyro" => pure .gyro
  | "framelinvel" => pure .framelinvel
  | "frameangvel" => pure .frameangvel
  | "accelerometer" => pure .accelerometer
  | "force" => pure .force
  | "torque" => pure .torque
  | "framelinacc" => pure .framelinacc
  | "frameangacc" => pure .frameangacc
  | _ => failure

def eoi : P Unit := do
  match (← get) with
  | [] => pure ()
  | _ => failure

def showL (l : List Float) : String := " ".intercalate (l.map floatBits)

def cutoffOp : P String := do
  let cls ← match (← tok) with
    | "exempt" => pure CutoffClass.exempt
    | "regular" => pure CutoffClass.regular
    | _ => failure
  let _ ← int
  let dt ← dataType
  let _ ← int
  let c ← flt
  let n ← nat
  let xs ← rep flt n
  eoi
  pure (showL (applyCutoff cls dt c xs))

def layoutOp : P String := do
  let ws ← get
  let ds ← (ws.mapM (·.toNat?) : Option (List Nat))
  set ([] : List String)
  pure (joinNats (sensorAdr ds) ++ " | " ++ toString (nsensordata ds))

def sensorOp : P String := do
  let k ← kind
  let _ ← int
  let dt ← dataType
  let _ ← int
  let c ← flt
  let ot ← match objType? (← tok) with
    | some t => pure t
    | none => failure
  let _ ← int
  let oid ← nat
  let rtTok ← tok
  let _ ← int
  let rid ← int
  let ref : Option (ObjType × Nat) ←
    if rtTok == "none" then (if rid == -1 then pure none else failure)
    else match objType? rtTok with
      | some t => if rid < 0 then failure else pure (some (t, rid.toNat))
      | none => failure
  let nbody ← nat; let ngeom ← nat; let nsite ← nat; let ncam ← nat
  let bodies ← rep body nbody
  let geoms ← rep attached ngeom
  let sites ← rep attached nsite
  let cams ← rep attached ncam
  eoi
  let s : Scene Float := { bodies, geoms, sites, cams }
  match computeSensor s k dt c ot oid ref with
  | some out => pure (showL out)
  | none => failure

def step (line : String) : String :=
  let run (p : P String) (ws : List String) : String :=
    match p.run ws with
    | some (o, _) => o
    | none => "bad-op"
  match words line with
  | "cutoff" :: ws => run cutoffOp ws
  | "layout" :: ws => run layoutOp ws
  | "sensor" :: ws => run sensorOp ws
  | _ => "bad-op"

def main : IO Unit := runStateless step
