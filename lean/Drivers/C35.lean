import MjProof.Model.MassProps
import MjProof.Gen.UserUtilDispatch
import Drivers.Common
/-
Line protocol of the C35 model (doubles are the 16 hex digits of their IEEE bits, `nan` for NaN; ints decimal):
  vol <type> <shell> s0 s1 s2                  -> volume | `unsupported` (ellipsoid shell: std::pow)   (GetVolume)
  inert <type> <shell> m s0 s1 s2              -> i0 i1 i2 | `error`      (SetInertia with mass_ = m, then the
                                                                           bound/triangle step of mjCBody::Compile)
  body <n> { <type> <shell> <usemass> <massOrDensity> s0 s1 s2 px py pz qw qx qy qz }*n
                                               -> mass ipos[3] iquat[4] inertia[3] | `error` | `unsupported`
                                                  (geom Compile mass branch, InertiaFromGeom, body bounds)
  ibody bm bi <balance> <fromgeom 0 false|1 true|2 auto> <glo> <ghi> stm
        <explicit> mass <hasipos> ipx ipy ipz qw qx qy qz d0 d1 d2 <hasfull> f0 f1 f2 f3 f4 f5
        <n> { <group> + the 14 geom tokens of `body` }*n
                                               -> mass ipos[3] iquat[4] inertia[3] | `error` | `unsupported`
                                                  (one static body with default frame: the inertial part of
                                                  mjCBody::Compile = `bodyCompile` with compiler.boundmass bm,
                                                  boundinertia bi, balanceinertia, inertiafromgeom,
                                                  inertiagrouprange, then settotalmass stm = `applyTotalmass`;
                                                  hasipos = 0 leaves ipos[0] NaN, hasfull = 0 leaves fullinertia[0] NaN)
  redit <api 0|1> <k> <n> { the 27 fixed tokens of `ibody` (bm … f5) + n x (<group> + 14 geom tokens) }*k
                                               -> k results separated by ` | ` | `unsupported`
                                                  (ONE mjSpec with one body and n geoms: stage 1 is built and compiled,
                                                  every later stage overwrites all mass-relevant fields in place and
                                                  compiles the same spec again — api 0: mj_compile, 1: mj_recompile;
                                                  model: `bodyCompileState` threading the geom compile state)
  <kernel> tok...                              -> the generated user_util.cc kernel of that name (tokens as in
                                                  Drivers/Kernels.lean: float bits, `i<int>`)
Malformed lines are answered with `bad-op`.  `type` is the mjtGeom code (2 sphere, 3 capsule, 4 ellipsoid,
5 cylinder, 6 box).
-/
open MjProof MjProof.Driver MjProof.Orient MjProof.MassProps

def pi : Float := Orient.mjPI

def bool01? (s : String) : Option Bool :=
  if s == "0" then some false else if s == "1" then some true else none

def gtype? (s : String) : Option GType :=
  match s.toInt? with
  | some c => if c = 1 then none else GType.ofCode c
  | none => none

def fl? (s : String) : Option Float := floatOfBits? s

def showV3 (v : V3 Float) : String := floatBits v.x ++ " " ++ floatBits v.y ++ " " ++ floatBits v.z
def showQ (q : Q Float) : String := floatBits q.w ++ " " ++ floatBits q.x ++ " " ++ floatBits q.y ++ " " ++ floatBits q.z

def showBody (b : BodyMI Float) : String :=
  floatBits b.mass ++ " " ++ showV3 b.ipos ++ " " ++ showQ b.iquat ++ " " ++ showV3 b.inertia

/-- one geom of a `body` line: 14 tokens -/
def geom? (ws : List String) : Option (Option (GeomMI Float)) :=
  match ws with
  | [t, sh, um, md, s0, s1, s2, px, py, pz, qw, qx, qy, qz] =>
    match gtype? t, bool01? sh, bool01? um, (([md, s0, s1, s2, px, py, pz, qw, qx, qy, qz].mapM fl?) : Option (List Float)) with
    | some t, some sh, some um, some [md, s0, s1, s2, px, py, pz, qw, qx, qy, qz] =>
      let q := (normvec4 (⟨qw, qx, qy, qz⟩ : Q Float)).1
      match geomMassInertia pi t sh (if um then some md else none) md ⟨s0, s1, s2⟩ with
      | none => some none
      | some (m, i) => some (some ⟨m, ⟨px, py, pz⟩, q, i⟩)
    | _, _, _, _ => none
  | _ => none

def chunks14 : List String → Option (List (List String))
  | [] => some []
  | a :: b :: c :: d :: e :: f :: g :: h :: i :: j :: k :: l :: m :: n :: rest =>
    (chunks14 rest).map (fun r => [a, b, c, d, e, f, g, h, i, j, k, l, m, n] :: r)
  | _ => none

def bodyOp (n : String) (ws : List String) : String :=
  match n.toNat?, chunks14 ws with
  | some n, some cs =>
    if cs.length ≠ n ∨ n = 0 ∨ n > 64 then "bad-op" else
    match cs.mapM geom? with
    | none => "bad-op"
    | some gs =>
      match gs.mapM id with
      | none => "unsupported"
      | some gs =>
        match inertiaFromGeom gs with
        | .error _ => "error"
        | .ok none =>
          -- nothing selected: mass 0, inertia 0, inertial frame = body frame (pos 0, unit quat)
          showBody ⟨0.0, ⟨0.0, 0.0, 0.0⟩, ⟨1.0, 0.0, 0.0, 0.0⟩, ⟨0.0, 0.0, 0.0⟩⟩
        | .ok (some b) =>
          match bodyFinish 0.0 0.0 false b with
          | .error _ => "error"
          | .ok b => showBody b
  | _, _ => "bad-op"

def chunks15 : List String → Option (List (List String))
  | [] => some []
  | a :: b :: c :: d :: e :: f :: g :: h :: i :: j :: k :: l :: m :: n :: o :: rest =>
    (chunks15 rest).map (fun r => [a, b, c, d, e, f, g, h, i, j, k, l, m, n, o] :: r)
  | _ => none

/-- `<group>` + 14 geom tokens -/
def geomIn? (ws : List String) : Option (Option (GeomIn Float)) :=
  match ws with
  | grp :: rest =>
    match grp.toInt?, geom? rest with
    | some gi, some (some g) => if grp.startsWith "+" then none else some (some ⟨gi, g⟩)
    | some _, some none => some none
    | _, _ => none
  | [] => none

def fromgeom? (s : String) : Option FromGeom :=
  if s == "0" then some .no else if s == "1" then some .yes else if s == "2" then some .auto else none

def int? (s : String) : Option Int := if s.startsWith "+" then none else s.toInt?

def ibodyOp (ws : List String) : String :=
  match ws with
  | bm :: bi :: bal :: ifg :: glo :: ghi :: stm :: expl :: mass :: hasipos :: ipx :: ipy :: ipz :: qw :: qx :: qy :: qz ::
    d0 :: d1 :: d2 :: hasfull :: f0 :: f1 :: f2 :: f3 :: f4 :: f5 :: n :: rest =>
    match ([bm, bi, stm, mass, ipx, ipy, ipz, qw, qx, qy, qz, d0, d1, d2, f0, f1, f2, f3, f4, f5].mapM fl? : Option (List Float)),
          bool01? bal, fromgeom? ifg, int? glo, int? ghi, bool01? expl, bool01? hasipos, bool01? hasfull, n.toNat?, chunks15 rest with
    | some [bm, bi, stm, mass, ipx, ipy, ipz, qw, qx, qy, qz, d0, d1, d2, f0, f1, f2, f3, f4, f5],
      some bal, some ifg, some glo, some ghi, some expl, some hasipos, some hasfull, some n, some cs =>
      if cs.length ≠ n ∨ n > 64 then "bad-op" else
      match cs.mapM geomIn? with
      | none => "bad-op"
      | some gs =>
        match gs.mapM id with
        | none => "unsupported"
        | some gs =>
          let o : MassOpts Float := ⟨bm, bi, bal, ifg, glo, ghi⟩
          let sp : BodyInertial Float :=
            ⟨mass, if hasipos then some ⟨ipx, ipy, ipz⟩ else none, ⟨qw, qx, qy, qz⟩, ⟨d0, d1, d2⟩,
             if hasfull then some ⟨f0, f1, f2, f3, f4, f5⟩ else none, expl⟩
          match bodyCompile o ⟨0.0, 0.0, 0.0⟩ ⟨1.0, 0.0, 0.0, 0.0⟩ sp gs with
          | .error _ => "error"
          | .ok b =>
            match applyTotalmass stm [b] with
            | [b] => showBody b
            | _ => "error"
    | _, _, _, _, _, _, _, _, _, _ => "bad-op"
  | _ => "bad-op"

/-- `<group>` + 14 geom tokens as a `GeomDesc`; `some none`: ellipsoid shell -/
def geomDesc? (ws : List String) : Option (Option (GeomDesc Float)) :=
  match ws with
  | [grp, t, sh, um, md, s0, s1, s2, px, py, pz, qw, qx, qy, qz] =>
    match int? grp, gtype? t, bool01? sh, bool01? um, (([md, s0, s1, s2, px, py, pz, qw, qx, qy, qz].mapM fl?) : Option (List Float)) with
    | some grp, some t, some sh, some um, some [md, s0, s1, s2, px, py, pz, qw, qx, qy, qz] =>
      if t == .ellipsoid && sh then some none else
      let q := (normvec4 (⟨qw, qx, qy, qz⟩ : Q Float)).1
      some (some ⟨grp, t, sh, if um then some md else none, if um then 1000.0 else md, ⟨s0, s1, s2⟩, ⟨px, py, pz⟩, q⟩)
    | _, _, _, _, _ => none
  | _ => none

structure Stage where
  o : MassOpts Float
  stm : Float
  sp : BodyInertial Float
  geoms : List (GeomDesc Float)

/-- 27 fixed tokens + n geoms -/
def stage? (n : Nat) (ws : List String) : Option (Option Stage) :=
  match ws with
  | bm :: bi :: bal :: ifg :: glo :: ghi :: stm :: expl :: mass :: hasipos :: ipx :: ipy :: ipz :: qw :: qx :: qy :: qz ::
    d0 :: d1 :: d2 :: hasfull :: f0 :: f1 :: f2 :: f3 :: f4 :: f5 :: rest =>
    match ([bm, bi, stm, mass, ipx, ipy, ipz, qw, qx, qy, qz, d0, d1, d2, f0, f1, f2, f3, f4, f5].mapM fl? : Option (List Float)),
          bool01? bal, fromgeom? ifg, int? glo, int? ghi, bool01? expl, bool01? hasipos, bool01? hasfull, chunks15 rest with
    | some [bm, bi, stm, mass, ipx, ipy, ipz, qw, qx, qy, qz, d0, d1, d2, f0, f1, f2, f3, f4, f5],
      some bal, some ifg, some glo, some ghi, some expl, some hasipos, some hasfull, some cs =>
      if cs.length ≠ n then none else
      match cs.mapM geomDesc? with
      | none => none
      | some gs =>
        match gs.mapM id with
        | none => some none
        | some gs =>
          some (some ⟨⟨bm, bi, bal, ifg, glo, ghi⟩, stm,
            ⟨mass, if hasipos then some ⟨ipx, ipy, ipz⟩ else none, ⟨qw, qx, qy, qz⟩, ⟨d0, d1, d2⟩,
             if hasfull then some ⟨f0, f1, f2, f3, f4, f5⟩ else none, expl⟩, gs⟩)
    | _, _, _, _, _, _, _, _, _ => none
  | _ => none

def splitEvery (k : Nat) : Nat → List String → List (List String)
  | 0, _ => []
  | fuel + 1, ws => if ws.isEmpty then [] else ws.take k :: splitEvery k fuel (ws.drop k)

/-- run the stages on one spec, threading the geom compile states -/
def runStages : List Stage → List (GeomState Float) → List String → Option (List String)
  | [], _, acc => some acc.reverse
  | st :: rest, states, acc =>
    if states.length ≠ st.geoms.length then none else
    match bodyCompileState pi st.o ⟨0.0, 0.0, 0.0⟩ ⟨1.0, 0.0, 0.0, 0.0⟩ st.sp (st.geoms.zip states) with
    | none => none
    | some (res, states') =>
      let out := match res with
        | .error _ => "error"
        | .ok b => match applyTotalmass st.stm [b] with
          | [b] => showBody b
          | _ => "error"
      runStages rest states' (out :: acc)

def reditOp (ws : List String) : String :=
  match ws with
  | api :: k :: n :: rest =>
    match bool01? api, k.toNat?, n.toNat? with
    | some _, some k, some n =>
      let w := 27 + 15 * n
      if k = 0 ∨ k > 16 ∨ n > 64 ∨ rest.length ≠ k * w then "bad-op" else
      match (splitEvery w k rest).mapM (stage? n) with
      | none => "bad-op"
      | some sts =>
        match sts.mapM id with
        | none => "unsupported"
        | some sts =>
          match runStages sts (List.replicate n geomState0) [] with
          | some outs => " | ".intercalate outs
          | none => "bad-op"
    | _, _, _ => "bad-op"
  | _ => "bad-op"

def step (line : String) : String :=
  match words line with
  | ["vol", t, sh, s0, s1, s2] =>
    match gtype? t, bool01? sh, fl? s0, fl? s1, fl? s2 with
    | some t, some sh, some s0, some s1, some s2 =>
      match geomVolume pi t sh ⟨s0, s1, s2⟩ with
      | some v => floatBits v
      | none => "unsupported"
    | _, _, _, _, _ => "bad-op"
  | ["inert", t, sh, m, s0, s1, s2] =>
    match gtype? t, bool01? sh, fl? m, fl? s0, fl? s1, fl? s2 with
    | some t, some sh, some m, some s0, some s1, some s2 =>
      let i := geomInertia pi t sh m ⟨s0, s1, s2⟩
      match bodyFinish 0.0 0.0 false ⟨m, ⟨0.0, 0.0, 0.0⟩, ⟨1.0, 0.0, 0.0, 0.0⟩, i⟩ with
      | .error _ => "error"
      | .ok b => showV3 b.inertia
    | _, _, _, _, _, _ => "bad-op"
  | "body" :: n :: ws => bodyOp n ws
  | "ibody" :: ws => ibodyOp ws
  | "redit" :: ws => reditOp ws
  | name :: toks =>
    match toks.mapM GenUU.parseTok with
    | some xs =>
      match GenUU.dispatch name xs with
      | some ys => " ".intercalate (ys.map GenUU.Tok.show)
      | none => "bad-op"
    | none => "bad-op"
  | [] => "bad-op"

def main : IO Unit := runStateless step
