import MjProof.Model.Passive
import Drivers.Common
/-
Line protocol (numbers are 16-hex IEEE bit patterns; results likewise; the implementation side is the real engine:
checks/c29.py reads the same parameters / state from mjModel / mjData and compares with qfrc_spring, qfrc_damper,
qfrc_gravcomp, qfrc_passive of mj_forward):
  jspring k p0 p1 q qs                      -> f            slide / hinge joint spring
  jenergy k p0 p1 q qs                      -> e
  freelin k p0 p1 px py pz sx sy sz         -> fx fy fz     translational spring of a free joint
  ball k p0 p1 q0 q1 q2 q3 s0 s1 s2 s3      -> tx ty tz     ball joint / rotational part of a free joint
  damper b p0 p1 v                          -> f
  tendon k p0 p1 b d0 d1 len lo hi v        -> none | fs fd
  tenergy k p0 p1 len lo hi                 -> e
  accum base n (J f)*n                      -> base + J1*f1 + ...   (qfrc[k] += J*frc, tendon order)
  gravsum gx gy gz n (mass gc)*n            -> fx fy fz     sum of the compensation forces of n bodies (body order)
  psum spring damper [gravcomp]             -> qfrc_passive entry
  effdamp b p0 p1 mode n (ad a0 a1 gear)*n  -> b' p0' p1'   damping coefficients incl. mj_actuatorDamping (mode 0 none, 1 single, 2 scan)
gating (dS dD dG are the bits mjDSBL_SPRING / mjDSBL_DAMPER / mjDSBL_GRAVITY of opt.disableflags as 0 | 1):
  gcflags n gc*n                            -> ngravcomp flg_gravcomp          (setFixed, all bodies incl. the world)
  gcstage dS dD dG gx gy gz n (mass gc)*n   -> passiveHas entry has (none | fx fy fz)*(n-1)   (mj_gravcomp, bodies 1..n-1)
  g:jspring dS dD ... / g:freelin dS dD ... / g:ball dS dD ... / g:damper dS dD ... / g:tendon dS dD ... / g:psum dS dD ...
                                            the ops above under the switches of mj_passive / mj_springdamper
The driver answers and flushes line by line (checks/c29.py keeps one process for the whole run).
-/
open MjProof MjProof.Driver MjProof.Passive

def fb := floatBits
def p3 (v : Float × Float × Float) : String := s!"{fb v.1} {fb v.2.1} {fb v.2.2}"

def pairs2 : List Float → List (Float × Float)
  | a :: c :: r => (a, c) :: pairs2 r
  | _ => []

def flag? (s : String) : Option Bool := if s == "0" then some false else if s == "1" then some true else none

def step (line : String) : String :=
  match words line with
  | op :: args =>
    match args.mapM floatOfBits? with
    | none => "bad-op"
    | some xs =>
      match op, xs with
      | "jspring", [k, p0, p1, q, qs] => fb (jointSpring k p0 p1 q qs)
      | "jenergy", [k, p0, p1, q, qs] => fb (jointSpringEnergy k p0 p1 q qs)
      | "freelin", [k, p0, p1, px, py, pz, sx, sy, sz] =>
        p3 (freeLinSpring k p0 p1 (px, py, pz) (sx, sy, sz) (0.0, 0.0, 0.0))
      | "ball", [k, p0, p1, q0, q1, q2, q3, s0, s1, s2, s3] =>
        p3 (ballSpring k p0 p1 (q0, q1, q2, q3) (s0, s1, s2, s3) (0.0, 0.0, 0.0))
      | "damper", [b, p0, p1, v] => fb (dofDamper b p0 p1 v)
      | "tendon", [k, p0, p1, b, d0, d1, len, lo, hi, v] =>
        match tendonForces k p0 p1 b d0 d1 len lo hi v with
        | none => "none"
        | some (fs, fd) => s!"{fb fs} {fb fd}"
      | "tenergy", [k, p0, p1, len, lo, hi] => fb (tendonEnergy k p0 p1 len lo hi)
      | "psum", [s, d] => fb (passiveSum s d none)
      | "psum", [s, d, g] => fb (passiveSum s d (some g))
      | _, _ => "bad-op"
  | _ => "bad-op"

/-- ops with a count token (not a bit pattern) -/
def stepN (line : String) : String :=
  match words line with
  | "accum" :: base :: n :: rest =>
    match floatOfBits? base, n.toNat?, rest.mapM floatOfBits? with
    | some b, some n, some xs =>
      if xs.length ≠ 2 * n then "bad-op"
      else
        let rec pairs : List Float → List (Float × Float)
          | a :: c :: r => (a, c) :: pairs r
          | _ => []
        fb (accumulate b (pairs xs))
    | _, _, _ => "bad-op"
  | "effdamp" :: b :: p0 :: p1 :: mode :: n :: rest =>
    match floatOfBits? b, floatOfBits? p0, floatOfBits? p1, mode.toNat?, n.toNat?, rest.mapM floatOfBits? with
    | some b, some p0, some p1, some mode, some n, some xs =>
      if xs.length ≠ 4 * n then "bad-op"
      else
        let rec quads : List Float → List (Float × Float × Float × Float)
          | a :: c :: d :: e :: r => (a, c, d, e) :: quads r
          | _ => []
        match effDamping b p0 p1 mode (quads xs) with
        | some r => p3 r
        | none => "bad-op"
    | _, _, _, _, _, _ => "bad-op"
  | "gravsum" :: gx :: gy :: gz :: n :: rest =>
    match floatOfBits? gx, floatOfBits? gy, floatOfBits? gz, n.toNat?, rest.mapM floatOfBits? with
    | some gx, some gy, some gz, some n, some xs =>
      if xs.length ≠ 2 * n then "bad-op"
      else
        let rec go : List Float → Float × Float × Float → Float × Float × Float
          | m :: c :: r, acc =>
            let f := gravcompForce (gx, gy, gz) m c
            go r (acc.1 + f.1, acc.2.1 + f.2.1, acc.2.2 + f.2.2)
          | _, acc => acc
        p3 (go xs (0.0, 0.0, 0.0))
    | _, _, _, _, _ => "bad-op"
  | "gcflags" :: n :: rest =>
    match n.toNat?, rest.mapM floatOfBits? with
    | some n, some gc => if gc.length ≠ n then "bad-op" else s!"{ngravcomp gc} {if flgGravcomp gc then 1 else 0}"
    | _, _ => "bad-op"
  | "gcstage" :: dS :: dD :: dG :: gx :: gy :: gz :: n :: rest =>
    match flag? dS, flag? dD, flag? dG, floatOfBits? gx, floatOfBits? gy, floatOfBits? gz, n.toNat?, rest.mapM floatOfBits? with
    | some dS, some dD, some dG, some gx, some gy, some gz, some n, some xs =>
      if xs.length ≠ 2 * n then "bad-op"
      else
        let bodies := pairs2 xs
        let flg := flgGravcomp (bodies.map (fun b => b.2))
        let g := (gx, gy, gz)
        let st := gravcompStage flg dG g bodies
        let b01 (b : Bool) : String := if b then "1" else "0"
        let fs := st.2.map (fun f => match f with | none => "none" | some v => p3 v)
        " ".intercalate ([b01 (passiveHasGravcomp dS dD dG g bodies), b01 (gravcompEntry flg dG g), b01 st.1] ++ fs)
    | _, _, _, _, _, _, _, _ => "bad-op"
  | op :: dS :: dD :: args =>
    if !op.startsWith "g:" then step line else
    match flag? dS, flag? dD, args.mapM floatOfBits? with
    | some dS, some dD, some xs =>
      match op, xs with
      | "g:jspring", [k, p0, p1, q, qs] => fb (jointSpringGated dS dD k p0 p1 q qs)
      | "g:freelin", [k, p0, p1, px, py, pz, sx, sy, sz] =>
        p3 (freeLinSpringGated dS dD k p0 p1 (px, py, pz) (sx, sy, sz) (0.0, 0.0, 0.0))
      | "g:ball", [k, p0, p1, q0, q1, q2, q3, s0, s1, s2, s3] =>
        p3 (ballSpringGated dS dD k p0 p1 (q0, q1, q2, q3) (s0, s1, s2, s3) (0.0, 0.0, 0.0))
      | "g:damper", [b, p0, p1, v] => fb (dofDamperGated dS dD b p0 p1 v)
      | "g:tendon", [k, p0, p1, b, d0, d1, len, lo, hi, v] =>
        match tendonForcesGated dS dD k p0 p1 b d0 d1 len lo hi v with
        | none => "none"
        | some (fs, fd) => s!"{fb fs} {fb fd}"
      | "g:psum", [s, d] => fb (passiveSumGated dS dD s d none)
      | "g:psum", [s, d, g] => fb (passiveSumGated dS dD s d (some g))
      | _, _ => "bad-op"
    | _, _, _ => "bad-op"
  | _ => step line

/-- one line in, one line out, flushed after every line -/
partial def serve (hin hout : IO.FS.Stream) : IO Unit := do
  let line ← hin.getLine
  if line.isEmpty then
    hout.flush
  else
    hout.putStrLn (stepN line)
    hout.flush
    serve hin hout

def main : IO Unit := do
  serve (← IO.getStdin) (← IO.getStdout)
