import MjProof.Model.Passive
import Drivers.Common
/-
Line protocol (numbers are 16-hex IEEE bit patterns; results likewise; the implementation side is the real engine:
checks/c29.py reads the same parameters / state from mjModel / mjData and compares with qfrc_spring, qfrc_damper,
qfrc_gravcomp, qfrc_passive of mj_forward):
  jspring k p0 p1 q qs                      -> f            slide / hinge joint spring
  jenergy k p0 p1 q qs                      -> e
  freelin k p0 p1 px py pz sx sy sz         -> fx fy fz     translational spring of a free joint
  ball k p0 p1 q0 q1 q2 q3 s0 s1 s2 s3      -> tx ty tz     ball joint / rotational part of a free joint
  damper b p0 p1 v                          -> f
  tendon k p0 p1 b d0 d1 len lo hi v        -> none | fs fd
  tenergy k p0 p1 len lo hi                 -> e
  accum base n (J f)*n                      -> base + J1*f1 + ...   (qfrc[k] += J*frc, tendon order)
  gravsum gx gy gz n (mass gc)*n            -> fx fy fz     sum of the compensation forces of n bodies (body order)
  psum spring damper [gravcomp]             -> qfrc_passive entry
  effdamp b p0 p1 mode n (ad a0 a1 gear)*n  -> b' p0' p1'   damping coefficients incl. mj_actuatorDamping (mode 0 none, 1 single, 2 scan)
-/
open MjProof MjProof.Driver MjProof.Passive

def fb := floatBits
def p3 (v : Float × Float × Float) : String := s!"{fb v.1} {fb v.2.1} {fb v.2.2}"

def step (line : String) : String :=
  match words line with
  | op :: args =>
    match args.mapM floatOfBits? with
    | none => "bad-op"
    | some xs =>
      match op, xs with
      | "jspring", [k, p0, p1, q, qs] => fb (jointSpring k p0 p1 q qs)
      | "jenergy", [k, p0, p1, q, qs] => fb (jointSpringEnergy k p0 p1 q qs)
      | "freelin", [k, p0, p1, px, py, pz, sx, sy, sz] =>
        p3 (freeLinSpring k p0 p1 (px, py, pz) (sx, sy, sz) (0.0, 0.0, 0.0))
      | "ball", [k, p0, p1, q0, q1, q2, q3, s0, s1, s2, s3] =>
        p3 (ballSpring k p0 p1 (q0, q1, q2, q3) (s0, s1, s2, s3) (0.0, 0.0, 0.0))
      | "damper", [b, p0, p1, v] => fb (dofDamper b p0 p1 v)
      | "tendon", [k, p0, p1, b, d0, d1, len, lo, hi, v] =>
        match tendonForces k p0 p1 b d0 d1 len lo hi v with
        | none => "none"
        | some (fs, fd) => s!"{fb fs} {fb fd}"
      | "tenergy", [k, p0, p1, len, lo, hi] => fb (tendonEnergy k p0 p1 len lo hi)
      | "psum", [s, d] => fb (passiveSum s d none)
      | "psum", [s, d, g] => fb (passiveSum s d (some g))
      | _, _ => "bad-op"
  | _ => "bad-op"

/-- ops with a count token (not a bit pattern) -/
def stepN (line : String) : String :=
  match words line with
  | "accum" :: base :: n :: rest =>
    match floatOfBits? base, n.toNat?, rest.mapM floatOfBits? with
    | some b, some n, some xs =>
      if xs.length ≠ 2 * n then "bad-op"
      else
        let rec pairs : List Float → List (Float × Float)
          | a :: c :: r => (a, c) :: pairs r
          | _ => []
        fb (accumulate b (pairs xs))
    | _, _, _ => "bad-op"
  | "effdamp" :: b :: p0 :: p1 :: mode :: n :: rest =>
    match floatOfBits? b, floatOfBits? p0, floatOfBits? p1, mode.toNat?, n.toNat?, rest.mapM floatOfBits? with
    | some b, some p0, some p1, some mode, some n, some xs =>
      if xs.length ≠ 4 * n then "bad-op"
      else
        let rec quads : List Float → List (Float × Float × Float × Float)
          | a :: c :: d :: e :: r => (a, c, d, e) :: quads r
          | _ => []
        match effDamping b p0 p1 mode (quads xs) with
        | some r => p3 r
        | none => "bad-op"
    | _, _, _, _, _, _ => "bad-op"
  | "gravsum" :: gx :: gy :: gz :: n :: rest =>
    match floatOfBits? gx, floatOfBits? gy, floatOfBits? gz, n.toNat?, rest.mapM floatOfBits? with
    | some gx, some gy, some gz, some n, some xs =>
      if xs.length ≠ 2 * n then "bad-op"
      else
        let rec go : List Float → Float × Float × Float → Float × Float × Float
          | m :: c :: r, acc =>
            let f := gravcompForce (gx, gy, gz) m c
            go r (acc.1 + f.1, acc.2.1 + f.2.1, acc.2.2 + f.2.2)
          | _, acc => acc
        p3 (go xs (0.0, 0.0, 0.0))
    | _, _, _, _, _ => "bad-op"
  | _ => step line

def main : IO Unit := runStateless stepN
