import MjProof.Model.Actuation
import Drivers.Common
/-
Line protocol (numbers are 16-hex IEEE bit patterns unless said otherwise; the implementation side is the real
engine: checks/c27.py reads parameters / state from mjModel / mjData and compares with act_dot, actuator_force,
qfrc_actuator of mj_forward):
  ctrl <clampdisabled 0|1> <n> (value limited(0|1) lo hi)*n           -> n values     local control vector
  dctrl <clampdisabled 0|1> <time> <n> (raw limited(0|1) lo hi delay <interp:int> <nsample:nat> [<cursor:nat> times*nsample values*nsample])*n
                                                                      -> n values     local control vector, delayed
                                                                         controls read from their history buffer
  nextact <dyntype:int> <actlimited 0|1> lo hi dynprm0 h act actdot   -> mj_nextActivation of a SISO actuator's own
                                                                         activation (offset 0, actnum 1; not DC motor)
  actdot <none|integrator|filter|filterexact|muscle|user> d0 d1 d2 ctrl act        -> act_dot
  force <gain> <bias> <group:int> <disableactuator:nat> input len vel lr0 lr1 acc0 g0..g9 b0..b9 -> unclamped force
        gain ∈ fixed|affine|muscle|user, bias ∈ none|affine|muscle|user
  tsum <n> f*n                                                        -> total tendon actuator force
  tscale total lo hi f                                                -> rescaled force
  fclamp <limited 0|1> <group:int> <disableactuator:nat> f lo hi      -> force after the "clamp actuator_force" loop
  qfrc <nc> <nr> (<nnz> (col:nat val)*nnz force)*nr                    -> nc values    moment' * force
  jpost q <hasgc 0|1> gc <limited 0|1> lo hi                          -> final qfrc_actuator entry
-/
open MjProof MjProof.Driver MjProof.Actuation

def fb := floatBits
def bit? (s : String) : Option Bool := if s == "1" then some true else if s == "0" then some false else none
def bits? (ts : List String) : Option (List Float) := ts.mapM floatOfBits?

def dyn? (s : String) : Option DynType :=
  match s with
  | "none" => some .none | "integrator" => some .integrator | "filter" => some .filter
  | "filterexact" => some .filterexact | "muscle" => some .muscle | "user" => some .user | _ => none
def gain? (s : String) : Option GainType :=
  match s with
  | "fixed" => some .fixed | "affine" => some .affine | "muscle" => some .muscle | "user" => some .user | _ => none
def bias? (s : String) : Option BiasType :=
  match s with
  | "none" => some .none | "affine" => some .affine | "muscle" => some .muscle | "user" => some .user | _ => none

def parseCtrls : List String → Option (List (Ctrl Float))
  | [] => some []
  | v :: l :: lo :: hi :: r => do
      let v ← floatOfBits? v; let l ← bit? l; let lo ← floatOfBits? lo; let hi ← floatOfBits? hi
      let rest ← parseCtrls r
      pure ({ value := v, limited := l, lo := lo, hi := hi } :: rest)
  | _ => none

/-- `raw limited lo hi delay interp nsample [cursor times*nsample values*nsample]` repeated -/
partial def parseCtrlIns : List String → Option (List (CtrlIn Float))
  | [] => some []
  | v :: l :: lo :: hi :: dl :: ip :: ns :: r => do
      let v ← floatOfBits? v; let l ← bit? l; let lo ← floatOfBits? lo; let hi ← floatOfBits? hi
      let dl ← floatOfBits? dl; let ip ← ip.toInt?; let ns ← ns.toNat?
      if ns = 0 then
        let rest ← parseCtrlIns r
        pure ({ raw := v, limited := l, lo := lo, hi := hi, delay := dl, interp := ip, hist := none } :: rest)
      else
        match r with
        | cur :: r' => do
          let cur ← cur.toNat?
          if r'.length < 2 * ns then none
          let ts ← bits? (r'.take ns)
          let vs ← bits? ((r'.drop ns).take ns)
          let rest ← parseCtrlIns (r'.drop (2 * ns))
          pure ({ raw := v, limited := l, lo := lo, hi := hi, delay := dl, interp := ip,
                  hist := some { cursor := cur, times := ts, values := vs } } :: rest)
        | [] => none
  | _ => none

/-- rows of the sparse moment matrix: `<nnz> (col val)*nnz force` -/
partial def parseRows (nc : Nat) : Nat → List String → Option (List (List (Fin nc × Float)) × List Float)
  | 0, [] => some ([], [])
  | 0, _ => none
  | nr + 1, nnz :: r => do
      let nnz ← nnz.toNat?
      let ent := r.take (2 * nnz)
      if ent.length ≠ 2 * nnz then none
      let rec pairs : List String → Option (List (Fin nc × Float))
        | [] => some []
        | c :: v :: t => do
            let c ← c.toNat?; let i ← (if h : c < nc then some (⟨c, h⟩ : Fin nc) else none)
            let v ← floatOfBits? v
            let t ← pairs t
            pure ((i, v) :: t)
        | _ => none
      let row ← pairs ent
      match r.drop (2 * nnz) with
      | f :: r' => do
          let f ← floatOfBits? f
          let (rows, fs) ← parseRows nc nr r'
          pure (row :: rows, f :: fs)
      | [] => none
  | _, _ => none

def step (line : String) : String :=
  match words line with
  | "ctrl" :: cd :: n :: rest =>
    match bit? cd, n.toNat?, parseCtrls rest with
    | some cd, some n, some cs =>
      if cs.length ≠ n then "bad-op" else " ".intercalate ((ctrlStage cd cs).map fb)
    | _, _, _ => "bad-op"
  | "dctrl" :: cd :: tm :: n :: rest =>
    match bit? cd, floatOfBits? tm, n.toNat?, parseCtrlIns rest with
    | some cd, some tm, some n, some cs =>
      if cs.length ≠ n then "bad-op"
      else match ctrlStageDelayed cd tm cs with
        | some us => " ".intercalate (us.map fb)
        | none => "bad-op"
    | _, _, _, _ => "bad-op"
  | ["nextact", dt, l, lo, hi, d0, h, a, ad] =>
    match dt.toInt?, bit? l, bits? [lo, hi, d0, h, a, ad] with
    | some dt, some l, some [lo, hi, d0, h, a, ad] =>
      if dt = Gen.RK4.mjDYN_DCMOTOR then "bad-op"
      else
        let z : Float := 0.0
        let p : Integrate.ActSlot Float :=
          { dyntype := dt, actlimited := l, offset := 0, lo := lo, hi := hi, dynprm0 := d0, dynprm2 := z, dynprm5 := z,
            dynprm7 := z, dynprm8 := z, gainprm5 := z, biasprm3 := z, biasprm4 := z, biasprm5 := z, velocity := z,
            actnum := 1 }
        fb (forceInput true p h a ad)
    | _, _, _ => "bad-op"
  | ["actdot", t, d0, d1, d2, c, a] =>
    match dyn? t, bits? [d0, d1, d2, c, a] with
    | some t, some [d0, d1, d2, c, a] => fb (actDot t d0 d1 d2 c a)
    | _, _ => "bad-op"
  | "force" :: g :: b :: grp :: dis :: rest =>
    match gain? g, bias? b, grp.toInt?, dis.toNat?, bits? rest with
    | some g, some b, some grp, some dis, some xs =>
      match xs with
      | input :: len :: vel :: lr0 :: lr1 :: acc0 :: prm =>
        if prm.length ≠ 20 then "bad-op"
        else
          let a : Act Float := { gaintype := g, biastype := b, gainprm := prm.take 10, biasprm := prm.drop 10,
                                 length := len, velocity := vel, lr0 := lr0, lr1 := lr1, acc0 := acc0 }
          match unclampedForce a input grp dis with
          | some f => fb f
          | none => "bad-op"
      | _ => "bad-op"
    | _, _, _, _, _ => "bad-op"
  | "tsum" :: n :: rest =>
    match n.toNat?, bits? rest with
    | some n, some xs => if xs.length ≠ n then "bad-op" else fb (sumList xs)
    | _, _ => "bad-op"
  | ["tscale", t, lo, hi, f] =>
    match bits? [t, lo, hi, f] with
    | some [t, lo, hi, f] => fb (tendonScale t lo hi f)
    | _ => "bad-op"
  | ["fclamp", l, grp, dis, f, lo, hi] =>
    match bit? l, grp.toInt?, dis.toNat?, bits? [f, lo, hi] with
    | some l, some grp, some dis, some [f, lo, hi] => fb (clampStage l grp dis f lo hi)
    | _, _, _, _ => "bad-op"
  | "qfrc" :: nc :: nr :: rest =>
    match nc.toNat?, nr.toNat? with
    | some nc, some nr =>
      match parseRows nc nr rest with
      | some (rows, fs) => " ".intercalate ((mulMatTVecSparse nc rows fs).toList.map fb)
      | none => "bad-op"
    | _, _ => "bad-op"
  | ["jpost", q, hg, gc, l, lo, hi] =>
    match bit? hg, bit? l, bits? [q, gc, lo, hi] with
    | some hg, some l, some [q, gc, lo, hi] => fb (jointPost q (if hg then some gc else none) l lo hi)
    | _, _, _ => "bad-op"
  | _ => "bad-op"

/-- one line in, one line out, flushed after every line: checks/c27.py keeps ONE driver process for the whole run and
    feeds the stages of every model interactively (the output of one stage is the input of the next) -/
partial def serve (hin hout : IO.FS.Stream) : IO Unit := do
  let line ← hin.getLine
  if line.isEmpty then
    hout.flush
  else
    hout.putStrLn (step line)
    hout.flush
    serve hin hout

def main : IO Unit := do
  serve (← IO.getStdin) (← IO.getStdout)
