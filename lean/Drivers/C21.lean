import MjProof.Model.AllocProtocol
import Drivers.Common
/-
Line protocol of the allocation-protocol model (implementation side: harness/c/c21_allocfail.c):
  run SCEN REGIME VARIANT FAILSET | sizes…
      SCEN: makedata copydata copymodel loadmodel savemodel     REGIME: longjmp | returning
      VARIANT: asis | trymalloc        FAILSET: 0-based mju_malloc call indices, comma separated, or "-"
      sizes: the block sizes in allocation order (3 for mjData scenarios, 2 otherwise)
output: trace=<a<size>|x<size>|f<id>|E|W,…> out=<returned|jumped|FAULT> live=<ids|-|?>
-/
open MjProof MjProof.Driver MjProof.AllocProtocol

def parseNat (t : String) : Option Nat :=
  if t.length > 19 || t.isEmpty then none else t.toNat?

def parseFailset (t : String) : Option (List Nat) :=
  if t == "-" then some [] else (t.splitOn ",").mapM parseNat

def showEv : Ev → String
  | .a n => s!"a{n}"
  | .x n => s!"x{n}"
  | .f i => s!"f{i}"
  | .E => "E"
  | .W => "W"

def insertSorted (x : Nat) : List Nat → List Nat
  | [] => [x]
  | y :: ys => if x ≤ y then x :: y :: ys else y :: insertSorted x ys

def scenario (name : String) (vt : Variant) (sz : List Nat) : Option Scenario :=
  match name, sz with
  | "makedata", [a, b, c] => some (makeData vt a b c)
  | "copydata", [a, b, c] => some (copyData vt a b c)
  | "copymodel", [a, b] => some (copyModel vt a b)
  | "loadmodel", [a, b] => some (loadModel vt a b)
  | "savemodel", [a, b] => some (saveModel vt a b)
  | _, _ => none

def handle (line : String) : String :=
  match line.splitOn "|" with
  | [head, szs] =>
    match words head, (words szs).mapM parseNat with
    | ["run", scen, regime, variant, fs], some sizes =>
      let r? : Option Regime := if regime == "longjmp" then some .longjmp else if regime == "returning" then some .returning else none
      let v? : Option Variant := if variant == "asis" then some .asIs else if variant == "trymalloc" then some .tryMalloc else none
      match r?, v?, parseFailset fs with
      | some r, some v, some fl =>
        match scenario scen v sizes with
        | some s =>
          let res := exec r (fun k => fl.contains k) s
          let tr := ",".intercalate (res.2.trace.reverse.map showEv)
          match res.1 with
          | .fault _ => s!"trace={tr} out=FAULT live=?"
          | o =>
            let live := res.2.live.foldr insertSorted []
            let ls := if live.isEmpty then "-" else ",".intercalate (live.map toString)
            let os := match o with | .jumped => "jumped" | _ => "returned"
            s!"trace={tr} out={os} live={ls}"
        | none => "bad-op"
      | _, _, _ => "bad-op"
    | _, _ => "bad-op"
  | _ => "bad-op"

def main : IO Unit := runStateless handle
