import MjProof.Model.AllocProtocol
import Drivers.Common
/-
Line protocol of the allocation-protocol model (implementation side: harness/c/c21_allocfail.c):
  run SCEN REGIME VARIANT FAILSET | sizes…
      SCEN: makedata copydata copymodel loadmodel savemodel     REGIME: longjmp | returning
      VARIANT: asis | trymalloc        FAILSET: 0-based mju_malloc call indices, comma separated, or "-"
      sizes: the block sizes in allocation order (3 for mjData scenarios, 2 otherwise)
      SCEN compile (5 sizes: mjModel, its buffer, mjData, its buffer, arena): mj_compile + the caller's
      mj_deleteModel; always under the compiler's own longjmp-ing handler (REGIME is ignored, the handler
      invocation is not an event of the trace); ` err=0|1` is appended (1 = mj_compile returned NULL)
  skeleton NAME     the allocation / initialisation / publication skeleton of the programs the theorems are
      about (compared with what translate/c21_protocol.py extracts from the C / C++ text of the tree);
      NAME: mj_makeModel mj_makeRawData mj_deleteModel mj_deleteData compile compile_catch
output: trace=<a<size>|x<size>|f<id>|E|W,…> out=<returned|jumped|FAULT> live=<ids|-|?>
-/
open MjProof MjProof.Driver MjProof.AllocProtocol

def parseNat (t : String) : Option Nat :=
  if t.length > 19 || t.isEmpty then none else t.toNat?

def parseFailset (t : String) : Option (List Nat) :=
  if t == "-" then some [] else (t.splitOn ",").mapM parseNat

def showEv : Ev → String
  | .a n => s!"a{n}"
  | .x n => s!"x{n}"
  | .f i => s!"f{i}"
  | .E => "E"
  | .W => "W"

def insertSorted (x : Nat) : List Nat → List Nat
  | [] => [x]
  | y :: ys => if x ≤ y then x :: y :: ys else y :: insertSorted x ys

def scenario (name : String) (vt : Variant) (sz : List Nat) : Option Scenario :=
  match name, sz with
  | "makedata", [a, b, c] => some (makeData vt a b c)
  | "copydata", [a, b, c] => some (copyData vt a b c)
  | "copymodel", [a, b] => some (copyModel vt a b)
  | "loadmodel", [a, b] => some (loadModel vt a b)
  | "savemodel", [a, b] => some (saveModel vt a b)
  | _, _ => none

def showVar : Var → String
  | .m => "m" | .mbuf => "m.buffer" | .d => "d" | .dbuf => "d.buffer" | .darena => "d.arena"
  | .tmp => "tmp" | .vfs => "vfs" | .loc => "local" | .cm => "model" | .cd => "data"

def showFld : Fld → String
  | .buffer => "buffer" | .arena => "arena" | .threadpool => "threadpool" | .nplugin => "nplugin"

def showExit : Exit → String
  | .error => "error"
  | .warnReturn => "warnreturn"
  | .warnFreeReturn after => "warnfreereturn[" ++ ",".intercalate (after.map showVar) ++ "]"

/-- the steps that have a counterpart the translator can extract (`use` steps and the store that is part
    of an allocating statement are not printed). -/
def showStep : Step → Option String
  | .alloc v _ _ => some s!"alloc {showVar v}"
  | .ifNull v cl e => some s!"ifnull {showVar v} [{",".intercalate (cl.map showVar)}] {showExit e}"
  | .use _ => none
  | .useIfSet _ _ => none
  | .free v => some s!"free {showVar v}"
  | .ret v => some s!"return {showVar v}"
  | .setFld v f none => some s!"set {showVar v}.{showFld f} 0"
  | .setFld _ _ (some _) => none
  | .zeroAll v => some s!"zero {showVar v}"
  | .readFld v f => some s!"read {showVar v}.{showFld f}"
  | .freeFld v f => some s!"free {showVar v}.{showFld f}"
  | .publish c v => some s!"publish {showVar c} {showVar v}"
  | .clearPub c => some s!"clear {showVar c}"

def showSteps (l : List Step) : String := " | ".intercalate (l.filterMap showStep)

def skeleton (name : String) : Option String :=
  match name with
  | "mj_makeModel" => some (showSteps (makeModelBody .asIs 1 1 .loc))
  | "mj_makeRawData" => some (showSteps (makeRawDataBody .asIs 1 1 1 .loc))
  | "mj_deleteModel" => some (showSteps (deleteModelOf .m))
  | "mj_deleteData" => some (showSteps (deleteDataOf .d))
  | "compile" => some (showSteps (compile .asIs 1 1 1 1 1).body)
  | "compile_catch" =>
    match (compile .asIs 1 1 1 1 1).onJump with
    | some c => some (" | ".intercalate (c.map fun (v, prog) => s!"ifset {showVar v} | {showSteps prog}"))
    | none => none
  | _ => none

def showTrace (tr : List Ev) : String := ",".intercalate (tr.reverse.map showEv)

def handleCompile (variant fs : String) (sizes : List Nat) : String :=
  let v? : Option Variant := if variant == "asis" then some .asIs else if variant == "trymalloc" then some .tryMalloc else none
  match v?, parseFailset fs, sizes with
  | some v, some fl, [a, b, c, d, e] =>
    let res := exec .longjmp (fun k => fl.contains k) (compile v a b c d e)
    let tr := showTrace (res.2.trace.filter (· != .E))
    match res.1 with
    | .fault _ => s!"trace={tr} out=FAULT live=?"
    | .jumped => "bad-op"
    | o =>
      let live := res.2.live.foldr insertSorted []
      let ls := if live.isEmpty then "-" else ",".intercalate (live.map toString)
      let err := match o with | .caught => 1 | _ => 0
      s!"trace={tr} out=returned live={ls} err={err}"
  | _, _, _ => "bad-op"

def handle (line : String) : String :=
  match words line with
  | ["skeleton", name] => (skeleton name).getD "bad-op"
  | _ =>
  match line.splitOn "|" with
  | [head, szs] =>
    match words head, (words szs).mapM parseNat with
    | ["run", "compile", regime, variant, fs], some sizes =>
      if regime == "longjmp" || regime == "returning" then handleCompile variant fs sizes else "bad-op"
    | ["run", scen, regime, variant, fs], some sizes =>
      let r? : Option Regime := if regime == "longjmp" then some .longjmp else if regime == "returning" then some .returning else none
      let v? : Option Variant := if variant == "asis" then some .asIs else if variant == "trymalloc" then some .tryMalloc else none
      match r?, v?, parseFailset fs with
      | some r, some v, some fl =>
        match scenario scen v sizes with
        | some s =>
          let res := exec r (fun k => fl.contains k) s
          let tr := ",".intercalate (res.2.trace.reverse.map showEv)
          match res.1 with
          | .fault _ => s!"trace={tr} out=FAULT live=?"
          | o =>
            let live := res.2.live.foldr insertSorted []
            let ls := if live.isEmpty then "-" else ",".intercalate (live.map toString)
            let os := match o with | .jumped => "jumped" | _ => "returned"
            s!"trace={tr} out={os} live={ls}"
        | none => "bad-op"
      | _, _, _ => "bad-op"
    | _, _ => "bad-op"
  | _ => "bad-op"

def main : IO Unit := runStateless handle
