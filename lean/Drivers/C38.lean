import MjProof.Model.Cache
import Drivers.Common
/-
Line protocol (stateful; every number is a canonical decimal natural < 2^64):
  new CAP                    fresh cache `mjCCache(CAP)`
  ins M ID TS DATA SIZE      Insert            -> r=0|1
  pop ID TS                  PopulateData with a resource whose provider compares timestamps -> r=DATA|-
  popn ID                    PopulateData with a resource without provider                   -> r=DATA|-
  has ID                     HasAsset          -> r=TS|-
  del ID | rm M | rst M | clr | cap N          -> r=ok
Output: `r=… | cap=… size=… num=… ub=… | assets: id:ts:size:access:insertnum:data:[refs] … |
         entries: ids in (access, insertnum) order | models: m:[ids] …`   (all sets sorted)
-/
open MjProof MjProof.Driver MjProof.Cache

def parseNat (s : String) : Option Nat :=
  let cs := s.toList
  if cs.isEmpty then none
  else if !cs.all Char.isDigit then none
  else if cs.length > 1 && cs.head? == some '0' then none
  else if cs.length > 20 then none
  else
    let n := cs.foldl (fun acc ch => acc * 10 + (ch.toNat - '0'.toNat)) 0
    if n < W then some n else none

def sortNat (l : List Nat) : List Nat := l.mergeSort (fun a b => a ≤ b)

def showSet (l : List Nat) : String := "[" ++ ",".intercalate ((sortNat l).map toString) ++ "]"

def showAsset (a : Asset) : String :=
  ":".intercalate [toString a.id, toString a.ts, toString a.size, toString a.access,
                   toString a.insertNum, toString a.data, showSet a.refs]

def dump (c : Cache) : String :=
  let as := c.assets.mergeSort (fun a b => a.id ≤ b.id)
  let es := c.assets.mergeSort (fun a b => !keyLt b a)
  let ms := c.models.mergeSort (fun a b => a.1 ≤ b.1)
  s!"cap={c.capacity} size={c.size} num={c.insertNum} ub={if c.ub then 1 else 0} | assets: " ++
    " ".intercalate (as.map showAsset) ++ " | entries: " ++ " ".intercalate (es.map (toString ·.id)) ++
    " | models: " ++ " ".intercalate (ms.map (fun p => toString p.1 ++ ":" ++ showSet p.2))

def showOpt : Option Nat → String
  | some n => toString n
  | none => "-"

def apply (c : Cache) (ws : List String) : Option (Cache × String) :=
  match ws with
  | ["ins", m, id, ts, d, sz] => do
    let m ← parseNat m; let id ← parseNat id; let ts ← parseNat ts; let d ← parseNat d; let sz ← parseNat sz
    let r := Cache.insert c m id ts d sz
    pure (r.1, if r.2 then "1" else "0")
  | ["pop", id, ts] => do
    let id ← parseNat id; let ts ← parseNat ts
    let r := populate c id (some ts)
    pure (r.1, showOpt r.2)
  | ["popn", id] => do
    let id ← parseNat id
    let r := populate c id none
    pure (r.1, showOpt r.2)
  | ["has", id] => do
    let id ← parseNat id
    pure (c, showOpt (hasAsset c id))
  | ["del", id] => do let id ← parseNat id; pure (deleteAsset c id, "ok")
  | ["rm", m] => do let m ← parseNat m; pure (removeModel c m, "ok")
  | ["rst", m] => do let m ← parseNat m; pure (resetModel c m, "ok")
  | ["clr"] => pure (resetAll c, "ok")
  | ["cap", n] => do let n ← parseNat n; pure (setCapacity c n, "ok")
  | _ => none

def stepLine (st : Option Cache) (line : String) : Option Cache × String :=
  match words line with
  | ["new", cap] =>
    match parseNat cap with
    | some cap => let c := Cache.empty cap; (some c, "r=ok | " ++ dump c)
    | none => (st, "bad-op")
  | ws =>
    match st with
    | none => (st, "bad-op")
    | some c =>
      match apply c ws with
      | some (c', r) => (some c', "r=" ++ r ++ " | " ++ dump c')
      | none => (st, "bad-op")

def main : IO Unit := runStateful (none : Option Cache) stepLine
