import MjProof.Model.MjxState
import MjProof.Gen.MjxStateTable
import Drivers.Common
/-
Line protocol (stateful; mirrors harness/py/c44_mjx.py, which runs the real `mjx.state_size`,
`mjx.get_state`, `mjx.set_state` of the tree).  Values are integers (the harness fills `mjx.Data`
with integer-valued arrays); the table is the generated `Gen.Mjx.mjxTable`.
  model <id> name=value ... ; <description (ignored here)>   -> ok      (sizes of the compiled model)
  fill <k> <base> <field> ...          -> ok
  dump <k> <field> ...                 -> name:v v v|name:...
  size <spec>                          -> <n> | error:<kind>
  get <k> <spec>                       -> vec v v ... | error:<kind>
  set <k> <spec> v v ...               -> ok | error:<kind>
  tableid                              -> fingerprint of the generated table compiled into this driver
`spec` is any integer (Python's `int(spec)` is unbounded).
-/
open MjProof MjProof.Driver MjProof.State MjProof.MjxState MjProof.Gen MjProof.Gen.Mjx

abbrev D := Data StateField Int

structure St where
  sz : Option (StateSize → Nat)
  ds : Array D

def nslot : Nat := 4

/-- `astype(bool)` then read back as a number -/
def castB (x : Int) : Int := if x = 0 then 0 else 1

def errStr : PyErr → String
  | .specRange => "error:specRange"
  | .badElem i => s!"error:badElem:{i}"
  | .sizeMismatch g e => s!"error:sizeMismatch:{g}:{e}"
  | .shape => "error:shape"
  | .cModelOnly _ => "error:unreachable"

def fieldOf (n : String) : Option StateField := StateField.all.find? (fun f => f.name == n)

def slot? (s : String) : Option Nat :=
  match s.toNat? with
  | some k => if k < nslot then some k else none
  | none => none

def vecStr (v : List Int) : String := if v.isEmpty then "vec" else "vec " ++ joinInts v

def fillVals (sz : StateSize → Nat) (base : Int) (p : Nat) (f : StateField) : List Int :=
  (List.range (mjxTable.alloc f sz)).map fun (jn : Nat) =>
    let j : Int := jn
    if mjxTable.isBool f then (base + p + j) % 2 else base + 1000 * ((p : Int) + 1) + j

def parseSizes (toks : List String) : Option (StateSize → Nat) :=
  let kvs := toks.mapM fun t =>
    match t.splitOn "=" with
    | [k, v] => v.toInt?.map fun n => (k, n)
    | _ => none
  match kvs with
  | none => none
  | some kvs =>
    let look := fun (s : StateSize) => (kvs.find? (fun kv => kv.1 == s.name)).map (·.2)
    if StateSize.all.all (fun s => match look s with | some n => n ≥ 0 | none => false) then
      some fun s => match look s with | some n => n.toNat | none => 0
    else none

def step (st : St) (line : String) : St × String :=
  match words line with
  | ["tableid"] => (st, mjxTableId)
  | "model" :: _id :: rest =>
    match rest.span (· ≠ ";") with
    | (szs, ";" :: _) =>
      match parseSizes szs with
      | some sz =>
        let zero : D := fun f => List.replicate (mjxTable.alloc f sz) 0
        ({ sz := some sz, ds := Array.replicate nslot zero }, "ok")
      | none => (st, "bad-op")
    | _ => (st, "bad-op")
  | op :: args =>
    match st.sz with
    | none => (st, "bad-op")
    | some sz =>
      match op, args with
      | "fill", k :: base :: names =>
        match slot? k >>= (fun k => st.ds[k]?.map (k, ·)), base.toInt?, names.mapM fieldOf with
        | some (k, d), some base, some fs =>
          let d' := (fs.zipIdx).foldl (fun (d : D) (fp : StateField × Nat) => upd d fp.1 (fillVals sz base fp.2 fp.1)) d
          ({ st with ds := st.ds.setIfInBounds k d' }, "ok")
        | _, _, _ => (st, "bad-op")
      | "dump", k :: names =>
        match slot? k >>= (fun k => st.ds[k]?), names.mapM fieldOf with
        | some d, some fs =>
          (st, "|".intercalate (fs.map fun f => f.name ++ ":" ++ joinInts (d f)))
        | _, _ => (st, "bad-op")
      | "size", [spec] =>
        match spec.toInt? with
        | some spec =>
          match MjxState.stateSize mjxTable sz spec with
          | .ok n => (st, toString n)
          | .error e => (st, errStr e)
        | none => (st, "bad-op")
      | "get", [k, spec] =>
        match slot? k >>= (fun k => st.ds[k]?), spec.toInt? with
        | some d, some spec =>
          match MjxState.getState mjxTable d spec with
          | .ok v => (st, vecStr v)
          | .error e => (st, errStr e)
        | _, _ => (st, "bad-op")
      | "set", k :: spec :: vs =>
        match slot? k >>= (fun k => st.ds[k]?.map (k, ·)), spec.toInt?, vs.mapM String.toInt? with
        | some (k, d), some spec, some v =>
          match MjxState.setState mjxTable sz mjxScalar castB v spec d with
          | .ok d' => ({ st with ds := st.ds.setIfInBounds k d' }, "ok")
          | .error e => (st, errStr e)
        | _, _, _ => (st, "bad-op")
      | _, _ => (st, "bad-op")
  | [] => (st, "bad-op")

def main : IO Unit := runStateful ({ sz := none, ds := #[] } : St) step
