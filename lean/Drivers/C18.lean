import MjProof.Model.Sleep
import Drivers.Common
/-
Line protocol of the C18 model driver (same lines as harness/c/c18_sleep.c).  Segments are separated by
`|`, sub-lists by `/`, ops of a history by `;`; all numbers are decimal ints except the `advance` floats,
which are 16-digit hex IEEE-754 bit patterns.  TA = tree_asleep (ntree ints).

  const                                         -> "minawake M kawake K states S A W"
  model <mjbuild description, `;` for newline>  -> "model-ok" (the harness appends the compiled arrays)
  cycle I | TA                                  -> R                                   mj_sleepCycle
  wakeisland I W | TA                           -> "ok K | TA" / "err NAME | TA"       mj_wakeIsland
  hist | TA | op ; op ; …                       -> results joined by " ; "             (state persists)
        S t0 t1 …   mj_sleepTrees      -> "ok TA" / "err NAME TA"
        W i v       mj_wakeIsland      -> "ok K TA" / "err NAME TA"
        C i         mj_sleepCycle      -> "R"
  sleeptrees T… | TA | NV | ADR | NUM           -> "ok | TA | QVEL | QACC" / "err NAME | …"   (flags 1 = non-zero)
  sleep EN NEFC TOL | TA | p x q v / … | ISLANDS | REST | NV | ADR | NUM
                                                -> "ok K | TA | QVEL" / "err NAME K | TA | QVEL"   mj_sleep
        per tree: p policy (1 NEVER, 2 AUTO_NEVER: never; else allowed), x / q applied-force code
        (0 zero, 1 non-zero, 2 -0.0), v velocity code (0 zero, 1 -0.0, 2 largest below tol, 3 smallest not
        below tol, 4 large)
  wake EN NTA | TA | STALE | p x q v / …         -> "ok K | TA" / "err NAME | TA"       mj_wake
  wakecol EN | TA | STALE | b1 b2 / … | TREEID | BODYAWAKE   -> same form              mj_wakeCollision
  update FLG | TA | OLD | TREEID | PARENT | ROOT | MOCAP | DOFBODY
        -> "TREEAWAKE | NTA | BODYAWAKE | BODYIND | PARENTIND | DOFIND"                mj_updateSleepInit
  advance EN | TOL DT | TA | QPOS | QVEL | QACC | p x q / … | TREEID | PARENT | ROOT | MOCAP | DOFBODY
          | ADR | NUM | DOFLEN | JNTADR | JNTNUM | JNTDOF
        -> "ok K | TA | QPOS | QVEL" / "err NAME K | …"      mj_Euler on a slide/hinge model (no damping)
Anything else, or an index outside the range the C code dereferences unchecked -> "bad-op".
-/
open MjProof MjProof.Driver MjProof.Sleep

def segs (s : String) : List String := s.splitOn "|"
def ints? (s : String) : Option (List Int) := (words s).mapM String.toInt?
def nats? (s : String) : Option (List Nat) := (words s).mapM String.toNat?

def toVec? {α : Type} (n : Nat) (l : List α) : Option (Vector α n) :=
  if h : l.toArray.size = n then some ⟨l.toArray, h⟩ else none

def toFin? (n : Nat) (x : Int) : Option (Fin n) :=
  if h : 0 ≤ x ∧ x < (n : Int) then some ⟨x.toNat, by omega⟩ else none

def natFin? (n : Nat) (x : Nat) : Option (Fin n) := if h : x < n then some ⟨x, h⟩ else none

def showTA {n : Nat} (ta : Vector Int n) : String := joinInts ta.toList
def showFins {n : Nat} (l : List (Fin n)) : String := joinNats (l.map (·.val))
def showFlags {n : Nat} (v : Vector Bool n) : String := joinNats (v.toList.map fun b => if b then 1 else 0)

def wakeErrName : WakeErr → String
  | .invalidTree => "invalid-tree"
  | .invalidNext => "invalid-next"
  | .notCycle => "not-cycle"
  | .bothAsleep => "both-asleep"

def sleepErrName : SleepErr → String
  | .alreadyAsleep => "already-asleep"
  | .notReady => "not-ready"
  | .sleepingInIsland => "sleeping-in-island"

def showWake {n : Nat} (r : TA n × WakeRes) (sep : String) : String :=
  match r with
  | (ta, .ok k) => "ok " ++ toString k ++ sep ++ showTA ta
  | (ta, .err e) => "err " ++ wakeErrName e ++ sep ++ showTA ta

def mkTreeDofs? (n nv : Nat) (adr num : List Nat) : Option (TreeDofs n nv) :=
  match toVec? n adr, toVec? n num with
  | some a, some m => if h : ∀ t : Fin n, a[t] + m[t] ≤ nv then some ⟨a, m, h⟩ else none
  | _, _ => none

def dummyDofs (n : Nat) : TreeDofs n 0 :=
  ⟨Vector.replicate n 0, Vector.replicate n 0, by intro t; simp⟩

/-- per-tree codes `p x q v` -> facts -/
def factsOf (c : List Nat) : Option TreeFacts :=
  match c with
  | [p, x, q, v] =>
    if p ≤ 5 ∧ x ≤ 2 ∧ q ≤ 2 ∧ v ≤ 4 then
      some { policyNever := p == 1 || p == 2, xfrcZero := x == 0, qfrcZero := q == 0,
             velZero := v == 0, velSmall := v ≤ 2 }
    else none
  | _ => none

def groups? (s : String) : Option (List (List Nat)) :=
  if (words s).isEmpty then some [] else (s.splitOn "/").mapM nats?

def treeids? (n : Nat) (l : List Int) : Option (List (Option (Fin n))) :=
  l.mapM fun x => if x = -1 then some none else (toFin? n x).map some

/-- initial flags: last dof of the tree non-zero iff the velocity code is not 0 -/
def velFlags {n nv : Nat} (td : TreeDofs n nv) (vcode : Vector Nat n) : Vector Bool nv :=
  Vector.ofFn fun i : Fin nv =>
    (List.finRange n).any fun t => td.num[t] ≠ 0 ∧ i.val = td.adr[t] + td.num[t] - 1 ∧ vcode[t] ≠ 0

-- ------------------------------------------------------------------ ops

def opCycle (a ta : String) : String :=
  match ints? a, ints? ta with
  | some [i], some ta => toString (sleepCycle (n := ta.length) ⟨ta.toArray, rfl⟩ i)
  | _, _ => "bad-op"

def opWakeIsland (a ta : String) : String :=
  match ints? a, ints? ta with
  | some [i, w], some ta => showWake (wakeIsland (n := ta.length) ⟨ta.toArray, rfl⟩ i w) " | "
  | _, _ => "bad-op"

inductive HOp (n : Nat) where
  | S (l : List (Fin n))
  | W (i w : Int)
  | C (i : Int)

def parseHOp (n : Nat) (s : String) : Option (HOp n) :=
  match words s with
  | "S" :: ts => do
    let ts ← ts.mapM String.toNat?
    let fs ← ts.mapM (natFin? n)
    if fs.isEmpty then none else some (.S fs)
  | ["W", i, w] => do some (.W (← i.toInt?) (← w.toInt?))
  | ["C", i] => do some (.C (← i.toInt?))
  | _ => none

def runHOp {n : Nat} (ta : TA n) : HOp n → TA n × String
  | .S l =>
    let s : St n 0 Unit := { ta := ta, qvel := Vector.replicate 0 (), qacc := Vector.replicate 0 () }
    match sleepTrees () (dummyDofs n) l s with
    | (s', none) => (s'.ta, "ok " ++ showTA s'.ta)
    | (s', some e) => (s'.ta, "err " ++ sleepErrName e ++ " " ++ showTA s'.ta)
  | .W i w => let r := wakeIsland ta i w; (r.1, showWake r " ")
  | .C i => (ta, toString (sleepCycle ta i))

def opHist (ta ops : String) : String :=
  match ints? ta with
  | none => "bad-op"
  | some ta =>
    let n := ta.length
    match (ops.splitOn ";").mapM (parseHOp n) with
    | none => "bad-op"
    | some ops =>
      let (_, outs) := ops.foldl (fun (st : TA n × List String) op =>
        let (ta', o) := runHOp st.1 op; (ta', o :: st.2)) (⟨ta.toArray, rfl⟩, [])
      " ; ".intercalate outs.reverse

def opSleepTrees (ts ta nv adr num : String) : String :=
  match nats? ts, ints? ta, nats? nv, nats? adr, nats? num with
  | some ts, some ta, some [nv], some adr, some num =>
    let n := ta.length
    match ts.mapM (natFin? n), mkTreeDofs? n nv adr num with
    | some fs, some td =>
      if fs.isEmpty then "bad-op" else
      let s : St n nv Bool := { ta := ⟨ta.toArray, rfl⟩, qvel := Vector.replicate nv true, qacc := Vector.replicate nv true }
      let (s', e) := sleepTrees false td fs s
      (match e with | none => "ok" | some e => "err " ++ sleepErrName e)
        ++ " | " ++ showTA s'.ta ++ " | " ++ showFlags s'.qvel ++ " | " ++ showFlags s'.qacc
    | _, _ => "bad-op"
  | _, _, _, _, _ => "bad-op"

def opSleep (hd ta codes isl rest nv adr num : String) : String :=
  match nats? hd, ints? ta, groups? codes, groups? isl, nats? rest, nats? nv, nats? adr, nats? num with
  | some [en, nefc, tol], some ta, some codes, some isl, some rest, some [nv], some adr, some num =>
    let n := ta.length
    match codes.mapM factsOf, isl.mapM (fun g => g.mapM (natFin? n)), rest.mapM (natFin? n),
          mkTreeDofs? n nv adr num, toVec? n (codes.map fun c => c.getD 3 0) with
    | some facts, some isl, some rest, some td, some vcode =>
      if en > 1 ∨ tol > 1 ∨ isl.any (·.isEmpty) then "bad-op" else
      match toVec? n (facts.map fun f => treeCanSleep f (tol == 1)) with
      | none => "bad-op"
      | some can =>
        let s : St n nv Bool := { ta := ⟨ta.toArray, rfl⟩, qvel := velFlags td vcode, qacc := Vector.replicate nv true }
        let inp : SleepIn n := { enabled := en == 1, nefc := nefc, can := can, islands := isl, rest := rest }
        let (s', k, e) := sleep false td inp s
        -- after an mjERROR the C return value is not observable: "?"
        (match e with | none => "ok " ++ toString k | some e => "err " ++ sleepErrName e ++ " ?")
          ++ " | " ++ showTA s'.ta ++ " | " ++ showFlags s'.qvel
    | _, _, _, _, _ => "bad-op"
  | _, _, _, _, _, _, _, _ => "bad-op"

def boolVec? (n : Nat) (l : List Nat) : Option (Vector Bool n) :=
  if l.all (· ≤ 1) then toVec? n (l.map (· == 1)) else none

def opWake (hd ta stale codes : String) : String :=
  match nats? hd, ints? ta, nats? stale, groups? codes with
  | some [en, nta], some ta, some stale, some codes =>
    let n := ta.length
    match boolVec? n stale, codes.mapM factsOf with
    | some stale, some facts =>
      match toVec? n (facts.map fun f => !treeCanSleep f false) with
      | none => "bad-op"
      | some cannot =>
        if en > 1 ∨ nta > n then "bad-op" else
        let flag : Vector Bool n := Vector.ofFn fun i => stale[i] || cannot[i]
        showWake (wake (en == 1) nta flag ⟨ta.toArray, rfl⟩) " | "
    | _, _ => "bad-op"
  | _, _, _, _ => "bad-op"

def opWakeCol (hd ta stale cons treeid bawake : String) : String :=
  match nats? hd, ints? ta, nats? stale, groups? cons, ints? treeid, ints? bawake with
  | some [en], some ta, some stale, some cons, some treeid, some bawake =>
    let n := ta.length
    let nbody := treeid.length
    match boolVec? n stale, treeids? n treeid, toVec? nbody bawake with
    | some stale, some tids, some bawake =>
      match toVec? nbody tids with
      | none => "bad-op"
      | some tids =>
        let mk (g : List Nat) : Option (Contact n) :=
          match g with
          | [b1, b2] =>
            match natFin? nbody b1, natFin? nbody b2 with
            | some b1, some b2 => some { tree1 := tids[b1], tree2 := tids[b2],
                                          bAwake1 := bawake[b1] == sAwake, bAwake2 := bawake[b2] == sAwake }
            | _, _ => none
          | _ => none
        match cons.mapM mk with
        | none => "bad-op"
        | some cs => if en > 1 then "bad-op" else
          showWake (wakeCollision (en == 1) stale cs ⟨ta.toArray, rfl⟩) " | "
    | _, _, _ => "bad-op"
  | _, _, _, _, _, _ => "bad-op"

def mkTopo? (n nbody nv : Nat) (treeid parent root mocap : List Int) (dofbody : List Int) : Option (BodyTopo n nbody nv) := do
  let tids ← treeids? n treeid
  let tids ← toVec? nbody tids
  let par ← toVec? nbody (← parent.mapM (toFin? nbody))
  let rt ← toVec? nbody (← root.mapM (toFin? nbody))
  let mc ← toVec? nbody mocap
  let db ← toVec? nv (← dofbody.mapM (toFin? nbody))
  some { treeid := tids, parentid := par, rootid := rt, mocapid := mc, dofBody := db }

def showDerived {n nbody nv : Nat} (d : Derived n nbody nv) : String :=
  showTA d.treeAwake ++ " | " ++ toString d.ntreeAwake ++ " | " ++ showTA d.bodyAwake ++ " | "
    ++ showFins d.bodyAwakeInd ++ " | " ++ showFins d.parentAwakeInd ++ " | " ++ showFins d.dofAwakeInd

def opUpdate (hd ta old treeid parent root mocap dofbody : String) : String :=
  match nats? hd, ints? ta, ints? old, ints? treeid, ints? parent, ints? root, ints? mocap, ints? dofbody with
  | some [flg], some ta, some old, some treeid, some parent, some root, some mocap, some dofbody =>
    let n := ta.length
    let nbody := treeid.length
    let nv := dofbody.length
    match mkTopo? n nbody nv treeid parent root mocap dofbody, toVec? nbody old with
    | some tp, some old =>
      if flg > 1 then "bad-op" else
      showDerived (updateSleepInit (flg == 1) ⟨ta.toArray, rfl⟩ tp old)
    | _, _ => "bad-op"
  | _, _, _, _, _, _, _, _ => "bad-op"

-- ------------------------------------------------------------------ advance (Float)

def hexDigit? (c : Char) : Option Nat :=
  if '0' ≤ c ∧ c ≤ '9' then some (c.toNat - '0'.toNat)
  else if 'a' ≤ c ∧ c ≤ 'f' then some (c.toNat - 'a'.toNat + 10)
  else none

def hexFloat? (s : String) : Option Float :=
  if s.length ≠ 16 then none else
  (s.toList.foldlM (fun (acc : Nat) c => (hexDigit? c).map (acc * 16 + ·)) 0).map
    fun v => Float.ofBits (UInt64.ofNat v)

def floats? (s : String) : Option (List Float) := (words s).mapM hexFloat?

def hexOf (x : Float) : String :=
  let v := x.toBits.toNat
  let ds := (List.range 16).map fun k => (v / 16 ^ (15 - k)) % 16
  String.ofList (ds.map fun d => if d < 10 then Char.ofNat (d + 48) else Char.ofNat (d + 87))

def showFloats {n : Nat} (v : Vector Float n) : String := " ".intercalate (v.toList.map hexOf)

/-- `body_jntadr` is -1 for a body without joints (`body_jntnum = 0`, the C loop body never runs): read as 0 -/
def jntAdr? (jadr jnum : String) : Option (List Nat) :=
  match ints? jadr, nats? jnum with
  | some a, some m =>
    if a.length ≠ m.length then none else
    (a.zip m).mapM fun (x, k) => if x ≥ 0 then some x.toNat else if x = -1 ∧ k = 0 then some 0 else none
  | _, _ => none

def opAdvance (a : List String) : String :=
  match a with
  | [hd, tl, ta, qpos, qvel, qacc, codes, treeid, parent, root, mocap, dofbody, adr, num, doflen, jadr, jnum, jdof] =>
    match nats? hd, floats? tl, ints? ta, floats? qpos, floats? qvel, floats? qacc, groups? codes with
    | some [en], some [tol, dt], some ta, some qpos, some qvel, some qacc, some codes =>
      match ints? treeid, ints? parent, ints? root, ints? mocap, ints? dofbody, nats? adr, nats? num,
            floats? doflen, jntAdr? jadr jnum, nats? jnum, nats? jdof with
      | some treeid, some parent, some root, some mocap, some dofbody, some adr, some num, some doflen,
        some jadr, some jnum, some jdof =>
        let n := ta.length
        let nbody := treeid.length
        let nv := dofbody.length
        let njnt := jdof.length
        match mkTopo? n nbody nv treeid parent root mocap dofbody, mkTreeDofs? n nv adr num,
              toVec? nbody jadr, toVec? nbody jnum, toVec? njnt qpos, toVec? nv qvel, toVec? nv qacc,
              toVec? nv doflen with
        | some tp, some td, some ja, some jn, some qpos, some qvel, some qacc, some doflen =>
          match toVec? njnt (jdof.filterMap (natFin? nv)),
                (codes.mapM (fun c => factsOf (c ++ [0]))).bind (toVec? n) with
          | some jd, some facts0 =>
            if hb : ∀ b : Fin nbody, ja[b] + jn[b] ≤ njnt then
              if en > 1 then "bad-op" else
              let bj : BodyJnts nbody njnt := ⟨ja, jn, hb⟩
              let tav : TA n := ⟨ta.toArray, rfl⟩
              -- treeCanSleep on the real qvel (velocity facts computed, not coded)
              let canl := (List.finRange n).map fun t =>
                let f0 := facts0[t]
                let dofs := (List.finRange nv).filter fun i => td.adr[t] ≤ i.val ∧ i.val < td.adr[t] + td.num[t]
                let vs := dofs.map fun i => qvel[i]
                let ws := dofs.map fun i => doflen[i]
                let f := { f0 with velZero := vs.all (fun x => x.toBits == 0), velSmall := isSmaller vs ws tol }
                treeCanSleep f (tol != 0)
              match toVec? n canl with
              | none => "bad-op"
              | some can =>
                let inp : SleepIn n := { enabled := en == 1, nefc := 0, can := can, islands := [], rest := [] }
                let der := updateSleepInit false tav tp (Vector.replicate nbody 0)
                let out := advance (0.0 : Float) (fun v a => v + dt * a)
                  (fun j (p : Float) (qv : Vector Float nv) => p + dt * qv[jd[j]]) td tp bj inp qacc der
                  { ta := tav, qvel := qvel, qacc := qacc } qpos
                (match out.err with | none => "ok " ++ toString out.nslept | some e => "err " ++ sleepErrName e ++ " ?")
                  ++ " | " ++ showTA out.st.ta ++ " | " ++ showFloats out.qpos
                  ++ " | " ++ showFloats out.st.qvel
            else "bad-op"
          | _, _ => "bad-op"
        | _, _, _, _, _, _, _, _ => "bad-op"
      | _, _, _, _, _, _, _, _, _, _, _ => "bad-op"
    | _, _, _, _, _, _, _ => "bad-op"
  | _ => "bad-op"

def step (line : String) : String :=
  let ss := segs line
  match ss with
  | [] => "bad-op"
  | hd :: tl =>
    match words hd, tl with
    | ["const"], [] => "minawake " ++ toString minAwake ++ " kawake " ++ toString kAwake ++ " states "
        ++ toString sStatic ++ " " ++ toString sAsleep ++ " " ++ toString sAwake
    | "model" :: _, _ => "model-ok"
    | "cycle" :: a, [ta] => opCycle (" ".intercalate a) ta
    | "wakeisland" :: a, [ta] => opWakeIsland (" ".intercalate a) ta
    | ["hist"], [ta, ops] => opHist ta ops
    | "sleeptrees" :: ts, [ta, nv, adr, num] => opSleepTrees (" ".intercalate ts) ta nv adr num
    | "sleep" :: a, [ta, codes, isl, rest, nv, adr, num] => opSleep (" ".intercalate a) ta codes isl rest nv adr num
    | "wake" :: a, [ta, stale, codes] => opWake (" ".intercalate a) ta stale codes
    | "wakecol" :: a, [ta, stale, cons, treeid, bawake] => opWakeCol (" ".intercalate a) ta stale cons treeid bawake
    | "update" :: a, [ta, old, treeid, parent, root, mocap, dofbody] =>
      opUpdate (" ".intercalate a) ta old treeid parent root mocap dofbody
    | "advance" :: a, rest => opAdvance ((" ".intercalate a) :: rest)
    | _, _ => "bad-op"

def main : IO Unit := runStateless step
