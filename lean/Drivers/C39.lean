import MjProof.Model.Vfs
import Drivers.Common
/-
Line protocol (tokens: `@<chars>` = string, possibly empty; `~` = NULL; bytes in lower-case hex, `-` = empty):
  mode raw|norm              -> ok        selects `containsRaw` / `containsNorm` for `has`
  mode loop|exact            -> ok        selects `prefixCandsLoop` / `prefixCandsExact` in FindMount
  fs @path none|dir|file:HEX -> ok        declares what the OS answers for `stat`/`fopen` of that path
  provcount                  -> provcount 0
  reset                      -> ok
  add @name HEX              -> add <code>
  addfile ~|@dir @file       -> addfile <code>
  del ~|@name                -> del <code>
  has ~|@name                -> has <0|1>
  hasfile ~|@dir ~|@file     -> hasfile <0|1>
  open ~|@dir @name          -> open fail | open ok HEX | open any HEX HEX ... (sorted candidates) | open unmodelled
  path ~|@dir @name          -> path @Str @AbsPrefix @StripPath @StripPath.Lower @Lower   (`~` dir = one-argument FilePath)
-/
open MjProof MjProof.Driver MjProof.Vfs

structure DState where
  env : Env := {}
  tbl : Tbl := []

def tokStr (t : String) : Option (Option Str) :=
  if t == "~" then some none
  else match t.toList with
    | '@' :: cs => some (some cs)
    | _ => none

def tokS (t : String) : Option Str :=
  match tokStr t with
  | some (some s) => some s
  | _ => none

def hexVal (c : Char) : Option Nat :=
  if '0' ≤ c ∧ c ≤ '9' then some (c.toNat - '0'.toNat)
  else if 'a' ≤ c ∧ c ≤ 'f' then some (c.toNat - 'a'.toNat + 10)
  else none

def unhexGo : List Char → Option Bytes
  | [] => some []
  | [_] => none
  | a :: b :: r =>
    match hexVal a, hexVal b, unhexGo r with
    | some x, some y, some t => some (UInt8.ofNat (x * 16 + y) :: t)
    | _, _, _ => none

def unhex (t : String) : Option Bytes :=
  if t == "-" then some [] else if t == "" then none else unhexGo t.toList

def hexDigit (n : Nat) : Char := if n < 10 then Char.ofNat (48 + n) else Char.ofNat (87 + n)

def hex (b : Bytes) : String :=
  if b.isEmpty then "-"
  else String.ofList (b.flatMap (fun x => [hexDigit (x.toNat / 16), hexDigit (x.toNat % 16)]))

def at_ (s : Str) : String := "@" ++ String.ofList s

def showOut (tag : String) : Out → String
  | .ok => "ok"
  | .code c => tag ++ " " ++ toString c
  | .openFail => tag ++ " fail"
  | .unmodelled => tag ++ " unmodelled"
  | .opened cs =>
    let hs := (cs.map hex).toArray.qsort (· < ·) |>.toList.eraseDups
    match hs with
    | [h] => tag ++ " ok " ++ h
    | _ => tag ++ " any " ++ " ".intercalate hs

def apply (s : DState) (tag : String) (op : Op) : DState × String :=
  let r := step s.env s.tbl op
  ({ s with tbl := r.2 }, showOut tag r.1)

def dstep (s : DState) (line : String) : DState × String :=
  match words line with
  | ["mode", "raw"] => ({ s with env := { s.env with normContains := false } }, "ok")
  | ["mode", "norm"] => ({ s with env := { s.env with normContains := true } }, "ok")
  | ["mode", "loop"] => ({ s with env := { s.env with exactFirst := false } }, "ok")
  | ["mode", "exact"] => ({ s with env := { s.env with exactFirst := true } }, "ok")
  | ["fs", p, k] =>
    match tokS p with
    | some p =>
      let ent : Option DiskEntry :=
        if k == "none" then some .absent
        else if k == "dir" then some .dir
        else if k.startsWith "file:" then (unhex (k.drop 5).toString).map .file
        else none
      match ent with
      | some d => ({ s with env := { s.env with disk := (p, d) :: s.env.disk } }, "ok")
      | none => (s, "bad-op")
    | none => (s, "bad-op")
  | ["provcount"] => (s, "provcount 0")
  | ["reset"] => apply s "reset" .reset
  | ["add", n, b] =>
    match tokS n, unhex b with
    | some n, some b => apply s "add" (.addBuf n b)
    | _, _ => (s, "bad-op")
  | ["addfile", d, f] =>
    match tokStr d, tokS f with
    | some d, some f => apply s "addfile" (.addFile d f)
    | _, _ => (s, "bad-op")
  | ["del", n] =>
    match tokStr n with
    | some n => apply s "del" (.del n)
    | none => (s, "bad-op")
  | ["has", n] =>
    match tokStr n with
    | some n => apply s "has" (.has n)
    | none => (s, "bad-op")
  | ["hasfile", d, f] =>
    match tokStr d, tokStr f with
    | some d, some f => apply s "hasfile" (.hasFile d f)
    | _, _ => (s, "bad-op")
  | ["open", d, n] =>
    match tokStr d, tokS n with
    | some d, some n => apply s "open" (.openRead d n)
    | _, _ => (s, "bad-op")
  | ["path", d, n] =>
    match tokStr d, tokS n with
    | some d, some n =>
      let p := match d with
        | none => fp1 n
        | some d => reduce (combine d n)
      (s, "path " ++ at_ p ++ " " ++ at_ (absPrefix p) ++ " " ++ at_ (stripPath p) ++ " " ++
          at_ (lower (stripPath p)) ++ " " ++ at_ (lower p))
    | _, _ => (s, "bad-op")
  | _ => (s, "bad-op")

def main : IO Unit := runStateful ({} : DState) dstep
