import MjProof.Model.BadCheck
import MjProof.Gen.Pipeline
import MjProof.Gen.C30Scans
import MjProof.Gen.Kernels
import Drivers.Common
/-
Line protocol (same as harness/c/c30_check.c):
  isbad <bits>
      -> 0 | 1     the generated kernel `Gen.mju_isBad` on Float; `model-mismatch ...` if the value-class model
                   `FloatClass.isBad (classify x)` disagrees with it
  check <pos|vel|acc> <autoreset> <sleep> <number0> n <n> vec <bits>*n vec0 <bits>*n awake <k> <idx>*k
      -> <number> <lastinfo> <reset> <forward> <vec bits>*n | ... fwd
         obtained by RUNNING THE GENERATED SKELETON `Gen.Pipeline.mj_check*` under `BadCheck.sem` (with the
         generated `mju_isBad` on Float as the predicate); `model-mismatch` if the hand model `BadCheck.check`
         gives a different slice, `junk` / `outcome` if the run executed an unknown atom or did not end normally
  ctrlscan <clampoff> <number0> k <K> <kind>*K nu <nu> lim (<limited> <lo bits> <hi bits>)*nu ctrl <bits>*nu
      -> <number> <lastinfo> <local ctrl bits>*nu
         the control validation of mj_fwdActuation for K actuators whose control blocks have 1 (`i`), 3 (`s`) or 0 (`z`)
         entries (so nu ≠ K in general): per-slot clamp with the generated `mju_clip`, then the scan of the GENERATED
         site (`Gen.C30Scans.sites`, array `local ctrl`) with its bound / zeroed count evaluated at m->nu = nu,
         m->nactuator = K; `no-site`, `unknown-size <expr>` or `oob` if the table has no such site, bounds the loop by
         an expression the driver has no value for, or reads past the array
-/
open MjProof MjProof.Driver MjProof.BadCheck MjProof.Prog

def isBadF (x : Float) : Bool := Gen.mju_isBad x == 1

def parseBits (ts : List String) : Option (List Float) := ts.mapM floatOfBits?

def bit? (s : String) : Option Bool := if s == "1" then some true else if s == "0" then some false else none

def which? (s : String) : Option (Which × String × Prog) :=
  if s == "pos" then some (.pos, "mj_checkPos", Gen.Pipeline.mj_checkPos)
  else if s == "vel" then some (.vel, "mj_checkVel", Gen.Pipeline.mj_checkVel)
  else if s == "acc" then some (.acc, "mj_checkAcc", Gen.Pipeline.mj_checkAcc)
  else none

def toFins (n : Nat) (l : List Nat) : Option (List (Fin n)) := l.mapM (fin? n)

def showDat {n : Nat} (d : Dat Float n) (r0 f0 : Nat) : String :=
  let head := s!"{d.number} {d.lastinfo} {d.resets - r0} {d.forwards - f0}"
  if d.forwards > f0 then head ++ " fwd" else head ++ String.join (d.vec.toList.map (fun x => " " ++ floatBits x))

def sameDat {n : Nat} (a b : Dat Float n) : Bool :=
  a.number == b.number && a.lastinfo == b.lastinfo && a.resets == b.resets && a.forwards == b.forwards &&
  (a.vec.toList.map floatBits) == (b.vec.toList.map floatBits)

def runCheck (w : Which) (name : String) (p : Prog) (autoreset sleep : Bool) (number0 : Nat)
    (vec vec0 : List Float) (awake : List Nat) : String :=
  let n := vec.length
  if h0 : vec0.length = n then
    match toFins n awake with
    | none => "bad-op"
    | some aw =>
      let c : Cfg Float n := { isBad := isBadF, vec0 := ⟨vec0.toArray, by simpa using h0⟩, fwd := id,
                               autoreset := autoreset, enblSleep := sleep, awake := aw }
      let d : Dat Float n := { vec := ⟨vec.toArray, by simp [n]⟩, number := number0, lastinfo := 0, resets := 0, forwards := 0 }
      let r := run (n + 1) (menv c) (sem w c) [] (.scope name [] p) (start d)
      if r.1 != .norm then "outcome"
      else if r.2.junk then "junk"
      else if !sameDat r.2.d (check w c d) then "model-mismatch " ++ showDat (check w c d) 0 0
      else showDat r.2.d 0 0
  else "bad-op"

def slotsOf (k : String) : Option Nat :=
  if k == "i" then some 1 else if k == "s" then some 3 else if k == "z" then some 0 else none

/-- (limited, lo, hi) triples -/
def parseLims : List String → Option (List (Bool × Float × Float))
  | [] => some []
  | l :: lo :: hi :: rest =>
    match bit? l, floatOfBits? lo, floatOfBits? hi, parseLims rest with
    | some l, some lo, some hi, some r => some ((l, lo, hi) :: r)
    | _, _, _, _ => none
  | _ => none

def runCtrlScan (clampoff : Bool) (number0 K nu : Nat) (lims : List (Bool × Float × Float)) (ctrl : List Float) : String :=
  match Gen.C30Scans.sites.find? (fun s => s.array == "local ctrl") with
  | none => "no-site"
  | some site =>
    let known := ["m->nu", "m->nactuator"]
    let used := [site.bound] ++ (match site.zeroCount with | some z => [z] | none => [])
    match used.find? (fun t => !known.contains t) with
    | some t => "unknown-size " ++ t
    | none =>
      let sz : Sizes := fun t => if t == "m->nu" then nu else if t == "m->nactuator" then K else 0
      -- clampVec(ctrl, ctrlrange, ctrllimited, nu, NULL) unless mjDSBL_CLAMPCTRL
      let clamped := (ctrl.zip lims).map (fun (x, (l, lo, hi)) => if l && !clampoff then Gen.mju_clip x lo hi else x)
      let r := site.runCtrl sz isBadF 0.0 clamped
      if r.oob then "oob"
      else
        let (number, info) := match r.fired with | some i => (number0 + 1, i) | none => (number0, 0)
        s!"{number} {info}" ++ String.join (r.ctrl.map (fun x => " " ++ floatBits x))

def step (line : String) : String :=
  match words line with
  | "ctrlscan" :: co :: n0 :: "k" :: ks :: rest =>
    match bit? co, n0.toNat?, ks.toNat? with
    | some co, some n0, some K =>
      let kinds := rest.take K
      match rest.drop K with
      | "nu" :: nus :: "lim" :: rest2 =>
        match nus.toNat?, kinds.mapM slotsOf with
        | some nu, some slots =>
          let limT := rest2.take (3 * nu)
          match rest2.drop (3 * nu) with
          | "ctrl" :: cT =>
            match parseLims limT, parseBits cT with
            | some lims, some ctrl =>
              if kinds.length ≠ K || slots.foldl (· + ·) 0 ≠ nu || lims.length ≠ nu || ctrl.length ≠ nu || K = 0 || K > 8 then "bad-op"
              else runCtrlScan co n0 K nu lims ctrl
            | _, _ => "bad-op"
          | _ => "bad-op"
        | _, _ => "bad-op"
      | _ => "bad-op"
    | _, _, _ => "bad-op"
  | ["isbad", b] =>
    match floatOfBits? b with
    | some x =>
      let g := Gen.mju_isBad x
      let fc := (classify x).isBad
      if (g == 1) != fc || (g != 0 && g != 1) then s!"model-mismatch gen {g} class {fc}" else toString g
    | none => "bad-op"
  | "check" :: w :: ar :: sl :: n0 :: "n" :: ns :: "vec" :: rest =>
    match which? w, bit? ar, bit? sl, n0.toNat?, ns.toNat? with
    | some (w, name, p), some ar, some sl, some n0, some n =>
      let vecT := rest.take n
      let rest := rest.drop n
      match rest with
      | "vec0" :: rest =>
        let vec0T := rest.take n
        match rest.drop n with
        | "awake" :: ks :: idx =>
          match parseBits vecT, parseBits vec0T, ks.toNat?, idx.mapM String.toNat? with
          | some vec, some vec0, some k, some idx =>
            if vec.length ≠ n || vec0.length ≠ n || idx.length ≠ k || k > n || n = 0 || n > 64 then "bad-op"
            else runCheck w name p ar sl n0 vec vec0 idx
          | _, _, _, _ => "bad-op"
        | _ => "bad-op"
      | _ => "bad-op"
    | _, _, _, _, _ => "bad-op"
  | _ => "bad-op"

def main : IO Unit := runStateless step
