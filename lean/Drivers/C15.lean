import MjProof.Model.Support
import Drivers.Common
/-
Line protocol of the C15 model (doubles are the 16 hex digits of their IEEE bits, `nan` for NaN).
A geom `<G>` is `<kind> s0 s1 s2 p0 p1 p2 m0 .. m8` with kind ∈ sphere capsule ellipsoid cylinder box point line.

  supp <G> d0 d1 d2                         -> `r0 r1 r2 <vertindex>`       (obj->support(res, obj, dir))
  msupp nv v0x v0y v0z ... p0 p1 p2 m0..m8 d0 d1 d2 <cached>
                                            -> `r0 r1 r2 <vertindex>`       (mjc_meshSupport, exhaustive)
  sep <G_A> <G_B> x1[3] x2[3] w[3] dist k tol
                                            -> `<ok|fail> <memA> <memB> <len> <slack> <bound>`   (sepOK / sepCert)
  seplo <G_A> <G_B> w[3] lo                 -> `<ok|fail> <-overlapAlong A B w>`                 (sepLowerOK)
  pend <G_A> <G_B> w[3] dist tol            -> `<ok|fail> <overlapAlong A B w>`                  (penDepthOK)
  pen <G_A> <G_B> x1[3] x2[3] w[3] dist k tol
                                            -> `<ok|fail> <memA> <memB> <len> <slack> <bound>`   (penOK / penCert)
  over <G_A> <G_B> w[3]                     -> `<overlapAlong A B w>`
  ball <G_A> <G_B> c[3] rho                 -> `<ok|fail> <ballIn A> <ballIn B>`                 (innerBallOK)
Malformed lines are answered with `bad-op`.
-/
open MjProof MjProof.Driver MjProof.Support

def kind? (s : String) : Option Kind :=
  match s with
  | "sphere" => some .sphere
  | "capsule" => some .capsule
  | "ellipsoid" => some .ellipsoid
  | "cylinder" => some .cylinder
  | "box" => some .box
  | "point" => some .point
  | "line" => some .line
  | _ => none

/-- read `n` doubles off the front of the token list -/
def floats? : Nat → List String → Option (List Float × List String)
  | 0, ws => some ([], ws)
  | n + 1, w :: ws =>
    match floatOfBits? w, floats? n ws with
    | some x, some (xs, rest) => some (x :: xs, rest)
    | _, _ => none
  | _ + 1, [] => none

def v3? (ws : List String) : Option (V3 Float × List String) :=
  match floats? 3 ws with
  | some ([a, b, c], rest) => some (⟨a, b, c⟩, rest)
  | _ => none

def m3? (ws : List String) : Option (M3 Float × List String) :=
  match floats? 9 ws with
  | some ([a, b, c, d, e, f, g, h, i], rest) => some (⟨a, b, c, d, e, f, g, h, i⟩, rest)
  | _ => none

def geom? (ws : List String) : Option (Geom Float × List String) :=
  match ws with
  | k :: ws =>
    match kind? k with
    | some k =>
      match v3? ws with
      | some (size, ws) =>
        match v3? ws with
        | some (pos, ws) =>
          match m3? ws with
          | some (mat, ws) => some ({ kind := k, size := size, pos := pos, mat := mat }, ws)
          | none => none
        | none => none
      | none => none
    | none => none
  | [] => none

def showV (v : V3 Float) : String := floatBits v.x ++ " " ++ floatBits v.y ++ " " ++ floatBits v.z
def b01 (b : Bool) : String := if b then "1" else "0"
def showCert (ok : Bool) (c : Cert Float) : String :=
  (if ok then "ok " else "fail ") ++ b01 c.memA ++ " " ++ b01 c.memB ++ " " ++ floatBits c.len ++ " " ++
    floatBits c.slack ++ " " ++ floatBits c.bound

/-- `n` vertices (3 doubles each) -/
def verts? : Nat → List String → Option (List (V3 Float) × List String)
  | 0, ws => some ([], ws)
  | n + 1, ws =>
    match v3? ws with
    | some (v, ws) =>
      match verts? n ws with
      | some (vs, rest) => some (v :: vs, rest)
      | none => none
    | none => none

def step (line : String) : String :=
  match words line with
  | "supp" :: ws =>
    match geom? ws with
    | some (g, ws) =>
      match v3? ws with
      | some (d, []) => showV (support g d) ++ " " ++ toString (supportVertIndex g d)
      | _ => "bad-op"
    | none => "bad-op"
  | "msupp" :: nv :: ws =>
    match nv.toNat? with
    | some nv =>
      if nv < 1 ∨ nv > 1000 then "bad-op" else
      match verts? nv ws with
      | some (vs, ws) =>
        match v3? ws with
        | some (pos, ws) =>
          match m3? ws with
          | some (mat, ws) =>
            match v3? ws with
            | some (d, [c]) =>
              let cached : Option (Option Nat) :=
                if c == "-1" then some none else
                match c.toNat? with
                | some c => if c < nv then some (some c) else none
                | none => none
              match cached with
              | some cached =>
                match meshSupport vs mat pos cached d with
                | some (r, i) => showV r ++ " " ++ toString i
                | none => "bad-op"
              | none => "bad-op"
            | _ => "bad-op"
          | none => "bad-op"
        | none => "bad-op"
      | none => "bad-op"
    | none => "bad-op"
  | "sep" :: ws =>
    match geom? ws with
    | some (a, ws) =>
      match geom? ws with
      | some (b, ws) =>
        match floats? 12 ws with
        | some ([a0, a1, a2, b0, b1, b2, w0, w1, w2, dist, k, tol], []) =>
          let x1 : V3 Float := ⟨a0, a1, a2⟩
          let x2 : V3 Float := ⟨b0, b1, b2⟩
          let w : V3 Float := ⟨w0, w1, w2⟩
          showCert (sepOK a b x1 x2 w dist k tol) (sepCert a b x1 x2 w k)
        | _ => "bad-op"
      | none => "bad-op"
    | none => "bad-op"
  | "seplo" :: ws =>
    match geom? ws with
    | some (a, ws) =>
      match geom? ws with
      | some (b, ws) =>
        match floats? 4 ws with
        | some ([w0, w1, w2, lo], []) =>
          let w : V3 Float := ⟨w0, w1, w2⟩
          (if sepLowerOK a b w lo then "ok " else "fail ") ++ floatBits (-(overlapAlong a b w))
        | _ => "bad-op"
      | none => "bad-op"
    | none => "bad-op"
  | "pend" :: ws =>
    match geom? ws with
    | some (a, ws) =>
      match geom? ws with
      | some (b, ws) =>
        match floats? 5 ws with
        | some ([w0, w1, w2, dist, tol], []) =>
          let w : V3 Float := ⟨w0, w1, w2⟩
          (if penDepthOK a b w dist tol then "ok " else "fail ") ++ floatBits (overlapAlong a b w)
        | _ => "bad-op"
      | none => "bad-op"
    | none => "bad-op"
  | "pen" :: ws =>
    match geom? ws with
    | some (a, ws) =>
      match geom? ws with
      | some (b, ws) =>
        match floats? 12 ws with
        | some ([a0, a1, a2, b0, b1, b2, w0, w1, w2, dist, k, tol], []) =>
          let x1 : V3 Float := ⟨a0, a1, a2⟩
          let x2 : V3 Float := ⟨b0, b1, b2⟩
          let w : V3 Float := ⟨w0, w1, w2⟩
          showCert (penOK a b x1 x2 w dist k tol) (penCert a b x1 x2 w k)
        | _ => "bad-op"
      | none => "bad-op"
    | none => "bad-op"
  | "over" :: ws =>
    match geom? ws with
    | some (a, ws) =>
      match geom? ws with
      | some (b, ws) =>
        match v3? ws with
        | some (w, []) => floatBits (overlapAlong a b w)
        | _ => "bad-op"
      | none => "bad-op"
    | none => "bad-op"
  | "ball" :: ws =>
    match geom? ws with
    | some (a, ws) =>
      match geom? ws with
      | some (b, ws) =>
        match floats? 4 ws with
        | some ([c0, c1, c2, rho], []) =>
          let c : V3 Float := ⟨c0, c1, c2⟩
          (if innerBallOK a b c rho then "ok " else "fail ") ++ b01 (ballIn a c rho) ++ " " ++ b01 (ballIn b c rho)
        | _ => "bad-op"
      | none => "bad-op"
    | none => "bad-op"
  | _ => "bad-op"

def main : IO Unit := runStateless step
