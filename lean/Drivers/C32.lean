import MjProof.Model.XmlDefaults
import MjProof.Gen.McjfDefaults
import Drivers.Common
/-
Line protocol of the C32 model driver (table-level writer/reader of Model/XmlDefaults.lean on the generated tables).

  tables                       -> "tables <n> <names...>"
  w <table> D <assign>* A <assign>* B <assign>* [# ...]
       D: the constructor default of every numeric / keyword row:   attr k tok_1 .. tok_k
          numeric token  x<16 hex digits>  (bits of the double; float fields hold float values)
          keyword field  c<int>            (the integer code)
       A: attributes of the element in the top-level <default> class (as the reader sees them):
          attr k tok_1 .. tok_k  with numeric tokens x<bits> or one keyword token w<word>
       B: attributes of the element instance
     -> "ok D <attr=tok,tok;...> E <attr=tok,...;...>"   what WriteAttrTable puts on the default-class element (compared with
        the constructor default, writingdefaults) and on the instance (compared with the class);  "err <message>"
  Everything from a "#" token on is ignored (the implementation side reads the document there).
-/
open MjProof MjProof.Driver MjProof.XmlDefaults

def hexVal (c : Char) : Option Nat :=
  if c.isDigit then some (c.toNat - '0'.toNat)
  else if 'a' ≤ c ∧ c ≤ 'f' then some (c.toNat - 'a'.toNat + 10) else none

def parseBits (s : String) : Option Float :=
  let cs := s.toList
  if cs.length != 16 then none else
  (cs.foldlM (fun (acc : Nat) c => (hexVal c).map (acc * 16 + ·)) 0).map fun n => Float.ofBits n.toUInt64

def hexOf (n : Nat) (digits : Nat) : String :=
  String.ofList ((List.range digits).reverse.map fun i =>
    let d := (n >>> (4 * i)) % 16
    if d < 10 then Char.ofNat ('0'.toNat + d) else Char.ofNat ('a'.toNat + d - 10))

def showFloat (x : Float) : String := "x" ++ hexOf x.toBits.toNat 16

/-- one assignment `attr k tok*`; returns (attr, tokens, rest) -/
def takeAssign : List String → Option (String × List String × List String)
  | attr :: k :: rest =>
    match k.toNat? with
    | some k => if rest.length < k then none else some (attr, rest.take k, rest.drop k)
    | none => none
  | _ => none

/-- assignments up to the next section marker -/
def parseSection (stop : List String) : (fuel : Nat) → List String → List (String × List String) →
    Option (List (String × List String) × List String)
  | 0, _, _ => none
  | fuel + 1, toks, acc =>
    match toks with
    | [] => some (acc.reverse, [])
    | t :: _ =>
      if stop.contains t then some (acc.reverse, toks) else
      match takeAssign toks with
      | some (a, ts, rest) => parseSection stop fuel rest ((a, ts) :: acc)
      | none => none

def numToks (ts : List String) : Option (List Float) :=
  ts.mapM fun t => if t.startsWith "x" then parseBits (t.drop 1).toString else none

def defaultOf (r : Row) (D : List (String × List String)) : Option (Val Float) :=
  match D.find? (·.1 == r.attr) with
  | none => if r.kind.isNum || r.kind.isKey then none else some .opaque
  | some (_, ts) =>
    if r.kind.isNum then (numToks ts).map .vec
    else if r.kind.isKey then
      match ts with
      | [t] => if t.startsWith "c" then ((t.drop 1).toString.toInt?).map .code else none
      | _ => none
    else some .opaque

def xmlOf (rows : List Row) (A : List (String × List String)) : Option (List (String × Tok Float)) :=
  A.mapM fun (a, ts) =>
    match rows.find? (·.attr == a) with
    | none => none
    | some r =>
      if r.kind.isNum then (numToks ts).map fun xs => (a, Tok.nums xs)
      else match ts with
        | [t] => if t.startsWith "w" then some (a, Tok.word (t.drop 1).toString) else none
        | _ => none

def showTok : Tok Float → String
  | .nums xs => ",".intercalate (xs.map showFloat)
  | .word s => "w" ++ s

def showXml (l : List (String × Tok Float)) : String :=
  if l.isEmpty then "-" else ";".intercalate (l.map fun (a, t) => a ++ "=" ++ showTok t)

def step (line : String) : String :=
  match (words line).takeWhile (· != "#") with
  | ["tables"] =>
    let ts := Gen.McjfDefaults.tables
    s!"tables {ts.length} " ++ " ".intercalate (ts.map (·.1))
  | "w" :: table :: "D" :: rest =>
    match Gen.McjfDefaults.tables.find? (·.1 == table) with
    | none => "bad-op"
    | some (_, rows) =>
      match parseSection ["A"] (rest.length + 1) rest [] with
      | some (D, "A" :: rest2) =>
        match parseSection ["B"] (rest2.length + 1) rest2 [] with
        | some (A, "B" :: rest3) =>
          match parseSection [] (rest3.length + 1) rest3 [] with
          | some (B, []) =>
            match rows.mapM (fun r => defaultOf r D), xmlOf rows A, xmlOf rows B with
            | some def0, some xa, some xb =>
              match readElem true xa rows def0 with
              | .error e => "err default-class: " ++ e
              | .ok cls =>
                match readElem false xb rows cls with
                | .error e => "err element: " ++ e
                | .ok obj =>
                  let w1 := writeElem scalarOf true rows cls def0
                  let w2 := writeElem scalarOf false rows obj cls
                  "ok D " ++ showXml w1 ++ " E " ++ showXml w2
            | _, _, _ => "bad-op"
          | _ => "bad-op"
        | _ => "bad-op"
      | _ => "bad-op"
  | _ => "bad-op"

def main : IO Unit := runStateless step
