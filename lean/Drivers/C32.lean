import MjProof.Model.XmlDefaults
import MjProof.Model.XmlInertial
import MjProof.Model.XmlArity
import MjProof.Gen.McjfDefaults
import Drivers.Common
/-
Line protocol of the C32 model driver (table-level writer/reader of Model/XmlDefaults.lean on the generated tables).

  tables                       -> "tables <n> <names...>"
  w <table> D <assign>* A <assign>* B <assign>* [# ...]
       D: the constructor default of every numeric / keyword row:   attr k tok_1 .. tok_k
          numeric token  x<16 hex digits>  (bits of the double; float fields hold float values)
          keyword field  c<int>            (the integer code)
       A: attributes of the element in the top-level <default> class (as the reader sees them):
          attr k tok_1 .. tok_k  with numeric tokens x<bits> or one keyword token w<word>
       B: attributes of the element instance
     -> "ok D <attr=tok,tok;...> E <attr=tok,...;...>"   what WriteAttrTable puts on the default-class element (compared with
        the constructor default, writingdefaults) and on the instance (compared with the class);  "err <message>"
  i <no|yes|auto> <discardvisual 0|1> <saveinertial 0|1> <glo> <ghi> (B <explicit 0|1> <spec mass x<bits>>
        (G <id> <visual 0|1> <group> <mass x<bits>> <has a mass attribute 0|1>)* )* [# ...]
     the inertia-source model of Model/XmlInertial.lean on IEEE doubles (`add` = the C `+`, `heavy x` = `x > 1e-14`):
     -> "ok C - B <written 0|1>:<ids of the geoms kept, joined by +, or ->:<compiled mass x<bits>>:<reloaded mass x<bits>> B ..."
        `C -`: none of inertiafromgeom / discardvisual / inertiagrouprange / saveinertial is written by mjXWriter::Compiler
  c <same arguments as i>
     -> "ok <k_1> <k_2> ..."  per body the value of `unsafeClass` (0 = covered by inertial_roundtrip, 1..4 = the recorded
        classes on which the tree loses the mass); used by the oracle only, masses may be approximate (only `> 1e-14` matters)
  s <t0> <t1> <d0> <d1> [# ...]     (x<bits> tokens) the variable-arity springlength writer of Model/XmlArity.lean: tendon pair
        (t0, t1), default-class pair (d0, d1)  -> "ok -" (attribute not written) | "ok x<bits>[,x<bits>]" (the values printed)
  Everything from a "#" token on is ignored (the implementation side reads the document there).
-/
open MjProof MjProof.Driver MjProof.XmlDefaults

def hexVal (c : Char) : Option Nat :=
  if c.isDigit then some (c.toNat - '0'.toNat)
  else if 'a' ≤ c ∧ c ≤ 'f' then some (c.toNat - 'a'.toNat + 10) else none

def parseBits (s : String) : Option Float :=
  let cs := s.toList
  if cs.length != 16 then none else
  (cs.foldlM (fun (acc : Nat) c => (hexVal c).map (acc * 16 + ·)) 0).map fun n => Float.ofBits n.toUInt64

def hexOf (n : Nat) (digits : Nat) : String :=
  String.ofList ((List.range digits).reverse.map fun i =>
    let d := (n >>> (4 * i)) % 16
    if d < 10 then Char.ofNat ('0'.toNat + d) else Char.ofNat ('a'.toNat + d - 10))

def showFloat (x : Float) : String := "x" ++ hexOf x.toBits.toNat 16

/-- one assignment `attr k tok*`; returns (attr, tokens, rest) -/
def takeAssign : List String → Option (String × List String × List String)
  | attr :: k :: rest =>
    match k.toNat? with
    | some k => if rest.length < k then none else some (attr, rest.take k, rest.drop k)
    | none => none
  | _ => none

/-- assignments up to the next section marker -/
def parseSection (stop : List String) : (fuel : Nat) → List String → List (String × List String) →
    Option (List (String × List String) × List String)
  | 0, _, _ => none
  | fuel + 1, toks, acc =>
    match toks with
    | [] => some (acc.reverse, [])
    | t :: _ =>
      if stop.contains t then some (acc.reverse, toks) else
      match takeAssign toks with
      | some (a, ts, rest) => parseSection stop fuel rest ((a, ts) :: acc)
      | none => none

def numToks (ts : List String) : Option (List Float) :=
  ts.mapM fun t => if t.startsWith "x" then parseBits (t.drop 1).toString else none

def defaultOf (r : Row) (D : List (String × List String)) : Option (Val Float) :=
  match D.find? (·.1 == r.attr) with
  | none => if r.kind.isNum || r.kind.isKey then none else some .opaque
  | some (_, ts) =>
    if r.kind.isNum then (numToks ts).map .vec
    else if r.kind.isKey then
      match ts with
      | [t] => if t.startsWith "c" then ((t.drop 1).toString.toInt?).map .code else none
      | _ => none
    else some .opaque

def xmlOf (rows : List Row) (A : List (String × List String)) : Option (List (String × Tok Float)) :=
  A.mapM fun (a, ts) =>
    match rows.find? (·.attr == a) with
    | none => none
    | some r =>
      if r.kind.isNum then (numToks ts).map fun xs => (a, Tok.nums xs)
      else match ts with
        | [t] => if t.startsWith "w" then some (a, Tok.word (t.drop 1).toString) else none
        | _ => none

def showTok : Tok Float → String
  | .nums xs => ",".intercalate (xs.map showFloat)
  | .word s => "w" ++ s

def showXml (l : List (String × Tok Float)) : String :=
  if l.isEmpty then "-" else ";".intercalate (l.map fun (a, t) => a ++ "=" ++ showTok t)

/-! ### inertia-source model -/
open MjProof.XmlInertial in
def floatAlg : Alg Float := { add := (· + ·), zero := 0.0, heavy := fun x => x > 1e-14 }

def parseFlag (s : String) : Option Bool :=
  if s == "0" then some false else if s == "1" then some true else none

def parseX (t : String) : Option Float :=
  if t.startsWith "x" then parseBits (t.drop 1).toString else none

open MjProof.XmlInertial in
/-- geoms of one body: `G id visual group mass massAttr` repeated; returns the geoms and the remaining tokens -/
def parseGeoms : (fuel : Nat) → List String → List (Geom Float) → Option (List (Geom Float) × List String)
  | 0, _, _ => none
  | fuel + 1, toks, acc =>
    match toks with
    | "G" :: id :: vis :: grp :: m :: ma :: rest =>
      match id.toNat?, parseFlag vis, grp.toInt?, parseX m, parseFlag ma with
      | some id, some vis, some grp, some m, some ma =>
        parseGeoms fuel rest ({ id, visual := vis, group := grp, m, massAttr := ma } :: acc)
      | _, _, _, _, _ => none
    | _ => some (acc.reverse, toks)

open MjProof.XmlInertial in
def parseBodies : (fuel : Nat) → List String → List (Body Float) → Option (List (Body Float))
  | 0, _, _ => none
  | fuel + 1, toks, acc =>
    match toks with
    | [] => some acc.reverse
    | "B" :: ex :: em :: rest =>
      match parseFlag ex, parseX em with
      | some ex, some em =>
        match parseGeoms (rest.length + 1) rest [] with
        | some (gs, rest2) => parseBodies fuel rest2 ({ explicit := ex, emass := em, geoms := gs } :: acc)
        | none => none
      | _, _ => none
    | _ => none

open MjProof.XmlInertial in
def inertialStep (cls : Bool) (ifg dv si glo ghi : String) (rest : List String) : String :=
  let ifg? : Option IFG := if ifg == "no" then some .no else if ifg == "yes" then some .yes
    else if ifg == "auto" then some .auto else none
  match ifg?, parseFlag dv, parseFlag si, glo.toInt?, ghi.toInt?, parseBodies (rest.length + 1) rest [] with
  | some ifg, some dv, some si, some glo, some ghi, some bs =>
    let c : Comp := { ifg, discard := dv, saveinertial := si, glo, ghi }
    if cls then "ok" ++ String.join (bs.map fun b => " " ++ toString (unsafeClass floatAlg c bs b)) else
    let parts := bs.map fun b =>
      let s := saveBody floatAlg c bs b
      let ids := if s.geoms.isEmpty then "-" else "+".intercalate (s.geoms.map fun g => toString g.id)
      s!"B {if s.inertial.isSome then 1 else 0}:{ids}:{showFloat (mass floatAlg c b)}:{showFloat (rtMass floatAlg c bs b)}"
    "ok C -" ++ String.join (parts.map (" " ++ ·))
  | _, _, _, _, _, _ => "bad-op"

def springStep (a b c d : String) : String :=
  match parseX a, parseX b, parseX c, parseX d with
  | some t0, some t1, some d0, some d1 =>
    match MjProof.XmlArity.writeSpring doubleScalar (t0, t1) (d0, d1) with
    | none => "ok -"
    | some xs => "ok " ++ ",".intercalate (xs.map showFloat)
  | _, _, _, _ => "bad-op"

def step (line : String) : String :=
  match (words line).takeWhile (· != "#") with
  | ["tables"] =>
    let ts := Gen.McjfDefaults.tables
    s!"tables {ts.length} " ++ " ".intercalate (ts.map (·.1))
  | ["s", a, b, c, d] => springStep a b c d
  | "i" :: ifg :: dv :: si :: glo :: ghi :: rest => inertialStep false ifg dv si glo ghi rest
  | "c" :: ifg :: dv :: si :: glo :: ghi :: rest => inertialStep true ifg dv si glo ghi rest
  | "w" :: table :: "D" :: rest =>
    match Gen.McjfDefaults.tables.find? (·.1 == table) with
    | none => "bad-op"
    | some (_, rows) =>
      match parseSection ["A"] (rest.length + 1) rest [] with
      | some (D, "A" :: rest2) =>
        match parseSection ["B"] (rest2.length + 1) rest2 [] with
        | some (A, "B" :: rest3) =>
          match parseSection [] (rest3.length + 1) rest3 [] with
          | some (B, []) =>
            match rows.mapM (fun r => defaultOf r D), xmlOf rows A, xmlOf rows B with
            | some def0, some xa, some xb =>
              match readElem true xa rows def0 with
              | .error e => "err default-class: " ++ e
              | .ok cls =>
                match readElem false xb rows cls with
                | .error e => "err element: " ++ e
                | .ok obj =>
                  let w1 := writeElem scalarOf true rows cls def0
                  let w2 := writeElem scalarOf false rows obj cls
                  "ok D " ++ showXml w1 ++ " E " ++ showXml w2
            | _, _, _ => "bad-op"
          | _ => "bad-op"
        | _ => "bad-op"
      | _ => "bad-op"
  | _ => "bad-op"

def main : IO Unit := runStateless step
