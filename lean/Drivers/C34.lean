import MjProof.Model.Name
import Drivers.Common
/-
Line protocol (stateful; same as harness/c/c34_name.c):
  model <spec, ignored here> | M=<hex|-> <name_*adr field>=<hex|->,<hex|->,... ...
        names of each object list in id order -> "ok nnames_map=<n> map=<ints> names=<hex> <field>:<count>:<adrs> ..."
  q <objtype> <hex|->     -> mj_name2id on the current model
  i <objtype> <id>        -> mj_id2name on the current model: "null" or hex
  h <hex|-> <n>           -> mj_hashString(s, n), n > 0
The object-type orders, mjLOAD_MULTIPLE and the hash constants come from the generated MjProof/Gen/NameOrder.lean.
-/
open MjProof MjProof.Driver MjProof.Name

namespace C34

def nibble (c : Char) : Option Nat :=
  if '0' ≤ c ∧ c ≤ '9' then some (c.toNat - '0'.toNat)
  else if 'a' ≤ c ∧ c ≤ 'f' then some (c.toNat - 'a'.toNat + 10)
  else none

def unhexList : List Char → Option Bytes
  | [] => some []
  | [_] => none
  | a :: b :: rest =>
    match nibble a, nibble b, unhexList rest with
    | some x, some y, some r => if x * 16 + y = 0 then none else some (UInt8.ofNat (x * 16 + y) :: r)
    | _, _, _ => none

/-- hex string (or "-" for the empty string); NUL bytes are rejected -/
def unhex (s : String) : Option Bytes :=
  if s = "-" then some [] else if s = "" then none else unhexList s.toList

def hexDigit (n : Nat) : Char := if n < 10 then Char.ofNat (48 + n) else Char.ofNat (87 + n)

def hex (b : Bytes) : String :=
  if b = [] then "-" else String.ofList (b.flatMap fun c => [hexDigit (c.toNat / 16), hexDigit (c.toNat % 16)])

def joinOrDash (l : List String) : String := if l = [] then "-" else ",".intercalate l

def fieldId (name : String) : Option Nat :=
  let rec go : List String → Nat → Option Nat
    | [], _ => none
    | f :: fs, k => if f = name then some k else go fs (k + 1)
  go Gen.NameOrder.fieldNames 0

/-- parse `name=hex,hex,...` tokens into (model name, per-field lists) -/
def parseLists : List String → Option Bytes → List (Nat × List Bytes) → Option (Bytes × List (Nat × List Bytes))
  | [], some mn, acc => some (mn, acc)
  | [], none, _ => none
  | tok :: rest, mn, acc =>
    match tok.splitOn "=" with
    | [k, v] =>
      if k = "M" then
        match mn, unhex v with
        | none, some b => parseLists rest (some b) acc
        | _, _ => none
      else
        match fieldId k, (v.splitOn ",").mapM unhex with
        | some f, some l => if acc.any (·.1 = f) then none else parseLists rest mn ((f, l) :: acc)
        | _, _ => none
    | _ => none

def listsOf (acc : List (Nat × List Bytes)) (f : Nat) : List Bytes :=
  match acc.find? (·.1 = f) with
  | some (_, l) => l
  | none => []

def dump (m : CModel) : String :=
  let fields := (List.range Gen.NameOrder.fieldNames.length).zip Gen.NameOrder.fieldNames
  "ok nnames_map=" ++ toString m.nnames_map ++ " map=" ++ joinOrDash (m.names_map.map toString) ++
  " names=" ++ hex m.names ++
  String.join (fields.map fun (f, nm) =>
    " " ++ nm ++ ":" ++ toString (m.cnt f) ++ ":" ++ joinOrDash ((m.adr f).map toString))

def step (st : Option CModel) (line : String) : Option CModel × String :=
  match words line with
  | "model" :: _ =>
    match line.splitOn "|" with
    | [_, ord] =>
      match parseLists (words ord) none [] with
      | some (mn, acc) =>
        match Tree.build mn (listsOf acc) with
        | some m => (some m, dump m)
        | none => (none, "ub")
      | none => (st, "bad-op")
    | _ => (st, "bad-op")
  | ["q", t, s] =>
    match st, t.toInt?, unhex s with
    | some m, some t, some q =>
      if t < -1000 ∨ t > 1000 then (st, "bad-op") else
      match Tree.name2id m t q with
      | some r => (st, toString r)
      | none => (st, "ub")
    | _, _, _ => (st, "bad-op")
  | ["i", t, id] =>
    match st, t.toInt?, id.toInt? with
    | some m, some t, some id =>
      if t < -1000 ∨ t > 1000 ∨ id < -2000000000 ∨ id > 2000000000 then (st, "bad-op") else
      match Tree.id2name m t id with
      | some (some b) => (st, hex b)
      | some none => (st, "null")
      | none => (st, "ub")
    | _, _, _ => (st, "bad-op")
  | ["h", s, n] =>
    match unhex s, n.toNat? with
    | some b, some n =>
      if n = 0 ∨ n ≥ 2 ^ 64 then (st, "bad-op")
      else (st, toString (Tree.params.hash b n))
    | _, _ => (st, "bad-op")
  | _ => (st, "bad-op")

end C34

def main : IO Unit := runStateful (none : Option CModel) C34.step
