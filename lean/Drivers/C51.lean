import MjProof.Model.Pid
import MjProof.Model.Cable
import Drivers.Common
/-
Line protocol (same lines as harness/cc/c51_plugins.cc; doubles are 16 hex digits):
  pid kp=<h> ki=<h> kd=<h> imax=<h|-> slew=<h|-> dt=<h> dyn=<0..3> tau=<h> early=<0|1> clim=<h,h|-> integ=<0|2|3>
      ownexact=<0|1> u=<h,...> | { time ctrl len vel nact nactdot }          (one group per step; "-" for absent values)
    -> per step "force actdotI actdotP actI' actP' ;"  ("-" for a slot the configuration does not have)
  cable n=<N> first=… flat=<0|1> … | { bq×4 q0×4 q×4 stiff×4 ; }          (one group per body)
    -> "omega0 <3N h> stress <3N h>"
  genid <expected>      -> genid <fingerprint of the sources Gen/CablePlugin.lean was generated from>
  kern QuatDiff <8 h> | LocalStress_pull <11 h> | LocalStress_nopull <11 h>     -> the outputs of the generated kernels
-/
open MjProof MjProof.Driver

def fOrDash? (s : String) : Option Float := if s == "-" then some 0.0 else floatOfBits? s

def kvv? (key : String) (t : String) : Option String :=
  if t.startsWith (key ++ "=") then some (t.drop (key.length + 1)).toString else none

def optF? (s : String) : Option (Option Float) :=
  if s == "-" then some none else (floatOfBits? s).map some

def pair? (s : String) : Option (Option (Float × Float)) :=
  if s == "-" then some none else
  match s.splitOn "," with
  | [a, b] => do pure (some (← floatOfBits? a, ← floatOfBits? b))
  | _ => none

def splitBar51 : List String → List String × Option (List String)
  | [] => ([], none)
  | "|" :: r => ([], some r)
  | t :: r => let (a, b) := splitBar51 r; (t :: a, b)

def ins? : List String → Option (List (Pid.In Float))
  | [] => some []
  | t :: u :: l :: v :: na :: nd :: r => do
    let i : Pid.In Float := { time := ← floatOfBits? t, u := ← floatOfBits? u, len := ← floatOfBits? l, vel := ← floatOfBits? v,
                              nact := ← fOrDash? na, nactdot := ← fOrDash? nd }
    pure (i :: (← ins? r))
  | _ => none

def pidLine (keys inp : List String) : Option String := do
  match keys with
  | [kp, ki, kd, im, sl, dt, dy, ta, ea, cl, ig, ow, u] =>
    let kp ← floatOfBits? (← kvv? "kp" kp)
    let ki ← floatOfBits? (← kvv? "ki" ki)
    let kd ← floatOfBits? (← kvv? "kd" kd)
    let im ← optF? (← kvv? "imax" im)
    let sl ← optF? (← kvv? "slew" sl)
    let dt ← floatOfBits? (← kvv? "dt" dt)
    let dy ← (← kvv? "dyn" dy).toNat?
    let ta ← floatOfBits? (← kvv? "tau" ta)
    let ea ← (← kvv? "early" ea).toNat?
    let cl ← pair? (← kvv? "clim" cl)
    let ig ← (← kvv? "integ" ig).toNat?
    let ow ← (← kvv? "ownexact" ow).toNat?
    let us := (← kvv? "u" u).splitOn ","
    let dyn ← match dy with | 0 => some Pid.Dyn.none | 1 => some .integrator | 2 => some .filter | 3 => some .filterexact | _ => none
    if ea > 1 ∨ ow > 1 ∨ ¬ (ig = 0 ∨ ig = 2 ∨ ig = 3) then none
    let ins ← ins? inp
    if ins.length ≠ us.length then none
    match Pid.create? kp ki kd im sl dt dyn ta (ea = 1) cl (ow = 1) with
    | none => pure "create-failed"
    | some c =>
      let outs := Pid.runSeq c { actI := 0.0, actP := 0.0 } ins
      let hasI := Pid.hasI c
      let hasP := c.slew.isSome
      let sh (b : Bool) (x : Float) : String := if b then floatBits x else "-"
      pure (" ".intercalate (outs.map (fun o =>
        s!"{floatBits o.force} {sh hasI o.actdotI} {sh hasP o.actdotP} {sh hasI o.next.actI} {sh hasP o.next.actP} ;")))
  | _ => none

def q4? : List String → Option (Cable.Q Float × List String)
  | a :: b :: c :: d :: r => do pure ((← floatOfBits? a, ← floatOfBits? b, ← floatOfBits? c, ← floatOfBits? d), r)
  | _ => none

def bodies? : Nat → List String → Option (List (Cable.Body Float))
  | 0, [] => some []
  | 0, _ :: _ => none
  | n + 1, r => do
    let (bq, r) ← q4? r
    let (q0, r) ← q4? r
    let (q, r) ← q4? r
    let (stiff, r) ← q4? r
    match r with
    | ";" :: r => pure ({ bq, q0, q, stiff, xquat := (1.0, 0.0, 0.0, 0.0) } :: (← bodies? n r))
    | _ => none

def show3 (v : Cable.V Float) : String := s!"{floatBits v.1} {floatBits v.2.1} {floatBits v.2.2}"

def cableLine (keys inp : List String) : Option String := do
  match keys with
  | n :: _first :: flat :: _ =>
    let n ← (← kvv? "n" n).toNat?
    let flat ← (← kvv? "flat" flat).toNat?
    if keys.length ≠ 11 ∨ flat > 1 ∨ n < 2 ∨ n > 64 then none
    let bodies ← bodies? n inp
    let pre := Cable.prep (flat = 1) false bodies
    let res := Cable.compute (flat = 1) bodies
    pure ("omega0 " ++ " ".intercalate (pre.map (fun t => show3 t.2.1)) ++ " stress " ++ " ".intercalate (res.map (fun r => show3 r.1)))
  | _ => none

def kernLine : List String → Option String
  | "QuatDiff" :: xs => do
    match ← xs.mapM floatOfBits? with
    | [a, b, c, d, e, f, g, h] =>
      let r := Gen.cable_QuatDiff a b c d e f g h
      pure s!"{floatBits r.1} {floatBits r.2.1} {floatBits r.2.2.1} {floatBits r.2.2.2}"
    | _ => none
  | name :: xs => do
    match ← xs.mapM floatOfBits? with
    | [k0, k1, k2, k3, q0, q1, q2, q3, w0, w1, w2] =>
      if name == "LocalStress_pull" then pure (show3 (Gen.cable_LocalStress_pull k0 k1 k2 k3 q0 q1 q2 q3 w0 w1 w2))
      else if name == "LocalStress_nopull" then pure (show3 (Gen.cable_LocalStress_nopull k0 k1 k2 k3 q0 q1 q2 q3 w0 w1 w2))
      else none
    | _ => none
  | _ => none

def step (line : String) : String :=
  match words line with
  | "pid" :: r =>
    match splitBar51 r with
    | (keys, some inp) => (pidLine keys inp).getD "bad-op"
    | _ => "bad-op"
  | "cable" :: r =>
    match splitBar51 r with
    | (keys, some inp) => (cableLine keys inp).getD "bad-op"
    | _ => "bad-op"
  | "kern" :: r => (kernLine r).getD "bad-op"
  | ["genid", _] => "genid " ++ Gen.cableGenId
  | _ => "bad-op"

def main : IO Unit := runStateless step
