import MjProof.Model.SolverCert
import MjProof.Model.IslandSep
import MjProof.Model.ConeImp
import Drivers.Common
/-
Line protocol of the C10 certificate checker and line-search model.
Floats are the 16 hex digits of their IEEE bits, ints decimal.

  cert <nv> <nefc> <ne> <nf> <ncon> <npts>  M*(nv*nv)  J*(nefc*nv)  a0*nv  aref*nefc
       {D R floss type id}*nefc  {dim mu f0 f1 f2 f3 f4}*ncon  {a*nv}*npts
     -> ok | <pt> | <pt> ... | d <distM(pt_i, pt_j) for i < j>
        <pt> = c <cost> g <gauss> s <constraint cost> gw <g·w> r <‖Mw−g‖∞> gn <‖g‖₂> f <force*nefc>
     -> fail      when the Cholesky factorisation or the constraint update refuses the data
     (the checker of Props/C10.lean: cost(a) − min cost ≤ ½ g·w and ‖a − a*‖²_M ≤ g·w when M w = g)
  ls <tol> <lsiter> <scale> <v> <M> <Ma> <qfs> <ne> <nf> <nrows> {D R floss Jaref J}*nrows
     -> alpha improvement LSresult LSiter LSslope            (mirrors the `ls` op of harness/c/c10_solvers.c)
  isl <nv> <nefc> <nisland>  M*(nv*nv)  J*(nefc*nv)  dof_island*nv  efc_island*nefc  group*nefc
     labels: -1 (outside every island) or 0..nisland-1; group: a natural number, equal for rows whose costs are coupled
     -> ok                                        the partition makes the documented cost block separable
     -> bad M <i> <j> .. | J <r> <j> .. | free <r> .. | grp <r> <r'> ..     the offending index pairs (Model/IslandSep.lean)
     (the checker of Props/C10.lean `island_partition_checker_sound` / `island_solve_is_global_minimiser`)
  imp <impratio> <ncon>  {elliptic(0|1) dim nrows mu R*nrows D*nrows f0 f1 f2 f3 f4}*ncon       frictional contacts of one solve
     -> ok | <r> <mu> <dr> <rel> <nbits> | ...      per contact: deviations of efc_R / contact.mu from the documented impedance law
        (Constraint.impEll), max |D R - 1|, max relative defect of D[i+j] mu^2 = D[i] friction[j-1]^2, values not bit-identical
     -> fail <k>                                    contact k does not have the shape of a frictional contact
     (Model/ConeImp.lean; hypothesis of Props/C10.lean `cone_block_gradIneq_documented_impedance`)
-/
open MjProof MjProof.Driver MjProof.Constraint MjProof.Cert MjProof.PrimalSearch MjProof.IslandSep MjProof.ConeImp

def fl? (s : String) : Option Float := floatOfBits? s
def fls? (l : List String) : Option (List Float) := l.mapM fl?
def showFs (l : List Float) : String := " ".intercalate (l.map floatBits)

def chunks {β : Type} (k : Nat) : (fuel : Nat) → List β → List (List β)
  | 0, _ => []
  | fuel + 1, l => if l.isEmpty ∨ k = 0 then [] else l.take k :: chunks k fuel (l.drop k)

def parseRow : List String → Option (Row Float)
  | [d, r, fl, t, i] =>
    match fl? d, fl? r, fl? fl, t.toNat?, i.toNat? with
    | some d, some r, some fl, some t, some i => some ⟨d, r, fl, 0.0, t, i⟩
    | _, _, _, _, _ => none
  | _ => none

def parseCon : List String → Option (Contact Float)
  | dim :: mu :: fr =>
    match dim.toNat?, fl? mu, fls? fr with
    | some dim, some mu, some fr => if fr.length = 5 then some ⟨dim, mu, fr⟩ else none
    | _, _, _ => none
  | _ => none

def showPt (c : Certificate Float) : String :=
  "c " ++ floatBits c.eval.cost ++ " g " ++ floatBits c.eval.gauss ++ " s " ++ floatBits c.eval.s ++
  " gw " ++ floatBits c.gw ++ " r " ++ floatBits c.resid ++ " gn " ++ floatBits c.gnorm ++
  " f" ++ (if c.eval.force.isEmpty then "" else " " ++ showFs c.eval.force)

def allPairs {β : Type} : List β → List (β × β)
  | [] => []
  | x :: rest => rest.map (fun y => (x, y)) ++ allPairs rest

def parseLRow : List String → Option (LRow Float)
  | [d, r, fl, ja, j] =>
    match fl? d, fl? r, fl? fl, fl? ja, fl? j with
    | some d, some r, some fl, some ja, some j => some ⟨d, r, fl, ja, j⟩
    | _, _, _, _, _ => none
  | _ => none

theorem idx_lt {n m : Nat} (i : Fin m) (j : Fin n) : i.val * n + j.val < m * n := by
  have h1 : i.val * n + j.val < i.val * n + n := Nat.add_lt_add_left j.isLt _
  have h2 : i.val * n + n = (i.val + 1) * n := by rw [Nat.add_mul, Nat.one_mul]
  have h3 : (i.val + 1) * n ≤ m * n := Nat.mul_le_mul_right n i.isLt
  omega

/-- non-zero pattern of a row-major `rows × cols` matrix -/
def nzOf (rows cols : Nat) (a : Array Float) (h : a.size = rows * cols) : Fin rows → Fin cols → Bool :=
  fun i j => (a[i.val * cols + j.val]'(by rw [h]; exact idx_lt i j)) != 0.0

def label? (nisl : Nat) (s : String) : Option (Option (Fin nisl)) :=
  if s = "-1" then some none else
  match s.toNat? with
  | some k => if h : k < nisl then some (some ⟨k, h⟩) else none
  | none => none

def showPairs {a b : Nat} (tag : String) (l : List (Fin a × Fin b)) : String :=
  tag ++ String.join ((l.take 6).map (fun p => " " ++ toString p.1.val ++ " " ++ toString p.2.val))

def islStep (nv nefc nisl : Nat) (rest : List String) : String :=
  let nM := nv * nv
  let nJ := nefc * nv
  if rest.length ≠ nM + nJ + nv + nefc + nefc then "bad-op" else
  let r1 := rest.drop nM
  let r2 := r1.drop nJ
  let r3 := r2.drop nv
  let r4 := r3.drop nefc
  match fls? (rest.take nM), fls? (r1.take nJ), (r2.take nv).mapM (label? nisl), (r3.take nefc).mapM (label? nisl),
        r4.mapM (fun (t : String) => t.toNat?) with
  | some M, some J, some ld, some lr, some gr =>
    let Ma := M.toArray
    let Ja := J.toArray
    let lda := ld.toArray
    let lra := lr.toArray
    let gra := gr.toArray
    if hM : Ma.size = nv * nv then
      if hJ : Ja.size = nefc * nv then
        if hd : lda.size = nv then
          if hr : lra.size = nefc then
            if hg : gra.size = nefc then
              let nzM := nzOf nv nv Ma hM
              let nzJ := nzOf nefc nv Ja hJ
              let labD : Fin nv → Option (Fin nisl) := fun j => lda[j.val]'(by rw [hd]; exact j.isLt)
              let labR : Fin nefc → Option (Fin nisl) := fun r => lra[r.val]'(by rw [hr]; exact r.isLt)
              let grp : Fin nefc → Nat := fun r => gra[r.val]'(by rw [hg]; exact r.isLt)
              if partitionOk nzM nzJ labD labR none grp then "ok" else
                "bad " ++ showPairs "M" (badM nzM labD) ++ " | " ++ showPairs "J" (badJ nzJ labD labR) ++ " | free" ++
                  String.join (((freeRows none labR).take 6).map (fun r => " " ++ toString r.val)) ++ " | " ++
                  showPairs "grp" (badGrp grp labR)
            else "bad-op"
          else "bad-op"
        else "bad-op"
      else "bad-op"
    else "bad-op"
  | _, _, _, _, _ => "bad-op"

/-- parse the contacts of an `imp` line -/
def parseImpCons : (fuel : Nat) → List String → Option (List (Con Float))
  | 0, [] => some []
  | 0, _ => none
  | fuel + 1, ell :: dim :: nr :: mu :: rest =>
    match ell.toNat?, dim.toNat?, nr.toNat?, fl? mu with
    | some ell, some dim, some nr, some mu =>
      if 1 < ell ∨ rest.length < 2 * nr + 5 then none else
      match fls? (rest.take nr), fls? ((rest.drop nr).take nr), fls? ((rest.drop (2 * nr)).take 5) with
      | some R, some D, some fr =>
        (parseImpCons fuel (rest.drop (2 * nr + 5))).map (fun l => (⟨ell = 1, dim, mu, R, D, fr⟩ : Con Float) :: l)
      | _, _, _ => none
    | _, _, _, _ => none
  | _ + 1, _ => none

def impStep (ir : Float) (cons : List (Con Float)) : String :=
  let devs := cons.map (deviation ir)
  match devs.zipIdx.find? (fun p => p.1.isNone) with
  | some p => "fail " ++ toString p.2
  | none =>
    "ok" ++ String.join (devs.map (fun d => match d with
      | some d => " | " ++ floatBits d.r ++ " " ++ floatBits d.mu ++ " " ++ floatBits d.dr ++ " " ++ floatBits d.rel ++ " " ++ toString d.nbits
      | none => ""))

def step (line : String) : String :=
  match words line with
  | "cert" :: nv :: nefc :: ne :: nf :: ncon :: npts :: rest =>
    match nv.toNat?, nefc.toNat?, ne.toNat?, nf.toNat?, ncon.toNat?, npts.toNat? with
    | some nv, some nefc, some ne, some nf, some ncon, some npts =>
      let nM := nv * nv
      let nJ := nefc * nv
      if rest.length ≠ nM + nJ + nv + nefc + 5 * nefc + 7 * ncon + npts * nv ∨ nefc < ne + nf ∨ nv = 0 then "bad-op" else
      let r1 := rest.drop nM
      let r2 := r1.drop nJ
      let r3 := r2.drop nv
      let r4 := r3.drop nefc
      let r5 := r4.drop (5 * nefc)
      let r6 := r5.drop (7 * ncon)
      match fls? (rest.take nM), fls? (r1.take nJ), fls? (r2.take nv), fls? (r3.take nefc),
            (chunks 5 nefc (r4.take (5 * nefc))).mapM parseRow, (chunks 7 ncon (r5.take (7 * ncon))).mapM parseCon, fls? r6 with
      | some M, some J, some a0, some aref, some rows, some cons, some pts =>
        let P : Problem Float := ⟨nv, chunks nv nv M, chunks nv nefc J, a0, aref, ne, nf, rows, cons⟩
        if !P.wellSized ∨ cons.length ≠ ncon then "bad-op" else
        let points := chunks nv npts pts
        if points.length ≠ npts then "bad-op" else
        match points.mapM (certify P) with
        | none => "fail"
        | some cs =>
          "ok | " ++ " | ".intercalate (cs.map showPt) ++ " | d" ++
            (if npts < 2 then "" else " " ++ showFs ((allPairs points).map (fun p => distM P p.1 p.2)))
      | _, _, _, _, _, _, _ => "bad-op"
    | _, _, _, _, _, _ => "bad-op"
  | "ls" :: tol :: lsit :: scale :: v :: m :: ma :: qfs :: ne :: nf :: nr :: rest =>
    match fl? tol, lsit.toNat?, fl? scale, fl? v, fl? m, fl? ma, fl? qfs, ne.toNat?, nf.toNat?, nr.toNat? with
    | some tol, some lsit, some scale, some v, some m, some ma, some qfs, some ne, some nf, some nr =>
      if rest.length ≠ 5 * nr ∨ nr < ne + nf ∨ 4096 < nr then "bad-op" else
      match (chunks 5 nr rest).mapM parseLRow with
      | some rows =>
        if rows.length ≠ nr then "bad-op" else
        let o := runLine (⟨tol, lsit, scale, v, m, ma, qfs, ne, nf, rows⟩ : Line Float)
        floatBits o.res.alpha ++ " " ++ floatBits o.res.improvement ++ " " ++ toString o.res.lsResult ++ " " ++
          toString o.res.lsIter ++ " " ++ floatBits o.slope
      | none => "bad-op"
    | _, _, _, _, _, _, _, _, _, _ => "bad-op"
  | "imp" :: ir :: ncon :: rest =>
    match fl? ir, ncon.toNat? with
    | some ir, some ncon =>
      match parseImpCons ncon rest with
      | some cons => if cons.length = ncon then impStep ir cons else "bad-op"
      | none => "bad-op"
    | _, _ => "bad-op"
  | "isl" :: nv :: nefc :: nisl :: rest =>
    match nv.toNat?, nefc.toNat?, nisl.toNat? with
    | some nv, some nefc, some nisl => islStep nv nefc nisl rest
    | _, _, _ => "bad-op"
  | _ => "bad-op"

def main : IO Unit := runStateless step
