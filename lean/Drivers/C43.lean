import MjProof.Model.MjxMath
import Drivers.Common
/-
Line protocol (stateless; mirrors the `math` op of harness/py/c43_mjx.py, which calls the real functions of
`mjx/mujoco/mjx/_src/math.py` under x64):
  <fn> tok tok ...      a float token is the 16 hex digits of its IEEE bits
  -> result tokens in the same syntax (the hand-written model of `Model/MjxMath.lean` evaluated on `Float`);
     `bad-op` for an unknown function, a wrong number of arguments or a malformed token.
  kbi_mjx rs ts sr0 sr1 d0 d1 width mid power pos   `_kbi` of mjx/_src/constraint.py -> k b imp
  kbi_c   rs ts sr0 sr1 d0 d1 width mid power x0    K, B, I of efc_KBIP as engine_core_constraint.c computes them
                                                    (rs = 1: REFSAFE active, 0: disabled; anything else: bad-op)
  diagadr p0 p1 ...     dof_parentid (integral floats) -> the nv addresses M_rowadr[i] + M_rownnz[i] - 1, then M_colind
-/
open MjProof MjProof.Driver MjProof.MjxMath

def showL (l : List Float) : String := " ".intercalate (l.map floatBits)

def run (name : String) (x : List Float) : Option (List Float) :=
  match name, x with
  | "quat_mul", [a, b, c, d, e, f, g, h] =>
    let r := quatMul a b c d e f g h; some [r.1, r.2.1, r.2.2.1, r.2.2.2]
  | "quat_mul_axis", [a, b, c, d, e, f, g] =>
    let r := quatMulAxis a b c d e f g; some [r.1, r.2.1, r.2.2.1, r.2.2.2]
  | "rotate", [a, b, c, d, e, f, g] =>
    let r := rotate a b c d e f g; some [r.1, r.2.1, r.2.2]
  | "quat_to_mat", [a, b, c, d] =>
    let r := quatToMat a b c d
    some [r.1, r.2.1, r.2.2.1, r.2.2.2.1, r.2.2.2.2.1, r.2.2.2.2.2.1, r.2.2.2.2.2.2.1, r.2.2.2.2.2.2.2.1, r.2.2.2.2.2.2.2.2]
  | "axis_angle_to_quat", [a, b, c, d] =>
    let r := axisAngleToQuat a b c d; some [r.1, r.2.1, r.2.2.1, r.2.2.2]
  | "motion_cross", [a, b, c, d, e, f, g, h, i, j, k, l] =>
    let r := motionCross a b c d e f g h i j k l; some [r.1, r.2.1, r.2.2.1, r.2.2.2.1, r.2.2.2.2.1, r.2.2.2.2.2]
  | "motion_cross_force", [a, b, c, d, e, f, g, h, i, j, k, l] =>
    let r := motionCrossForce a b c d e f g h i j k l; some [r.1, r.2.1, r.2.2.1, r.2.2.2.1, r.2.2.2.2.1, r.2.2.2.2.2]
  | "inert_mul", [a, b, c, d, e, f, g, h, i, j, k, l, m, n, o, p] =>
    let r := inertMul a b c d e f g h i j k l m n o p; some [r.1, r.2.1, r.2.2.1, r.2.2.2.1, r.2.2.2.2.1, r.2.2.2.2.2]
  | "kbi_mjx", [rs, ts, a, b, c, d, e, f, g, x] =>
    if rs == 0.0 || rs == 1.0 then
      let r := mjxKbi Float.pow (rs == 1.0) ts a b c d e f g x; some [r.1, r.2.1, r.2.2]
    else none
  | "kbi_c", [rs, ts, a, b, c, d, e, f, g, x] =>
    if rs == 0.0 || rs == 1.0 then
      let r := cKbi Float.pow (rs == 1.0) ts a b c d e f g x; some [r.1, r.2.1, r.2.2]
    else none
  | "diagadr", ps =>
    -- dof_parentid as integral floats -> M_rowadr[i] + M_rownnz[i] - 1 for every dof, then M_colind
    if ps.all (fun x => x == x.round && x.abs < 1.0e6) then
      let rows := sparseRows (ps.map (fun x => x.toInt64.toInt))
      some (((List.range ps.length).map (fun i => (diagAdr rows i).toFloat)) ++ rows.flatten.map Nat.toFloat)
    else none
  | _, _ => none

def step (line : String) : String :=
  match words line with
  | name :: toks =>
    match toks.mapM floatOfBits? with
    | some xs =>
      match run name xs with
      | some ys => showL ys
      | none => "bad-op"
    | none => "bad-op"
  | [] => "bad-op"

def main : IO Unit := runStateless step
