import MjProof.Model.Broadphase
import Drivers.Common
import Std.Data.HashSet
/-
Line protocol of the C14 model driver (one op per line in, one canonical line out; malformed -> bad-op).

  sap AXIS MAXPAIR N h…(6N hex doubles, column-major: xmin[N] ymin[N] zmin[N] xmax[N] ymax[N] zmax[N])
        -> "RET i:j i:j …"                       model of static mj_SAP
  bfsort s0 s1 …                                 -> signatures after bfsort (mjSORT with uintcmp)
  csort NG t0 … t(NG-1) N a0 b0 a1 b1 …          -> tags after contactSort of N geom:geom contacts
  ccmp NG t0 … t(NG-1) a0 b0 a1 b1               -> contactcompare value
  scene key=v,v,… key=…                          -> "bf s,s,… | item item … | sap b:b,…"  (errors: "bf-error MSG", "error MSG")
      keys: nbody ngeom nt plane flags(dsblConstraint,dsblContact,dsblFilterParent,dsblMidphase)
            bw bp bd bga bgn bct bca bbvh  gt gct gca gb  ps pg1 pg2 xs  func(nt*nt 0/1)
            near(a:b,…) nearp(k,…) aamm(hex…, column-major over bfid)
      items: "g1:g2:ipair" (ipair −1 = dynamic)  or  "M:b1:b2[g1:g2;g1:g2;…]" for a mid-phase body pair
-/
open MjProof MjProof.Driver MjProof.Broadphase MjProof.Sort

def commaList (s : String) : List String := (s.splitOn ",").filter (· ≠ "")

def natList? (s : String) : Option (List Nat) := (commaList s).mapM String.toNat?
def intList? (s : String) : Option (List Int) := (commaList s).mapM String.toInt?

def mkFin? (n : Nat) (x : Nat) : Option (Fin n) := if h : x < n then some ⟨x, h⟩ else none

def mkVector? {α : Type} (n : Nat) (l : List α) : Option (Vector α n) :=
  if h : l.toArray.size = n then some ⟨l.toArray, h⟩ else none

/-- boxes from a column-major AAMM array; every read is checked -/
def mkBoxes? {ι : Type} (ids : List ι) (aamm : Array Float) (ax ay az : Nat) : Option (List (Box ι Float32 Float)) :=
  let n := ids.length
  (ids.zipIdx).mapM fun (id, i) => do
    let xlo ← aamm[n * ax + i]?
    let xhi ← aamm[n * (ax + 3) + i]?
    let ylo ← aamm[n * ay + i]?
    let yhi ← aamm[n * (ay + 3) + i]?
    let zlo ← aamm[n * az + i]?
    let zhi ← aamm[n * (az + 3) + i]?
    pure { id := id, xlo := xlo.toFloat32, xhi := xhi.toFloat32, yz := ⟨ylo, yhi, zlo, zhi⟩ }

def fgt (a b : Float) : Bool := a > b

def showPairs (l : List (Nat × Nat)) : String := " ".intercalate (l.map fun p => s!"{p.1}:{p.2}")

def opSap (args : List String) : String :=
  match args with
  | axis :: maxpair :: n :: hs =>
    match axis.toInt?, maxpair.toInt?, n.toNat?, hs.mapM floatOfBits? with
    | some axis, some maxpair, some n, some fs =>
      if fs.length ≠ 6 * n then "bad-op" else
      -- `mj_SAP` checks n, axis and maxpair before anything else
      if n ≥ 65536 ∨ maxpair < 1 then "-1" else
      match sapAxes axis with
      | none => "-1"
      | some (ax, ay, az) =>
        match mkBoxes? (List.range n) fs.toArray ax ay az with
        | none => "bad-op"
        | some boxes =>
          let r := mjSAP sapCmp32 fgt boxes maxpair
          if r.2.isEmpty then s!"{r.1}" else s!"{r.1} {showPairs r.2}"
    | _, _, _, _ => "bad-op"
  | _ => "bad-op"

def opBfsort (args : List String) : String :=
  match args.mapM String.toNat? with
  | some l => if l.all (· < 4294967296) then joinNats (mjSort uintCmp l) else "bad-op"
  | none => "bad-op"

/-- parse `NG t… rest`, giving the type function on `Fin NG` -/
def parseTypes (args : List String) : Option ((n : Nat) × (Fin n → Nat) × List String) :=
  match args with
  | ng :: rest =>
    match ng.toNat? with
    | some ng =>
      if rest.length < ng then none else
      match (rest.take ng).mapM String.toNat? with
      | some ts =>
        match mkVector? ng ts with
        | some v => some ⟨ng, fun i => v[i], rest.drop ng⟩
        | none => none
      | none => none
    | none => none
  | [] => none

def parseContacts (n : Nat) : List String → Option (List (Fin n × Fin n))
  | [] => some []
  | [_] => none
  | a :: b :: rest => do
    let a ← a.toNat?
    let b ← b.toNat?
    let fa ← mkFin? n a
    let fb ← mkFin? n b
    let tl ← parseContacts n rest
    pure ((fa, fb) :: tl)

def opCsort (args : List String) (cmpOnly : Bool) : String :=
  match parseTypes args with
  | none => "bad-op"
  | some ⟨n, ty, rest⟩ =>
    if cmpOnly then
      match parseContacts n rest with
      | some [c1, c2] => toString (contactCompare ty c1 c2)
      | _ => "bad-op"
    else
      match rest with
      | k :: cs =>
        match k.toNat?, parseContacts n cs with
        | some k, some l =>
          if l.length ≠ k then "bad-op" else
          joinNats ((mjSort (fun (a b : (Fin n × Fin n) × Nat) => contactCompare ty a.1 b.1) l.zipIdx).map (·.2))
        | _, _ => "bad-op"
      | [] => "bad-op"

/-! ### scene -/

def lookup (kv : List (String × String)) (k : String) : Option String := (kv.find? (·.1 == k)).map (·.2)

def parseKV (args : List String) : Option (List (String × String)) :=
  args.mapM fun a => match a.splitOn "=" with
    | [k, v] => some (k, v)
    | [k] => some (k, "")
    | _ => none

def parsePairItems (s : String) : Option (List (Nat × Nat)) :=
  (commaList s).mapM fun it => match it.splitOn ":" with
    | [a, b] => do pure ((← a.toNat?), (← b.toNat?))
    | _ => none

def mkBodies? (nbody : Nat) (bw bp : List Nat) (bd : List Int) (bga bgn : List Nat) (bct bca : List Int) (bbvh : List Int) :
    Option (List (Body nbody)) :=
  match bw, bp, bd, bga, bgn, bct, bca, bbvh with
  | [], [], [], [], [], [], [], [] => some []
  | w :: bw, p :: bp, d :: bd, ga :: bga, gn :: bgn, ct :: bct, ca :: bca, bv :: bbvh => do
    let w ← mkFin? nbody w
    let p ← mkFin? nbody p
    let tl ← mkBodies? nbody bw bp bd bga bgn bct bca bbvh
    pure ({ weld := w, parent := p, dofnum := d, geomadr := ga, geomnum := gn, contype := ct, conaffinity := ca,
            hasBvh := decide (bv ≥ 0) } :: tl)
  | _, _, _, _, _, _, _, _ => none

def mkGeoms? (nbody nt : Nat) (gt : List Nat) (gct gca : List Int) (gb : List Nat) : Option (List (Geom nbody)) :=
  match gt, gct, gca, gb with
  | [], [], [], [] => some []
  | t :: gt, ct :: gct, ca :: gca, b :: gb => do
    if t ≥ nt then none
    let b ← mkFin? nbody b
    let tl ← mkGeoms? nbody nt gt gct gca gb
    pure ({ gtype := t, contype := ct, conaffinity := ca, bodyid := b } :: tl)
  | _, _, _, _ => none

def mkPairs? (ngeom : Nat) (i : Nat) (ps pg1 pg2 : List Nat) : Option (List (Pair ngeom)) :=
  match ps, pg1, pg2 with
  | [], [], [] => some []
  | s :: ps, a :: pg1, b :: pg2 => do
    let a ← mkFin? ngeom a
    let b ← mkFin? ngeom b
    let tl ← mkPairs? ngeom (i + 1) ps pg1 pg2
    pure ({ idx := i, signature := s, g1 := a, g2 := b } :: tl)
  | _, _, _ => none

def showCand {n : Nat} (c : Cand n) : String :=
  match c.ipair with
  | some k => s!"{c.g1.val}:{c.g2.val}:{k}"
  | none => s!"{c.g1.val}:{c.g2.val}:-1"

def showItem {nb ng : Nat} : Item nb ng → String
  | .cand c => showCand c
  | .mid b1 b2 cs => s!"M:{b1.val}:{b2.val}[" ++ ";".intercalate (cs.map fun c => s!"{c.g1.val}:{c.g2.val}") ++ "]"

def opScene (args : List String) : Option String := do
  let kv ← parseKV args
  let get := lookup kv
  let nbody ← (← get "nbody").toNat?
  let ngeom ← (← get "ngeom").toNat?
  let nt ← (← get "nt").toNat?
  let plane ← (← get "plane").toNat?
  let flags ← natList? (← get "flags")
  let ((fcon : Bool), (fct : Bool), (ffp : Bool), (fmid : Bool)) ← match flags with
    | [a, b, c, d] => some (a != 0, b != 0, c != 0, d != 0)
    | _ => none
  let bodies ← mkBodies? nbody (← natList? (← get "bw")) (← natList? (← get "bp")) (← intList? (← get "bd"))
    (← natList? (← get "bga")) (← natList? (← get "bgn")) (← intList? (← get "bct")) (← intList? (← get "bca"))
    (← intList? (← get "bbvh"))
  let bodyV ← mkVector? nbody bodies
  -- a geom range outside the geom arrays would be an out-of-range read in the C code: reject
  if bodies.any (fun b => b.geomadr + b.geomnum > ngeom) then none
  let geoms ← mkGeoms? nbody nt (← natList? (← get "gt")) (← intList? (← get "gct")) (← intList? (← get "gca"))
    (← natList? (← get "gb"))
  let geomV ← mkVector? ngeom geoms
  let pairs ← mkPairs? ngeom 0 (← natList? (← get "ps")) (← natList? (← get "pg1")) (← natList? (← get "pg2"))
  let excl ← natList? (← get "xs")
  let functab ← natList? (← get "func")
  if functab.length ≠ nt * nt then none
  let funcset : Std.HashSet Nat := (functab.zipIdx.filter (·.1 ≠ 0)).foldl (fun s p => s.insert p.2) {}
  let nearl ← parsePairItems (← get "near")
  if nearl.any (fun p => p.1 ≥ ngeom ∨ p.2 ≥ ngeom) then none
  let nearset : Std.HashSet Nat := nearl.foldl (fun s p => s.insert (p.1 * ngeom + p.2)) {}
  let nearp ← natList? (← get "nearp")
  if nearp.any (· ≥ pairs.length) then none
  let aamm ← (commaList (← get "aamm")).mapM floatOfBits?
  let M : Model := {
    nbody := nbody, ngeom := ngeom, body := bodyV, geom := geomV, pairs := pairs, excludes := excl,
    planeType := plane, dsblConstraint := fcon, dsblContact := fct, dsblFilterParent := ffp, dsblMidphase := fmid,
    func := fun a b => a < nt && b < nt && funcset.contains (a * nt + b),
    near := fun a b => nearset.contains (a.val * ngeom + b.val),
    nearPair := fun k => nearp.contains k }
  let ids := bfid M
  -- mj_broadphase builds AAMMs only when more than one bodyflex is collidable
  let boxes ← if ids.length > 1 then (if aamm.length ≠ 6 * ids.length then none else mkBoxes? ids aamm.toArray 0 1 2)
              else (if aamm.isEmpty then some [] else none)
  let maxpair := (nbody * (nbody - 1)) / 2
  let bf := match broadphase M boxes maxpair with
    | .ok l => "bf " ++ ",".intercalate (l.map fun p => toString (sig p.1.val p.2.val))
    | .error e => "bf-error " ++ e
  let items := match collide M boxes with
    | .ok l => " ".intercalate (l.map showItem)
    | .error e => "error " ++ e
  -- the SAP pair list `mj_broadphase` receives (same call as in `Broadphase.broadphase`), for the check of the
  -- `BroadComplete` hypothesis on real scenes
  let nc := ids.length
  let sap := if nc > 1 then
      (mjSAP sapCmp32 (fun (a b : Float) => a > b) boxes (((nc * (nc - 1)) / 2 : Nat) : Int)).2
    else []
  let saps := ",".intercalate (sap.map fun p => s!"{p.1.val}:{p.2.val}")
  pure (bf ++ " | " ++ items ++ " | sap " ++ saps)

def step (line : String) : String :=
  match words line with
  | "sap" :: args => opSap args
  | "bfsort" :: args => opBfsort args
  | "csort" :: args => opCsort args false
  | "ccmp" :: args => opCsort args true
  | "scene" :: args => (opScene args).getD "bad-op"
  | _ => "bad-op"

def main : IO Unit := runStateless step
