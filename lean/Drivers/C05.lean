import MjProof.Model.Integrate
import Drivers.Common
/-
Line protocol of the C05 integration model (mirrors harness/c/c05_integrate.c for the direct ops).
Floats are the 16 hex digits of their IEEE bits (`nan` for NaN), ints decimal.

direct ops (the same line is answered by the harness with the real functions; compared bitwise):
  TAB                                   -> A <9 floats> B <4 floats>             (generated tableau on Float)
  CLIP x lo hi                          -> r <float>                             (mju_clip)
  QI q0 q1 q2 q3 v0 v1 v2 h             -> 4: <4 floats>                          (mju_quatIntegrate)
  IP n t1..tn h qpos.. qvel..           -> nq: <floats>                          (mj_integratePos)
  NA dyn lim off actnum h act adot vel lo hi p0 p2 p5 p7 p8 g5 b3 b4 b5   -> r <float>  (mj_nextActivation)

term-gating op (checks/c05.py measures the same two booleans on the real engine with single-term probe scenes):
  DT integ spring damper actuation eulerdamp term   (integ: mjtIntegrator value; flags 0/1 = mjDSBL_ bit clear/set;
                                                     term: dofDamper tendonDamper fluidBox fluidEllipsoid actuator
                                                     biasChain biasFree)      -> applied <0|1> inD <0|1>

trace ops (inputs taken from the engine's own trace by checks/c05.py; `key n v1..vn` groups in any order):
  ADV <groups>     one `mj_advance` : groups h jtype actuation_disabled + per-actuator arrays + time qpos qvel act
                   actdot qacc [pvel]        -> time 1 . qpos n .. qvel n .. act n ..
  RK4 <groups>     one `mj_RungeKutta` : as ADV, with f0_qacc f0_actdot .. f3_qacc f3_actdot instead of actdot/qacc
                   -> x1_time .. x1_qpos .. x1_qvel .. x1_act .. (x2, x3) time .. qpos .. qvel .. act ..
  anything else / malformed / a length mismatch inside the model -> bad-op
-/
open MjProof MjProof.Driver MjProof.Integrate

def fl? (s : String) : Option Float := floatOfBits? s
def fls? (l : List String) : Option (List Float) := l.mapM fl?
def showFs (l : List Float) : String := " ".intercalate (l.map floatBits)
def showGroup (key : String) (l : List Float) : String :=
  key ++ " " ++ toString l.length ++ (if l.isEmpty then "" else " " ++ showFs l)

/-- parse `key n v1..vn key n ...` -/
def groups : (fuel : Nat) → List String → Option (List (String × List String))
  | _, [] => some []
  | 0, _ => none
  | fuel + 1, key :: n :: rest =>
    match n.toNat? with
    | some n =>
      if rest.length < n then none
      else (groups fuel (rest.drop n)).map (fun g => (key, rest.take n) :: g)
    | none => none
  | _, _ => none

def look (g : List (String × List String)) (key : String) : Option (List String) :=
  (g.find? (fun kv => kv.1 == key)).map (·.2)
def lookF (g : List (String × List String)) (key : String) : Option (List Float) := (look g key).bind fls?
def lookI (g : List (String × List String)) (key : String) : Option (List Int) :=
  (look g key).bind (fun l => l.mapM String.toInt?)
def lookF1 (g : List (String × List String)) (key : String) : Option Float :=
  match lookF g key with
  | some [x] => some x
  | _ => none

def bool? (i : Int) : Option Bool := if i = 0 then some false else if i = 1 then some true else none

/-- actuator `i` from the per-actuator arrays of the `info` record and the per-step avel / alen -/
def mkActuator (g : List (String × List String)) (i : Nat) : Option (Actuator Float) := do
  let dyntype ← (← lookI g "dyntype")[i]?
  let gaintype ← (← lookI g "gaintype")[i]?
  let biastype ← (← lookI g "biastype")[i]?
  let trntype ← (← lookI g "trntype")[i]?
  let actnum ← (← lookI g "actnum")[i]?
  let actlimited ← bool? (← (← lookI g "actlimited")[i]?)
  let disabled ← bool? (← (← lookI g "disabled")[i]?)
  let refsite ← (← lookI g "trnid")[2 * i + 1]?
  let trnj ← (← lookI g "trnjtype")[i]?
  let outadr ← (← lookI g "outadr")[i]?
  if actnum < 0 ∨ outadr < 0 then none else
  let o := outadr.toNat
  let range ← lookF g "actrange"
  let dynprm ← lookF g "dynprm"
  let gainprm ← lookF g "gainprm"
  let biasprm ← lookF g "biasprm"
  let gear ← lookF g "gear"
  let avel ← lookF g "avel"
  let alen ← lookF g "alen"
  pure {
    dyntype := dyntype, gaintype := gaintype, biastype := biastype, trntype := trntype, actnum := actnum.toNat,
    actlimited := actlimited, disabled := disabled,
    lo := ← range[2 * i]?, hi := ← range[2 * i + 1]?,
    dynprm0 := ← dynprm[10 * i]?, dynprm2 := ← dynprm[10 * i + 2]?, dynprm5 := ← dynprm[10 * i + 5]?,
    dynprm7 := ← dynprm[10 * i + 7]?, dynprm8 := ← dynprm[10 * i + 8]?,
    gainprm0 := ← gainprm[10 * i]?, gainprm5 := ← gainprm[10 * i + 5]?,
    biasprm1 := ← biasprm[10 * i + 1]?, biasprm3 := ← biasprm[10 * i + 3]?, biasprm4 := ← biasprm[10 * i + 4]?,
    biasprm5 := ← biasprm[10 * i + 5]?,
    refsite := refsite, trnJointType := trnj,
    gear0 := ← gear[6 * o]?, gear1 := ← gear[6 * o + 1]?, gear2 := ← gear[6 * o + 2]?,
    gear3 := ← gear[6 * o + 3]?, gear4 := ← gear[6 * o + 4]?, gear5 := ← gear[6 * o + 5]?,
    velocity := ← avel[o]?, length := ← alen[o]? }

def mkParams (g : List (String × List String)) : Option (Params Float) := do
  let h ← lookF1 g "h"
  let jt ← (← lookI g "jtype").mapM JType.ofInt?
  let ad ← match ← lookI g "actuation_disabled" with
    | [x] => bool? x
    | _ => none
  let nact := (← lookI g "dyntype").length
  let acts ← (List.range nact).mapM (mkActuator g)
  pure { h := h, jtypes := jt, actuators := acts, actuationDisabled := ad }

def mkState (g : List (String × List String)) : Option (State Float) := do
  pure { time := ← lookF1 g "time", qpos := ← lookF g "qpos", qvel := ← lookF g "qvel", act := ← lookF g "act" }

def showState (pre : String) (s : State Float) : String :=
  showGroup (pre ++ "time") [s.time] ++ " " ++ showGroup (pre ++ "qpos") s.qpos ++ " " ++
  showGroup (pre ++ "qvel") s.qvel ++ " " ++ showGroup (pre ++ "act") s.act

def opAdv (toks : List String) : Option String := do
  let g ← groups (toks.length + 1) toks
  let P ← mkParams g
  let s ← mkState g
  let actdot ← lookF g "actdot"
  let qacc ← lookF g "qacc"
  let pvel ← match look g "pvel" with
    | some l => (fls? l).map some
    | none => some none
  let r ← advance P s actdot qacc pvel
  pure (showState "" r)

def opRK4 (toks : List String) : Option String := do
  let g ← groups (toks.length + 1) toks
  let P ← mkParams g
  let s ← mkState g
  let f0 : Deriv Float := { qacc := ← lookF g "f0_qacc", actDot := ← lookF g "f0_actdot" }
  let f1 : Deriv Float := { qacc := ← lookF g "f1_qacc", actDot := ← lookF g "f1_actdot" }
  let f2 : Deriv Float := { qacc := ← lookF g "f2_qacc", actDot := ← lookF g "f2_actdot" }
  let f3 : Deriv Float := { qacc := ← lookF g "f3_qacc", actDot := ← lookF g "f3_actdot" }
  let r ← rk4 P s f0 f1 f2 f3
  pure (showState "x1_" r.x1 ++ " " ++ showState "x2_" r.x2 ++ " " ++ showState "x3_" r.x3 ++ " " ++ showState "" r.final)

def opIP (toks : List String) : Option String := do
  match toks with
  | n :: rest =>
    let n ← n.toNat?
    if rest.length < n + 1 then none else
    let jt ← ((rest.take n).mapM String.toInt?).bind (fun l => l.mapM JType.ofInt?)
    let fs ← fls? (rest.drop n)
    match fs with
    | h :: xs =>
      let nq := (jt.map JType.nq).foldl (· + ·) 0
      let nv := (jt.map JType.nv).foldl (· + ·) 0
      if xs.length ≠ nq + nv then none else
      let r ← integratePos jt (xs.take nq) (xs.drop nq) h
      pure (toString r.length ++ ":" ++ (if r.isEmpty then "" else " " ++ showFs r))
    | [] => none
  | [] => none

def opNA (toks : List String) : Option String := do
  match toks with
  | dyn :: lim :: off :: actnum :: rest =>
    let dyn ← dyn.toInt?
    let lim ← (lim.toInt?).bind bool?
    let off ← off.toNat?
    let actnum ← actnum.toNat?
    if 7 < off ∨ actnum ≤ off ∨ 8 < actnum then none else
    match ← fls? rest with
    | [h, act, adot, vel, lo, hi, p0, p2, p5, p7, p8, g5, b3, b4, b5] =>
      let p : ActSlot Float :=
        { dyntype := dyn, actlimited := lim, offset := (off : Int), lo := lo, hi := hi, dynprm0 := p0, dynprm2 := p2,
          dynprm5 := p5, dynprm7 := p7, dynprm8 := p8, gainprm5 := g5, biasprm3 := b3, biasprm4 := b4, biasprm5 := b5,
          velocity := vel, actnum := (actnum : Int) }
      pure ("r " ++ floatBits (nextActivation p h act adot))
    | _ => none
  | _ => none

def b01 (b : Bool) : String := if b then "1" else "0"

def opDT (toks : List String) : Option String := do
  match toks with
  | [integ, sp, da, ac, eu, term] =>
    let integ ← integ.toInt?
    let i : DTerms.Integ ←
      if integ = Gen.RK4.mjINT_EULER then some .euler
      else if integ = Gen.RK4.mjINT_RK4 then some .rk4
      else if integ = Gen.RK4.mjINT_IMPLICIT then some .implicit
      else if integ = Gen.RK4.mjINT_IMPLICITFAST then some .implicitfast
      else none
    let fl (s : String) : Option Bool := (s.toInt?).bind bool?
    let f : DTerms.DFlags := { spring := ← fl sp, damper := ← fl da, actuation := ← fl ac, eulerdamp := ← fl eu }
    let t : DTerms.FTerm ← match term with
      | "dofDamper" => some .dofDamper
      | "tendonDamper" => some .tendonDamper
      | "fluidBox" => some .fluidBox
      | "fluidEllipsoid" => some .fluidEllipsoid
      | "actuator" => some .actuator
      | "biasChain" => some .biasChain
      | "biasFree" => some .biasFree
      | _ => none
    let d ← DTerms.inD i f t
    pure ("applied " ++ b01 (DTerms.applied f t) ++ " inD " ++ b01 d)
  | _ => none

def step (line : String) : String :=
  let r : Option String :=
    match words line with
    | ["TAB"] => some ("A " ++ showFs (Gen.RK4.A (α := Float)) ++ " B " ++ showFs (Gen.RK4.B (α := Float)))
    | ["CLIP", x, lo, hi] =>
      match fl? x, fl? lo, fl? hi with
      | some x, some lo, some hi => some ("r " ++ floatBits (Gen.mju_clip x lo hi))
      | _, _, _ => none
    | "QI" :: rest =>
      match fls? rest with
      | some [q0, q1, q2, q3, v0, v1, v2, h] =>
        let r := integrateQuat (q0, q1, q2, q3) (v0, v1, v2) h
        some ("4: " ++ showFs [r.1, r.2.1, r.2.2.1, r.2.2.2])
      | _ => none
    | "IP" :: rest => opIP rest
    | "NA" :: rest => opNA rest
    | "ADV" :: rest => opAdv rest
    | "RK4" :: rest => opRK4 rest
    | "DT" :: rest => opDT rest
    | _ => none
  match r with
  | some s => s
  | none => "bad-op"

def main : IO Unit := runStateless step
