import MjProof.Model.UserPool
import MjProof.Model.SpecCopy
import MjProof.Model.LRSlices
import Drivers.Common
/-
Line protocol of the C33 thread-pool model:
  run <N> <T> | tok tok ...      controlled replay: N workers (1..8), T tasks (0..16); tok =
                                   `<tid>`        thread tid (0 = scheduling thread, k = worker k) takes its next step
                                   `<tid>><p>`    the same, and a cv_in_.notify_one() in that step wakes worker p if it is
                                                  blocked (otherwise the least blocked worker)
                                   `s<tid>`       spurious wake-up of thread tid (cv_in_ for a worker, cv_ext_ for 0)
                                 after the explicit schedule the run is completed round-robin over 0..N (one step per
                                 enabled thread per round) until the destructor has returned or nobody can move.
      output: event tokens (L lock, U unlock, P wait passes, B wait blocks, N notify_one, A notify_all, X exec, J join,
              E thread exit, S spurious, D disabled), then ` # ctr=<ctr_ when WaitCount returned> exec=.. by=.. done=<0|1>`
              (or `DEADLOCK` before the `#` when nobody can move)
  free <seed> <N> <T>            real threads: the expected observable outcome `ok ctr>=T exec=all1`
  kindok <order> | <tree> | <a>b,...>   order / tree: comma-separated kind codes (`-` = empty); edges: referrer>referenced
      output: `ok`, or `bad <a>><b>,...` listing the edges that are neither self edges, nor into a tree kind, nor into a
              kind copied strictly earlier (`SpecCopy.kindOK`)
  copy <order> | <tree> | <kind>:<name>:<rk>.<rn>+<rk>.<rn> ...   the deep copy of a spec (`SpecCopy.copySpec`); one word
      per element in list order, names are numbers, the reference list may be empty
      output: `kept <k>:<count>,... dropped <kind>.<name>,...` (kinds = tree then order; `-` for an empty list)
  lrslices <n> <t>                 the work partition of the threaded LengthRange (`LRSlices.slices`), n <= 4096, 1 <= t <= 64
      output: `num=<per-thread count> | <indices of worker 0> ; <indices of worker 1> ; ...` (comma-separated, `-` = none)
Malformed lines are answered with `bad-op`.
-/
open MjProof MjProof.Driver MjProof.UserPool

def showOpt : Option Nat → String
  | some i => toString i
  | none => "-"

def showEv : Ev → String
  | .lock t => s!"L{t}"
  | .unlock t => s!"U{t}"
  | .waitPass t c => s!"P{t}.{c}"
  | .waitBlock t c => s!"B{t}.{c}"
  | .notifyOne t c w => s!"N{t}.{c}>{showOpt w}"
  | .notifyAll t c n => s!"A{t}.{c}:{n}"
  | .exec t k => s!"X{t}.{k}"
  | .join k => s!"J{k}"
  | .exit t => s!"E{t}"
  | .spurious t => s!"S{t}"
  | .disabled t => s!"D{t}"

structure Tok where
  act : Act
  pick : Option Nat
  tid : Nat

def parseTok (w : String) : Option Tok :=
  if w.startsWith "s" then
    match (w.drop 1).toString.toNat? with
    | some 0 => some ⟨.spuriousMain, none, 0⟩
    | some k => some ⟨.spurious k, none, k⟩
    | none => none
  else
    match w.splitOn ">" with
    | [a] => match a.toNat? with
      | some 0 => some ⟨.main, none, 0⟩
      | some k => some ⟨.worker k, none, k⟩
      | none => none
    | [a, p] => match a.toNat?, p.toNat? with
      | some 0, some p => some ⟨.main, some p, 0⟩
      | some k, some p => some ⟨.worker k, some p, k⟩
      | _, _ => none
    | _ => none

structure Run where
  s : State
  out : Array String
  ctrRet : Option Nat

def applyTok (r : Run) (t : Tok) : Run :=
  match step r.s t.act t.pick with
  | some (s', evs) =>
    let ret := match r.ctrRet with
      | some c => some c
      | none => if s'.mpc == .dtor then some s'.ctr else none
    { s := s', out := r.out ++ (evs.map showEv).toArray, ctrRet := ret }
  | none => { r with out := r.out.push (showEv (.disabled t.tid)) }

def enabled (s : State) (tid : Nat) : Bool :=
  (step s (if tid = 0 then .main else .worker tid) none).isSome

/-- round-robin completion: `fuel` bounds the number of rounds -/
def complete : Nat → Run → Run × Bool
  | 0, r => (r, false)
  | fuel + 1, r =>
    if r.s.mpc == .done then (r, true) else
    let (r', progress) := (List.range (r.s.N + 1)).foldl (fun (acc : Run × Bool) tid =>
      let (r, p) := acc
      if r.s.mpc == .done then (r, p)
      else if enabled r.s tid then (applyTok r ⟨if tid = 0 then .main else .worker tid, none, tid⟩, true)
      else (r, p)) (r, false)
    if progress then complete fuel r' else (r', false)

def runOp (n t : Nat) (toks : List Tok) : String :=
  let r0 : Run := { s := init n t, out := #[], ctrRet := none }
  let r1 := toks.foldl applyTok r0
  let (r2, ok) := complete 4096 r1
  let exec := ",".intercalate ((List.range t).map (fun k => toString (r2.s.execCnt k)))
  let by_ := ",".intercalate ((List.range t).map (fun k => toString (r2.s.execBy k)))
  let body := " ".intercalate r2.out.toList
  let dl := if r2.s.mpc == .done then "" else " DEADLOCK"
  s!"{body}{dl} # ctr={showOpt r2.ctrRet} exec={exec} by={by_} done={if r2.s.mpc == .done then 1 else 0}"

-- ---------------------------------------------------------------------------------------- SpecCopy ops
def parseCsvNat (w : String) : Option (List Nat) :=
  if w == "-" then some [] else (w.splitOn ",").mapM (fun x => x.toNat?)

def parsePair (sep : String) (w : String) : Option (Nat × Nat) :=
  match w.splitOn sep with
  | [a, b] => match a.toNat?, b.toNat? with
    | some a, some b => some (a, b)
    | _, _ => none
  | _ => none

def parseEdges (w : String) : Option (List (Nat × Nat)) :=
  if w == "-" then some [] else (w.splitOn ",").mapM (parsePair ">")

def parseElem (w : String) : Option SpecCopy.Elem :=
  match w.splitOn ":" with
  | [k, n, r] => match k.toNat?, n.toNat?, (if r == "" then some [] else (r.splitOn "+").mapM (parsePair ".")) with
    | some k, some n, some refs => some ⟨k, n, refs⟩
    | _, _, _ => none
  | _ => none

def showList (l : List String) : String := if l.isEmpty then "-" else ",".intercalate l

def copyOp (order tree : List Nat) (src : List SpecCopy.Elem) : String :=
  let dest := SpecCopy.copySpec order tree src
  let kinds := (tree ++ order).eraseDups
  let kept := kinds.map (fun k => s!"{k}:{SpecCopy.keptCount dest k}")
  let dropped := (src.filter (fun e => !dest.contains e.key)).map (fun e => s!"{e.kind}.{e.name}")
  s!"kept {showList kept} dropped {showList dropped}"

def stepLine (line : String) : String :=
  match words line with
  | ["kindok", o, "|", t, "|", e] =>
    match parseCsvNat o, parseCsvNat t, parseEdges e with
    | some o, some t, some e =>
      if SpecCopy.kindOK o t e then "ok" else
        "bad " ++ showList ((SpecCopy.badEdges o t e).map (fun ab => s!"{ab.1}>{ab.2}"))
    | _, _, _ => "bad-op"
  | ["lrslices", n, t] =>
    match n.toNat?, t.toNat? with
    | some n, some t =>
      if n ≤ 4096 ∧ 1 ≤ t ∧ t ≤ 64 then
        s!"num={LRSlices.perThread n t} | " ++ " ; ".intercalate ((LRSlices.slices n t).map (fun l => showList (l.map toString)))
      else "bad-op"
    | _, _ => "bad-op"
  | "copy" :: o :: "|" :: t :: "|" :: es =>
    match parseCsvNat o, parseCsvNat t, es.mapM parseElem with
    | some o, some t, some es => if es.length ≤ 2000 then copyOp o t es else "bad-op"
    | _, _, _ => "bad-op"
  | "run" :: n :: t :: "|" :: toks =>
    match n.toNat?, t.toNat?, toks.mapM parseTok with
    | some n, some t, some toks =>
      if 1 ≤ n ∧ n ≤ 8 ∧ t ≤ 16 ∧ toks.length ≤ 4000 then runOp n t toks else "bad-op"
    | _, _, _ => "bad-op"
  | ["free", seed, n, t] =>
    match seed.toNat?, n.toNat?, t.toNat? with
    | some _, some n, some t => if 1 ≤ n ∧ n ≤ 8 ∧ t ≤ 64 then "ok ctr>=T exec=all1" else "bad-op"
    | _, _, _ => "bad-op"
  | _ => "bad-op"

def main : IO Unit := runStateless stepLine
