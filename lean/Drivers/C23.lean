import MjProof.Model.LinAlg
import MjProof.Model.Sparse
import Drivers.Common
/-
Line protocol of the C23 linear-algebra models (mirrors harness/c/c23_linalg.c, which answers the same lines
with the real routines of /repo).  Floats are the 16 hex digits of their IEEE bits (`nan` for NaN), ints decimal.
`V(k)` = k floats, `I(k)` = k naturals.  P = `nr nc cap I(nr) I(nr) I(cap)` (rownnz, rowadr, colind).

  dot n V(n) V(n)                         -> f                      mju_dot
  mv nr nc V(nr*nc) V(nc)                 -> V(nr)                  mju_mulMatVec
  mtv nr nc V(nr*nc) V(nr)                -> V(nc)                  mju_mulMatTVec
  cholf n mindiag V(n*n)                  -> rank V(n*n)            mju_cholFactor
  chols n V(n*n) V(n)                     -> V(n)                   mju_cholSolve
  cholu n plus V(n*n) V(n)                -> rank V(n*n) V(n)       mju_cholUpdate
  d2b ntotal nband ndense fill V(ntotal²) -> V(bandSize)            mju_dense2Band (buffer pre-filled with `fill`)
  b2d ntotal nband ndense sym V(bandSize) -> V(ntotal²)             mju_band2Dense
  bdiag i ntotal nband ndense             -> int                    mju_bandDiag
  lufac n V(n*n)                          -> 0 | 1 I(n) V(n*n)      mju_factorLU
  lusolve n V(n*n) I(n) V(n)              -> V(n)                   mju_solveLU
  sqrtd nr nc usediag V(nr*nc) [V(nr)]    -> V(nc*nc)               mju_sqrMatTD
  spdot nnz n V(nnz) I(nnz) V(n)          -> f                      mju_dotSparse
  spmv P V(cap) V(nc)                     -> V(nr)                  mju_mulMatVecSparse
  spmtv P V(cap) V(nr)                    -> V(nc)                  mju_mulMatTVecSparse
  spsym P V(cap) upper V(n*n)             -> V(n*n)                 mju_addToSymSparse     (nr = nc = n)
  symv P V(cap) V(n)                      -> V(n)                   mju_mulSymVecSparse    (nr = nc = n)
  s2d P V(cap)                            -> V(nr*nc)               mju_sparse2dense
  d2s nr nc nnz V(nr*nc)                  -> 1 | 0 adr I(nr) I(nr) I(adr) V(adr)   mju_dense2sparse
  spcomp P V(cap) minval                  -> ret I(nr) I(nr) I(cap) V(cap)         mju_compressSparse
  sptr P capT V(cap)                      -> I(nc) I(nc) I(capT) V(capT)           mju_transposeSparse (buffers pre-filled with 0)
  sptrs P capT V(cap)                     -> I(nc) I(nc) I(capT) V(capT) I(nc)     mju_transposeSparse with res_rowsuper
                                                                    (rowsuper buffer pre-filled with 3)
  spsuper P                               -> I(nr)                  mju_superSparse (buffer pre-filled with 3)
  spcount na nb I(na) I(nb)               -> int                    mju_combineSparseCount
  spcomb a b dnnz ns cap I(cap) V(cap) I(ns) V(ns)  -> nnz I(nnz) V(nnz)           mju_combineSparse
  anything else / malformed / a precondition of the model violated -> bad-op
-/
open MjProof MjProof.Driver MjProof.LinAlg MjProof.Sparse

abbrev P := StateT (List String) Option

def tok : P String := do
  match (← get) with
  | [] => failure
  | t :: rest => set rest; pure t
def nat : P Nat := do
  match (← tok).toNat? with
  | some n => pure n
  | none => failure
def flt : P Float := do
  match floatOfBits? (← tok) with
  | some x => pure x
  | none => failure
def flag : P Bool := do
  let n ← nat
  if n = 0 then pure false else if n = 1 then pure true else failure

def vecOf {β : Type} (one : P β) (n : Nat) : P (Vector β n) := do
  let mut a : Array β := Array.mkEmpty n
  for _ in [0:n] do
    a := a.push (← one)
  if h : a.size = n then pure ⟨a, h⟩ else failure
def fvec (n : Nat) : P (Vector Float n) := vecOf flt n
def nvec (n : Nat) : P (Vector Nat n) := vecOf nat n
def done : P Unit := do
  match (← get) with
  | [] => pure ()
  | _ => failure

def showF {n : Nat} (v : Vector Float n) : String := " ".intercalate (v.toList.map floatBits)
def showN {n : Nat} (v : Vector Nat n) : String := " ".intercalate (v.toList.map toString)
def join (l : List String) : String := " ".intercalate (l.filter (· ≠ ""))

/-- pattern with the in-bounds facts decided at run time -/
def pat : P (Σ nr nc cap : Nat, Pat nr nc cap) := do
  let nr ← nat
  let nc ← nat
  let cap ← nat
  let rownnz ← nvec nr
  let rowadr ← nvec nr
  let colind ← nvec cap
  if hrow : ∀ r (h : r < nr), rowadr[r] + rownnz[r] ≤ cap then
    if hcol : ∀ r (h : r < nr) k (hk : k < rownnz[r]),
        colind[rowadr[r] + k]'(Nat.lt_of_lt_of_le (Nat.add_lt_add_left hk _) (hrow r h)) < nc then
      pure ⟨nr, nc, cap, { rownnz := rownnz, rowadr := rowadr, colind := colind, hrow := hrow, hcol := hcol }⟩
    else failure
  else failure

def op : P String := do
  match (← tok) with
  | "dot" =>
    let n ← nat; let x ← fvec n; let y ← fvec n; done
    pure (floatBits (dot x y))
  | "mv" =>
    let nr ← nat; let nc ← nat; let m ← fvec (nr * nc); let v ← fvec nc; done
    pure (showF (mulMatVec m v))
  | "mtv" =>
    let nr ← nat; let nc ← nat; let m ← fvec (nr * nc); let v ← fvec nr; done
    pure (showF (mulMatTVec m v))
  | "cholf" =>
    let n ← nat; let mind ← flt; let m ← fvec (n * n); done
    let r := cholFactor n m mind
    pure (join [toString r.2, showF r.1])
  | "chols" =>
    let n ← nat; let m ← fvec (n * n); let b ← fvec n; done
    pure (showF (cholSolve n m b))
  | "cholu" =>
    let n ← nat; let plus ← flag; let m ← fvec (n * n); let x ← fvec n; done
    let r := cholUpdate n m x plus
    pure (join [toString r.2.2, showF r.1, showF r.2.1])
  | "d2b" =>
    let nt ← nat; let nb ← nat; let nd ← nat; let fill ← flt; let m ← fvec (nt * nt); done
    if h : 1 ≤ nb ∧ nd ≤ nt then
      pure (showF (dense2Band nt nb nd h.1 h.2 (Vector.replicate _ fill) m))
    else failure
  | "b2d" =>
    let nt ← nat; let nb ← nat; let nd ← nat; let sym ← flag
    let b ← fvec (bandSize nt nb nd); done
    if h : 1 ≤ nb ∧ nd ≤ nt then pure (showF (band2Dense nt nb nd h.1 h.2 b sym)) else failure
  | "bdiag" =>
    let i ← nat; let nt ← nat; let nb ← nat; let nd ← nat; done
    if 1 ≤ nb ∧ nd ≤ nt ∧ i < nt then pure (toString (bandDiag i nt nb nd)) else failure
  | "lufac" =>
    let n ← nat; let m ← fvec (n * n); done
    match factorLU n m with
    | none => pure "0"
    | some (lu, piv) => pure (join ["1", showN piv, showF lu])
  | "lusolve" =>
    let n ← nat; let lu ← fvec (n * n); let piv ← nvec n; let b ← fvec n; done
    match solveLU n lu b piv with
    | some x => pure (showF x)
    | none => failure
  | "sqrtd" =>
    let nr ← nat; let nc ← nat; let used ← flag; let m ← fvec (nr * nc)
    if used then
      let d ← fvec nr; done
      pure (showF (sqrMatTD m d))
    else
      done
      pure (showF (sqrMatT m))
  | "spdot" =>
    let nnz ← nat; let n ← nat; let v1 ← fvec nnz; let ind ← nvec nnz; let v2 ← fvec n; done
    if h : ∀ k (h : k < nnz), ind[k] < n then pure (floatBits (dotSparse v1 ind v2 h)) else failure
  | "spmv" =>
    let ⟨_, nc, cap, p⟩ ← pat
    let m ← fvec cap; let v ← fvec nc; done
    pure (showF (mulMatVecSparse p m v))
  | "spmtv" =>
    let ⟨nr, _, cap, p⟩ ← pat
    let m ← fvec cap; let v ← fvec nr; done
    pure (showF (mulMatTVecSparse p m v))
  | "spsym" =>
    let ⟨nr, nc, cap, p⟩ ← pat
    if h : nc = nr then
      let m ← fvec cap; let upper ← flag; let res ← fvec (nr * nr); done
      pure (showF (addToSymSparse (h ▸ p) m res upper))
    else failure
  | "symv" =>
    let ⟨nr, nc, cap, p⟩ ← pat
    if h : nc = nr then
      let m ← fvec cap; let v ← fvec nr; done
      match mulSymVecSparse (h ▸ p) m v with
      | some r => pure (showF r)
      | none => failure
    else failure
  | "s2d" =>
    let ⟨_, _, cap, p⟩ ← pat
    let m ← fvec cap; done
    pure (showF (sparse2dense p m))
  | "d2s" =>
    let nr ← nat; let nc ← nat; let nnz ← nat; let m ← fvec (nr * nc); done
    let r := dense2sparse (nnz := nnz) m
      { res := Vector.replicate nnz 0.0, rownnz := Vector.replicate nr 0, rowadr := Vector.replicate nr 0,
        colind := Vector.replicate nnz 0, adr := 0, full := false }
    if r.full then pure "1"
    else pure (join ["0", toString r.adr, showN r.rownnz, showN r.rowadr,
                     showN (r.colind.take r.adr), showF (r.res.take r.adr)])
  | "spcomp" =>
    let ⟨_, _, cap, p⟩ ← pat
    let m ← fvec cap; let minval ← flt; done
    match compressSparse { mat := m, rownnz := p.rownnz, rowadr := p.rowadr, colind := p.colind } minval with
    | some (c, ret) => pure (join [toString ret, showN c.rownnz, showN c.rowadr, showN c.colind, showF c.mat])
    | none => failure
  | "sptr" =>
    let ⟨_, nc, cap, p⟩ ← pat
    let capT ← nat; let m ← fvec cap; done
    match transposeSparse m p.rownnz p.rowadr p.colind nc
        { res := Vector.replicate capT 0.0, rownnz := Vector.replicate nc 0, rowadr := Vector.replicate nc 0,
          colind := Vector.replicate capT 0 } with
    | some t => pure (join [showN t.rownnz, showN t.rowadr, showN t.colind, showF t.res])
    | none => failure
  | "sptrs" =>
    let ⟨_, nc, cap, p⟩ ← pat
    let capT ← nat; let m ← fvec cap; done
    match transposeSparseS m p.rownnz p.rowadr p.colind nc
        { res := Vector.replicate capT 0.0, rownnz := Vector.replicate nc 0, rowadr := Vector.replicate nc 0,
          colind := Vector.replicate capT 0 } (Vector.replicate nc 3) with
    | some (t, sup) => pure (join [showN t.rownnz, showN t.rowadr, showN t.colind, showF t.res, showN sup])
    | none => failure
  | "spsuper" =>
    let ⟨nr, _, _, p⟩ ← pat
    done
    match superSparse p (Vector.replicate nr 3) with
    | some sup => pure (showN sup)
    | none => failure
  | "spcount" =>
    let na ← nat; let nb ← nat; let a ← nvec na; let b ← nvec nb; done
    pure (toString (combineSparseCount a b))
  | "spcomb" =>
    let a ← flt; let b ← flt; let dn ← nat; let ns ← nat; let cap ← nat
    let dind ← nvec cap; let dst ← fvec cap; let sind ← nvec ns; let src ← fvec ns; done
    match combineSparse a b dn { dst := dst, ind := dind } src sind with
    | some (st, nnz) => pure (join [toString nnz, showN (st.ind.take nnz), showF (st.dst.take nnz)])
    | none => failure
  | _ => failure

def step (line : String) : String :=
  match (op.run (words line)) with
  | some (s, _) => s
  | none => "bad-op"

def main : IO Unit := runStateless step
